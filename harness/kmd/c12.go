package main

// C12 — the token endpoint over the full product of the property's quantifier (the same
// enumeration as Model/OIDCEnum.v), the authorization step (incl. the audience parameter x the
// client's allow_client_chose_audiences flag, each followed by the redemption of the code), and userinfo; decoded ID tokens
// verified under the served JWKS (key selected by kid); the same flows once per signer
// configuration (RSA-3072, P-256, P-384, P-521, each with an Ed25519 SSH CA alongside).

import (
	"crypto"
	"crypto/ecdsa"
	"crypto/ed25519"
	"crypto/elliptic"
	"crypto/rand"
	"crypto/rsa"
	"crypto/sha256"
	"crypto/tls"
	"crypto/x509"
	"encoding/json"
	"encoding/pem"
	"fmt"
	"io/ioutil"
	"net/http"
	"net/url"
	"path/filepath"
	"reflect"
	"strings"
	"testing"
	"time"

	"github.com/Cloud-Foundations/golib/pkg/log/testlogger"
	"github.com/go-jose/go-jose/v4"
	"github.com/go-jose/go-jose/v4/jwt"
	"golang.org/x/crypto/ssh"
	"gopkg.in/yaml.v2"
)

const (
	c12RedirectSame = "https://rp.apps.example/cb"
	c12RedirectDiff = "https://rp.apps.example/other"
	c12Audience     = "https://api.apps.example"
	c12WrongSecret  = "wrong secret&B=2"
	c12V            = "verifier-correct-0123456789abcdefghijklmnopqrstuvwxyz"
	c12W            = "verifier-wrong-9876543210zyxwvutsrqponmlkjihgfedcba"
	c12Nonce        = "nonce-abcdef"
	c12ClientC      = "clientC" // has a secret, may NOT choose audiences
	c12SecretC      = "secret-of-C"
	c12ClientD      = "clientD" // secret-less, may choose audiences, two domains
)

func c12Config(c *AppConfigFile, dir string) {
	c04Config(c, dir)
	c.OpenIDConnectIDP.Client = []OpenIDConnectClientConfig{
		{ClientID: c04ClientA, ClientSecret: c04SecretA, AllowedRedirectDomains: []string{"apps.example"}, AllowClientChosenAudiences: true},
		{ClientID: c04ClientB, ClientSecret: "", AllowedRedirectDomains: []string{"apps.example"}},
		{ClientID: c12ClientC, ClientSecret: c12SecretC, AllowedRedirectDomains: []string{"apps.example"}},
		{ClientID: c12ClientD, ClientSecret: "", AllowedRedirectDomains: []string{"apps.example", "svc.example"}, AllowClientChosenAudiences: true},
	}
	// the client-option dimension: per option and value, a client with a secret and a secret-less one carrying it
	for _, k := range c12ClientKnobs() {
		for _, secret := range []string{k.secret(), ""} {
			cc := OpenIDConnectClientConfig{ClientID: k.client(secret != ""), ClientSecret: secret, AllowedRedirectDomains: []string{"apps.example"}}
			k.set(&cc)
			c.OpenIDConnectIDP.Client = append(c.OpenIDConnectIDP.Client, cc)
		}
	}
}

// ---------------------------------------------------------------- the client-option dimension
//
// "Tokens are released only to a caller that proves to be the client - by the secret, PKCE alone only
// for secret-less clients" is unconditional in the client's configuration entry.  The options are found
// by reflection over OpenIDConnectClientConfig of the CURRENT tree: every bool field (set to true) and
// every string field other than the id and the secret (set to plausible values).  Per option and value
// two more clients are configured through the YAML surface - one with a secret, one without - and the
// token-endpoint product is re-run with them as callers.

type c12Knob struct {
	n     int
	field string // Go field name (part of the failing input, never of an oracle key)
	index int
	kind  string // bool-knob | string-knob
	value string
}

func c12ClientKnobs() []c12Knob {
	var out []c12Knob
	t := reflect.TypeOf(OpenIDConnectClientConfig{})
	for i := 0; i < t.NumField(); i++ {
		f := t.Field(i)
		if f.PkgPath != "" || f.Name == "ClientID" || f.Name == "ClientSecret" {
			continue
		}
		switch f.Type.Kind() {
		case reflect.Bool:
			out = append(out, c12Knob{n: len(out), field: f.Name, index: i, kind: "bool-knob", value: "true"})
		case reflect.String:
			for _, v := range []string{"true", "none"} {
				out = append(out, c12Knob{n: len(out), field: f.Name, index: i, kind: "string-knob", value: v})
			}
		}
	}
	return out
}

func (k c12Knob) client(withSecret bool) string {
	if withSecret {
		return fmt.Sprintf("option%d-confidential", k.n)
	}
	return fmt.Sprintf("option%d-public", k.n)
}

func (k c12Knob) secret() string { return fmt.Sprintf("secret of option client %d", k.n) }

func (k c12Knob) set(cc *OpenIDConnectClientConfig) {
	f := reflect.ValueOf(cc).Elem().Field(k.index)
	if k.kind == "bool-knob" {
		f.SetBool(true)
	} else {
		f.SetString(k.value)
	}
}

func (k c12Knob) callers() []c12Caller {
	return []c12Caller{
		{k.client(true), k.secret(), "alice", k.client(true), k.client(false)},
		{k.client(false), "", "bob", k.client(false), k.client(true)},
		{"clientX", k.secret(), "alice", k.client(true), k.client(false)},
	}
}

// quick: every secret, verifier, challenge and location; redirect same/other/absent; code fresh/expired/other client's
var c12KnobDims = c12Dims{[]int{0, 1}, c12Seq(3), c12Seq(3), c12Seq(5), []int{0, 1, 2}, []int{0, 1, 3}, c12Seq(3)}

// thorough: the full product without the two other-kind artefacts
var c12KnobDimsThorough = c12Dims{c12Seq(3), c12Seq(3), c12Seq(3), c12Seq(5), c12Seq(8), []int{0, 1, 2, 3}, c12Seq(3)}

func c12S256(v string) string {
	sum := sha256.Sum256([]byte(v))
	return b64e(sum[:])
}

type c12Code struct {
	tok    *symTok
	client string // whom it was issued to ("" for other kinds)
	user   string
	minted int64 // unix time of the authorization step
	chal   int
	state  int
}

// a code exactly as idpOpenIDCAuthorizationHandler builds it, minted [age] seconds ago
func (env *verifEnv) c12Mint(client, user, chal, meth string, age int64, sealNonce string) (*symTok, int64) {
	st := env.state
	now := time.Now().Unix() - age
	jti, err := genRandomString()
	if err != nil {
		panic(err)
	}
	ct := keymasterdCodeToken{Issuer: st.idpGetIssuer(), Subject: client, IssuedAt: now}
	ct.JWTId = jti
	ct.Scope = "openid"
	ct.AuthExpiration = now + maxAgeSecondsAuthCookie
	ct.Expiration = now + idpOpenIDCMaxAuthProcessMaxDurationSeconds
	ct.Username = user
	ct.RedirectURI = c12RedirectSame
	ct.Type = "token_endpoint"
	ct.Nonce = c12Nonce
	nonce := jti
	if sealNonce != "" {
		nonce = sealNonce
	}
	if chal != "" {
		ct.ProtectedDataKey, ct.ProtectedData = env.tokSeal(chal, meth, nonce)
	}
	s := newSymTok(verifSignClaims(st.Signer, ct), env.signerKeyID(), false, fmt.Sprintf("code(helper) client=%s chal=%q meth=%q age=%d", client, chal, meth, age))
	s.sealNonce = sealNonce
	return s, now
}

func c12Challenge(ck int) (chal, meth string) {
	switch ck {
	case 0:
		return c12S256(c12V), "S256"
	case 1:
		return c12V, "plain"
	case 2:
		return c12V, ""
	case 3:
		return c12V, "S512"
	}
	return "", ""
}

// a code from the real authorization endpoint; nil when the endpoint refuses (status returned)
func (env *verifEnv) c12Authorize(t *testing.T, user, client string, ck int) (*symTok, int64, int) {
	chal, meth := c12Challenge(ck)
	extra := url.Values{"nonce": {c12Nonce}}
	if chal != "" {
		extra.Set("code_challenge", chal)
		if meth != "" {
			extra.Set("code_challenge_method", meth)
		}
	}
	now := time.Now().Unix()
	code, status := env.c04Authorize(t, user, client, c12RedirectSame, extra)
	if code == "" {
		return nil, now, status
	}
	return newSymTok(code, env.signerKeyID(), false, fmt.Sprintf("code(authorize endpoint) client=%s ck=%d", client, ck)), now, status
}

// ---------------------------------------------------------------- the served JWKS

type c12JWKS struct {
	set  jose.JSONWebKeySet
	algs []jose.SignatureAlgorithm
}

func (env *verifEnv) c12FetchJWKS(t *testing.T) *c12JWKS {
	rr, _ := env.serve(verifNewRequest("GET", idpOpenIDCJWKSPath, nil))
	if rr.Code != 200 {
		t.Fatalf("jwks: %d", rr.Code)
	}
	var j c12JWKS
	if err := json.Unmarshal(rr.Body.Bytes(), &j.set); err != nil {
		t.Fatal(err)
	}
	j.algs = []jose.SignatureAlgorithm{jose.RS256, jose.ES256, jose.ES384, jose.ES512, jose.EdDSA}
	return &j
}

// what a relying party does: the published key(s) the token's kid names; the signature must
// verify under one of them.  kidOK: the kid names a published key at all.
func (j *c12JWKS) verifies(raw string, dest interface{}) (verified bool, kidOK bool, alg string) {
	tok, err := jwt.ParseSigned(raw, j.algs)
	if err != nil || len(tok.Headers) == 0 {
		return false, false, ""
	}
	alg = tok.Headers[0].Algorithm
	named := j.set.Key(tok.Headers[0].KeyID)
	kidOK = tok.Headers[0].KeyID != "" && len(named) > 0
	for _, k := range named {
		if tok.Claims(k.Key, dest) == nil {
			return true, kidOK, alg
		}
	}
	return false, kidOK, alg
}

// ---------------------------------------------------------------- signer configurations

// key types as Model/OIDC.v keytype / OIDCEnum.keytype_code numbers them
func c12KeyType(pub crypto.PublicKey) (int, string) {
	switch k := pub.(type) {
	case *rsa.PublicKey:
		return 1, "KRsa"
	case *ecdsa.PublicKey:
		switch k.Curve {
		case elliptic.P256():
			return 2, "KP256"
		case elliptic.P384():
			return 3, "KP384"
		case elliptic.P521():
			return 4, "KP521"
		}
	case ed25519.PublicKey:
		return 5, "KEd25519"
	}
	return 99, "KOther"
}

type c12Spec struct {
	name    string             // stable name of the signer configuration (part of oracle keys)
	signer  crypto.Signer      // ssh_ca_filename (plaintext PEM)
	ed      crypto.Signer      // ed25519_ca_keyfilename, nil = not configured
	file    []crypto.PublicKey // keymaster_public_keys_filename
	sibling *rsa.PrivateKey    // private half of an RSA key of [file] (the harness plays the sibling instance)
}

// keys are numbered by fingerprint in the order file, Ed25519 CA, signer (first occurrence)
type c12Keys struct {
	number map[string]int
	coq    string // keyconf literal
}

func c12Fingerprint(pub crypto.PublicKey) string {
	fp, err := getKeyFingerprint(pub)
	if err != nil {
		// a key x/crypto/ssh cannot marshal has no fingerprint (and no kid)
		return fmt.Sprintf("no-fingerprint:%T:%p", pub, pub)
	}
	return fp
}

func (sp *c12Spec) keys() *c12Keys {
	k := &c12Keys{number: map[string]int{}}
	lit := func(pub crypto.PublicKey) string {
		fp := c12Fingerprint(pub)
		if _, ok := k.number[fp]; !ok {
			k.number[fp] = len(k.number) + 1
		}
		_, ty := c12KeyType(pub)
		return fmt.Sprintf("{| pk_id := %d%%N; pk_type := %s |}", k.number[fp], ty)
	}
	var file []string
	for _, p := range sp.file {
		file = append(file, lit(p))
	}
	ed := "None"
	if sp.ed != nil {
		ed = "Some " + lit(sp.ed.Public())
	}
	k.coq = fmt.Sprintf("{| kc_file := [%s]; kc_ed := %s; kc_signer := %s |}", strings.Join(file, "; "), ed, lit(sp.signer.Public()))
	return k
}

func c12PEM(k crypto.Signer) []byte {
	der, err := x509.MarshalPKCS8PrivateKey(k)
	if err != nil {
		panic(err)
	}
	return pem.EncodeToMemory(&pem.Block{Type: "PRIVATE KEY", Bytes: der})
}

// the key files of the specification, through the public configuration surface
func (sp *c12Spec) edit(t *testing.T) func(c *AppConfigFile, dir string) {
	return func(c *AppConfigFile, dir string) {
		c12Config(c, dir)
		c.Base.SSHCAFilename = filepath.Join(dir, "c12_signer.pem")
		if err := ioutil.WriteFile(c.Base.SSHCAFilename, c12PEM(sp.signer), 0600); err != nil {
			t.Fatal(err)
		}
		if sp.ed != nil {
			c.Base.Ed25519CAFilename = filepath.Join(dir, "c12_ed25519.pem")
			if err := ioutil.WriteFile(c.Base.Ed25519CAFilename, c12PEM(sp.ed), 0600); err != nil {
				t.Fatal(err)
			}
		}
		if len(sp.file) > 0 {
			var lines []byte
			for _, p := range sp.file {
				sp2, err := ssh.NewPublicKey(p)
				if err != nil {
					t.Fatal(err)
				}
				lines = append(lines, ssh.MarshalAuthorizedKey(sp2)...)
			}
			c.Base.KeymasterPublicKeysFilename = filepath.Join(dir, "c12_keymasterPublicKeys")
			if err := ioutil.WriteFile(c.Base.KeymasterPublicKeysFilename, lines, 0644); err != nil {
				t.Fatal(err)
			}
		}
	}
}

// a running daemon state for the specification (plaintext key files: loaded at start-up)
func (sp *c12Spec) start(t *testing.T) *verifEnv {
	env := verifSetupSealed(t, sp.edit(t))
	select {
	case <-env.state.SignerIsReady:
	case <-time.After(5 * time.Second):
		t.Fatalf("%s: SignerIsReady not signalled", sp.name)
	}
	env.finishStartup()
	return env
}

// does loadVerifyConfigFile accept these key files at all (second configuration file next to a
// sealed default state, so that a refusal does not end the test)
func (sp *c12Spec) tryLoad(t *testing.T) bool {
	env := verifSetupSealed(t, c12Config)
	raw, err := ioutil.ReadFile(env.configFile)
	if err != nil {
		t.Fatal(err)
	}
	var cfg AppConfigFile
	if err := yaml.Unmarshal(raw, &cfg); err != nil {
		t.Fatal(err)
	}
	sp.edit(t)(&cfg, env.dir)
	out, err := yaml.Marshal(&cfg)
	if err != nil {
		t.Fatal(err)
	}
	fn := filepath.Join(env.dir, "config_c12.yml")
	if err := ioutil.WriteFile(fn, out, 0640); err != nil {
		t.Fatal(err)
	}
	st, err := loadVerifyConfigFile(fn, testlogger.New(t))
	if err != nil {
		return false
	}
	if st.dbDone != nil {
		close(st.dbDone)
	}
	return true
}

// one daemon state under test
type c12Site struct {
	name    string
	suffix  string // of the Coq definitions ("" = the main state)
	env     *verifEnv
	spec    *c12Spec // nil for the main state
	keys    *c12Keys
	jwks    *c12JWKS
	issuer  string
	sid     int
	adv     []string // id_token_signing_alg_values_supported
	sibling *rsa.PrivateKey
	knob    *c12Knob    // the client option the two callers of this run carry (nil: none)
	callers []c12Caller // nil: c12Callers
}

func (s *c12Site) callerList() []c12Caller {
	if s.callers != nil {
		return s.callers
	}
	return c12Callers
}

func (s *c12Site) fetchDiscovery(t *testing.T) {
	rr, _ := s.env.serve(verifNewRequest("GET", idpOpenIDCConfigurationDocumentPath, nil))
	if rr.Code != 200 {
		t.Fatalf("discovery: %d", rr.Code)
	}
	var md openIDProviderMetadata
	if err := json.Unmarshal(rr.Body.Bytes(), &md); err != nil {
		t.Fatal(err)
	}
	s.adv = md.IDTokenSigningAlgValue
}

// observed: (key number, key type) of KeymasterPublicKeys; of the JWKS entries; advertised algorithms
func (s *c12Site) coqKeysObserved() string {
	var loaded, served, adv []string
	for _, k := range s.env.state.KeymasterPublicKeys {
		ty, _ := c12KeyType(k)
		loaded = append(loaded, fmt.Sprintf("(%d%%N, %d%%N)", s.keys.number[c12Fingerprint(k)], ty))
	}
	for _, k := range s.jwks.set.Keys {
		ty, _ := c12KeyType(k.Key)
		served = append(served, fmt.Sprintf("(%d%%N, %d%%N)", s.keys.number[k.KeyID], ty))
	}
	for _, a := range s.adv {
		adv = append(adv, fmt.Sprintf("%d%%N", tokAlgCode(a)))
	}
	return fmt.Sprintf("Some ([%s], [%s], [%s])", strings.Join(loaded, "; "), strings.Join(served, "; "), strings.Join(adv, "; "))
}

// the sub-product of Model/OIDCEnum.v combos_of
type c12Dims struct{ cl, sm, vm, ck, rd, cs, loc []int }

func c12Seq(n int) []int {
	var l []int
	for i := 0; i < n; i++ {
		l = append(l, i)
	}
	return l
}

var c12FullDims = c12Dims{c12Seq(3), c12Seq(3), c12Seq(3), c12Seq(5), c12Seq(8), c12Seq(6), c12Seq(3)}
var c12SignerDims = c12Dims{[]int{0, 1}, []int{0, 1, 2}, []int{0, 2}, []int{0, 4}, []int{0, 1, 2}, []int{0, 3}, []int{0, 1}}

// thorough tier: nearly the full product on every signer configuration (no other-kind artefacts)
var c12SignerDimsThorough = c12Dims{c12Seq(3), c12Seq(3), c12Seq(3), c12Seq(5), c12Seq(8), []int{0, 1, 2, 3}, c12Seq(3)}

func (d c12Dims) coq() string {
	l := func(v []int) string {
		var p []string
		for _, e := range v {
			p = append(p, fmt.Sprint(e))
		}
		return "[" + strings.Join(p, "; ") + "]%nat"
	}
	return fmt.Sprintf("{| d_cl := %s; d_sm := %s; d_vm := %s; d_ck := %s; d_rd := %s; d_cs := %s; d_loc := %s |}",
		l(d.cl), l(d.sm), l(d.vm), l(d.ck), l(d.rd), l(d.cs), l(d.loc))
}

func (d c12Dims) size() int {
	return len(d.cl) * len(d.sm) * len(d.vm) * len(d.ck) * len(d.rd) * len(d.cs) * len(d.loc)
}

type c12Caller struct{ id, secret, user, codeClient, otherClient string }

var c12Callers = []c12Caller{
	{c04ClientA, c04SecretA, "alice", c04ClientA, c04ClientB},
	{c04ClientB, "", "bob", c04ClientB, c04ClientA},
	{"clientX", c04SecretA, "alice", c04ClientA, c04ClientB},
}

var (
	c12SecretNames   = []string{"right", "wrong", "none"}
	c12VerifierNames = []string{"right", "wrong", "none"}
	c12ChalNames     = []string{"S256", "plain", "empty-method", "unknown-method", "no-challenge"}
	c12RedirectNames = []string{"same", "other", "absent", "empty", "same-with-trailing-slash", "same-in-upper-case", "sent-twice-same-first", "sent-twice-other-first"}
	c12CodeNames     = []string{"fresh", "expired", "tampered", "other-client", "session-cookie", "access-token"}
	c12LocNames      = []string{"header", "form", "header-escaped"}
)

// the values of redirect_uri in the request body, in the order sent (OIDCEnum.redirect_values)
func c12RedirectValues(rd int) []string {
	switch rd {
	case 0:
		return []string{c12RedirectSame}
	case 1:
		return []string{c12RedirectDiff}
	case 2:
		return nil
	case 3:
		return []string{""}
	case 4:
		return []string{c12RedirectSame + "/"}
	case 5:
		return []string{strings.ToUpper(c12RedirectSame)}
	case 6:
		return []string{c12RedirectSame, c12RedirectDiff}
	}
	return []string{c12RedirectDiff, c12RedirectSame}
}

// why the statement forbids a release for this redirect class ("" = it does not): the redirect
// URI presented is the first value of the parameter
func c12RedirectDefect(rd int) string {
	switch rd {
	case 0, 6:
		return ""
	case 2:
		return "redirect-absent"
	case 3:
		return "redirect-empty"
	}
	return "redirect-differs"
}

type c12Released struct {
	idx        int
	idt, act   *symTok
	userinfo   string
	uiAnswered bool
}

type c12Run struct {
	t       *testing.T
	res     *verifResult
	hitOnce map[string]bool
	perKey  map[string]int
}

func (x *c12Run) hit(key, oracle, what string, c interface{}, obs interface{}) {
	// at most three inputs per defect shape
	if x.hitOnce[key+what] || x.perKey[key] >= 3 {
		return
	}
	x.hitOnce[key+what] = true
	x.perKey[key]++
	x.res.hit(verifHit{Key: key, Oracle: oracle, What: what, Case: c, Observed: obs})
}

func (s *c12Site) userinfoOf(act string) (string, bool, int) {
	req := verifNewRequest("GET", idpOpenIDCUserinfoPath, nil)
	req.Header.Set("Authorization", "Bearer "+act)
	rr, _ := s.env.serve(req)
	if rr.Code != 200 {
		return "", false, rr.Code
	}
	var ui openidConnectUserInfo
	if json.Unmarshal(rr.Body.Bytes(), &ui) != nil {
		return "", false, rr.Code
	}
	return ui.Subject, true, rr.Code
}

// the table of codes, index ((caller*5)+challenge)*6+state; nil where the sub-product does not go
// or where the authorization endpoint does not mint such a code in this configuration
func (x *c12Run) buildCodes(s *c12Site, d c12Dims, prod *c04Produced) []*c12Code {
	t, env := x.t, s.env
	in := func(l []int, v int) bool {
		for _, e := range l {
			if e == v {
				return true
			}
		}
		return false
	}
	codes := make([]*c12Code, 3*5*6)
	for cl, c := range s.callerList() {
		for ck := 0; ck < 5; ck++ {
			if !in(d.cl, cl) || !in(d.ck, ck) {
				continue
			}
			base := (cl*5 + ck) * 6
			chal, meth := c12Challenge(ck)
			real := ck == 0 || ck == 2 || ck == 4
			// without an RSA key nothing can be sealed, neither by the endpoint nor by the helper
			canSeal := false
			for _, k := range env.state.KeymasterPublicKeys {
				if _, ok := k.(*rsa.PublicKey); ok {
					canSeal = true
				}
			}
			mint := func(client string, age int64) (*symTok, int64) {
				if chal != "" && !canSeal {
					return nil, 0
				}
				return env.c12Mint(client, c.user, chal, meth, age, "")
			}
			var fresh *symTok
			var minted int64
			if real {
				var status int
				fresh, minted, status = env.c12Authorize(t, c.user, c.codeClient, ck)
				if fresh == nil && s.knob == nil && (s.spec == nil || chal == "" || canSeal) {
					t.Fatalf("%s: authorize refused client=%s ck=%d: %d", s.name, c.codeClient, ck, status)
				}
				x.res.bump(fmt.Sprintf("site:%s:authorize-ck%d:%d", s.name, ck, status))
			} else {
				fresh, minted = mint(c.codeClient, 100)
			}
			if fresh != nil {
				codes[base+0] = &c12Code{tok: fresh, client: c.codeClient, user: c.user, minted: minted, chal: ck, state: 0}
			}
			if in(d.cs, 1) {
				if exp, m2 := mint(c.codeClient, 1000); exp != nil {
					codes[base+1] = &c12Code{tok: exp, client: c.codeClient, user: c.user, minted: m2, chal: ck, state: 1}
				}
			}
			if in(d.cs, 2) && fresh != nil {
				// one payload character changed
				parts := strings.Split(fresh.raw, ".")
				pos := len(parts[0]) + 1 + len(parts[1])/2
				nb := byte('A')
				if fresh.raw[pos] == 'A' {
					nb = 'B'
				}
				tam := env.tokCorrupt(fresh.raw, pos, nb, "code tampered")
				codes[base+2] = &c12Code{tok: tam, client: c.codeClient, user: c.user, minted: minted, chal: ck, state: 2}
			}
			if in(d.cs, 3) {
				var other *symTok
				var m3 int64
				if real {
					other, m3, _ = env.c12Authorize(t, c.user, c.otherClient, ck)
				} else {
					other, m3 = mint(c.otherClient, 100)
				}
				if other != nil {
					codes[base+3] = &c12Code{tok: other, client: c.otherClient, user: c.user, minted: m3, chal: ck, state: 3}
				}
			}
			if in(d.cs, 4) && prod != nil {
				codes[base+4] = &c12Code{tok: prod.session, state: 4, chal: ck}
			}
			if in(d.cs, 5) && prod != nil {
				codes[base+5] = &c12Code{tok: prod.access, state: 5, chal: ck}
			}
		}
	}
	return codes
}

// the sub-product against the real token endpoint of the site, in the order of combos_of
func (x *c12Run) runProduct(s *c12Site, d c12Dims, codes []*c12Code) (observed []byte, rel []c12Released, t0, t1 int64, index []string) {
	res, env := x.res, s.env
	t0 = time.Now().UnixNano()
	idx := 0
	for _, cl := range d.cl {
		c := s.callerList()[cl]
		for _, sm := range d.sm {
			secret := []string{c.secret, c12WrongSecret, ""}[sm]
			for _, vm := range d.vm {
				verifier := []string{c12V, c12W, ""}[vm]
				for _, ck := range d.ck {
					for _, rd := range d.rd {
						redirects := c12RedirectValues(rd)
						for _, cs := range d.cs {
							code := codes[(cl*5+ck)*6+cs]
							raw := "not-minted-in-this-configuration"
							if code != nil {
								raw = code.tok.raw
							}
							for _, loc := range d.loc {
								form := url.Values{"grant_type": {"authorization_code"}, "code": {raw}}
								if redirects != nil {
									form["redirect_uri"] = redirects
								}
								if verifier != "" {
									form.Set("code_verifier", verifier)
								}
								if loc == 1 {
									form.Set("client_id", c.id)
									if secret != "" {
										form.Set("client_secret", secret)
									}
								}
								req := verifNewRequest("POST", idpOpenIDCTokenPath, form)
								switch loc {
								case 0:
									req.SetBasicAuth(c.id, secret)
								case 2:
									req.SetBasicAuth(url.QueryEscape(c.id), url.QueryEscape(secret))
								}
								rr, _ := env.serve(req)
								var tr tokenResponse
								ok := rr.Code == 200 && json.Unmarshal(rr.Body.Bytes(), &tr) == nil && tr.IDToken != ""
								if ok {
									combo := map[string]interface{}{"signer": s.name, "caller": c.id, "secret": c12SecretNames[sm], "verifier": c12VerifierNames[vm],
										"challenge": c12ChalNames[ck], "redirect": c12RedirectNames[rd], "redirect_uri_values": redirects,
										"code": c12CodeNames[cs], "location": c12LocNames[loc], "index": idx}
									if s.knob != nil {
										combo["client_has_secret"] = c.secret != ""
										combo["client_option"] = map[string]interface{}{"field": s.knob.field, "value": s.knob.value, "kind": s.knob.kind}
									}
									observed = append(observed, 1)
									res.bump("released")
									// the statement's own predicate
									reason := ""
									pkceMatch := (ck == 0 || ck == 1 || ck == 2) && vm == 0
									switch {
									case cl == 2:
										reason = "unknown-client"
									case code == nil:
										reason = "not-a-code"
									case cs == 1:
										reason = "expired-code"
									case cs == 2:
										reason = "tampered-code"
									case cs == 3:
										reason = "code-of-other-client"
									case cs >= 4:
										reason = "not-a-code"
									case c12RedirectDefect(rd) != "":
										reason = c12RedirectDefect(rd)
									case c.secret != "" && sm != 0:
										reason = "secret-not-shown"
									case c.secret == "" && !pkceMatch:
										reason = "pkce-not-matched"
									}
									if reason != "" {
										key := "C12:released:" + reason
										if s.knob != nil {
											// the shape: what was not proved, and the kind of client option that was set
											key += ":" + s.knob.kind
											if reason == "secret-not-shown" {
												key = "C12:release:secret-client-without-secret:" + s.knob.kind
											}
										}
										x.hit(key, "the token endpoint released tokens to a caller that did not prove to be the client of a fresh code with the bound redirect URI",
											fmt.Sprintf("tokens released although %s: %v", reason, combo), combo, map[string]interface{}{"status": rr.Code})
									}
									idt := newSymTok(tr.IDToken, s.sid, false, "id")
									act := newSymTok(tr.AccessToken, s.sid, false, "access")
									r := c12Released{idx: idx, idt: idt, act: act}
									// ID token: verifies under the published key its kid names
									var idc openIDConnectIDToken
									verified, kidOK, alg := s.jwks.verifies(tr.IDToken, &idc)
									if !verified || !kidOK {
										why := "its signature does not verify under the published key its kid names"
										if !kidOK {
											why = "its kid names no key of /idp/oauth2/jwks"
										}
										x.hit("C12:idtoken:not-under-jwks:"+s.name, "every released ID token must verify under a key served by /idp/oauth2/jwks, selected by kid",
											fmt.Sprintf("ID token signed %s by the %s signer: %s (%d keys published)", alg, s.name, why, len(s.jwks.set.Keys)), combo,
											map[string]interface{}{"id_token_header": strings.SplitN(tr.IDToken, ".", 2)[0], "published_kids": s.publishedKids()})
										// the claims, for the remaining clauses, without the signature check
										if tok, err := jwt.ParseSigned(tr.IDToken, s.jwks.algs); err == nil {
											tok.UnsafeClaimsWithoutVerification(&idc)
										}
									}
									// not part of the statement: is the algorithm one the discovery document advertises
									advertised := false
									for _, a := range s.adv {
										if a == alg {
											advertised = true
										}
									}
									if !advertised {
										res.bump("observation:idtoken-alg-not-advertised:" + s.name + ":" + alg)
									}
									// issuer, sole audience, subject, nonce, expiry
									bad := ""
									switch {
									case idc.Issuer != s.issuer:
										bad = "issuer " + idc.Issuer
									case len(idc.Audience) != 1 || idc.Audience[0] != c.id:
										bad = fmt.Sprintf("audience %v (caller %s)", idc.Audience, c.id)
									case code != nil && cs < 4 && idc.Subject != code.user:
										bad = fmt.Sprintf("subject %q, logged in was %q", idc.Subject, code.user)
									case code != nil && cs < 4 && idc.Nonce != c12Nonce:
										bad = "nonce " + idc.Nonce
									case code != nil && cs < 4 && idc.Expiration > code.minted+16*3600+1:
										bad = fmt.Sprintf("expires %d s after authorization + 16 h", idc.Expiration-code.minted-16*3600)
									}
									if bad != "" {
										x.hit("C12:idtoken:"+strings.SplitN(bad, " ", 2)[0], "the ID token must name this issuer, the client as sole audience, the user of the authorization step, echo the nonce and expire within 16 h of authorization",
											"ID token "+bad, combo, map[string]interface{}{"id_token_claims": idt.claims})
									}
									u, answered, _ := s.userinfoOf(tr.AccessToken)
									r.userinfo, r.uiAnswered = u, answered
									if code != nil && cs < 4 && (!answered || u != code.user) {
										x.hit("C12:userinfo:subject", "the access token must make userinfo return the user of the authorization step",
											fmt.Sprintf("userinfo answered %q (answered=%v) for the access token of a code minted for %q", u, answered, code.user), combo, nil)
									}
									rel = append(rel, r)
								} else {
									observed = append(observed, 0)
									res.bump(fmt.Sprintf("refused_%d", rr.Code))
								}
								res.eval(fmt.Sprintf("%s|%d|%v", s.name, idx, ok), rr.Code != 400 || cl != 2)
								index = append(index, fmt.Sprintf("signer=%s caller=%d secret=%d verifier=%d challenge=%d redirect=%d(%s) code=%d location=%d released=%d status=%d",
									s.name, cl, sm, vm, ck, rd, c12RedirectNames[rd], cs, loc, observed[len(observed)-1], rr.Code))
								idx++
							}
						}
					}
				}
			}
		}
	}
	t1 = time.Now().UnixNano()
	return
}

func (s *c12Site) publishedKids() []string {
	var l []string
	for _, k := range s.jwks.set.Keys {
		l = append(l, k.KeyID)
	}
	return l
}

// Coq: the code table and the environment record of one site
func (s *c12Site) coqEnv(codes []*c12Code) string {
	var sb strings.Builder
	sb.WriteString("Definition codes" + s.suffix + " : list token := [\n")
	for i, c := range codes {
		sep := ";"
		if i == len(codes)-1 {
			sep = ""
		}
		if c == nil {
			sb.WriteString(" tok_none" + sep + "\n")
		} else {
			sb.WriteString(" " + s.env.coqToken(c.tok) + sep + "\n")
		}
	}
	sb.WriteString("].\n")
	var cl []string
	for _, c := range s.callerList() {
		cl = append(cl, fmt.Sprintf("(%s, %s)", coqStr(c.id), coqStr(c.secret)))
	}
	sb.WriteString(fmt.Sprintf("Definition c12_env%s : c12env :=\n  {| e_callers := [%s]; e_wrong_secret := %s; e_V := %s; e_W := %s; e_HV := %s; e_HW := %s;\n     e_red_same := %s; e_red_diff := %s; e_red_slash := %s; e_red_upper := %s; e_codes := codes%s |}.\n",
		s.suffix, strings.Join(cl, "; "), coqStr(c12WrongSecret), coqStr(c12V), coqStr(c12W), coqStr(c12S256(c12V)), coqStr(c12S256(c12W)),
		coqStr(c12RedirectSame), coqStr(c12RedirectDiff), coqStr(c12RedirectSame+"/"), coqStr(strings.ToUpper(c12RedirectSame)), s.suffix))
	return sb.String()
}

func (s *c12Site) coqReleased(name string, rel []c12Released) string {
	var sb strings.Builder
	sb.WriteString("Definition " + name + " : list (nat * claimset * claimset * option bs) := [\n")
	for i, r := range rel {
		sep := ";"
		if i == len(rel)-1 {
			sep = ""
		}
		ui := "None"
		if r.uiAnswered {
			ui = "Some " + coqStr(r.userinfo)
		}
		sb.WriteString(fmt.Sprintf(" (%d%%nat, %s, %s, %s)%s\n", r.idx, s.env.coqClaims(r.idt), s.env.coqClaims(r.act), ui, sep))
	}
	sb.WriteString("].\n")
	return sb.String()
}

// ---------------------------------------------------------------- the authorization step

type c12Authz struct {
	site   *c12Site
	user   string
	coq    string
	t0, t1 int64
	tok    *symTok
	label  string
	status int
}

func (x *c12Run) runAuthz(s *c12Site, label, method string, q url.Values) c12Authz {
	st := s.env.state
	client := q.Get("client_id")
	scopeOK := false
	for _, sc := range strings.Split(q.Get("scope"), " ") {
		if sc == "openid" {
			scopeOK = true
		}
	}
	redirectOK, audOK := false, false
	if cc, err := st.idpOpenIDCGetClientConfig(client); err == nil {
		ok, _, err := cc.CanRedirectToURL(q.Get("redirect_uri"))
		redirectOK = ok && err == nil
		if q.Get("audience") != "" {
			// the client's allow_client_chose_audiences flag is part of the model's client record
			a, err := cc.CorsOriginAllowed(q.Get("audience"))
			audOK = a && err == nil
		}
	}
	var req *http.Request
	if method == "GET" {
		req = verifNewRequest("GET", idpOpenIDCAuthorizationPath, q)
	} else {
		req = verifNewRequest(method, idpOpenIDCAuthorizationPath, q)
	}
	req.AddCookie(s.env.cookie("alice", AuthTypePassword))
	a0 := time.Now().UnixNano()
	rr, _ := s.env.serve(req)
	a1 := time.Now().UnixNano()
	var tok *symTok
	jti := ""
	if rr.Code == 302 {
		if loc, err := url.Parse(rr.Header().Get("Location")); err == nil && loc.Query().Get("code") != "" {
			tok = newSymTok(loc.Query().Get("code"), s.sid, false, "authorize:"+label)
			jti, _ = tok.claims["jti"].(string)
			if !strings.HasPrefix(rr.Header().Get("Location"), q.Get("redirect_uri")+"?") {
				x.hit("C12:authorize:redirect-target", "the code is delivered to the requested redirect URI", "Location "+rr.Header().Get("Location"), label, nil)
			}
		}
	}
	coq := fmt.Sprintf("{| ar_method_ok := %s; ar_response_type := %s; ar_client := %s; ar_scope := %s; ar_scope_openid := %s; ar_redirect := %s; ar_redirect_ok := %s; ar_challenge := %s; ar_method := %s; ar_audience := %s; ar_audience_ok := %s; ar_nonce := %s; ar_jti := %s |}",
		coqBool(method == "GET" || method == "POST"), coqStr(q.Get("response_type")), coqStr(client), coqStr(q.Get("scope")), coqBool(scopeOK),
		coqStr(q.Get("redirect_uri")), coqBool(redirectOK), coqStr(q.Get("code_challenge")), coqStr(q.Get("code_challenge_method")),
		coqStr(q.Get("audience")), coqBool(audOK), coqStr(q.Get("nonce")), coqStr(jti))
	x.res.eval("authorize|"+s.name+"|"+label, tok != nil)
	x.res.bump("authorize")
	return c12Authz{site: s, user: "alice", coq: coq, t0: a0, t1: a1, tok: tok, label: s.name + ": " + label, status: rr.Code}
}

func c12BaseQ() url.Values {
	return url.Values{"response_type": {"code"}, "client_id": {c04ClientA}, "scope": {"openid"}, "redirect_uri": {c12RedirectSame}, "nonce": {c12Nonce}, "state": {"s"}}
}

func c12With(kv ...string) url.Values {
	q := c12BaseQ()
	for i := 0; i+1 < len(kv); i += 2 {
		if kv[i+1] == "\x00" {
			q.Del(kv[i])
		} else {
			q.Set(kv[i], kv[i+1])
		}
	}
	return q
}

func c12CoqAuthz(name, idp string, authz []c12Authz) string {
	var sb strings.Builder
	sb.WriteString("Definition " + name + " : list (bs * areq * Z * Z * option claimset) := [\n")
	for i, a := range authz {
		sep := ";"
		if i == len(authz)-1 {
			sep = ""
		}
		obs := "None"
		if a.tok != nil {
			obs = "Some " + a.site.env.coqClaims(a.tok)
		}
		sb.WriteString(fmt.Sprintf(" (%s, %s, (%d)%%Z, (%d)%%Z, %s)%s\n", coqStr(a.user), a.coq, a.t0, a.t1, obs, sep))
	}
	sb.WriteString("].\n")
	return sb.String()
}

// ---------------------------------------------------------------- the audience dimension

// the values of the authorization request's "audience" parameter, in the order sent
var c12AudienceVariants = []struct {
	name   string
	values []string
}{
	{"no-audience", nil},
	{"under-client-domains", []string{c12Audience}},
	{"under-second-domain", []string{"https://api.svc.example"}},
	{"foreign", []string{"https://api.evil.example"}},
	{"lookalike-suffix", []string{"https://api.apps.example.evil.example"}},
	{"http-scheme", []string{"http://api.apps.example"}},
	{"with-path-and-query", []string{"https://api.apps.example/v1?x=1"}},
	{"empty", []string{""}},
	{"several-allowed-first", []string{c12Audience, "https://api.evil.example"}},
	{"several-foreign-first", []string{"https://api.evil.example", c12Audience}},
	{"several-both-allowed", []string{c12Audience, "https://other.apps.example"}},
	{"several-empty-first", []string{"", c12Audience}},
}

var c12FlowClients = []struct {
	id, secret string
	allows     bool
	domains    []string
}{
	{c04ClientA, c04SecretA, true, []string{"apps.example"}},
	{c04ClientB, "", false, []string{"apps.example"}},
	{c12ClientC, c12SecretC, false, []string{"apps.example"}},
	{c12ClientD, "", true, []string{"apps.example", "svc.example"}},
}

type c12Flow struct {
	coq        string // the token request
	t0, t1     int64
	released   bool
	idt, act   *symTok
	userinfo   string
	uiAnswered bool
	label      string
}

// the harness's own reading of "an https URL under one of the client's domains"
func c12UnderDomains(raw string, domains []string) bool {
	u, err := url.Parse(raw)
	if err != nil || u.Scheme != "https" {
		return false
	}
	for _, d := range domains {
		if u.Hostname() == d || strings.HasSuffix(u.Hostname(), "."+d) {
			return true
		}
	}
	return false
}

func c12StrList(v interface{}) ([]string, bool) {
	if v == nil {
		return nil, true
	}
	l, isList := v.([]interface{})
	if !isList {
		return nil, false
	}
	var out []string
	for _, e := range l {
		s, isStr := e.(string)
		if !isStr {
			return nil, false
		}
		out = append(out, s)
	}
	return out, true
}

// client {allows chosen audiences, does not} x {secret, secret-less} x audience parameter {absent,
// under the client's domains, foreign, near misses, several values}: the real authorization endpoint
// (a case of the authorization correspondence), then the redemption of the code with the client's
// credentials in header and form (a flow case), then userinfo
func (x *c12Run) runAudienceFlows(s *c12Site, authz *[]c12Authz) []c12Flow {
	var flows []c12Flow
	env := s.env
	userinfoURL := s.issuer + idpOpenIDCUserinfoPath
	for _, cl := range c12FlowClients {
		for _, av := range c12AudienceVariants {
			q := c12With("client_id", cl.id)
			if cl.secret == "" {
				q.Set("code_challenge", c12S256(c12V))
				q.Set("code_challenge_method", "S256")
			}
			if av.values != nil {
				q["audience"] = av.values
			}
			label := fmt.Sprintf("audience flow: client=%s audience=%s %q", cl.id, av.name, av.values)
			a := x.runAuthz(s, label, "GET", q)
			*authz = append(*authz, a)
			first := q.Get("audience")
			what := map[string]interface{}{"client": cl.id, "allow_client_chose_audiences": cl.allows, "audience_values": av.values, "variant": av.name}
			if a.tok == nil {
				continue
			}
			// the authorization step binds the first value, and only for a client that may choose, and only under its domains
			bound, isList := c12StrList(a.tok.claims["access_audience"])
			switch {
			case !isList || len(bound) > 1 || (len(bound) == 1 && bound[0] != first) || (len(bound) == 0 && first != ""):
				x.hit("C12:authorize:audience-bound:"+av.name, "the code carries exactly the audience the request named first, or none", fmt.Sprintf("code carries access_audience %v for audience values %q", a.tok.claims["access_audience"], av.values), what, nil)
			case len(bound) == 1 && !cl.allows:
				x.hit("C12:authorize:audience-bound:client-may-not-choose", "only a client with allow_client_chose_audiences gets an audience bound into its code", fmt.Sprintf("code for %s carries access_audience %v", cl.id, bound), what, nil)
			case len(bound) == 1 && !c12UnderDomains(bound[0], cl.domains):
				x.hit("C12:authorize:audience-bound:outside-client-domains", "a chosen audience is an https URL under the client's domains", fmt.Sprintf("code for %s carries access_audience %v", cl.id, bound), what, nil)
			}
			for _, loc := range []string{"header", "form", "form-wrong-proof"} {
				form := url.Values{"grant_type": {"authorization_code"}, "code": {a.tok.raw}, "redirect_uri": {c12RedirectSame}}
				verifier, vh, secret := "", "", cl.secret
				if cl.secret == "" {
					verifier = c12V
					if loc == "form-wrong-proof" {
						verifier = c12W
					}
					vh = c12S256(verifier)
					form.Set("code_verifier", verifier)
				} else if loc == "form-wrong-proof" {
					secret = c12WrongSecret
				}
				basicCoq, fc, fs := "None", "", ""
				if loc != "header" {
					fc, fs = cl.id, secret
					form.Set("client_id", cl.id)
					if secret != "" {
						form.Set("client_secret", secret)
					}
				}
				req := verifNewRequest("POST", idpOpenIDCTokenPath, form)
				if loc == "header" {
					req.SetBasicAuth(url.QueryEscape(cl.id), url.QueryEscape(cl.secret))
					basicCoq = fmt.Sprintf("Some (%s, %s)", coqStr(cl.id), coqStr(cl.secret))
				}
				f0 := time.Now().UnixNano()
				rr, _ := env.serve(req)
				f1 := time.Now().UnixNano()
				var tr tokenResponse
				ok := rr.Code == 200 && json.Unmarshal(rr.Body.Bytes(), &tr) == nil && tr.IDToken != ""
				fl := c12Flow{t0: f0, t1: f1, released: ok, label: fmt.Sprintf("%s credentials=%s\tstatus=%d released=%v", label, loc, rr.Code, ok)}
				fl.coq = fmt.Sprintf("{| tr_conn := conn_none; tr_post := true; tr_grant := %s; tr_redirect := %s; tr_code := %s; tr_verifier := %s; tr_vhash := %s; tr_basic := %s; tr_form_client := %s; tr_form_secret := %s |}",
					coqStr("authorization_code"), coqStr(c12RedirectSame), env.coqToken(a.tok), coqStr(verifier), coqStr(vh), basicCoq, coqStr(fc), coqStr(fs))
				x.res.eval("audience-flow|"+cl.id+"|"+av.name+"|"+loc+fmt.Sprint(ok), true)
				x.res.bump("audience-flow")
				if ok && loc == "form-wrong-proof" {
					x.hit("C12:released:"+map[bool]string{true: "pkce-not-matched", false: "secret-not-shown"}[cl.secret == ""], "the token endpoint released tokens to a caller that did not prove to be the client of a fresh code with the bound redirect URI",
						"tokens released for a code with a chosen audience although the caller showed a wrong secret / verifier", what, map[string]interface{}{"status": rr.Code})
				}
				if ok {
					x.res.bump("audience-flow-released")
					fl.idt = newSymTok(tr.IDToken, s.sid, false, "id(audience flow)")
					fl.act = newSymTok(tr.AccessToken, s.sid, false, "access(audience flow)")
					w := map[string]interface{}{"client": cl.id, "allow_client_chose_audiences": cl.allows, "audience_values": av.values, "variant": av.name, "credentials": loc}
					// the ID token names the client as SOLE audience: the list is exactly [client]
					idAud, isList := c12StrList(fl.idt.claims["aud"])
					if !isList || len(idAud) != 1 || idAud[0] != cl.id {
						x.hit("C12:idtoken-audience-not-sole:"+av.name, "the ID token names the client the code was issued to as its sole audience: aud = [client], whatever audience the authorization request named",
							fmt.Sprintf("ID token for %s has aud = %v (authorization request carried audience values %q)", cl.id, fl.idt.claims["aud"], av.values), w,
							map[string]interface{}{"id_token_claims": fl.idt.claims})
					}
					// the access token: no audience, or exactly [the chosen one, the userinfo URL]
					acAud, isList := c12StrList(fl.act.claims["aud"])
					want := []string(nil)
					if first != "" {
						want = []string{first, userinfoURL}
					}
					if !isList || strings.Join(acAud, "\x00") != strings.Join(want, "\x00") || len(acAud) != len(want) {
						x.hit("C12:access-audience:"+av.name, "the access token has no audience list, or exactly [the audience bound at the authorization step, the userinfo URL]",
							fmt.Sprintf("access token for %s has aud = %v, expected %v", cl.id, fl.act.claims["aud"], want), w, map[string]interface{}{"access_token_claims": fl.act.claims})
					}
					if v, _ := fl.idt.claims["sub"].(string); v != "alice" {
						x.hit("C12:idtoken:subject", "the ID token names the user of the authorization step", fmt.Sprintf("subject %q, logged in was alice", v), w, nil)
					}
					u, answered, _ := s.userinfoOf(tr.AccessToken)
					fl.userinfo, fl.uiAnswered = u, answered
					if !answered || u != "alice" {
						x.hit("C12:userinfo:subject", "the access token must make userinfo return the user of the authorization step",
							fmt.Sprintf("userinfo answered %q (answered=%v) for the access token of a code minted for alice", u, answered), w, nil)
					}
				}
				flows = append(flows, fl)
			}
		}
	}
	return flows
}

// ---------------------------------------------------------------- the connection dimension
//
// "The ID token names THIS server as issuer" whatever name the caller used to reach it: the Host header
// and the server name of the TLS handshake are both chosen by the caller (Go's TLS server completes the
// handshake with its default certificate for an unknown name).  Token endpoint, userinfo and the
// discovery document are driven over every combination {absent, the server's own name, a foreign name
// in both, a different name in each}.

type c12Conn struct {
	name, host string
	tls        bool
	sni        string
}

func c12ConnVariants(own string) []c12Conn {
	return []c12Conn{
		{"no-tls-no-host", "", false, ""},
		{"own-name", own, true, own},
		{"own-name-with-port", own + ":443", true, own},
		{"own-name-no-sni", own, true, ""},
		{"own-name-no-tls", own, false, ""},
		{"foreign-name-in-both", "accounts.idp.example", true, "accounts.idp.example"},
		{"foreign-name-in-both-with-port", "login.other.example:8443", true, "login.other.example"},
		{"foreign-host-own-sni", "accounts.idp.example", true, own},
		{"own-host-foreign-sni", own, true, "accounts.idp.example"},
		{"different-foreign-name-in-each", "a.other.example", true, "b.other.example"},
		{"foreign-host-no-sni", "accounts.idp.example", true, ""},
		{"foreign-host-no-tls", "accounts.idp.example", false, ""},
		{"no-host-foreign-sni", "", true, "accounts.idp.example"},
	}
}

func (v c12Conn) apply(req *http.Request) *http.Request {
	req.Host = v.host
	req.TLS = nil
	if v.tls {
		req.TLS = &tls.ConnectionState{Version: tls.VersionTLS12, HandshakeComplete: true, ServerName: v.sni}
	}
	return req
}

func (v c12Conn) coq() string {
	sni := "None"
	if v.tls {
		sni = "Some " + coqStr(v.sni)
	}
	return fmt.Sprintf("{| cn_host := %s; cn_sni := %s |}", coqStr(v.host), sni)
}

func (v c12Conn) what() map[string]interface{} {
	return map[string]interface{}{"connection": v.name, "host_header": v.host, "tls": v.tls, "tls_server_name": v.sni}
}

type c12ConnUserinfo struct {
	conn     c12Conn
	tok      *symTok
	t0, t1   int64
	answered bool
	user     string
	label    string
}

type c12ConnDiscovery struct {
	conn          c12Conn
	ok            bool
	issuer, uiURL string
	label         string
}

const c12IssuerKey = "C12:idtoken:issuer-follows-request"
const c12IssuerOracle = "the issuer named in ID tokens, access tokens and the discovery document is this server's configured issuer, whatever Host header and TLS server name the caller announced"

func (x *c12Run) runConnFlows(s *c12Site, prod *c04Produced) (flows []c12Flow, uis []c12ConnUserinfo, discs []c12ConnDiscovery) {
	env, t := s.env, x.t
	own := env.state.HostIdentity
	userinfoURL := s.issuer + idpOpenIDCUserinfoPath
	userinfoVia := func(v c12Conn, raw string) (string, bool) {
		req := verifNewRequest("GET", idpOpenIDCUserinfoPath, nil)
		req.Header.Set("Authorization", "Bearer "+raw)
		rr, _ := env.serve(v.apply(req))
		var ui openidConnectUserInfo
		if rr.Code != 200 || json.Unmarshal(rr.Body.Bytes(), &ui) != nil {
			return "", false
		}
		return ui.Subject, true
	}
	ownConn := c12Conn{"own-name", own, true, own}
	for _, v := range c12ConnVariants(own) {
		v := v
		// ---- the discovery document
		{
			rr, _ := env.serve(v.apply(verifNewRequest("GET", idpOpenIDCConfigurationDocumentPath, nil)))
			d := c12ConnDiscovery{conn: v, label: "discovery over " + v.name}
			var md map[string]interface{}
			if rr.Code == 200 && json.Unmarshal(rr.Body.Bytes(), &md) == nil {
				d.ok = true
				d.issuer, _ = md["issuer"].(string)
				d.uiURL, _ = md["userinfo_endpoint"].(string)
				if d.issuer != s.issuer {
					x.hit(c12IssuerKey, c12IssuerOracle, fmt.Sprintf("discovery document fetched over %s names issuer %q, configured is %q", v.name, d.issuer, s.issuer), v.what(), md)
				}
				for _, m := range []string{"authorization_endpoint", "token_endpoint", "userinfo_endpoint", "jwks_uri"} {
					if u, _ := md[m].(string); !strings.HasPrefix(u, s.issuer+"/") {
						x.hit(c12IssuerKey, c12IssuerOracle, fmt.Sprintf("discovery document fetched over %s: %s = %q is not under the configured issuer %q", v.name, m, u, s.issuer), v.what(), md)
					}
				}
			}
			d.label += fmt.Sprintf("\tstatus=%d issuer=%q", rr.Code, d.issuer)
			discs = append(discs, d)
			x.res.eval("conn|discovery|"+v.name, true)
			x.res.bump("conn-discovery")
		}
		// ---- the token endpoint: client with a secret (header), secret-less client (form, PKCE), client with a chosen audience
		for _, fc := range []struct {
			label, client, secret, user string
			ck                          int
			extra                       url.Values
		}{
			{"secret", c04ClientA, c04SecretA, "alice", 4, nil},
			{"pkce", c04ClientB, "", "bob", 0, nil},
			{"secret+audience", c04ClientA, c04SecretA, "alice", 4, url.Values{"audience": {c12Audience}}},
		} {
			chal, meth := c12Challenge(fc.ck)
			extra := url.Values{"nonce": {c12Nonce}}
			if chal != "" {
				extra.Set("code_challenge", chal)
				extra.Set("code_challenge_method", meth)
			}
			for k, val := range fc.extra {
				extra[k] = val
			}
			raw, status := env.c04Authorize(t, fc.user, fc.client, c12RedirectSame, extra)
			if raw == "" {
				t.Fatalf("connection flows: authorize refused client=%s: %d", fc.client, status)
			}
			code := newSymTok(raw, s.sid, false, "code(authorize endpoint) for the connection flow "+fc.label)
			form := url.Values{"grant_type": {"authorization_code"}, "code": {raw}, "redirect_uri": {c12RedirectSame}}
			verifier, vh, basicCoq, fcl := "", "", "None", ""
			req := (*http.Request)(nil)
			if fc.secret == "" {
				verifier, vh, fcl = c12V, c12S256(c12V), fc.client
				form.Set("code_verifier", verifier)
				form.Set("client_id", fc.client)
				req = verifNewRequest("POST", idpOpenIDCTokenPath, form)
			} else {
				req = verifNewRequest("POST", idpOpenIDCTokenPath, form)
				req.SetBasicAuth(fc.client, fc.secret)
				basicCoq = fmt.Sprintf("Some (%s, %s)", coqStr(fc.client), coqStr(fc.secret))
			}
			f0 := time.Now().UnixNano()
			rr, _ := env.serve(v.apply(req))
			f1 := time.Now().UnixNano()
			var tr tokenResponse
			ok := rr.Code == 200 && json.Unmarshal(rr.Body.Bytes(), &tr) == nil && tr.IDToken != ""
			fl := c12Flow{t0: f0, t1: f1, released: ok, label: fmt.Sprintf("token request over %s (Host %q, TLS %v, server name %q) client=%s flow=%s\tstatus=%d released=%v", v.name, v.host, v.tls, v.sni, fc.client, fc.label, rr.Code, ok)}
			fl.coq = fmt.Sprintf("{| tr_conn := %s; tr_post := true; tr_grant := %s; tr_redirect := %s; tr_code := %s; tr_verifier := %s; tr_vhash := %s; tr_basic := %s; tr_form_client := %s; tr_form_secret := [] |}",
				v.coq(), coqStr("authorization_code"), coqStr(c12RedirectSame), env.coqToken(code), coqStr(verifier), coqStr(vh), basicCoq, coqStr(fcl))
			x.res.eval("conn|token|"+v.name+"|"+fc.label+fmt.Sprint(ok), true)
			x.res.bump("conn-token")
			w := v.what()
			w["client"], w["flow"] = fc.client, fc.label
			if ok {
				fl.idt = newSymTok(tr.IDToken, s.sid, false, "id(connection flow)")
				fl.act = newSymTok(tr.AccessToken, s.sid, false, "access(connection flow)")
				if iss, _ := fl.idt.claims["iss"].(string); iss != s.issuer {
					x.hit(c12IssuerKey, c12IssuerOracle, fmt.Sprintf("ID token released over %s names issuer %q, configured is %q", v.name, iss, s.issuer), w, map[string]interface{}{"id_token_claims": fl.idt.claims})
				}
				if iss, _ := fl.act.claims["iss"].(string); iss != s.issuer {
					x.hit(c12IssuerKey, c12IssuerOracle, fmt.Sprintf("access token released over %s names issuer %q, configured is %q", v.name, iss, s.issuer), w, map[string]interface{}{"access_token_claims": fl.act.claims})
				}
				if aud, isList := c12StrList(fl.act.claims["aud"]); fc.extra != nil && (!isList || len(aud) != 2 || aud[1] != userinfoURL) {
					x.hit(c12IssuerKey, c12IssuerOracle, fmt.Sprintf("access token released over %s has aud = %v, expected [%s, %s]", v.name, fl.act.claims["aud"], c12Audience, userinfoURL), w, map[string]interface{}{"access_token_claims": fl.act.claims})
				}
				if verified, kidOK, _ := s.jwks.verifies(tr.IDToken, &openIDConnectIDToken{}); !verified || !kidOK {
					x.hit("C12:idtoken:not-under-jwks:"+s.name, "every released ID token must verify under a key served by /idp/oauth2/jwks, selected by kid", "ID token released over "+v.name+" does not verify under the published JWKS", w, nil)
				}
				// the access token at userinfo, reached under the server's own name and over this connection
				u, answered := userinfoVia(ownConn, tr.AccessToken)
				fl.userinfo, fl.uiAnswered = u, answered
				if !answered || u != fc.user {
					x.hit("C12:userinfo:subject", "the access token must make userinfo return the user of the authorization step",
						fmt.Sprintf("userinfo (reached under the server's own name) answered %q (answered=%v) for the access token released over %s for a code minted for %q", u, answered, v.name, fc.user), w, map[string]interface{}{"access_token_claims": fl.act.claims})
				}
				c0 := time.Now().UnixNano()
				u2, answered2 := userinfoVia(v, tr.AccessToken)
				c1 := time.Now().UnixNano()
				uis = append(uis, c12ConnUserinfo{conn: v, tok: fl.act, t0: c0, t1: c1, answered: answered2, user: u2,
					label: fmt.Sprintf("userinfo over %s for the access token released over it (flow %s)\tanswered=%v user=%q", v.name, fc.label, answered2, u2)})
				if !answered2 || u2 != fc.user {
					x.hit("C12:userinfo:subject", "the access token must make userinfo return the user of the authorization step",
						fmt.Sprintf("userinfo over %s answered %q (answered=%v) for the access token of a code minted for %q", v.name, u2, answered2, fc.user), w, nil)
				}
			}
			flows = append(flows, fl)
		}
		// ---- userinfo over this connection: the server's own access token, and one naming the announced host as issuer
		{
			c0 := time.Now().UnixNano()
			u, answered := userinfoVia(v, prod.access.raw)
			c1 := time.Now().UnixNano()
			uis = append(uis, c12ConnUserinfo{conn: v, tok: prod.access, t0: c0, t1: c1, answered: answered, user: u,
				label: fmt.Sprintf("userinfo over %s for an access token released under the server's own name\tanswered=%v user=%q", v.name, answered, u)})
			if !answered || u != "alice" {
				x.hit("C12:userinfo:issuer-follows-request", "userinfo answers for this server's own access tokens whatever name the caller announced, and for no token of another issuer",
					fmt.Sprintf("userinfo over %s answered %q (answered=%v) for an access token this server released to alice", v.name, u, answered), v.what(), nil)
			}
			claims := cloneClaims(prod.access.claims)
			claims["iss"] = "https://" + v.host
			forged := env.tokServerSigned(claims, "access token with iss = https://<the announced host> server-key")
			c0 = time.Now().UnixNano()
			u, answered = userinfoVia(v, forged.raw)
			c1 = time.Now().UnixNano()
			uis = append(uis, c12ConnUserinfo{conn: v, tok: forged, t0: c0, t1: c1, answered: answered, user: u,
				label: fmt.Sprintf("userinfo over %s for an access token naming https://%s as issuer\tanswered=%v user=%q", v.name, v.host, answered, u)})
			if answered && claims["iss"] != s.issuer {
				x.hit("C12:userinfo:issuer-follows-request", "userinfo answers for this server's own access tokens whatever name the caller announced, and for no token of another issuer",
					fmt.Sprintf("userinfo over %s answered %q for an access token whose iss is %q", v.name, u, claims["iss"]), v.what(), nil)
			}
			x.res.eval("conn|userinfo|"+v.name, true)
			x.res.bump("conn-userinfo")
		}
	}
	return
}

func c12CoqFlows(env *verifEnv, name string, flows []c12Flow) string {
	var sb strings.Builder
	sb.WriteString("Definition " + name + " : list flow := [\n")
	for i, f := range flows {
		sep := ";"
		if i == len(flows)-1 {
			sep = ""
		}
		obs := "None"
		if f.released {
			ui := "None"
			if f.uiAnswered {
				ui = "Some " + coqStr(f.userinfo)
			}
			obs = fmt.Sprintf("Some (%s, %s, %s)", env.coqClaims(f.idt), env.coqClaims(f.act), ui)
		}
		sb.WriteString(fmt.Sprintf(" (%s, (%d)%%Z, (%d)%%Z, %s)%s\n", f.coq, f.t0, f.t1, obs, sep))
	}
	sb.WriteString("].\n")
	return sb.String()
}

func TestVerif_C12(t *testing.T) {
	verifWriteConsts(t)
	res := newVerifResult("token endpoint over the full product: caller {client with secret, secret-less client, unknown} x secret {right, wrong, none} x verifier {right, wrong, none} x challenge bound into the code {S256, plain, empty method, unknown method, none} x redirect_uri {same, other, absent, empty, same with trailing slash, same in upper case, sent twice same first, sent twice other first} x code {fresh, expired, tampered, issued to the other client, a session cookie, an access token} x credentials in {header, form, header url-escaped} = 19440 requests (codes from the real authorize endpoint where it admits the challenge method, otherwise signed in-package); the sub-product of 288 requests plus 9 authorization requests on each of four more daemon states (signer RSA-3072, P-256, P-384, P-521, each with an Ed25519 SSH CA; key files through the configuration surface), KeymasterPublicKeys / JWKS / discovery of each compared with the model, two key-file sets the daemon must refuse; every released ID token decoded and verified under the published key its kid names, every released access token taken to userinfo; ~70 authorization requests; audience flows: 4 clients {allow_client_chose_audiences or not} x {secret, PKCE} x 12 shapes of the authorization request's audience parameter {absent, under the client's domains, foreign, near misses, several values}, every issued code redeemed with header / form / wrong credentials, ID token audience compared with [client] and access token audience with [chosen, userinfo] for exact equality; ~60 userinfo probes (other kinds, audiences, header/form/query); non-trivial = the request passed client lookup; distinct by combination")
	env := verifSetup(t, c12Config)
	st := env.state
	sid := env.signerKeyID()
	prod := env.c04Produce2(t)
	env.writeTokenConsts(t, prod)
	issuer := st.idpGetIssuer()
	x := &c12Run{t: t, res: res, hitOnce: map[string]bool{}, perKey: map[string]int{}}
	hit := x.hit
	mainSpec := &c12Spec{name: "RSA-2048", signer: st.Signer}
	main := &c12Site{name: "RSA-2048", suffix: "", env: env, keys: mainSpec.keys(), jwks: env.c12FetchJWKS(t), issuer: issuer, sid: sid}
	main.fetchDiscovery(t)

	// ---- the full product on the main state
	tMint0 := time.Now().UnixNano()
	codes := x.buildCodes(main, c12FullDims, prod)
	res.Extra["codes"] = len(codes)
	observed, rel, t0, t1, prodIndex := x.runProduct(main, c12FullDims, codes)
	if len(rel) == 0 {
		hit("C12:harness:nothing-released", "harness", "no combination released tokens", nil, nil)
	}

	// ---- the signer configurations: the sub-product, the authorization step, JWKS and discovery
	type siteRun struct {
		site     *c12Site
		codes    []*c12Code
		observed []byte
		rel      []c12Released
		t0, t1   int64
		authz    []c12Authz
	}
	edKey := func() crypto.Signer {
		_, k, err := ed25519.GenerateKey(rand.Reader)
		if err != nil {
			t.Fatal(err)
		}
		return k
	}
	ecKey := func(c elliptic.Curve) crypto.Signer {
		k, err := ecdsa.GenerateKey(c, rand.Reader)
		if err != nil {
			t.Fatal(err)
		}
		return k
	}
	rsa3072, err := rsa.GenerateKey(rand.Reader, 3072)
	if err != nil {
		t.Fatal(err)
	}
	sibling, _ := tokForeignKeys()
	p256 := ecKey(elliptic.P256())
	specs := []*c12Spec{
		{name: "RSA-3072", signer: rsa3072, ed: edKey()},
		// the file lists the signer's own public key: loaded once, in file position
		{name: "P-256", signer: p256, ed: edKey(), file: []crypto.PublicKey{p256.Public()}},
		// a sibling instance's RSA public key: challenges can be sealed (for the sibling), not opened here
		{name: "P-384", signer: ecKey(elliptic.P384()), ed: edKey(), file: []crypto.PublicKey{sibling.Public()}, sibling: sibling},
		{name: "P-521", signer: ecKey(elliptic.P521()), ed: edKey()},
	}
	signerDims := c12SignerDims
	if verifThorough() {
		signerDims = c12SignerDimsThorough
	}
	var siteRuns []*siteRun
	var signerIndex []string
	for n, sp := range specs {
		senv := sp.start(t)
		if sp.sibling != nil {
			tokSiblingKeys[senv] = []*rsa.PrivateKey{sp.sibling}
		}
		s := &c12Site{name: sp.name, suffix: fmt.Sprintf("_s%d", n+1), env: senv, spec: sp, keys: sp.keys(), jwks: senv.c12FetchJWKS(t),
			issuer: senv.state.idpGetIssuer(), sid: senv.signerKeyID(), sibling: sp.sibling}
		s.fetchDiscovery(t)
		sr := &siteRun{site: s}
		sr.codes = x.buildCodes(s, signerDims, nil)
		var ix []string
		sr.observed, sr.rel, sr.t0, sr.t1, ix = x.runProduct(s, signerDims, sr.codes)
		signerIndex = append(signerIndex, ix...)
		released := map[string]bool{}
		for _, r := range sr.rel {
			released[ix[r.idx]] = true
		}
		if len(sr.rel) == 0 {
			hit("C12:harness:nothing-released:"+sp.name, "harness", "no combination released tokens with the "+sp.name+" signer", nil, nil)
		}
		res.Extra["released:"+sp.name] = len(sr.rel)
		sr.authz = append(sr.authz, x.runAuthz(s, "base", "GET", c12BaseQ()))
		for _, cl := range []string{c04ClientA, c04ClientB} {
			sr.authz = append(sr.authz, x.runAuthz(s, "client="+cl+" challenge S256", "GET", c12With("client_id", cl, "code_challenge", c12S256(c12V), "code_challenge_method", "S256")))
			sr.authz = append(sr.authz, x.runAuthz(s, "client="+cl+" challenge without method", "GET", c12With("client_id", cl, "code_challenge", c12V)))
			sr.authz = append(sr.authz, x.runAuthz(s, "client="+cl+" challenge plain", "GET", c12With("client_id", cl, "code_challenge", c12V, "code_challenge_method", "plain")))
			sr.authz = append(sr.authz, x.runAuthz(s, "client="+cl+" no challenge", "GET", c12With("client_id", cl)))
		}
		for _, a := range sr.authz {
			res.bump(fmt.Sprintf("site:%s:authorize:%d", sp.name, a.status))
		}
		siteRuns = append(siteRuns, sr)
	}
	// ---- the client-option dimension: the product re-run with, per option, a client with a secret and a
	// secret-less client that carry it (same daemon state, same codes table layout)
	type knobRun struct {
		site     *c12Site
		codes    []*c12Code
		observed []byte
		rel      []c12Released
		t0, t1   int64
	}
	knobDims := c12KnobDims
	if verifThorough() {
		knobDims = c12KnobDimsThorough
	}
	knobs := c12ClientKnobs()
	var knobRuns []*knobRun
	var knobIndex []string
	for n := range knobs {
		k := &knobs[n]
		ks := *main
		ks.name, ks.suffix, ks.knob, ks.callers = fmt.Sprintf("client-option-%d(%s)", k.n, k.kind), fmt.Sprintf("_k%d", k.n), k, k.callers()
		kr := &knobRun{site: &ks}
		kr.codes = x.buildCodes(&ks, knobDims, nil)
		var ix []string
		kr.observed, kr.rel, kr.t0, kr.t1, ix = x.runProduct(&ks, knobDims, kr.codes)
		for _, l := range ix {
			knobIndex = append(knobIndex, fmt.Sprintf("client option %s=%s (caller 0 = client with a secret, caller 1 = secret-less client, both carry it) %s", k.field, k.value, l))
		}
		if len(kr.rel) == 0 {
			hit("C12:harness:nothing-released:"+k.kind, "harness", "no combination released tokens to the clients carrying the option "+k.field, nil, nil)
		}
		res.Extra["released:"+ks.name] = len(kr.rel)
		res.bump("client-option:" + k.kind)
		knobRuns = append(knobRuns, kr)
	}
	res.Extra["client_options"] = len(knobs)

	// outside the model: an ECDSA signer on a curve neither x/crypto/ssh nor go-jose supports.  The
	// daemon starts; whatever it releases must still verify under its JWKS (it releases nothing:
	// every signing path answers 500).
	{
		sp := &c12Spec{name: "P-224", signer: ecKey(elliptic.P224()), ed: edKey()}
		obs := map[string]interface{}{"started": false}
		if sp.tryLoad(t) {
			penv := sp.start(t)
			ps := &c12Site{name: sp.name, suffix: "_p224", env: penv, spec: sp, keys: sp.keys(), jwks: penv.c12FetchJWKS(t), issuer: penv.state.idpGetIssuer(), sid: penv.signerKeyID()}
			ps.fetchDiscovery(t)
			obs = map[string]interface{}{"started": true, "keymaster_public_keys": len(penv.state.KeymasterPublicKeys), "jwks_keys": len(ps.jwks.set.Keys)}
			// no session cookie can be signed, so nobody gets as far as the authorization step
			if _, err := penv.state.setNewAuthCookie(nil, "alice", AuthTypePassword); err != nil {
				obs["session_cookie_error"] = err.Error()
			} else {
				a := x.runAuthz(ps, "base", "GET", c12BaseQ())
				obs["authorize_status"], obs["code_issued"] = a.status, a.tok != nil
				if a.tok != nil {
					pcodes := make([]*c12Code, 3*5*6)
					pcodes[(0*5+4)*6+0] = &c12Code{tok: a.tok, client: c04ClientA, user: "alice", minted: a.t0 / 1e9, chal: 4}
					_, prel, _, _, _ := x.runProduct(ps, c12Dims{[]int{0}, []int{0}, []int{2}, []int{4}, []int{0}, []int{0}, []int{0, 1}}, pcodes)
					obs["released"] = len(prel)
				}
			}
		}
		res.Extra["unsupported_curve_signer"] = obs
	}
	// key files the daemon must refuse to start with
	_, edPriv, _ := ed25519.GenerateKey(rand.Reader)
	refusedSpecs := []*c12Spec{
		{name: "refused:Ed25519-as-signer", signer: edPriv, ed: edKey()},
		{name: "refused:RSA-as-Ed25519-CA", signer: ecKey(elliptic.P256()), ed: sibling},
	}
	var refusedObs []bool
	for _, sp := range refusedSpecs {
		started := sp.tryLoad(t)
		refusedObs = append(refusedObs, started)
		res.eval("keys|"+sp.name+fmt.Sprint(started), true)
		res.bump(fmt.Sprintf("keyfiles:%s:started=%v", sp.name, started))
	}

	// ---- single requests outside the product: expiry boundaries of the code, malformed requests
	type tokCase struct {
		coq      string
		t0, t1   int64
		released bool
		label    string
	}
	var tcs []tokCase
	single := func(label, method string, code *symTok, minted int64, grant, redirect, verifier string, basic []string, formClient, formSecret string, expectRefusal string) {
		form := url.Values{"redirect_uri": {redirect}, "code": {code.raw}}
		if grant != "" {
			form.Set("grant_type", grant)
		}
		if verifier != "" {
			form.Set("code_verifier", verifier)
		}
		if formClient != "" {
			form.Set("client_id", formClient)
		}
		if formSecret != "" {
			form.Set("client_secret", formSecret)
		}
		req := verifNewRequest(method, idpOpenIDCTokenPath, form)
		basicCoq := "None"
		if basic != nil {
			req.SetBasicAuth(basic[0], basic[1])
			// the model takes the credentials after url.QueryUnescape (kept raw when that fails)
			un := func(v string) string {
				if u, err := url.QueryUnescape(v); err == nil {
					return u
				}
				return v
			}
			basicCoq = fmt.Sprintf("Some (%s, %s)", coqStr(un(basic[0])), coqStr(un(basic[1])))
		}
		s0 := time.Now().UnixNano()
		rr, _ := env.serve(req)
		s1 := time.Now().UnixNano()
		var tr tokenResponse
		ok := rr.Code == 200 && json.Unmarshal(rr.Body.Bytes(), &tr) == nil && tr.IDToken != ""
		if ok && expectRefusal != "" {
			hit("C12:released:"+expectRefusal, "the token endpoint released tokens to a caller that did not prove to be the client of a fresh code with the bound redirect URI",
				fmt.Sprintf("tokens released although %s (%s; code minted %d s before the request)", expectRefusal, label, s0/1e9-minted),
				map[string]interface{}{"label": label, "code": code.raw, "minted": minted, "request_time": s0 / 1e9}, map[string]interface{}{"status": rr.Code})
		}
		vh := ""
		if verifier != "" {
			vh = c12S256(verifier)
		}
		coq := fmt.Sprintf("{| tr_conn := conn_none; tr_post := %s; tr_grant := %s; tr_redirect := %s; tr_code := %s; tr_verifier := %s; tr_vhash := %s; tr_basic := %s; tr_form_client := %s; tr_form_secret := %s |}",
			coqBool(method == "POST"), coqStr(grant), coqStr(redirect), env.coqToken(code), coqStr(verifier), coqStr(vh), basicCoq, coqStr(formClient), coqStr(formSecret))
		tcs = append(tcs, tokCase{coq: coq, t0: s0, t1: s1, released: ok, label: label})
		res.eval("single|"+label+fmt.Sprint(ok), true)
		res.bump("single-request")
	}
	for _, age := range []int64{0, 200, 285, 302, 305, 315, 330, 345, 358, 362, 400, 3600, 57000, 57700} {
		why := ""
		if age > 300 {
			why = "expired-code"
		}
		ca, ma := env.c12Mint(c04ClientA, "alice", "", "", age, "")
		single(fmt.Sprintf("expiry: client with secret, code %d s old", age), "POST", ca, ma, "authorization_code", c12RedirectSame, "", []string{c04ClientA, c04SecretA}, "", "", why)
		cb, mb := env.c12Mint(c04ClientB, "bob", c12S256(c12V), "S256", age, "")
		single(fmt.Sprintf("expiry: PKCE client, code %d s old", age), "POST", cb, mb, "authorization_code", c12RedirectSame, c12V, nil, c04ClientB, "", why)
	}
	{
		ca, ma := env.c12Mint(c04ClientA, "alice", "", "", 10, "")
		cb, mb := env.c12Mint(c04ClientB, "bob", c12S256(c12V), "S256", 10, "")
		cbn, mbn := env.c12Mint(c04ClientB, "bob", c12S256(c12V), "S256", 10, "another-nonce-0123456789")
		single("GET instead of POST", "GET", ca, ma, "authorization_code", c12RedirectSame, "", []string{c04ClientA, c04SecretA}, "", "", "")
		single("grant_type=refresh_token", "POST", ca, ma, "refresh_token", c12RedirectSame, "", []string{c04ClientA, c04SecretA}, "", "", "")
		single("grant_type absent", "POST", ca, ma, "", c12RedirectSame, "", []string{c04ClientA, c04SecretA}, "", "", "")
		single("header right, form wrong", "POST", ca, ma, "authorization_code", c12RedirectSame, "", []string{c04ClientA, c04SecretA}, c04ClientB, c12WrongSecret, "")
		single("header wrong, form right", "POST", ca, ma, "authorization_code", c12RedirectSame, "", []string{c04ClientA, c12WrongSecret}, c04ClientA, c04SecretA, "secret-not-shown")
		single("header names B, code of A, form names A with the right secret", "POST", ca, ma, "authorization_code", c12RedirectSame, "", []string{c04ClientB, ""}, c04ClientA, c04SecretA, "code-of-other-client")
		single("PKCE client: header with empty password, no verifier", "POST", cb, mb, "authorization_code", c12RedirectSame, "", []string{c04ClientB, ""}, "", "", "pkce-not-matched")
		single("PKCE client: header with empty password, right verifier", "POST", cb, mb, "authorization_code", c12RedirectSame, c12V, []string{c04ClientB, ""}, "", "", "")
		single("PKCE client: challenge sealed under another nonce", "POST", cbn, mbn, "authorization_code", c12RedirectSame, c12V, nil, c04ClientB, "", "pkce-not-matched")
		single("PKCE client: verifier = the S256 challenge itself", "POST", cb, mb, "authorization_code", c12RedirectSame, c12S256(c12V), nil, c04ClientB, "", "pkce-not-matched")
		// near misses of the two string comparisons
		for _, sec := range []string{strings.ToUpper(c04SecretA), c04SecretA[:len(c04SecretA)-1], c04SecretA + "x", " " + c04SecretA, c04SecretA + "\x00", url.QueryEscape(url.QueryEscape(c04SecretA))} {
			single(fmt.Sprintf("client with secret: near-miss secret %q in header", sec), "POST", ca, ma, "authorization_code", c12RedirectSame, "", []string{c04ClientA, url.QueryEscape(sec)}, "", "", "secret-not-shown")
			single(fmt.Sprintf("client with secret: near-miss secret %q in form", sec), "POST", ca, ma, "authorization_code", c12RedirectSame, "", nil, c04ClientA, sec, "secret-not-shown")
		}
		for _, v := range []string{strings.ToUpper(c12V), c12V[:len(c12V)-1], c12V + "x", " " + c12V, c12S256(c12V)[:42]} {
			single(fmt.Sprintf("PKCE client: near-miss verifier %q", v), "POST", cb, mb, "authorization_code", c12RedirectSame, v, nil, c04ClientB, "", "pkce-not-matched")
		}
		for _, rdr := range []string{c12RedirectSame + "/", strings.ToUpper(c12RedirectSame), c12RedirectSame[:len(c12RedirectSame)-1], c12RedirectSame + "?x=1", "https://rp.apps.example/cb/../cb"} {
			single(fmt.Sprintf("near-miss redirect %q", rdr), "POST", ca, ma, "authorization_code", rdr, "", []string{c04ClientA, c04SecretA}, "", "", "redirect-differs")
		}
		for _, id := range []string{strings.ToUpper(c04ClientA), c04ClientA + " ", c04ClientA[:len(c04ClientA)-1]} {
			single(fmt.Sprintf("near-miss client id %q", id), "POST", ca, ma, "authorization_code", c12RedirectSame, "", []string{url.QueryEscape(id), url.QueryEscape(c04SecretA)}, "", "", "unknown-client")
		}
		// seeded random one-byte changes of each compared string (thorough: 400 each)
		{
			rng := verifRand()
			n := 12
			if verifThorough() {
				n = 400
			}
			flip := func(v string) string {
				b := []byte(v)
				switch rng.Intn(4) {
				case 0:
					b[rng.Intn(len(b))] ^= byte(1 << uint(rng.Intn(7)))
				case 1:
					i := rng.Intn(len(b))
					b = append(b[:i], b[i+1:]...)
				case 2:
					i := rng.Intn(len(b) + 1)
					b = append(b[:i], append([]byte{byte(33 + rng.Intn(90))}, b[i:]...)...)
				default:
					i, j := rng.Intn(len(b)), rng.Intn(len(b))
					b[i], b[j] = b[j], b[i]
				}
				return string(b)
			}
			for i := 0; i < n; i++ {
				if sec := flip(c04SecretA); sec != c04SecretA {
					single(fmt.Sprintf("random near-miss secret %q", sec), "POST", ca, ma, "authorization_code", c12RedirectSame, "", nil, c04ClientA, sec, "secret-not-shown")
				}
				if v := flip(c12V); v != c12V {
					single(fmt.Sprintf("random near-miss verifier %q", v), "POST", cb, mb, "authorization_code", c12RedirectSame, v, nil, c04ClientB, "", "pkce-not-matched")
				}
				if rdr := flip(c12RedirectSame); rdr != c12RedirectSame {
					single(fmt.Sprintf("random near-miss redirect %q", rdr), "POST", ca, ma, "authorization_code", rdr, "", nil, c04ClientA, c04SecretA, "redirect-differs")
				}
				if id := flip(c04ClientA); id != c04ClientA && id != c04ClientB {
					single(fmt.Sprintf("random near-miss client id %q", id), "POST", ca, ma, "authorization_code", c12RedirectSame, "", nil, id, c04SecretA, "unknown-client")
				}
			}
		}
		single("client with secret: the secret of nobody, verifier of B's code", "POST", cb, mb, "authorization_code", c12RedirectSame, c12V, nil, c04ClientA, "", "code-of-other-client")
	}

	// ---- the authorization step
	var authz []c12Authz
	runAuthz := func(label, method string, q url.Values) { authz = append(authz, x.runAuthz(main, label, method, q)) }
	baseQ, with := c12BaseQ, c12With
	runAuthz("base", "GET", baseQ())
	runAuthz("post", "POST", baseQ())
	runAuthz("put", "PUT", baseQ())
	for _, v := range []string{"token", "", "code token", "CODE"} {
		runAuthz("response_type="+v, "GET", with("response_type", v))
	}
	for _, v := range []string{c04ClientB, "clientX", "", "clienta"} {
		runAuthz("client="+v, "GET", with("client_id", v))
	}
	for _, v := range []string{"openid profile", "profile openid email", "profile", "", "openidx", "OPENID", "openid  ", "open id"} {
		runAuthz("scope="+v, "GET", with("scope", v))
	}
	for _, v := range []string{c12RedirectDiff, "https://rp.evil.example/cb", "http://rp.apps.example/cb", "https://rp.apps.example/cb?x=1", ""} {
		runAuthz("redirect="+v, "GET", with("redirect_uri", v))
	}
	for _, v := range []string{"", "1", "12345", "123456", "a-long-nonce-value-0123456789"} {
		runAuthz("nonce="+v, "GET", with("nonce", v))
	}
	runAuthz("nonce-absent", "GET", with("nonce", "\x00"))
	for _, cl := range []string{c04ClientA, c04ClientB} {
		for _, m := range []string{"\x00", "", "S256", "plain", "S512", "s256"} {
			for _, ch := range []string{c12S256(c12V), "x"} {
				runAuthz(fmt.Sprintf("client=%s challenge=%s method=%q", cl, ch[:1], m), "GET", with("client_id", cl, "code_challenge", ch, "code_challenge_method", m))
			}
		}
		runAuthz("client="+cl+" method-without-challenge", "GET", with("client_id", cl, "code_challenge_method", "plain"))
		for _, a := range []string{c12Audience, "https://api.evil.example", "http://api.apps.example", "https://apps.example"} {
			runAuthz("client="+cl+" audience="+a, "GET", with("client_id", cl, "audience", a))
		}
	}

	// the clients of the client-option dimension at the authorization step
	for _, k := range knobs {
		for _, withSecret := range []bool{true, false} {
			cl := k.client(withSecret)
			runAuthz(fmt.Sprintf("client option %s=%s: client=%s challenge S256", k.field, k.value, cl), "GET", with("client_id", cl, "code_challenge", c12S256(c12V), "code_challenge_method", "S256"))
			runAuthz(fmt.Sprintf("client option %s=%s: client=%s no challenge", k.field, k.value, cl), "GET", with("client_id", cl))
		}
	}

	// ---- the audience parameter x client configuration, each followed by the redemption of the code
	flows := x.runAudienceFlows(main, &authz)
	res.Extra["audience_flows"] = len(flows)

	// ---- the connection dimension: Host header / TLS server name at the token endpoint, userinfo, discovery
	connFlows, connUis, connDiscs := x.runConnFlows(main, prod)
	res.Extra["connection_flows"] = len(connFlows)

	// ---- userinfo probes
	type uiCase struct {
		tok      *symTok
		t0, t1   int64
		answered bool
		user     string
		label    string
	}
	var uis []uiCase
	accessCons := &c04Consumer{name: "userinfo", kind: "access"}
	probe := func(s *symTok, how, label string) {
		var req *http.Request
		switch how {
		case "header":
			req = verifNewRequest("GET", idpOpenIDCUserinfoPath, nil)
			req.Header.Set("Authorization", "Bearer "+s.raw)
		case "form":
			req = verifNewRequest("POST", idpOpenIDCUserinfoPath, url.Values{"access_token": {s.raw}})
		default:
			req = verifNewRequest("GET", idpOpenIDCUserinfoPath, url.Values{"access_token": {s.raw}})
		}
		u0 := time.Now().UnixNano()
		rr, _ := env.serve(req)
		u1 := time.Now().UnixNano()
		c := uiCase{tok: s, t0: u0, t1: u1, label: label + " via " + how}
		if rr.Code == 200 {
			var ui openidConnectUserInfo
			if json.Unmarshal(rr.Body.Bytes(), &ui) == nil {
				c.answered, c.user = true, ui.Subject
			}
		}
		if c.answered {
			if d := env.c04Defect(s, accessCons, u0/1e9); d != "" {
				hit("C12:userinfo:answered:"+d, "userinfo answers only for a genuine, current access token of this server", fmt.Sprintf("userinfo answered %q for a token with defect %q (%s)", c.user, d, s.note), label, nil)
			} else if un, _ := s.claims["username"].(string); un != c.user {
				hit("C12:userinfo:other-user", "userinfo names the user of the access token", fmt.Sprintf("userinfo answered %q for a token of %q", c.user, un), label, nil)
			}
			// the audience rule: a token restricted to other audiences is not for userinfo
			if auds, isList := s.claims["aud"].([]interface{}); isList && len(auds) > 0 {
				forUserinfo := false
				for _, a := range auds {
					if a == issuer+idpOpenIDCUserinfoPath {
						forUserinfo = true
					}
				}
				if !forUserinfo {
					hit("C12:userinfo:audience", "userinfo answers for an access token with an audience list only if the list contains the userinfo URL",
						fmt.Sprintf("userinfo answered %q for an access token whose audience list %v does not contain %s (%s)", c.user, auds, issuer+idpOpenIDCUserinfoPath, s.note), label, nil)
				}
			}
		}
		uis = append(uis, c)
		res.eval("userinfo|"+label+"|"+how, s.claims != nil)
		res.bump("userinfo")
	}
	// an access token with a client-chosen audience, through the real flow
	{
		code, status := env.c04Authorize(t, "alice", c04ClientA, c12RedirectSame, url.Values{"audience": {c12Audience}})
		if code == "" {
			t.Fatalf("authorize with audience refused: %d", status)
		}
		_, _, act := env.c04Token(url.Values{"grant_type": {"authorization_code"}, "redirect_uri": {c12RedirectSame}, "code": {code}}, c04ClientA, c04SecretA, true)
		if act == "" {
			t.Fatalf("token endpoint refused the code with audience")
		}
		s := newSymTok(act, sid, false, "access with chosen audience (real flow)")
		for _, how := range []string{"header", "form", "query"} {
			probe(s, how, "audience-flow")
		}
		now := time.Now().Unix()
		for _, m := range []struct {
			label string
			f     func(c map[string]interface{})
		}{
			{"aud=[other]", func(c map[string]interface{}) { c["aud"] = []string{c12Audience} }},
			{"aud=[userinfo]", func(c map[string]interface{}) { c["aud"] = []string{issuer + idpOpenIDCUserinfoPath} }},
			{"aud=[other,userinfo]", func(c map[string]interface{}) { c["aud"] = []string{c12Audience, issuer + idpOpenIDCUserinfoPath} }},
			{"aud=[userinfo-prefix]", func(c map[string]interface{}) { c["aud"] = []string{issuer + idpOpenIDCUserinfoPath + "/x"} }},
			{"aud-absent", func(c map[string]interface{}) { delete(c, "aud") }},
			{"exp=past", func(c map[string]interface{}) { c["exp"] = now - 600 }},
			{"type=Bearer", func(c map[string]interface{}) { c["type"] = "Bearer" }},
			{"type-absent", func(c map[string]interface{}) { delete(c, "type") }},
			{"token_type=bearer-only", func(c map[string]interface{}) { delete(c, "type"); c["token_type"] = "bearer" }},
			{"iss=other", func(c map[string]interface{}) { c["iss"] = "https://other.example" }},
			{"username=bob", func(c map[string]interface{}) { c["username"] = "bob" }},
			{"username-absent", func(c map[string]interface{}) { delete(c, "username") }},
		} {
			claims := cloneClaims(s.claims)
			m.f(claims)
			probe(env.tokServerSigned(claims, "access "+m.label+" server-key"), "header", m.label)
			probe(tokForeignSigned(claims, false, "access "+m.label+" foreign-key"), "header", m.label+" foreign")
		}
	}
	for _, p := range []*symTok{prod.session, prod.cli, prod.storage, prod.code, prod.id, prod.access} {
		for _, how := range []string{"header", "form", "query"} {
			probe(p, how, p.note)
		}
	}
	if len(rel) > 0 {
		probe(rel[0].idt, "header", "released id token")
		probe(rel[0].act, "form", "released access token")
	}

	// ---- Coq case file
	var sb strings.Builder
	sb.WriteString(coqCaseHeader)
	sb.WriteString("From KM Require Import Base.Cases Model.Tokens Model.OIDC Model.TokenCases Model.OIDCEnum.\nOpen Scope Z_scope.\n")
	sb.WriteString("Definition c12_idp : idp :=\n  " + env.coqIdp() + ".\n")
	sb.WriteString(main.coqEnv(codes))
	sb.WriteString("Definition observed : bs := " + coqPacked(observed) + ".\n")
	sb.WriteString(fmt.Sprintf("Definition c12_product_mismatches := Eval vm_compute in product_mismatches c12_idp c12_env (%d)%%Z (%d)%%Z observed.\nPrint c12_product_mismatches.\n", t0, t1))
	sb.WriteString("Definition c12_ncases := Eval vm_compute in length all_combos.\nPrint c12_ncases.\n")
	sb.WriteString(main.coqReleased("released_cases", rel))
	sb.WriteString(fmt.Sprintf("Definition c12_release_mismatches := Eval vm_compute in mismatches (release_bad c12_idp c12_env (%d)%%Z (%d)%%Z) released_cases.\nPrint c12_release_mismatches.\n", t0, t1))
	// the signer configurations
	var prodParts, relParts, authzParts, keyCases, idpCases []string
	keyCases = append(keyCases, fmt.Sprintf("(%s, %s)", main.keys.coq, main.coqKeysObserved()))
	relAlgs := func(rel []c12Released) string {
		seen := map[int]bool{}
		var l []string
		for _, r := range rel {
			for _, a := range []int{r.idt.alg, r.act.alg} {
				if !seen[a] {
					seen[a] = true
					l = append(l, fmt.Sprintf("%d%%N", a))
				}
			}
		}
		return "[" + strings.Join(l, "; ") + "]"
	}
	idpCases = append(idpCases, fmt.Sprintf("(%s, c12_idp, %s)", main.keys.coq, relAlgs(rel)))
	var keyIndex, signerRelIndex, signerAuthzIndex []string
	keyIndex = append(keyIndex, "signer configuration "+main.name)
	relOff, authzOff := 0, 0
	// the sub-product that was run on the signer configurations (quick: OIDCEnum.signer_dims)
	sb.WriteString("Definition signer_dims_run : dims := " + signerDims.coq() + ".\nDefinition signer_combos_run := Eval vm_compute in combos_of signer_dims_run.\n")
	if !verifThorough() {
		sb.WriteString("Definition c12_signer_dims_ok : signer_dims_run = signer_dims := eq_refl.\n")
	}
	for n, sr := range siteRuns {
		s := sr.site
		sb.WriteString("Definition c12_idp" + s.suffix + " : idp :=\n  " + s.env.coqIdp() + ".\n")
		sb.WriteString(s.coqEnv(sr.codes))
		sb.WriteString("Definition observed" + s.suffix + " : bs := " + coqPacked(sr.observed) + ".\n")
		prodParts = append(prodParts, fmt.Sprintf("map (Nat.add %d) (product_mismatches_on signer_combos_run c12_idp%s c12_env%s (%d)%%Z (%d)%%Z observed%s)",
			n*signerDims.size(), s.suffix, s.suffix, sr.t0, sr.t1, s.suffix))
		sb.WriteString(s.coqReleased("released_cases"+s.suffix, sr.rel))
		relParts = append(relParts, fmt.Sprintf("map (Nat.add %d) (mismatches (release_bad_on signer_combos_run c12_idp%s c12_env%s (%d)%%Z (%d)%%Z) released_cases%s)",
			relOff, s.suffix, s.suffix, sr.t0, sr.t1, s.suffix))
		for _, r := range sr.rel {
			signerRelIndex = append(signerRelIndex, fmt.Sprintf("%s: released combination %d of the signer sub-product", s.name, r.idx))
		}
		relOff += len(sr.rel)
		sb.WriteString(c12CoqAuthz("authorize_cases"+s.suffix, "c12_idp"+s.suffix, sr.authz))
		authzParts = append(authzParts, fmt.Sprintf("map (Nat.add %d) (mismatches (authorize_bad c12_idp%s) authorize_cases%s)", authzOff, s.suffix, s.suffix))
		for _, a := range sr.authz {
			signerAuthzIndex = append(signerAuthzIndex, fmt.Sprintf("%s\tstatus=%d issued=%v", a.label, a.status, a.tok != nil))
		}
		authzOff += len(sr.authz)
		keyCases = append(keyCases, fmt.Sprintf("(%s, %s)", s.keys.coq, s.coqKeysObserved()))
		idpCases = append(idpCases, fmt.Sprintf("(%s, c12_idp%s, %s)", s.keys.coq, s.suffix, relAlgs(sr.rel)))
		keyIndex = append(keyIndex, "signer configuration "+s.name)
	}
	for n, sp := range refusedSpecs {
		obs := "None"
		if refusedObs[n] {
			obs = "Some ([], [], [])"
		}
		keyCases = append(keyCases, fmt.Sprintf("(%s, %s)", sp.keys().coq, obs))
		keyIndex = append(keyIndex, fmt.Sprintf("key files %s started=%v", sp.name, refusedObs[n]))
	}
	sb.WriteString("Definition c12_signer_product_mismatches := Eval vm_compute in " + strings.Join(prodParts, "\n  ++ ") + ".\nPrint c12_signer_product_mismatches.\n")
	sb.WriteString("Definition c12_signer_release_mismatches := Eval vm_compute in " + strings.Join(relParts, "\n  ++ ") + ".\nPrint c12_signer_release_mismatches.\n")
	sb.WriteString("Definition c12_signer_authorize_mismatches := Eval vm_compute in " + strings.Join(authzParts, "\n  ++ ") + ".\nPrint c12_signer_authorize_mismatches.\n")
	sb.WriteString("Definition key_cases : list (keyconf * option (list (N * N) * list (N * N) * list N)) := [\n " + strings.Join(keyCases, ";\n ") + "].\n")
	sb.WriteString("Definition c12_keys_mismatches := Eval vm_compute in mismatches keys_bad key_cases.\nPrint c12_keys_mismatches.\n")
	sb.WriteString("Definition idp_cases : list (keyconf * idp * list N) := [\n " + strings.Join(idpCases, ";\n ") + "].\n")
	sb.WriteString("Definition c12_idp_mismatches := Eval vm_compute in mismatches idp_bad idp_cases.\nPrint c12_idp_mismatches.\n")
	// the client-option dimension
	sb.WriteString("Definition option_dims_run : dims := " + knobDims.coq() + ".\nDefinition option_combos_run := Eval vm_compute in combos_of option_dims_run.\n")
	if !verifThorough() {
		sb.WriteString("Definition c12_option_dims_ok : option_dims_run = option_dims := eq_refl.\n")
	}
	{
		var kProd, kRel, kViol []string
		var knobRelIndex []string
		kRelOff := 0
		for n, kr := range knobRuns {
			ks := kr.site
			sb.WriteString(ks.coqEnv(kr.codes))
			sb.WriteString("Definition observed" + ks.suffix + " : bs := " + coqPacked(kr.observed) + ".\n")
			sb.WriteString(fmt.Sprintf("Definition option_mm%s := Eval vm_compute in product_mismatches_on option_combos_run c12_idp c12_env%s (%d)%%Z (%d)%%Z observed%s.\n",
				ks.suffix, ks.suffix, kr.t0, kr.t1, ks.suffix))
			kProd = append(kProd, fmt.Sprintf("map (Nat.add %d) option_mm%s", n*knobDims.size(), ks.suffix))
			kViol = append(kViol, fmt.Sprintf("map (Nat.add %d) (secret_violating_on option_combos_run c12_idp c12_env%s observed%s option_mm%s)", n*knobDims.size(), ks.suffix, ks.suffix, ks.suffix))
			sb.WriteString(ks.coqReleased("released_cases"+ks.suffix, kr.rel))
			kRel = append(kRel, fmt.Sprintf("map (Nat.add %d) (mismatches (release_bad_on option_combos_run c12_idp c12_env%s (%d)%%Z (%d)%%Z) released_cases%s)",
				kRelOff, ks.suffix, kr.t0, kr.t1, ks.suffix))
			for _, r := range kr.rel {
				knobRelIndex = append(knobRelIndex, knobIndex[n*knobDims.size()+r.idx])
			}
			kRelOff += len(kr.rel)
		}
		join := func(l []string) string {
			if len(l) == 0 {
				return "(@nil nat)"
			}
			return strings.Join(l, "\n  ++ ")
		}
		sb.WriteString("Definition c12_option_product_mismatches := Eval vm_compute in " + join(kProd) + ".\nPrint c12_option_product_mismatches.\n")
		sb.WriteString("Definition c12_option_release_mismatches := Eval vm_compute in " + join(kRel) + ".\nPrint c12_option_release_mismatches.\n")
		sb.WriteString("Definition c12_option_violating := Eval vm_compute in " + join(kViol) + ".\nPrint c12_option_violating.\n")
		sb.WriteString("Definition c12_product_secret_violating := Eval vm_compute in secret_violating_on all_combos c12_idp c12_env observed c12_product_mismatches.\nPrint c12_product_secret_violating.\n")
		func() {
			var a, b strings.Builder
			for n, l := range knobIndex {
				a.WriteString(fmt.Sprintf("%d\t%s\n", n, l))
			}
			for n, l := range knobRelIndex {
				b.WriteString(fmt.Sprintf("%d\t%s\n", n, l))
			}
			ioutil.WriteFile(filepath.Join(verifOut(), "CasesC12_options.idx"), []byte(a.String()), 0644)
			ioutil.WriteFile(filepath.Join(verifOut(), "CasesC12_option_released.idx"), []byte(b.String()), 0644)
		}()
	}
	sb.WriteString("Definition token_cases : list (treq * Z * Z * bool) := [\n")
	for i, c := range tcs {
		sep := ";"
		if i == len(tcs)-1 {
			sep = ""
		}
		sb.WriteString(fmt.Sprintf(" (%s, (%d)%%Z, (%d)%%Z, %s)%s\n", c.coq, c.t0, c.t1, coqBool(c.released), sep))
	}
	sb.WriteString("].\nDefinition c12_token_mismatches := Eval vm_compute in mismatches (token_bad c12_idp) token_cases.\nPrint c12_token_mismatches.\n")
	sb.WriteString(c12CoqAuthz("authorize_cases", "c12_idp", authz))
	sb.WriteString("Definition c12_authorize_mismatches := Eval vm_compute in mismatches (authorize_bad c12_idp) authorize_cases.\nPrint c12_authorize_mismatches.\n")
	sb.WriteString("Definition flow_cases : list flow := [\n")
	for i, f := range flows {
		sep := ";"
		if i == len(flows)-1 {
			sep = ""
		}
		obs := "None"
		if f.released {
			ui := "None"
			if f.uiAnswered {
				ui = "Some " + coqStr(f.userinfo)
			}
			obs = fmt.Sprintf("Some (%s, %s, %s)", env.coqClaims(f.idt), env.coqClaims(f.act), ui)
		}
		sb.WriteString(fmt.Sprintf(" (%s, (%d)%%Z, (%d)%%Z, %s)%s\n", f.coq, f.t0, f.t1, obs, sep))
	}
	sb.WriteString("].\nDefinition c12_flow_mismatches := Eval vm_compute in mismatches (flow_bad c12_idp) flow_cases.\nPrint c12_flow_mismatches.\n")
	// the property's own predicate on the observations of the mismatching cases
	sb.WriteString("Definition c12_violating := Eval vm_compute in violating_of (flow_bad c12_idp) (flow_violating c12_idp) flow_cases.\nPrint c12_violating.\n")
	sb.WriteString("Definition c12_violating_access := Eval vm_compute in violating_of (flow_bad c12_idp) (flow_violating_access c12_idp) flow_cases.\nPrint c12_violating_access.\n")
	sb.WriteString(fmt.Sprintf("Definition c12_release_violating := Eval vm_compute in release_violating_on all_combos c12_idp c12_env (%d)%%Z (%d)%%Z released_cases.\nPrint c12_release_violating.\n", t0, t1))
	// the connection dimension
	sb.WriteString(c12CoqFlows(env, "conn_cases", connFlows))
	sb.WriteString("Definition c12_conn_mismatches := Eval vm_compute in mismatches (flow_bad c12_idp) conn_cases.\nPrint c12_conn_mismatches.\n")
	sb.WriteString("Definition c12_conn_violating := Eval vm_compute in violating_of (flow_bad c12_idp) (flow_violating_issuer c12_idp) conn_cases.\nPrint c12_conn_violating.\n")
	{
		var l, d, ixF, ixU, ixD []string
		for _, u := range connUis {
			obs := "None"
			if u.answered {
				obs = "Some " + coqStr(u.user)
			}
			l = append(l, fmt.Sprintf(" (%s, %s, (%d)%%Z, (%d)%%Z, %s)", u.conn.coq(), env.coqToken(u.tok), u.t0, u.t1, obs))
			ixU = append(ixU, u.label)
		}
		for _, c := range connDiscs {
			obs := "None"
			if c.ok {
				obs = fmt.Sprintf("Some (%s, %s)", coqStr(c.issuer), coqStr(c.uiURL))
			}
			d = append(d, fmt.Sprintf(" (%s, %s)", c.conn.coq(), obs))
			ixD = append(ixD, c.label)
		}
		for _, f := range connFlows {
			ixF = append(ixF, f.label)
		}
		sb.WriteString("Definition conn_userinfo_cases : list (conn * token * Z * Z * option bs) := [\n" + strings.Join(l, ";\n") + "].\n")
		sb.WriteString("Definition c12_conn_userinfo_mismatches := Eval vm_compute in mismatches (userinfo_conn_bad c12_idp) conn_userinfo_cases.\nPrint c12_conn_userinfo_mismatches.\n")
		sb.WriteString("Definition conn_discovery_cases : list (conn * option (bs * bs)) := [\n" + strings.Join(d, ";\n") + "].\n")
		sb.WriteString("Definition c12_conn_discovery_mismatches := Eval vm_compute in mismatches (discovery_bad c12_idp) conn_discovery_cases.\nPrint c12_conn_discovery_mismatches.\n")
		for file, lines := range map[string][]string{"CasesC12_conn.idx": ixF, "CasesC12_conn_userinfo.idx": ixU, "CasesC12_conn_discovery.idx": ixD} {
			var ix strings.Builder
			for n, line := range lines {
				ix.WriteString(fmt.Sprintf("%d\t%s\n", n, line))
			}
			ioutil.WriteFile(filepath.Join(verifOut(), file), []byte(ix.String()), 0644)
		}
	}
	sb.WriteString("Definition userinfo_cases : list (token * Z * Z * option bs) := [\n")
	for i, u := range uis {
		sep := ";"
		if i == len(uis)-1 {
			sep = ""
		}
		obs := "None"
		if u.answered {
			obs = "Some " + coqStr(u.user)
		}
		sb.WriteString(fmt.Sprintf(" (%s, (%d)%%Z, (%d)%%Z, %s)%s\n", env.coqToken(u.tok), u.t0, u.t1, obs, sep))
	}
	sb.WriteString("].\nDefinition c12_userinfo_mismatches := Eval vm_compute in mismatches (userinfo_bad c12_idp) userinfo_cases.\nPrint c12_userinfo_mismatches.\n")
	if err := ioutil.WriteFile(filepath.Join(verifOut(), "CasesC12.v"), []byte(sb.String()), 0644); err != nil {
		t.Fatal(err)
	}
	// index files: one line per case, same numbering as the case lists
	numbered := func(file string, lines []string) {
		var ix strings.Builder
		for n, l := range lines {
			ix.WriteString(fmt.Sprintf("%d\t%s\n", n, l))
		}
		ioutil.WriteFile(filepath.Join(verifOut(), file), []byte(ix.String()), 0644)
	}
	numbered("CasesC12.idx", prodIndex)
	// the released cases are a sub-list of the product: their own index, each line = the product line of the combination
	var relIndex []string
	for _, r := range rel {
		line := fmt.Sprintf("released combination %d of the product", r.idx)
		if r.idx >= 0 && r.idx < len(prodIndex) {
			line = prodIndex[r.idx]
		}
		relIndex = append(relIndex, line)
	}
	numbered("CasesC12_released.idx", relIndex)
	numbered("CasesC12_signers.idx", signerIndex)
	numbered("CasesC12_signer_released.idx", signerRelIndex)
	numbered("CasesC12_signer_authorize.idx", signerAuthzIndex)
	numbered("CasesC12_keys.idx", keyIndex)
	var ixT, ixA, ixU []string
	for _, c := range tcs {
		ixT = append(ixT, fmt.Sprintf("%s\treleased=%v", c.label, c.released))
	}
	for _, a := range authz {
		ixA = append(ixA, fmt.Sprintf("%s\tstatus=%d issued=%v", a.label, a.status, a.tok != nil))
	}
	for _, u := range uis {
		ixU = append(ixU, fmt.Sprintf("%s\tanswered=%v user=%q", u.label, u.answered, u.user))
	}
	numbered("CasesC12_token.idx", ixT)
	numbered("CasesC12_authorize.idx", ixA)
	numbered("CasesC12_userinfo.idx", ixU)
	var ixF []string
	for _, f := range flows {
		ixF = append(ixF, f.label)
	}
	numbered("CasesC12_flows.idx", ixF)
	// observations outside the statement: what discovery advertises vs. what the tokens are signed with
	disc := map[string]interface{}{}
	for _, s := range append([]*c12Site{main}, func() []*c12Site {
		var l []*c12Site
		for _, sr := range siteRuns {
			l = append(l, sr.site)
		}
		return l
	}()...) {
		alg, _ := publicToPreferedJoseSigAlgo(s.env.state.Signer.Public())
		in := false
		for _, a := range s.adv {
			if a == string(alg) {
				in = true
			}
		}
		disc[s.name] = map[string]interface{}{"id_token_signing_alg_values_supported": s.adv, "tokens_signed_with": string(alg), "advertised": in, "jwks_keys": len(s.jwks.set.Keys)}
		if len(s.env.panics) > 0 && s != main {
			res.hit(verifHit{Key: "C12:panic", Oracle: "an OpenID endpoint panicked", What: s.name + ": " + s.env.panics[0], Case: s.env.panics})
		}
	}
	res.Extra["discovery_vs_signer"] = disc
	res.Extra["released"] = len(rel)
	res.Extra["mint_window_ns"] = []int64{tMint0, t0, t1}
	for i := 0; i < len(rel) && i < 3; i++ {
		res.sample(map[string]interface{}{"index": rel[i].idx, "id_token_claims": rel[i].idt.claims, "userinfo": rel[i].userinfo})
	}
	res.Exhaustive = true
	if len(env.panics) > 0 {
		res.hit(verifHit{Key: "C12:panic", Oracle: "an OpenID endpoint panicked", What: env.panics[0], Case: env.panics})
	}
	res.write(t, "TestVerif_C12")
}

// the producers of c04Produce for a configuration whose client A redirects to c12RedirectSame
func (env *verifEnv) c04Produce2(t *testing.T) *c04Produced {
	st := env.state
	sid := env.signerKeyID()
	p := &c04Produced{}
	v, err := st.setNewAuthCookie(nil, "alice", AuthTypePassword)
	if err != nil {
		t.Fatal(err)
	}
	p.session = newSymTok(v, sid, false, "producer:session")
	p.sessionLogin = p.session
	v, err = st.generateAuthJWT("alice")
	if err != nil {
		t.Fatal(err)
	}
	p.cli = newSymTok(v, sid, false, "producer:cli")
	p.cliPage = p.cli
	v, err = st.genNewSerializedStorageStringDataJWT("alice", c04DataType, "data", time.Now().Unix()+5000)
	if err != nil {
		t.Fatal(err)
	}
	p.storage = newSymTok(v, sid, false, "producer:storage")
	code, status := env.c04Authorize(t, "alice", c04ClientA, c12RedirectSame, nil)
	if code == "" {
		t.Fatalf("authorize refused: %d", status)
	}
	p.code = newSymTok(code, sid, false, "producer:code")
	status, idt, act := env.c04Token(url.Values{"grant_type": {"authorization_code"}, "redirect_uri": {c12RedirectSame}, "code": {code}}, c04ClientA, c04SecretA, true)
	if idt == "" {
		t.Fatalf("token endpoint refused a fresh code: %d", status)
	}
	p.id = newSymTok(idt, sid, false, "producer:id")
	p.access = newSymTok(act, sid, false, "producer:access")
	return p
}
