package main

// C12 — the token endpoint over the full product of the property's quantifier (the same
// enumeration as Model/OIDCEnum.v), the authorization step, and userinfo; decoded ID tokens
// verified under the served JWKS.

import (
	"crypto/sha256"
	"encoding/json"
	"fmt"
	"io/ioutil"
	"net/http"
	"net/url"
	"path/filepath"
	"strings"
	"testing"
	"time"

	"github.com/go-jose/go-jose/v4"
	"github.com/go-jose/go-jose/v4/jwt"
)

const (
	c12RedirectSame = "https://rp.apps.example/cb"
	c12RedirectDiff = "https://rp.apps.example/other"
	c12Audience     = "https://api.apps.example"
	c12WrongSecret  = "wrong secret&B=2"
	c12V            = "verifier-correct-0123456789abcdefghijklmnopqrstuvwxyz"
	c12W            = "verifier-wrong-9876543210zyxwvutsrqponmlkjihgfedcba"
	c12Nonce        = "nonce-abcdef"
)

func c12Config(c *AppConfigFile, dir string) {
	c04Config(c, dir)
	c.OpenIDConnectIDP.Client = []OpenIDConnectClientConfig{
		{ClientID: c04ClientA, ClientSecret: c04SecretA, AllowedRedirectDomains: []string{"apps.example"}, AllowClientChosenAudiences: true},
		{ClientID: c04ClientB, ClientSecret: "", AllowedRedirectDomains: []string{"apps.example"}},
	}
}

func c12S256(v string) string {
	sum := sha256.Sum256([]byte(v))
	return b64e(sum[:])
}

type c12Code struct {
	tok    *symTok
	client string // whom it was issued to ("" for other kinds)
	user   string
	minted int64 // unix time of the authorization step
	chal   int
	state  int
}

// a code exactly as idpOpenIDCAuthorizationHandler builds it, minted [age] seconds ago
func (env *verifEnv) c12Mint(client, user, chal, meth string, age int64, sealNonce string) (*symTok, int64) {
	st := env.state
	now := time.Now().Unix() - age
	jti, err := genRandomString()
	if err != nil {
		panic(err)
	}
	ct := keymasterdCodeToken{Issuer: st.idpGetIssuer(), Subject: client, IssuedAt: now}
	ct.JWTId = jti
	ct.Scope = "openid"
	ct.AuthExpiration = now + maxAgeSecondsAuthCookie
	ct.Expiration = now + idpOpenIDCMaxAuthProcessMaxDurationSeconds
	ct.Username = user
	ct.RedirectURI = c12RedirectSame
	ct.Type = "token_endpoint"
	ct.Nonce = c12Nonce
	nonce := jti
	if sealNonce != "" {
		nonce = sealNonce
	}
	if chal != "" {
		ct.ProtectedDataKey, ct.ProtectedData = env.tokSeal(chal, meth, nonce)
	}
	s := newSymTok(verifSignClaims(st.Signer, ct), env.signerKeyID(), false, fmt.Sprintf("code(helper) client=%s chal=%q meth=%q age=%d", client, chal, meth, age))
	s.sealNonce = sealNonce
	return s, now
}

func c12Challenge(ck int) (chal, meth string) {
	switch ck {
	case 0:
		return c12S256(c12V), "S256"
	case 1:
		return c12V, "plain"
	case 2:
		return c12V, ""
	case 3:
		return c12V, "S512"
	}
	return "", ""
}

func (env *verifEnv) c12Authorize(t *testing.T, user, client string, ck int) (*symTok, int64) {
	chal, meth := c12Challenge(ck)
	extra := url.Values{"nonce": {c12Nonce}}
	if chal != "" {
		extra.Set("code_challenge", chal)
		if meth != "" {
			extra.Set("code_challenge_method", meth)
		}
	}
	now := time.Now().Unix()
	code, status := env.c04Authorize(t, user, client, c12RedirectSame, extra)
	if code == "" {
		t.Fatalf("authorize refused client=%s ck=%d: %d", client, ck, status)
	}
	return newSymTok(code, env.signerKeyID(), false, fmt.Sprintf("code(authorize endpoint) client=%s ck=%d", client, ck)), now
}

type c12JWKS struct {
	set  jose.JSONWebKeySet
	algs []jose.SignatureAlgorithm
}

func (env *verifEnv) c12FetchJWKS(t *testing.T) *c12JWKS {
	rr, _ := env.serve(verifNewRequest("GET", idpOpenIDCJWKSPath, nil))
	if rr.Code != 200 {
		t.Fatalf("jwks: %d", rr.Code)
	}
	var j c12JWKS
	if err := json.Unmarshal(rr.Body.Bytes(), &j.set); err != nil {
		t.Fatal(err)
	}
	j.algs = []jose.SignatureAlgorithm{jose.RS256, jose.ES256, jose.ES384, jose.ES512, jose.EdDSA}
	return &j
}

// the token verifies under one of the published keys and its kid names a published key
func (j *c12JWKS) verifies(raw string, dest interface{}) (bool, bool) {
	tok, err := jwt.ParseSigned(raw, j.algs)
	if err != nil {
		return false, false
	}
	kidOK := false
	if len(tok.Headers) > 0 {
		kidOK = len(j.set.Key(tok.Headers[0].KeyID)) > 0
	}
	for _, k := range j.set.Keys {
		if tok.Claims(k.Key, dest) == nil {
			return true, kidOK
		}
	}
	return false, kidOK
}

func TestVerif_C12(t *testing.T) {
	verifWriteConsts(t)
	res := newVerifResult("token endpoint over the full product: caller {client with secret, secret-less client, unknown} x secret {right, wrong, none} x verifier {right, wrong, none} x challenge bound into the code {S256, plain, empty method, unknown method, none} x redirect {same, other} x code {fresh, expired, tampered, issued to the other client, a session cookie, an access token} x credentials in {header, form, header url-escaped} = 4860 requests (codes from the real authorize endpoint where it admits the challenge method, otherwise signed in-package); every released ID token decoded and verified under the served JWKS, every released access token taken to userinfo; ~70 authorization requests; ~60 userinfo probes (other kinds, audiences, header/form/query); non-trivial = the request passed client lookup; distinct by combination")
	env := verifSetup(t, c12Config)
	st := env.state
	sid := env.signerKeyID()
	prod := env.c04Produce2(t)
	env.writeTokenConsts(t, prod)
	jwks := env.c12FetchJWKS(t)
	issuer := st.idpGetIssuer()

	callers := []struct{ id, secret, user, codeClient, otherClient string }{
		{c04ClientA, c04SecretA, "alice", c04ClientA, c04ClientB},
		{c04ClientB, "", "bob", c04ClientB, c04ClientA},
		{"clientX", c04SecretA, "alice", c04ClientA, c04ClientB},
	}

	// ---- the table of codes, index ((caller*5)+challenge)*6+state
	var codes []*c12Code
	tMint0 := time.Now().UnixNano()
	accessTok := prod.access
	for cl, c := range callers {
		for ck := 0; ck < 5; ck++ {
			chal, meth := c12Challenge(ck)
			real := ck == 0 || ck == 2 || ck == 4
			var fresh *symTok
			var minted int64
			if real {
				fresh, minted = env.c12Authorize(t, c.user, c.codeClient, ck)
			} else {
				fresh, minted = env.c12Mint(c.codeClient, c.user, chal, meth, 100, "")
			}
			codes = append(codes, &c12Code{tok: fresh, client: c.codeClient, user: c.user, minted: minted, chal: ck, state: 0})
			exp, m2 := env.c12Mint(c.codeClient, c.user, chal, meth, 1000, "")
			codes = append(codes, &c12Code{tok: exp, client: c.codeClient, user: c.user, minted: m2, chal: ck, state: 1})
			// one payload character changed
			parts := strings.Split(fresh.raw, ".")
			pos := len(parts[0]) + 1 + len(parts[1])/2
			nb := byte('A')
			if fresh.raw[pos] == 'A' {
				nb = 'B'
			}
			tam := env.tokCorrupt(fresh.raw, pos, nb, "code tampered")
			codes = append(codes, &c12Code{tok: tam, client: c.codeClient, user: c.user, minted: minted, chal: ck, state: 2})
			var other *symTok
			var m3 int64
			if real {
				other, m3 = env.c12Authorize(t, c.user, c.otherClient, ck)
			} else {
				other, m3 = env.c12Mint(c.otherClient, c.user, chal, meth, 100, "")
			}
			codes = append(codes, &c12Code{tok: other, client: c.otherClient, user: c.user, minted: m3, chal: ck, state: 3})
			codes = append(codes, &c12Code{tok: prod.session, state: 4, chal: ck})
			codes = append(codes, &c12Code{tok: accessTok, state: 5, chal: ck})
			_ = cl
		}
	}
	res.Extra["codes"] = len(codes)

	// ---- the product
	type released struct {
		idx        int
		idt, act   *symTok
		userinfo   string
		uiAnswered bool
	}
	var observed []byte
	var rel []released
	hitOnce := map[string]bool{}
	hit := func(key, oracle, what string, c interface{}, obs interface{}) {
		if hitOnce[key+what] {
			return
		}
		hitOnce[key+what] = true
		res.hit(verifHit{Key: key, Oracle: oracle, What: what, Case: c, Observed: obs})
	}
	userinfoOf := func(act string) (string, bool, int) {
		req := verifNewRequest("GET", idpOpenIDCUserinfoPath, nil)
		req.Header.Set("Authorization", "Bearer "+act)
		rr, _ := env.serve(req)
		if rr.Code != 200 {
			return "", false, rr.Code
		}
		var ui openidConnectUserInfo
		if json.Unmarshal(rr.Body.Bytes(), &ui) != nil {
			return "", false, rr.Code
		}
		return ui.Subject, true, rr.Code
	}
	t0 := time.Now().UnixNano()
	idx := 0
	for cl, c := range callers {
		for sm := 0; sm < 3; sm++ {
			secret := []string{c.secret, c12WrongSecret, ""}[sm]
			for vm := 0; vm < 3; vm++ {
				verifier := []string{c12V, c12W, ""}[vm]
				for ck := 0; ck < 5; ck++ {
					for rd := 0; rd < 2; rd++ {
						redirect := []string{c12RedirectSame, c12RedirectDiff}[rd]
						for cs := 0; cs < 6; cs++ {
							code := codes[(cl*5+ck)*6+cs]
							for loc := 0; loc < 3; loc++ {
								form := url.Values{"grant_type": {"authorization_code"}, "redirect_uri": {redirect}, "code": {code.tok.raw}}
								if verifier != "" {
									form.Set("code_verifier", verifier)
								}
								if loc == 1 {
									form.Set("client_id", c.id)
									if secret != "" {
										form.Set("client_secret", secret)
									}
								}
								req := verifNewRequest("POST", idpOpenIDCTokenPath, form)
								switch loc {
								case 0:
									req.SetBasicAuth(c.id, secret)
								case 2:
									req.SetBasicAuth(url.QueryEscape(c.id), url.QueryEscape(secret))
								}
								rr, _ := env.serve(req)
								var tr tokenResponse
								ok := rr.Code == 200 && json.Unmarshal(rr.Body.Bytes(), &tr) == nil && tr.IDToken != ""
								combo := map[string]interface{}{"caller": c.id, "secret": []string{"right", "wrong", "none"}[sm], "verifier": []string{"right", "wrong", "none"}[vm],
									"challenge": []string{"S256", "plain", "empty-method", "unknown-method", "no-challenge"}[ck], "redirect": []string{"same", "other"}[rd],
									"code": []string{"fresh", "expired", "tampered", "other-client", "session-cookie", "access-token"}[cs], "location": []string{"header", "form", "header-escaped"}[loc], "index": idx}
								if ok {
									observed = append(observed, 1)
									res.bump("released")
									// the statement's own predicate
									reason := ""
									pkceMatch := (ck == 0 || ck == 1 || ck == 2) && vm == 0
									switch {
									case cl == 2:
										reason = "unknown-client"
									case cs == 1:
										reason = "expired-code"
									case cs == 2:
										reason = "tampered-code"
									case cs == 3:
										reason = "code-of-other-client"
									case cs >= 4:
										reason = "not-a-code"
									case rd != 0:
										reason = "redirect-differs"
									case c.secret != "" && sm != 0:
										reason = "secret-not-shown"
									case c.secret == "" && !pkceMatch:
										reason = "pkce-not-matched"
									}
									if reason != "" {
										hit("C12:released:"+reason, "the token endpoint released tokens to a caller that did not prove to be the client of a fresh code with the bound redirect URI",
											fmt.Sprintf("tokens released although %s: %v", reason, combo), combo, map[string]interface{}{"status": rr.Code})
									}
									idt := newSymTok(tr.IDToken, sid, false, "id")
									act := newSymTok(tr.AccessToken, sid, false, "access")
									r := released{idx: idx, idt: idt, act: act}
									// ID token: issuer, sole audience, subject, nonce, expiry, JWKS
									var idc openIDConnectIDToken
									verified, kidOK := jwks.verifies(tr.IDToken, &idc)
									bad := ""
									switch {
									case !verified:
										bad = "does not verify under the served JWKS"
									case !kidOK:
										bad = "kid names no published key"
									case idc.Issuer != issuer:
										bad = "issuer " + idc.Issuer
									case len(idc.Audience) != 1 || idc.Audience[0] != c.id:
										bad = fmt.Sprintf("audience %v (caller %s)", idc.Audience, c.id)
									case cs < 4 && idc.Subject != code.user:
										bad = fmt.Sprintf("subject %q, logged in was %q", idc.Subject, code.user)
									case cs < 4 && idc.Nonce != c12Nonce:
										bad = "nonce " + idc.Nonce
									case cs < 4 && idc.Expiration > code.minted+16*3600+1:
										bad = fmt.Sprintf("expires %d s after authorization + 16 h", idc.Expiration-code.minted-16*3600)
									}
									if bad != "" {
										hit("C12:idtoken:"+strings.SplitN(bad, " ", 2)[0], "the ID token must name this issuer, the client as sole audience, the user of the authorization step, echo the nonce, expire within 16 h of authorization and verify under the JWKS",
											"ID token "+bad, combo, map[string]interface{}{"id_token_claims": idt.claims})
									}
									u, answered, _ := userinfoOf(tr.AccessToken)
									r.userinfo, r.uiAnswered = u, answered
									if cs < 4 && (!answered || u != code.user) {
										hit("C12:userinfo:subject", "the access token must make userinfo return the user of the authorization step",
											fmt.Sprintf("userinfo answered %q (answered=%v) for the access token of a code minted for %q", u, answered, code.user), combo, nil)
									}
									rel = append(rel, r)
								} else {
									observed = append(observed, 0)
									res.bump(fmt.Sprintf("refused_%d", rr.Code))
								}
								res.eval(fmt.Sprintf("%d|%v", idx, ok), rr.Code != 400 || cl != 2)
								idx++
							}
						}
					}
				}
			}
		}
	}
	t1 := time.Now().UnixNano()
	if len(rel) == 0 {
		hit("C12:harness:nothing-released", "harness", "no combination released tokens", nil, nil)
	}

	// ---- single requests outside the product: expiry boundaries of the code, malformed requests
	type tokCase struct {
		coq      string
		t0, t1   int64
		released bool
		label    string
	}
	var tcs []tokCase
	single := func(label, method string, code *symTok, minted int64, grant, redirect, verifier string, basic []string, formClient, formSecret string, expectRefusal string) {
		form := url.Values{"redirect_uri": {redirect}, "code": {code.raw}}
		if grant != "" {
			form.Set("grant_type", grant)
		}
		if verifier != "" {
			form.Set("code_verifier", verifier)
		}
		if formClient != "" {
			form.Set("client_id", formClient)
		}
		if formSecret != "" {
			form.Set("client_secret", formSecret)
		}
		req := verifNewRequest(method, idpOpenIDCTokenPath, form)
		basicCoq := "None"
		if basic != nil {
			req.SetBasicAuth(basic[0], basic[1])
			// the model takes the credentials after url.QueryUnescape (kept raw when that fails)
			un := func(v string) string {
				if u, err := url.QueryUnescape(v); err == nil {
					return u
				}
				return v
			}
			basicCoq = fmt.Sprintf("Some (%s, %s)", coqStr(un(basic[0])), coqStr(un(basic[1])))
		}
		s0 := time.Now().UnixNano()
		rr, _ := env.serve(req)
		s1 := time.Now().UnixNano()
		var tr tokenResponse
		ok := rr.Code == 200 && json.Unmarshal(rr.Body.Bytes(), &tr) == nil && tr.IDToken != ""
		if ok && expectRefusal != "" {
			hit("C12:released:"+expectRefusal, "the token endpoint released tokens to a caller that did not prove to be the client of a fresh code with the bound redirect URI",
				fmt.Sprintf("tokens released although %s (%s; code minted %d s before the request)", expectRefusal, label, s0/1e9-minted),
				map[string]interface{}{"label": label, "code": code.raw, "minted": minted, "request_time": s0 / 1e9}, map[string]interface{}{"status": rr.Code})
		}
		vh := ""
		if verifier != "" {
			vh = c12S256(verifier)
		}
		coq := fmt.Sprintf("{| tr_post := %s; tr_grant := %s; tr_redirect := %s; tr_code := %s; tr_verifier := %s; tr_vhash := %s; tr_basic := %s; tr_form_client := %s; tr_form_secret := %s |}",
			coqBool(method == "POST"), coqStr(grant), coqStr(redirect), env.coqToken(code), coqStr(verifier), coqStr(vh), basicCoq, coqStr(formClient), coqStr(formSecret))
		tcs = append(tcs, tokCase{coq: coq, t0: s0, t1: s1, released: ok, label: label})
		res.eval("single|"+label+fmt.Sprint(ok), true)
		res.bump("single-request")
	}
	for _, age := range []int64{0, 200, 285, 302, 305, 315, 330, 345, 358, 362, 400, 3600, 57000, 57700} {
		why := ""
		if age > 300 {
			why = "expired-code"
		}
		ca, ma := env.c12Mint(c04ClientA, "alice", "", "", age, "")
		single(fmt.Sprintf("expiry: client with secret, code %d s old", age), "POST", ca, ma, "authorization_code", c12RedirectSame, "", []string{c04ClientA, c04SecretA}, "", "", why)
		cb, mb := env.c12Mint(c04ClientB, "bob", c12S256(c12V), "S256", age, "")
		single(fmt.Sprintf("expiry: PKCE client, code %d s old", age), "POST", cb, mb, "authorization_code", c12RedirectSame, c12V, nil, c04ClientB, "", why)
	}
	{
		ca, ma := env.c12Mint(c04ClientA, "alice", "", "", 10, "")
		cb, mb := env.c12Mint(c04ClientB, "bob", c12S256(c12V), "S256", 10, "")
		cbn, mbn := env.c12Mint(c04ClientB, "bob", c12S256(c12V), "S256", 10, "another-nonce-0123456789")
		single("GET instead of POST", "GET", ca, ma, "authorization_code", c12RedirectSame, "", []string{c04ClientA, c04SecretA}, "", "", "")
		single("grant_type=refresh_token", "POST", ca, ma, "refresh_token", c12RedirectSame, "", []string{c04ClientA, c04SecretA}, "", "", "")
		single("grant_type absent", "POST", ca, ma, "", c12RedirectSame, "", []string{c04ClientA, c04SecretA}, "", "", "")
		single("header right, form wrong", "POST", ca, ma, "authorization_code", c12RedirectSame, "", []string{c04ClientA, c04SecretA}, c04ClientB, c12WrongSecret, "")
		single("header wrong, form right", "POST", ca, ma, "authorization_code", c12RedirectSame, "", []string{c04ClientA, c12WrongSecret}, c04ClientA, c04SecretA, "secret-not-shown")
		single("header names B, code of A, form names A with the right secret", "POST", ca, ma, "authorization_code", c12RedirectSame, "", []string{c04ClientB, ""}, c04ClientA, c04SecretA, "code-of-other-client")
		single("PKCE client: header with empty password, no verifier", "POST", cb, mb, "authorization_code", c12RedirectSame, "", []string{c04ClientB, ""}, "", "", "pkce-not-matched")
		single("PKCE client: header with empty password, right verifier", "POST", cb, mb, "authorization_code", c12RedirectSame, c12V, []string{c04ClientB, ""}, "", "", "")
		single("PKCE client: challenge sealed under another nonce", "POST", cbn, mbn, "authorization_code", c12RedirectSame, c12V, nil, c04ClientB, "", "pkce-not-matched")
		single("PKCE client: verifier = the S256 challenge itself", "POST", cb, mb, "authorization_code", c12RedirectSame, c12S256(c12V), nil, c04ClientB, "", "pkce-not-matched")
		// near misses of the two string comparisons
		for _, sec := range []string{strings.ToUpper(c04SecretA), c04SecretA[:len(c04SecretA)-1], c04SecretA + "x", " " + c04SecretA, c04SecretA + "\x00", url.QueryEscape(url.QueryEscape(c04SecretA))} {
			single(fmt.Sprintf("client with secret: near-miss secret %q in header", sec), "POST", ca, ma, "authorization_code", c12RedirectSame, "", []string{c04ClientA, url.QueryEscape(sec)}, "", "", "secret-not-shown")
			single(fmt.Sprintf("client with secret: near-miss secret %q in form", sec), "POST", ca, ma, "authorization_code", c12RedirectSame, "", nil, c04ClientA, sec, "secret-not-shown")
		}
		for _, v := range []string{strings.ToUpper(c12V), c12V[:len(c12V)-1], c12V + "x", " " + c12V, c12S256(c12V)[:42]} {
			single(fmt.Sprintf("PKCE client: near-miss verifier %q", v), "POST", cb, mb, "authorization_code", c12RedirectSame, v, nil, c04ClientB, "", "pkce-not-matched")
		}
		for _, rdr := range []string{c12RedirectSame + "/", strings.ToUpper(c12RedirectSame), c12RedirectSame[:len(c12RedirectSame)-1], c12RedirectSame + "?x=1", "https://rp.apps.example/cb/../cb"} {
			single(fmt.Sprintf("near-miss redirect %q", rdr), "POST", ca, ma, "authorization_code", rdr, "", []string{c04ClientA, c04SecretA}, "", "", "redirect-differs")
		}
		for _, id := range []string{strings.ToUpper(c04ClientA), c04ClientA + " ", c04ClientA[:len(c04ClientA)-1]} {
			single(fmt.Sprintf("near-miss client id %q", id), "POST", ca, ma, "authorization_code", c12RedirectSame, "", []string{url.QueryEscape(id), url.QueryEscape(c04SecretA)}, "", "", "unknown-client")
		}
		// seeded random one-byte changes of each compared string (thorough: 400 each)
		{
			rng := verifRand()
			n := 12
			if verifThorough() {
				n = 400
			}
			flip := func(v string) string {
				b := []byte(v)
				switch rng.Intn(4) {
				case 0:
					b[rng.Intn(len(b))] ^= byte(1 << uint(rng.Intn(7)))
				case 1:
					i := rng.Intn(len(b))
					b = append(b[:i], b[i+1:]...)
				case 2:
					i := rng.Intn(len(b) + 1)
					b = append(b[:i], append([]byte{byte(33 + rng.Intn(90))}, b[i:]...)...)
				default:
					i, j := rng.Intn(len(b)), rng.Intn(len(b))
					b[i], b[j] = b[j], b[i]
				}
				return string(b)
			}
			for i := 0; i < n; i++ {
				if sec := flip(c04SecretA); sec != c04SecretA {
					single(fmt.Sprintf("random near-miss secret %q", sec), "POST", ca, ma, "authorization_code", c12RedirectSame, "", nil, c04ClientA, sec, "secret-not-shown")
				}
				if v := flip(c12V); v != c12V {
					single(fmt.Sprintf("random near-miss verifier %q", v), "POST", cb, mb, "authorization_code", c12RedirectSame, v, nil, c04ClientB, "", "pkce-not-matched")
				}
				if rdr := flip(c12RedirectSame); rdr != c12RedirectSame {
					single(fmt.Sprintf("random near-miss redirect %q", rdr), "POST", ca, ma, "authorization_code", rdr, "", nil, c04ClientA, c04SecretA, "redirect-differs")
				}
				if id := flip(c04ClientA); id != c04ClientA && id != c04ClientB {
					single(fmt.Sprintf("random near-miss client id %q", id), "POST", ca, ma, "authorization_code", c12RedirectSame, "", nil, id, c04SecretA, "unknown-client")
				}
			}
		}
		single("client with secret: the secret of nobody, verifier of B's code", "POST", cb, mb, "authorization_code", c12RedirectSame, c12V, nil, c04ClientA, "", "code-of-other-client")
	}

	// ---- the authorization step
	type authzCase struct {
		user   string
		coq    string
		t0, t1 int64
		tok    *symTok
		label  string
	}
	var authz []authzCase
	runAuthz := func(label, method string, q url.Values) {
		client := q.Get("client_id")
		scopeOK := false
		for _, s := range strings.Split(q.Get("scope"), " ") {
			if s == "openid" {
				scopeOK = true
			}
		}
		redirectOK, audOK := false, false
		if cc, err := st.idpOpenIDCGetClientConfig(client); err == nil {
			ok, _, err := cc.CanRedirectToURL(q.Get("redirect_uri"))
			redirectOK = ok && err == nil
			if q.Get("audience") != "" {
				a, err := cc.CorsOriginAllowed(q.Get("audience"))
				audOK = cc.RequestedAudienceIsAllowed(q.Get("audience")) && a && err == nil
			}
		}
		var req *http.Request
		if method == "GET" {
			req = verifNewRequest("GET", idpOpenIDCAuthorizationPath, q)
		} else {
			req = verifNewRequest(method, idpOpenIDCAuthorizationPath, q)
		}
		req.AddCookie(env.cookie("alice", AuthTypePassword))
		a0 := time.Now().UnixNano()
		rr, _ := env.serve(req)
		a1 := time.Now().UnixNano()
		var tok *symTok
		jti := ""
		if rr.Code == 302 {
			if loc, err := url.Parse(rr.Header().Get("Location")); err == nil && loc.Query().Get("code") != "" {
				tok = newSymTok(loc.Query().Get("code"), sid, false, "authorize:"+label)
				jti, _ = tok.claims["jti"].(string)
				if !strings.HasPrefix(rr.Header().Get("Location"), q.Get("redirect_uri")+"?") {
					hit("C12:authorize:redirect-target", "the code is delivered to the requested redirect URI", "Location "+rr.Header().Get("Location"), label, nil)
				}
			}
		}
		coq := fmt.Sprintf("{| ar_method_ok := %s; ar_response_type := %s; ar_client := %s; ar_scope := %s; ar_scope_openid := %s; ar_redirect := %s; ar_redirect_ok := %s; ar_challenge := %s; ar_method := %s; ar_audience := %s; ar_audience_ok := %s; ar_nonce := %s; ar_jti := %s |}",
			coqBool(method == "GET" || method == "POST"), coqStr(q.Get("response_type")), coqStr(client), coqStr(q.Get("scope")), coqBool(scopeOK),
			coqStr(q.Get("redirect_uri")), coqBool(redirectOK), coqStr(q.Get("code_challenge")), coqStr(q.Get("code_challenge_method")),
			coqStr(q.Get("audience")), coqBool(audOK), coqStr(q.Get("nonce")), coqStr(jti))
		authz = append(authz, authzCase{user: "alice", coq: coq, t0: a0, t1: a1, tok: tok, label: label})
		res.eval("authorize|"+label, tok != nil)
		res.bump("authorize")
	}
	baseQ := func() url.Values {
		return url.Values{"response_type": {"code"}, "client_id": {c04ClientA}, "scope": {"openid"}, "redirect_uri": {c12RedirectSame}, "nonce": {c12Nonce}, "state": {"s"}}
	}
	with := func(kv ...string) url.Values {
		q := baseQ()
		for i := 0; i+1 < len(kv); i += 2 {
			if kv[i+1] == "\x00" {
				q.Del(kv[i])
			} else {
				q.Set(kv[i], kv[i+1])
			}
		}
		return q
	}
	runAuthz("base", "GET", baseQ())
	runAuthz("post", "POST", baseQ())
	runAuthz("put", "PUT", baseQ())
	for _, v := range []string{"token", "", "code token", "CODE"} {
		runAuthz("response_type="+v, "GET", with("response_type", v))
	}
	for _, v := range []string{c04ClientB, "clientX", "", "clienta"} {
		runAuthz("client="+v, "GET", with("client_id", v))
	}
	for _, v := range []string{"openid profile", "profile openid email", "profile", "", "openidx", "OPENID", "openid  ", "open id"} {
		runAuthz("scope="+v, "GET", with("scope", v))
	}
	for _, v := range []string{c12RedirectDiff, "https://rp.evil.example/cb", "http://rp.apps.example/cb", "https://rp.apps.example/cb?x=1", ""} {
		runAuthz("redirect="+v, "GET", with("redirect_uri", v))
	}
	for _, v := range []string{"", "1", "12345", "123456", "a-long-nonce-value-0123456789"} {
		runAuthz("nonce="+v, "GET", with("nonce", v))
	}
	runAuthz("nonce-absent", "GET", with("nonce", "\x00"))
	for _, cl := range []string{c04ClientA, c04ClientB} {
		for _, m := range []string{"\x00", "", "S256", "plain", "S512", "s256"} {
			for _, ch := range []string{c12S256(c12V), "x"} {
				runAuthz(fmt.Sprintf("client=%s challenge=%s method=%q", cl, ch[:1], m), "GET", with("client_id", cl, "code_challenge", ch, "code_challenge_method", m))
			}
		}
		runAuthz("client="+cl+" method-without-challenge", "GET", with("client_id", cl, "code_challenge_method", "plain"))
		for _, a := range []string{c12Audience, "https://api.evil.example", "http://api.apps.example", "https://apps.example"} {
			runAuthz("client="+cl+" audience="+a, "GET", with("client_id", cl, "audience", a))
		}
	}

	// ---- userinfo probes
	type uiCase struct {
		tok      *symTok
		t0, t1   int64
		answered bool
		user     string
		label    string
	}
	var uis []uiCase
	accessCons := &c04Consumer{name: "userinfo", kind: "access"}
	probe := func(s *symTok, how, label string) {
		var req *http.Request
		switch how {
		case "header":
			req = verifNewRequest("GET", idpOpenIDCUserinfoPath, nil)
			req.Header.Set("Authorization", "Bearer "+s.raw)
		case "form":
			req = verifNewRequest("POST", idpOpenIDCUserinfoPath, url.Values{"access_token": {s.raw}})
		default:
			req = verifNewRequest("GET", idpOpenIDCUserinfoPath, url.Values{"access_token": {s.raw}})
		}
		u0 := time.Now().UnixNano()
		rr, _ := env.serve(req)
		u1 := time.Now().UnixNano()
		c := uiCase{tok: s, t0: u0, t1: u1, label: label + " via " + how}
		if rr.Code == 200 {
			var ui openidConnectUserInfo
			if json.Unmarshal(rr.Body.Bytes(), &ui) == nil {
				c.answered, c.user = true, ui.Subject
			}
		}
		if c.answered {
			if d := env.c04Defect(s, accessCons, u0/1e9); d != "" {
				hit("C12:userinfo:answered:"+d, "userinfo answers only for a genuine, current access token of this server", fmt.Sprintf("userinfo answered %q for a token with defect %q (%s)", c.user, d, s.note), label, nil)
			} else if un, _ := s.claims["username"].(string); un != c.user {
				hit("C12:userinfo:other-user", "userinfo names the user of the access token", fmt.Sprintf("userinfo answered %q for a token of %q", c.user, un), label, nil)
			}
		}
		uis = append(uis, c)
		res.eval("userinfo|"+label+"|"+how, s.claims != nil)
		res.bump("userinfo")
	}
	// an access token with a client-chosen audience, through the real flow
	{
		code, status := env.c04Authorize(t, "alice", c04ClientA, c12RedirectSame, url.Values{"audience": {c12Audience}})
		if code == "" {
			t.Fatalf("authorize with audience refused: %d", status)
		}
		_, _, act := env.c04Token(url.Values{"grant_type": {"authorization_code"}, "redirect_uri": {c12RedirectSame}, "code": {code}}, c04ClientA, c04SecretA, true)
		if act == "" {
			t.Fatalf("token endpoint refused the code with audience")
		}
		s := newSymTok(act, sid, false, "access with chosen audience (real flow)")
		for _, how := range []string{"header", "form", "query"} {
			probe(s, how, "audience-flow")
		}
		now := time.Now().Unix()
		for _, m := range []struct {
			label string
			f     func(c map[string]interface{})
		}{
			{"aud=[other]", func(c map[string]interface{}) { c["aud"] = []string{c12Audience} }},
			{"aud=[userinfo]", func(c map[string]interface{}) { c["aud"] = []string{issuer + idpOpenIDCUserinfoPath} }},
			{"aud=[other,userinfo]", func(c map[string]interface{}) { c["aud"] = []string{c12Audience, issuer + idpOpenIDCUserinfoPath} }},
			{"aud=[userinfo-prefix]", func(c map[string]interface{}) { c["aud"] = []string{issuer + idpOpenIDCUserinfoPath + "/x"} }},
			{"aud-absent", func(c map[string]interface{}) { delete(c, "aud") }},
			{"exp=past", func(c map[string]interface{}) { c["exp"] = now - 600 }},
			{"type=Bearer", func(c map[string]interface{}) { c["type"] = "Bearer" }},
			{"type-absent", func(c map[string]interface{}) { delete(c, "type") }},
			{"token_type=bearer-only", func(c map[string]interface{}) { delete(c, "type"); c["token_type"] = "bearer" }},
			{"iss=other", func(c map[string]interface{}) { c["iss"] = "https://other.example" }},
			{"username=bob", func(c map[string]interface{}) { c["username"] = "bob" }},
			{"username-absent", func(c map[string]interface{}) { delete(c, "username") }},
		} {
			claims := cloneClaims(s.claims)
			m.f(claims)
			probe(env.tokServerSigned(claims, "access "+m.label+" server-key"), "header", m.label)
			probe(tokForeignSigned(claims, false, "access "+m.label+" foreign-key"), "header", m.label+" foreign")
		}
	}
	for _, p := range []*symTok{prod.session, prod.cli, prod.storage, prod.code, prod.id, prod.access} {
		for _, how := range []string{"header", "form", "query"} {
			probe(p, how, p.note)
		}
	}
	if len(rel) > 0 {
		probe(rel[0].idt, "header", "released id token")
		probe(rel[0].act, "form", "released access token")
	}

	// ---- Coq case file
	var sb strings.Builder
	sb.WriteString(coqCaseHeader)
	sb.WriteString("From KM Require Import Base.Cases Model.Tokens Model.OIDC Model.TokenCases Model.OIDCEnum.\nOpen Scope Z_scope.\n")
	sb.WriteString("Definition c12_idp : idp :=\n  " + env.coqIdp() + ".\n")
	sb.WriteString("Definition codes : list token := [\n")
	for i, c := range codes {
		sep := ";"
		if i == len(codes)-1 {
			sep = ""
		}
		sb.WriteString(" " + env.coqToken(c.tok) + sep + "\n")
	}
	sb.WriteString("].\n")
	var cl []string
	for _, c := range callers {
		cl = append(cl, fmt.Sprintf("(%s, %s)", coqStr(c.id), coqStr(c.secret)))
	}
	sb.WriteString(fmt.Sprintf("Definition c12_env : c12env :=\n  {| e_callers := [%s]; e_wrong_secret := %s; e_V := %s; e_W := %s; e_HV := %s; e_HW := %s;\n     e_red_same := %s; e_red_diff := %s; e_codes := codes |}.\n",
		strings.Join(cl, "; "), coqStr(c12WrongSecret), coqStr(c12V), coqStr(c12W), coqStr(c12S256(c12V)), coqStr(c12S256(c12W)), coqStr(c12RedirectSame), coqStr(c12RedirectDiff)))
	sb.WriteString("Definition observed : bs := " + coqPacked(observed) + ".\n")
	sb.WriteString(fmt.Sprintf("Definition c12_product_mismatches := Eval vm_compute in product_mismatches c12_idp c12_env (%d)%%Z (%d)%%Z observed.\nPrint c12_product_mismatches.\n", t0, t1))
	sb.WriteString("Definition c12_ncases := Eval vm_compute in length all_combos.\nPrint c12_ncases.\n")
	sb.WriteString("Definition released_cases : list (nat * claimset * claimset * option bs) := [\n")
	for i, r := range rel {
		sep := ";"
		if i == len(rel)-1 {
			sep = ""
		}
		ui := "None"
		if r.uiAnswered {
			ui = "Some " + coqStr(r.userinfo)
		}
		sb.WriteString(fmt.Sprintf(" (%d%%nat, %s, %s, %s)%s\n", r.idx, env.coqClaims(r.idt), env.coqClaims(r.act), ui, sep))
	}
	sb.WriteString(fmt.Sprintf("].\nDefinition c12_release_mismatches := Eval vm_compute in mismatches (release_bad c12_idp c12_env (%d)%%Z (%d)%%Z) released_cases.\nPrint c12_release_mismatches.\n", t0, t1))
	sb.WriteString("Definition token_cases : list (treq * Z * Z * bool) := [\n")
	for i, c := range tcs {
		sep := ";"
		if i == len(tcs)-1 {
			sep = ""
		}
		sb.WriteString(fmt.Sprintf(" (%s, (%d)%%Z, (%d)%%Z, %s)%s\n", c.coq, c.t0, c.t1, coqBool(c.released), sep))
	}
	sb.WriteString("].\nDefinition c12_token_mismatches := Eval vm_compute in mismatches (token_bad c12_idp) token_cases.\nPrint c12_token_mismatches.\n")
	sb.WriteString("Definition authorize_cases : list (bs * areq * Z * Z * option claimset) := [\n")
	for i, a := range authz {
		sep := ";"
		if i == len(authz)-1 {
			sep = ""
		}
		obs := "None"
		if a.tok != nil {
			obs = "Some " + env.coqClaims(a.tok)
		}
		sb.WriteString(fmt.Sprintf(" (%s, %s, (%d)%%Z, (%d)%%Z, %s)%s\n", coqStr(a.user), a.coq, a.t0, a.t1, obs, sep))
	}
	sb.WriteString("].\nDefinition c12_authorize_mismatches := Eval vm_compute in mismatches (authorize_bad c12_idp) authorize_cases.\nPrint c12_authorize_mismatches.\n")
	sb.WriteString("Definition userinfo_cases : list (token * Z * Z * option bs) := [\n")
	for i, u := range uis {
		sep := ";"
		if i == len(uis)-1 {
			sep = ""
		}
		obs := "None"
		if u.answered {
			obs = "Some " + coqStr(u.user)
		}
		sb.WriteString(fmt.Sprintf(" (%s, (%d)%%Z, (%d)%%Z, %s)%s\n", env.coqToken(u.tok), u.t0, u.t1, obs, sep))
	}
	sb.WriteString("].\nDefinition c12_userinfo_mismatches := Eval vm_compute in mismatches (userinfo_bad c12_idp) userinfo_cases.\nPrint c12_userinfo_mismatches.\n")
	if err := ioutil.WriteFile(filepath.Join(verifOut(), "CasesC12.v"), []byte(sb.String()), 0644); err != nil {
		t.Fatal(err)
	}
	// index: product lines first (same order), then the other lists
	var ix strings.Builder
	n := 0
	for cl2 := 0; cl2 < 3; cl2++ {
		for sm := 0; sm < 3; sm++ {
			for vm := 0; vm < 3; vm++ {
				for ck := 0; ck < 5; ck++ {
					for rd := 0; rd < 2; rd++ {
						for cs := 0; cs < 6; cs++ {
							for loc := 0; loc < 3; loc++ {
								ix.WriteString(fmt.Sprintf("%d\tcaller=%d secret=%d verifier=%d challenge=%d redirect=%d code=%d location=%d released=%d\n", n, cl2, sm, vm, ck, rd, cs, loc, observed[n]))
								n++
							}
						}
					}
				}
			}
		}
	}
	ioutil.WriteFile(filepath.Join(verifOut(), "CasesC12.idx"), []byte(ix.String()), 0644)
	var ix2 strings.Builder
	for i, c := range tcs {
		ix2.WriteString(fmt.Sprintf("token %d\t%s\treleased=%v\n", i, c.label, c.released))
	}
	for i, a := range authz {
		ix2.WriteString(fmt.Sprintf("authorize %d\t%s\tissued=%v\n", i, a.label, a.tok != nil))
	}
	for i, u := range uis {
		ix2.WriteString(fmt.Sprintf("userinfo %d\t%s\tanswered=%v user=%q\n", i, u.label, u.answered, u.user))
	}
	ioutil.WriteFile(filepath.Join(verifOut(), "CasesC12_other.idx"), []byte(ix2.String()), 0644)
	res.Extra["released"] = len(rel)
	res.Extra["mint_window_ns"] = []int64{tMint0, t0, t1}
	for i := 0; i < len(rel) && i < 3; i++ {
		res.sample(map[string]interface{}{"index": rel[i].idx, "id_token_claims": rel[i].idt.claims, "userinfo": rel[i].userinfo})
	}
	res.Exhaustive = true
	if len(env.panics) > 0 {
		res.hit(verifHit{Key: "C12:panic", Oracle: "an OpenID endpoint panicked", What: env.panics[0], Case: env.panics})
	}
	res.write(t, "TestVerif_C12")
}

// the producers of c04Produce for a configuration whose client A redirects to c12RedirectSame
func (env *verifEnv) c04Produce2(t *testing.T) *c04Produced {
	st := env.state
	sid := env.signerKeyID()
	p := &c04Produced{}
	v, err := st.setNewAuthCookie(nil, "alice", AuthTypePassword)
	if err != nil {
		t.Fatal(err)
	}
	p.session = newSymTok(v, sid, false, "producer:session")
	p.sessionLogin = p.session
	v, err = st.generateAuthJWT("alice")
	if err != nil {
		t.Fatal(err)
	}
	p.cli = newSymTok(v, sid, false, "producer:cli")
	p.cliPage = p.cli
	v, err = st.genNewSerializedStorageStringDataJWT("alice", c04DataType, "data", time.Now().Unix()+5000)
	if err != nil {
		t.Fatal(err)
	}
	p.storage = newSymTok(v, sid, false, "producer:storage")
	code, status := env.c04Authorize(t, "alice", c04ClientA, c12RedirectSame, nil)
	if code == "" {
		t.Fatalf("authorize refused: %d", status)
	}
	p.code = newSymTok(code, sid, false, "producer:code")
	status, idt, act := env.c04Token(url.Values{"grant_type": {"authorization_code"}, "redirect_uri": {c12RedirectSame}, "code": {code}}, c04ClientA, c04SecretA, true)
	if idt == "" {
		t.Fatalf("token endpoint refused a fresh code: %d", status)
	}
	p.id = newSymTok(idt, sid, false, "producer:id")
	p.access = newSymTok(act, sid, false, "producer:access")
	return p
}
