package main

// C16 — concurrent requests are race-free and do not undo or double-spend.
//
// The storage functions (and the Lock calls of the two-factor files) of the tree under test are
// supplied to this test binary in an instrumented copy (generated at check time, see
// lib/checks/c16.py) that calls verifYield at entry.  verifYield is a no-op unless a schedule is
// being replayed; then it parks the calling request until the scheduler releases it.

import (
	"bytes"
	"crypto/ecdsa"
	"crypto/elliptic"
	"crypto/rand"
	"crypto/sha256"
	"crypto/sha512"
	"crypto/x509"
	"crypto/x509/pkix"
	"encoding/asn1"
	"encoding/base64"
	"encoding/binary"
	"encoding/json"
	"fmt"
	"io/ioutil"
	"math/big"
	"net/http"
	"net/http/httptest"
	"net/url"
	"path/filepath"
	"reflect"
	"runtime"
	"sort"
	"strconv"
	"strings"
	"sync"
	"sync/atomic"
	"testing"
	"time"
	"unsafe"

	"github.com/pquerna/otp/totp"
	"github.com/tstranex/u2f"
)

// ---------------------------------------------------------------- scheduler

type vEvent struct {
	id    int
	point string
	done  bool
}

type vThread struct {
	id     int
	resume chan struct{}
	done   bool
	parked string
}

type verifSched struct {
	mu      sync.Mutex
	byGoid  map[int64]*vThread
	events  chan vEvent
	threads []*vThread
}

var verifSchedPtr atomic.Pointer[verifSched]

func verifGoid() int64 {
	var buf [64]byte
	n := runtime.Stack(buf[:], false)
	// "goroutine 123 [running]:"
	f := strings.Fields(string(buf[:n]))
	if len(f) < 2 {
		return -1
	}
	id, _ := strconv.ParseInt(f[1], 10, 64)
	return id
}

// the parking point between the row read and the return of LoadUserProfile is taken only by the groups
// that ask for it (it multiplies the schedules of every load)
var verifLoadedOn atomic.Bool

// called by the instrumented copies of storage.go / 2fa_*.go
func verifYield(point string) {
	s := verifSchedPtr.Load()
	if s == nil {
		return
	}
	if point == "Loaded" && !verifLoadedOn.Load() {
		return
	}
	g := verifGoid()
	s.mu.Lock()
	th := s.byGoid[g]
	s.mu.Unlock()
	if th == nil {
		return // a goroutine that is not one of the scheduled requests
	}
	s.events <- vEvent{id: th.id, point: point}
	<-th.resume
}

// a parking point inside code that may or may not run with the mutex held: park only when the mutex
// is free.  One request runs at a time and a parked request never holds a mutex, so a failed TryLock
// means the calling request itself holds it.
func verifYieldIfFree(point string, mu *sync.Mutex) {
	if verifSchedPtr.Load() == nil {
		return
	}
	if mu.TryLock() {
		mu.Unlock()
		verifYield(point)
	}
}

type vStep struct {
	thread   int
	point    string // where the thread was parked when it was released ("Load", "Save", "Del", "Lock")
	runnable []int
}

// run the bodies as scheduled requests: each is started in turn and runs to its first parking
// point; then choose() picks which parked request runs to its next parking point.
func verifRunSchedule(bodies []func(), choose func(step int, runnable []int) int) ([]vStep, error) {
	s := &verifSched{byGoid: map[int64]*vThread{}, events: make(chan vEvent)}
	verifSchedPtr.Store(s)
	defer verifSchedPtr.Store(nil)
	wait := func(id int) error {
		select {
		case ev := <-s.events:
			if ev.id != id {
				return fmt.Errorf("event from thread %d while thread %d was running", ev.id, id)
			}
			th := s.threads[id]
			if ev.done {
				th.done = true
			} else {
				th.parked = ev.point
			}
			return nil
		case <-time.After(30 * time.Second):
			return fmt.Errorf("thread %d neither parked nor finished within 30 s", id)
		}
	}
	for i, body := range bodies {
		th := &vThread{id: i, resume: make(chan struct{})}
		s.threads = append(s.threads, th)
		registered := make(chan bool)
		go func(th *vThread, body func()) {
			s.mu.Lock()
			s.byGoid[verifGoid()] = th
			s.mu.Unlock()
			registered <- true
			defer func() { s.events <- vEvent{id: th.id, done: true} }()
			body()
		}(th, body)
		<-registered
		if err := wait(i); err != nil {
			return nil, err
		}
	}
	var trace []vStep
	for step := 0; ; step++ {
		var runnable []int
		for _, th := range s.threads {
			if !th.done {
				runnable = append(runnable, th.id)
			}
		}
		if len(runnable) == 0 {
			return trace, nil
		}
		pick := choose(step, runnable)
		th := s.threads[pick]
		if th.done {
			// the replayed prefix names a request that has already finished in this run: the requests did
			// not pass the same parking points as in the run the prefix was taken from
			for _, o := range s.threads {
				if !o.done {
					o.done = true
					close(o.resume)
				}
			}
			go func() {
				for range s.events {
				}
			}()
			return trace, fmt.Errorf("not reproducible: step %d of the replayed schedule names request %d, which has already finished (trace so far%s)", step, pick, c16AllPoints(trace))
		}
		trace = append(trace, vStep{thread: pick, point: th.parked, runnable: runnable})
		th.resume <- struct{}{}
		if err := wait(pick); err != nil {
			return trace, err
		}
	}
}

// all maximal schedules, depth first; visit is called with the trace of each
func verifEnumerate(mk func() []func(), visit func(trace []vStep) bool, limit int) (int, error) {
	stack := [][]int{{}}
	n := 0
	for len(stack) > 0 && n < limit {
		prefix := stack[len(stack)-1]
		stack = stack[:len(stack)-1]
		trace, err := verifRunSchedule(mk(), func(step int, runnable []int) int {
			if step < len(prefix) {
				return prefix[step]
			}
			return runnable[0]
		})
		if err != nil {
			return n, err
		}
		n++
		for k := len(trace) - 1; k >= len(prefix); k-- {
			for _, alt := range trace[k].runnable {
				if alt > trace[k].thread {
					p := make([]int, 0, k+1)
					for _, st := range trace[:k] {
						p = append(p, st.thread)
					}
					stack = append(stack, append(p, alt))
				}
			}
		}
		if !visit(trace) {
			break
		}
	}
	return n, nil
}

// ---------------------------------------------------------------- a software U2F token

type c16Token struct {
	key       *ecdsa.PrivateKey
	keyHandle []byte
	raw       []byte
	counter   uint32
}

func c16NewToken() *c16Token {
	k, err := ecdsa.GenerateKey(elliptic.P256(), rand.Reader)
	if err != nil {
		panic(err)
	}
	t := &c16Token{key: k, keyHandle: make([]byte, 32)}
	rand.Read(t.keyHandle)
	tmpl := x509.Certificate{SerialNumber: big.NewInt(1), Subject: pkix.Name{CommonName: "verif soft token"}, NotBefore: time.Now().Add(-time.Hour), NotAfter: time.Now().Add(24 * time.Hour)}
	cert, err := x509.CreateCertificate(rand.Reader, &tmpl, &tmpl, &k.PublicKey, k)
	if err != nil {
		panic(err)
	}
	sig, _ := asn1.Marshal(struct{ R, S *big.Int }{big.NewInt(1), big.NewInt(1)})
	raw := []byte{0x05}
	raw = append(raw, elliptic.Marshal(elliptic.P256(), k.PublicKey.X, k.PublicKey.Y)...)
	raw = append(raw, byte(len(t.keyHandle)))
	raw = append(raw, t.keyHandle...)
	raw = append(raw, cert...)
	raw = append(raw, sig...)
	t.raw = raw
	return t
}

func (t *c16Token) registration() *u2f.Registration {
	var r u2f.Registration
	if err := r.UnmarshalBinary(t.raw); err != nil {
		panic(err)
	}
	return &r
}

// answer a sign request (the JSON body of /u2f/SignRequest)
func (t *c16Token) sign(signRequestJSON []byte) []byte {
	var req u2f.WebSignRequest
	if err := json.Unmarshal(signRequestJSON, &req); err != nil {
		panic(err)
	}
	cd, _ := json.Marshal(u2f.ClientData{Typ: "navigator.id.getAssertion", Challenge: req.Challenge, Origin: u2fTrustedFacets[0]})
	t.counter++
	data := []byte{1, 0, 0, 0, 0}
	binary.BigEndian.PutUint32(data[1:], t.counter)
	app := sha256.Sum256([]byte(req.AppID))
	ch := sha256.Sum256(cd)
	var buf []byte
	buf = append(buf, app[:]...)
	buf = append(buf, data...)
	buf = append(buf, ch[:]...)
	h := sha256.Sum256(buf)
	r, s, err := ecdsa.Sign(rand.Reader, t.key, h[:])
	if err != nil {
		panic(err)
	}
	sig, _ := asn1.Marshal(struct{ R, S *big.Int }{r, s})
	enc := func(b []byte) string { return strings.TrimRight(base64.URLEncoding.EncodeToString(b), "=") }
	out, _ := json.Marshal(u2f.SignResponse{KeyHandle: enc(t.keyHandle), SignatureData: enc(append(data, sig...)), ClientData: enc(cd)})
	return out
}

// ---------------------------------------------------------------- scenario state

const (
	c16Alice = "alice" // two U2F tokens (index 1, 2), one TOTP token
	c16Bob   = "bob"   // no tokens, a bootstrap OTP
	c16Carol = "carol" // does not exist
)

var c16NameCode = map[string]int{"": 0, "tok1": 11, "tok2": 12, "renamed-a": 21, "renamed-b": 22}

const c16BootOTP = "bootstrap-otp-value"
const c16TotpSecret = "JBSWY3DPEHPK3PXPJBSWY3DPEHPK3PXP"

type c16World struct {
	env       *verifEnv
	token     *c16Token
	admin     *http.Cookie
	signBody  []byte     // the token's answer to alice's outstanding U2F challenge
	writeLast bool       // reset ends with a write of every profile (nothing was read since)
	pending   c16Pending // a federated login that was started and waits for its callback (when OAuth2 is configured)
}

func (cw *c16World) reset(t *testing.T) {
	st := cw.env.state
	for _, u := range []string{c16Alice, c16Bob, c16Carol} {
		st.DeleteUserProfile(u)
	}
	p, _, _, _ := st.LoadUserProfile(c16Alice)
	p.U2fAuthData[1] = &u2fAuthData{Enabled: true, Name: "tok1", Registration: cw.token.registration()}
	p.U2fAuthData[2] = &u2fAuthData{Enabled: true, Name: "tok2", Registration: cw.token.registration()}
	enc, err := st.encryptWithPublicKeys([]byte(c16TotpSecret))
	if err != nil {
		t.Fatal(err)
	}
	p.TOTPAuthData[1] = &totpAuthData{Enabled: true, Name: "totp", EncryptedSecret: enc}
	p.UserHasRegistered2ndFactor = true
	if err := st.SaveUserProfile(c16Alice, p); err != nil {
		t.Fatal(err)
	}
	q, _, _, _ := st.LoadUserProfile(c16Bob)
	h := sha512.Sum512([]byte(c16BootOTP))
	q.BootstrapOTP = bootstrapOTPData{ExpiresAt: time.Now().Add(time.Hour), Sha512Hash: h[:]}
	if err := st.SaveUserProfile(c16Bob, q); err != nil {
		t.Fatal(err)
	}
	st.Mutex.Lock()
	for k := range st.localAuthData {
		delete(st.localAuthData, k)
	}
	st.Mutex.Unlock()
	st.totpLocalTateLimitMutex.Lock()
	for k := range st.totpLocalRateLimit {
		delete(st.totpLocalRateLimit, k)
	}
	st.totpLocalTateLimitMutex.Unlock()
	st.Mutex.Lock()
	for k := range st.pendingOauth2 {
		delete(st.pendingOauth2, k)
	}
	st.Mutex.Unlock()
	if st.Config.Oauth2.Enabled && st.Config.Oauth2.Config != nil {
		p, ok := cw.oauthBegin()
		if !ok {
			t.Fatalf("federated login could not be started")
		}
		cw.pending = p
	}
	rq := verifNewRequest("GET", u2fSignRequestPath, nil)
	rq.AddCookie(cw.userCookie(c16Alice, AuthTypePassword))
	rr, _ := cw.env.serve(rq)
	if rr.Code != 200 {
		t.Fatalf("sign request refused: %d %s", rr.Code, rr.Body.String())
	}
	cw.signBody = cw.token.sign(rr.Body.Bytes())
	if cw.writeLast {
		// the schedule starts from a state in which the last storage operation on every profile was a
		// write (the preparation above ends with a request that reads alice's profile)
		for _, u := range []string{c16Alice, c16Bob} {
			if p, ok, _, err := st.LoadUserProfile(u); err == nil && ok {
				if err := st.SaveUserProfile(u, p); err != nil {
					t.Fatal(err)
				}
			}
		}
	}
}

func (cw *c16World) challenge(u string) bool {
	st := cw.env.state
	st.Mutex.Lock()
	defer st.Mutex.Unlock()
	_, ok := st.localAuthData[u]
	return ok
}

// the projection the model speaks about
type c16Profile struct {
	exists bool
	toks   [][3]int // index, enabled, name code
	botp   int      // 0 none, 7 the known value, 9 another
	last   int64
}

func (cw *c16World) profile(u string) c16Profile {
	p, ok, _, err := cw.env.state.LoadUserProfile(u)
	if err != nil || !ok {
		return c16Profile{}
	}
	out := c16Profile{exists: true, last: p.LastSuccessfullTOTPCounter}
	var idx []int64
	for i := range p.U2fAuthData {
		idx = append(idx, i)
	}
	sort.Slice(idx, func(a, b int) bool { return idx[a] < idx[b] })
	for _, i := range idx {
		d := p.U2fAuthData[i]
		en := 0
		if d.Enabled {
			en = 1
		}
		code, known := c16NameCode[d.Name]
		if !known {
			code = 99
		}
		out.toks = append(out.toks, [3]int{int(i), en, code})
	}
	if len(p.BootstrapOTP.Sha512Hash) > 0 {
		h := sha512.Sum512([]byte(c16BootOTP))
		if bytes.Equal(h[:], p.BootstrapOTP.Sha512Hash) {
			out.botp = 7
		} else {
			out.botp = 9
		}
	}
	return out
}

func (p c16Profile) coq(counterBase int64) string {
	if !p.exists {
		return "None"
	}
	var ts []string
	for _, t := range p.toks {
		ts = append(ts, fmt.Sprintf("{| t_idx := %d; t_enabled := %s; t_name := %d |}", t[0], coqBool(t[1] == 1), t[2]))
	}
	b := "None"
	if p.botp != 0 {
		b = fmt.Sprintf("Some %d", p.botp)
	}
	last := int64(0)
	if p.last != 0 {
		last = 999
		if d := p.last - counterBase; d == 0 || d == 1 {
			last = 1000 // the step of this run (or the next one, when a 30 s boundary was crossed meanwhile)
		}
	}
	return fmt.Sprintf("Some {| toks := [%s]; botp := %s; last_totp := %d |}", strings.Join(ts, "; "), b, last)
}

func (p c16Profile) String() string {
	return fmt.Sprintf("%v", struct {
		E bool
		T [][3]int
		B int
		L bool
	}{p.exists, p.toks, p.botp, p.last != 0})
}

// ---------------------------------------------------------------- the requests

type c16Handler struct {
	name  string // stable name, used in keys
	user  string
	coq   func(counter int64) string // constructor of Model.Conc.hid
	build func(cw *c16World) *http.Request
	// what an acknowledged success promises about the final profile (checked when nobody wrote after it in some serial order)
}

func c16UserN(u string) int {
	switch u {
	case c16Alice:
		return 1
	case c16Bob:
		return 2
	}
	return 3
}

func (cw *c16World) userCookie(u string, level int) *http.Cookie { return cw.env.cookie(u, level) }

func c16TokReq(cw *c16World, action string, idx int, name string) *http.Request {
	f := url.Values{}
	f.Set("username", c16Alice)
	f.Set("index", strconv.Itoa(idx))
	f.Set("action", action)
	if name != "" {
		f.Set("name", name)
	}
	r := verifNewRequest("POST", u2fTokenManagementPath, f)
	r.Header.Set("Referer", "https://keymaster.example/")
	r.AddCookie(cw.userCookie(c16Alice, AuthTypePassword|AuthTypeU2F))
	return r
}

func c16AdminReq(cw *c16World, path, user string) *http.Request {
	f := url.Values{}
	f.Set("username", user)
	r := verifNewRequest("POST", path, f)
	r.Header.Set("Referer", "https://keymaster.example/")
	r.AddCookie(cw.admin)
	return r
}

func c16Handlers() map[string]c16Handler {
	hs := []c16Handler{
		{"disable1", c16Alice, func(int64) string { return "HTokDisable 1 1" }, func(cw *c16World) *http.Request { return c16TokReq(cw, "Disable", 1, "") }},
		{"enable1", c16Alice, func(int64) string { return "HTokEnable 1 1" }, func(cw *c16World) *http.Request { return c16TokReq(cw, "Enable", 1, "") }},
		{"disable2", c16Alice, func(int64) string { return "HTokDisable 1 2" }, func(cw *c16World) *http.Request { return c16TokReq(cw, "Disable", 2, "") }},
		{"rename1a", c16Alice, func(int64) string { return "HTokRename 1 1 21" }, func(cw *c16World) *http.Request { return c16TokReq(cw, "Update", 1, "renamed-a") }},
		{"rename2b", c16Alice, func(int64) string { return "HTokRename 1 2 22" }, func(cw *c16World) *http.Request { return c16TokReq(cw, "Update", 2, "renamed-b") }},
		{"delete1", c16Alice, func(int64) string { return "HTokDelete 1 1" }, func(cw *c16World) *http.Request { return c16TokReq(cw, "Delete", 1, "") }},
		{"delete2", c16Alice, func(int64) string { return "HTokDelete 1 2" }, func(cw *c16World) *http.Request { return c16TokReq(cw, "Delete", 2, "") }},
		{"deluser-alice", c16Alice, func(int64) string { return "HDelUser 1" }, func(cw *c16World) *http.Request { return c16AdminReq(cw, deleteUserPath, c16Alice) }},
		{"adduser-carol", c16Carol, func(int64) string { return "HAddUser 3" }, func(cw *c16World) *http.Request { return c16AdminReq(cw, addUserPath, c16Carol) }},
		{"deluser-carol", c16Carol, func(int64) string { return "HDelUser 3" }, func(cw *c16World) *http.Request { return c16AdminReq(cw, deleteUserPath, c16Carol) }},
		{"bootauth-bob", c16Bob, func(int64) string { return "HBootAuth 2 7" }, func(cw *c16World) *http.Request {
			f := url.Values{}
			f.Set("OTP", c16BootOTP)
			r := verifNewRequest("POST", bootstrapOtpAuthPath, f)
			r.Header.Set("Referer", "https://keymaster.example/")
			r.AddCookie(cw.userCookie(c16Bob, AuthTypePassword))
			return r
		}},
		{"bootauth-bob-wrong", c16Bob, func(int64) string { return "HBootAuth 2 8" }, func(cw *c16World) *http.Request {
			f := url.Values{}
			f.Set("OTP", "not the value")
			r := verifNewRequest("POST", bootstrapOtpAuthPath, f)
			r.Header.Set("Referer", "https://keymaster.example/")
			r.AddCookie(cw.userCookie(c16Bob, AuthTypePassword))
			return r
		}},
		{"genboot-bob", c16Bob, func(int64) string { return "HGenBoot 2 9" }, func(cw *c16World) *http.Request { return c16AdminReq(cw, generateBoostrapOTPPath, c16Bob) }},
		{"deluser-bob", c16Bob, func(int64) string { return "HDelUser 2" }, func(cw *c16World) *http.Request { return c16AdminReq(cw, deleteUserPath, c16Bob) }},
		{"totp-alice", c16Alice, func(c int64) string { return "HTotpAuth 1 100 1000 true" }, func(cw *c16World) *http.Request {
			code, err := totp.GenerateCode(c16TotpSecret, time.Now())
			if err != nil {
				panic(err)
			}
			f := url.Values{}
			f.Set("OTP", code)
			r := verifNewRequest("POST", totpAuthPath, f)
			r.Header.Set("Referer", "https://keymaster.example/")
			r.AddCookie(cw.userCookie(c16Alice, AuthTypePassword))
			return r
		}},
		{"totp-alice-bad", c16Alice, func(c int64) string { return "HTotpAuth 1 100 1000 false" }, func(cw *c16World) *http.Request {
			code, _ := totp.GenerateCode(c16TotpSecret, time.Now())
			n, _ := strconv.Atoi(code)
			f := url.Values{}
			f.Set("OTP", fmt.Sprintf("%06d", (n+1234)%1000000))
			r := verifNewRequest("POST", totpAuthPath, f)
			r.Header.Set("Referer", "https://keymaster.example/")
			r.AddCookie(cw.userCookie(c16Alice, AuthTypePassword))
			return r
		}},
	}
	hs = append(hs,
		c16Handler{"u2fsign-alice", c16Alice, func(int64) string { return "HU2fSignResp 1 3" }, func(cw *c16World) *http.Request {
			r := verifNewRequest("POST", u2fSignResponsePath, nil)
			r.Body = ioutil.NopCloser(bytes.NewReader(cw.signBody))
			r.Header.Set("Referer", "https://keymaster.example/")
			r.AddCookie(cw.userCookie(c16Alice, AuthTypePassword))
			return r
		}},
		c16Handler{"u2fsignreq-alice", c16Alice, func(int64) string { return "HU2fSignReq 1 4" }, func(cw *c16World) *http.Request {
			r := verifNewRequest("GET", u2fSignRequestPath, nil)
			r.AddCookie(cw.userCookie(c16Alice, AuthTypePassword))
			return r
		}})
	// pure readers of the profile
	hs = append(hs,
		c16Handler{"view-alice", c16Alice, func(int64) string { return "HView 1" }, func(cw *c16World) *http.Request {
			r := verifNewRequest("GET", profilePath, nil)
			r.AddCookie(cw.userCookie(c16Alice, AuthTypePassword|AuthTypeU2F))
			return r
		}},
		c16Handler{"login-alice", c16Alice, func(int64) string { return "HLogin 1" }, func(cw *c16World) *http.Request {
			f := url.Values{}
			f.Set("username", c16Alice)
			f.Set("password", "alicepw")
			r := verifNewRequest("POST", "/api/v0/login", f)
			r.Header.Set("Referer", "https://keymaster.example/")
			return r
		}})
	// the federated login: one pending login (model key 9, state parameter 5) exists after reset
	hs = append(hs,
		c16Handler{"oauth-callback", c16Federated, func(int64) string { return "HOauthCallback 9 5" }, func(cw *c16World) *http.Request { return cw.oauthCallbackReq(cw.pending) }},
		c16Handler{"oauth-callback-badstate", c16Federated, func(int64) string { return "HOauthCallback 9 6" }, func(cw *c16World) *http.Request {
			return cw.oauthCallbackReq(c16Pending{cookie: cw.pending.cookie, state: "not-the-state"})
		}},
		c16Handler{"oauth-begin", c16Federated, func(int64) string { return "HOauthBegin 8 6" }, func(cw *c16World) *http.Request { return verifNewRequest("GET", oauth2LoginBeginPath, nil) }})
	m := map[string]c16Handler{}
	for _, h := range hs {
		m[h.name] = h
	}
	return m
}

const c16Federated = "(federated login)"

func c16Status(code int) int {
	if code == 302 {
		return 200
	}
	return code
}

type c16Outcome struct {
	resp       []int
	profiles   [3]c16Profile
	challenges [3]bool
}

func (o c16Outcome) key() string {
	return fmt.Sprintf("%v|%v|%v|%v|%v", o.resp, o.profiles[0], o.profiles[1], o.profiles[2], o.challenges)
}

func c16Shape(trace []vStep, a, b int) string {
	var sb strings.Builder
	for _, s := range trace {
		if s.thread == a || s.thread == b {
			if c, ok := map[string]byte{"Load": 'L', "Save": 'S', "Del": 'D'}[s.point]; ok {
				sb.WriteByte(c)
			}
		}
	}
	return sb.String()
}

// was one of the two requests pre-empted by the other while parked somewhere else than a storage
// operation (before a Lock, at a published-field write) after it had started?  Such a schedule does
// not exist at storage-operation granularity.
func c16LockPreempt(trace []vStep, a, b int) bool {
	storage := map[string]bool{"Load": true, "Save": true, "Del": true}
	for _, pr := range [][2]int{{a, b}, {b, a}} {
		x, y := pr[0], pr[1]
		started := false
		otherRan := false
		for _, s := range trace {
			switch s.thread {
			case x:
				if started && otherRan && !storage[s.point] {
					return true
				}
				started = true
				otherRan = false
			case y:
				otherRan = true
			}
		}
	}
	return false
}

func c16ShapeKey(trace []vStep, a, b int) string {
	k := c16Shape(trace, a, b)
	if c16LockPreempt(trace, a, b) {
		k += "+k"
	}
	return k
}

type c16Group struct {
	conc   []string // enumerated under every schedule
	post   []string // served one after the other once every request of the schedule has been answered
	loaded bool     // the parking point between the row read and the return of LoadUserProfile is taken
}

type c16Replay struct {
	name, kind string
	code       int
}

// requests that present a one-time value: several copies in one group present the same value
var c16OneTime = map[string]string{"bootauth-bob": "bootstrap-otp", "totp-alice": "totp", "u2fsign-alice": "u2f-challenge", "oauth-callback": "oauth2-pending"}

// is thread a's run contiguous with respect to thread b (no step of b strictly inside a's span)
func c16Overlap(trace []vStep, a, b int) bool {
	first := map[int]int{}
	last := map[int]int{}
	for i, s := range trace {
		if _, ok := first[s.thread]; !ok {
			first[s.thread] = i
		}
		last[s.thread] = i
	}
	fa, oka := first[a]
	fb, okb := first[b]
	if !oka || !okb {
		return false
	}
	return !(last[a] < fb || last[b] < fa)
}

func c16Serial(trace []vStep) bool {
	seen := map[int]bool{}
	cur := -1
	for _, s := range trace {
		if s.thread != cur {
			if seen[s.thread] {
				return false
			}
			seen[s.thread] = true
			cur = s.thread
		}
	}
	return true
}

func TestVerif_C16(t *testing.T) {
	res := newVerifResult("all interleavings at storage-operation granularity (parking points: entry of LoadUserProfile / SaveUserProfile / DeleteUserProfile and every Mutex.Lock of 2fa_totp.go and 2fa_u2f.go, in an instrumented copy of the current files) of pairs (quick) and triples (thorough) of requests drawn from token disable / enable / rename / delete, user add / delete, bootstrap-OTP auth / generation, TOTP auth; each schedule run on the real handlers over SQLite, (answers, final profiles) compared with the sequential orders and with Model.Conc.run_seg; non-trivial = the two requests touch the same user and their storage operations really interleave")
	provider := c16Provider()
	defer provider.Close()
	env := verifSetup(t, func(c *AppConfigFile, dir string) {
		c.Base.AllowedAuthBackendsForWebUI = []string{"password"}
		c.Base.AllowedAuthBackendsForCerts = []string{"U2F", "TOTP"}
		c.Base.AdminUsers = []string{"admin"}
		c16OauthConfig(c, provider.URL)
	})
	env.handler = env.buildHandler()
	cw := &c16World{env: env, token: c16NewToken()}
	cw.admin = env.cookie("admin", AuthTypePassword|AuthTypeU2F)
	// the password logins of the enumeration are not to be refused by the global attempt limiter (a refused
	// login reads no profile: the replayed schedules would not be reproducible)
	env.state.passwordAttemptGlobalLimiter.SetLimit(1e300)
	// the instrumentation must be live: a load under an active schedule has to park
	{
		cw.reset(t)
		tr, err := verifRunSchedule([]func(){func() { env.state.LoadUserProfile(c16Alice) }}, func(int, []int) int { return 0 })
		if err != nil || len(tr) != 1 || tr[0].point != "Load" {
			t.Fatalf("storage.go of this test binary is not the instrumented copy (trace %v, err %v)", tr, err)
		}
	}
	hs := c16Handlers()
	pairs := [][]string{
		{"disable1", "rename1a"}, {"disable1", "enable1"}, {"disable1", "rename2b"}, {"disable1", "delete2"}, {"disable1", "disable2"},
		{"delete1", "rename1a"}, {"delete1", "rename2b"}, {"delete1", "delete2"}, {"rename1a", "rename2b"},
		{"deluser-alice", "disable1"}, {"deluser-alice", "rename1a"}, {"deluser-alice", "totp-alice"},
		{"adduser-carol", "adduser-carol"}, {"adduser-carol", "deluser-carol"},
		{"bootauth-bob", "bootauth-bob"}, {"bootauth-bob", "bootauth-bob-wrong"}, {"bootauth-bob", "genboot-bob"}, {"deluser-bob", "bootauth-bob"}, {"genboot-bob", "genboot-bob"},
		{"totp-alice", "totp-alice"}, {"totp-alice", "totp-alice-bad"}, {"totp-alice", "disable1"}, {"totp-alice", "rename1a"},
		{"disable1", "bootauth-bob"},
		{"u2fsign-alice", "u2fsign-alice"}, {"u2fsignreq-alice", "u2fsign-alice"}, {"u2fsign-alice", "disable1"}, {"deluser-alice", "u2fsign-alice"}, {"u2fsignreq-alice", "u2fsignreq-alice"},
		{"oauth-callback", "oauth-callback"}, {"oauth-begin", "oauth-callback"}, {"oauth-callback", "oauth-callback-badstate"}, {"oauth-begin", "oauth-begin"},
	}
	triples := [][]string{
		{"disable1", "rename1a", "rename2b"}, {"disable1", "enable1", "delete2"}, {"deluser-alice", "disable1", "rename2b"},
		{"bootauth-bob", "bootauth-bob", "bootauth-bob"}, {"bootauth-bob", "genboot-bob", "bootauth-bob"},
		{"totp-alice", "totp-alice", "disable1"}, {"totp-alice", "totp-alice", "totp-alice"},
		{"adduser-carol", "deluser-carol", "adduser-carol"}, {"delete1", "delete2", "rename1a"},
	}
	// every pair that occurs inside a triple is enumerated as a pair too (also in the quick tier),
	// so that the pairwise keys of the triples are those of the pairs
	havePair := map[string]bool{}
	for _, p := range pairs {
		q := append([]string{}, p...)
		sort.Strings(q)
		havePair[strings.Join(q, "|")] = true
	}
	for _, tr := range triples {
		for a := 0; a < len(tr); a++ {
			for b := a + 1; b < len(tr); b++ {
				q := []string{tr[a], tr[b]}
				sort.Strings(q)
				if !havePair[strings.Join(q, "|")] {
					havePair[strings.Join(q, "|")] = true
					pairs = append(pairs, []string{tr[a], tr[b]})
				}
			}
		}
	}
	var groups []c16Group
	for _, p := range pairs {
		groups = append(groups, c16Group{conc: p})
	}
	if verifThorough() {
		for _, tr := range triples {
			groups = append(groups, c16Group{conc: tr})
		}
	}
	// a reader of the profile || a writer, pre-empted also between the row read and the return of
	// LoadUserProfile, followed (after both were answered) by a write on another field of the same profile
	{
		readers := []string{"view-alice", "login-alice", "u2fsignreq-alice"}
		writers := []string{"disable1", "delete1"}
		posts := [][]string{{"rename2b"}}
		if verifThorough() {
			writers = append(writers, "rename1a", "deluser-alice", "totp-alice")
			posts = append(posts, []string{"view-alice", "disable2"}, []string{"totp-alice"})
		}
		for _, rd := range readers {
			for _, wr := range writers {
				for _, po := range posts {
					groups = append(groups, c16Group{conc: []string{rd, wr}, post: po, loaded: true})
				}
			}
		}
	}
	var cases, idx, rcases, ridx []string
	users := []string{c16Alice, c16Bob, c16Carol}
	for _, grp := range groups {
		g := grp.conc
		gname := strings.Join(g, "|")
		if len(grp.post) > 0 {
			gname += ":then-" + strings.Join(grp.post, ",")
		}
		all := append(append([]string{}, grp.conc...), grp.post...)
		type runObs struct {
			trace   []vStep
			outcome c16Outcome
			counter int64
			replay  []c16Replay
		}
		var runs []runObs
		var counterNow int64
		verifLoadedOn.Store(grp.loaded)
		cw.writeLast = grp.loaded
		mk := func() []func() {
			cw.reset(t)
			counterNow = time.Now().Unix() / 30
			var bodies []func()
			cur := c16Outcome{resp: make([]int, len(all))}
			runs = append(runs, runObs{outcome: cur, counter: counterNow})
			ri := len(runs) - 1
			for i, name := range g {
				i, h := i, hs[name]
				req := h.build(cw)
				bodies = append(bodies, func() {
					rr, pan := env.serve(req)
					code := c16Status(rr.Code)
					if pan {
						code = 599
					}
					runs[ri].outcome.resp[i] = code
				})
			}
			return bodies
		}
		limit := 5000
		_, err := verifEnumerate(mk, func(trace []vStep) bool {
			r := &runs[len(runs)-1]
			r.trace = trace
			// the requests that follow once every request of the schedule has been answered
			for k, name := range grp.post {
				rr, pan := env.serve(hs[name].build(cw))
				code := c16Status(rr.Code)
				if pan {
					code = 599
				}
				r.outcome.resp[len(g)+k] = code
			}
			for ui, u := range users {
				r.outcome.profiles[ui] = cw.profile(u)
				r.outcome.challenges[ui] = cw.challenge(u)
			}
			// a one-time value that was honoured in this schedule is presented once more (the same bytes),
			// after everything has been answered
			if len(grp.post) == 0 {
				seen := map[string]bool{}
				for i, name := range g {
					kind, one := c16OneTime[name]
					if !one || seen[name] || r.outcome.resp[i] != 200 {
						continue
					}
					if kind == "totp" && time.Now().Unix()/30 != r.counter {
						continue // the next step has begun: a presentation now carries another value
					}
					seen[name] = true
					rr, pan := env.serve(hs[name].build(cw))
					code := c16Status(rr.Code)
					if pan {
						code = 599
					}
					r.replay = append(r.replay, c16Replay{name: name, kind: kind, code: code})
				}
			}
			return true
		}, limit)
		verifLoadedOn.Store(false)
		cw.writeLast = false
		if err != nil {
			res.hit(verifHit{Key: "C16:harness:schedule:" + gname, Oracle: "harness", What: "schedule replay failed: " + err.Error(), Case: gname})
			continue
		}
		// a TOTP step boundary inside the enumeration would change the counter: drop such a group run
		serial := map[string]bool{}
		for _, r := range runs {
			if c16Serial(r.trace) {
				serial[r.outcome.key()] = true
			}
		}
		for _, r := range runs {
			var sched []string
			for _, s := range r.trace {
				sched = append(sched, strconv.Itoa(s.thread))
			}
			nontrivial := false
			for a := 0; a < len(g); a++ {
				for b := a + 1; b < len(g); b++ {
					if hs[g[a]].user == hs[g[b]].user && c16Overlap(r.trace, a, b) {
						nontrivial = true
					}
				}
			}
			res.eval(gname+"|"+strings.Join(sched, ""), nontrivial)
			res.bump(fmt.Sprintf("schedules_%d_requests", len(g)))
			if !serial[r.outcome.key()] {
				res.bump("non_serializable_outcomes")
				explained := false
				for a := 0; a < len(g); a++ {
					for b := a + 1; b < len(g); b++ {
						if hs[g[a]].user == hs[g[b]].user && c16Overlap(r.trace, a, b) {
							explained = true
							names := []string{g[a], g[b]}
							sort.Strings(names)
							then := ""
							if len(grp.post) > 0 {
								then = ":then-" + strings.Join(grp.post, ",")
							}
							res.hit(verifHit{Key: "C16:nonserial:" + names[0] + "|" + names[1] + ":" + c16ShapeKey(r.trace, a, b) + then, Kind: "schedule",
								Oracle: "answers and final profiles equal those of some sequential order of the requests",
								What:   fmt.Sprintf("requests %v (then, after all were answered: %v) under schedule %s (parking points%s): answers %v, final profiles %v %v %v — no sequential order of the concurrent requests followed by the later ones gives this", g, grp.post, strings.Join(sched, ""), c16AllPoints(r.trace), r.outcome.resp, r.outcome.profiles[0], r.outcome.profiles[1], r.outcome.profiles[2]),
								Case:   map[string]interface{}{"requests": g, "then": grp.post, "schedule": sched, "points": c16AllPoints(r.trace)}, Observed: r.outcome.key()})
						}
					}
				}
				if !explained {
					res.hit(verifHit{Key: "C16:nonserial-unexplained:" + gname, Kind: "schedule", Oracle: "answers and final profiles equal those of some sequential order of the requests",
						What: fmt.Sprintf("requests %v under schedule %s: outcome %s matches no sequential order although no two requests on one user overlap", g, strings.Join(sched, ""), r.outcome.key()), Case: map[string]interface{}{"requests": g, "schedule": sched}})
				}
			}
			// a one-time value presented by several requests of the group is honoured at most once, in every schedule
			for a := 0; a < len(g); a++ {
				for b := a + 1; b < len(g); b++ {
					kind, one := c16OneTime[g[a]]
					if !one || g[a] != g[b] || r.outcome.resp[a] != 200 || r.outcome.resp[b] != 200 {
						continue
					}
					gran := "storage"
					if c16LockPreempt(r.trace, a, b) {
						gran = "lock"
					}
					res.bump("one_time_value_honoured_twice_" + kind + "_" + gran)
					res.hit(verifHit{Key: "C16:double-spend:" + kind + ":" + gran, Kind: "schedule",
						Oracle: "a one-time value presented twice at the same moment is honoured at most once",
						What: fmt.Sprintf("requests %v under schedule %s (parking points%s): both presentations of one %s answered 200 (%s granularity: %s)", g, strings.Join(sched, ""), c16AllPoints(r.trace), kind, gran,
							map[string]string{"storage": "the requests were pre-empted at storage operations only", "lock": "needs a pre-emption between two critical sections of one request"}[gran]),
						Case: map[string]interface{}{"requests": g, "schedule": sched}, Observed: r.outcome.key()})
				}
			}
			// the replay of a one-time value after the schedule
			for _, rp := range r.replay {
				res.eval(gname+"|"+strings.Join(sched, "")+"|replay:"+rp.name, !c16Serial(r.trace))
				res.bump("replays_after_schedule_" + rp.kind)
				if rp.code == 200 {
					when := "after-overlap"
					if c16Serial(r.trace) {
						when = "after-sequence"
					}
					res.hit(verifHit{Key: "C16:double-spend:" + rp.kind + ":" + when, Kind: "schedule",
						Oracle: "a one-time value that was honoured is not honoured again when the same bytes are presented after all requests of the schedule were answered",
						What:   fmt.Sprintf("requests %v under schedule %s (parking points%s): answers %v; then the %s of %s was presented once more and answered 200 again", g, strings.Join(sched, ""), c16AllPoints(r.trace), r.outcome.resp, rp.kind, rp.name),
						Case:   map[string]interface{}{"requests": g, "schedule": sched, "points": c16AllPoints(r.trace), "replayed": rp.name}, Observed: r.outcome.key()})
				}
			}
			// the model has no parking point inside a load: a load takes the value the store has at the
			// moment of the row read, which is where the model's Load sits; the releases from "Loaded" are dropped
			var msched []string
			for _, s := range r.trace {
				if s.point != "Loaded" {
					msched = append(msched, strconv.Itoa(s.thread))
				}
			}
			for k := range grp.post {
				for n := 0; n < 16; n++ {
					msched = append(msched, strconv.Itoa(len(g)+k))
				}
			}
			for _, rp := range r.replay {
				var hl []string
				for _, name := range g {
					hl = append(hl, hs[name].coq(r.counter))
				}
				hl = append(hl, hs[rp.name].coq(r.counter))
				rs := append([]string{}, msched...)
				for n := 0; n < 16; n++ {
					rs = append(rs, strconv.Itoa(len(g)))
				}
				rcases = append(rcases, fmt.Sprintf("([%s], [%s]%%nat, %d%%nat, Some %d)", strings.Join(hl, "; "), strings.Join(rs, "; "), len(g), rp.code))
				ridx = append(ridx, fmt.Sprintf("requests=%v schedule=%s points=%s answers=%v then-replay=%s answered=%d", g, strings.Join(sched, ""), c16AllPoints(r.trace), r.outcome.resp, rp.name, rp.code))
			}
			// Coq case
			var hl []string
			for _, name := range all {
				hl = append(hl, hs[name].coq(r.counter))
			}
			var resp []string
			for _, c := range r.outcome.resp {
				resp = append(resp, fmt.Sprintf("Some %d", c))
			}
			var profs []string
			for ui := range users {
				profs = append(profs, r.outcome.profiles[ui].coq(r.counter))
			}
			var chals []string
			for ui := range users {
				if r.outcome.challenges[ui] {
					chals = append(chals, "Some 1")
				} else {
					chals = append(chals, "None")
				}
			}
			cases = append(cases, fmt.Sprintf("([%s], [%s]%%nat, ([%s], [%s], [%s]))", strings.Join(hl, "; "), strings.Join(msched, "; "), strings.Join(resp, "; "), strings.Join(profs, "; "), strings.Join(chals, "; ")))
			idx = append(idx, fmt.Sprintf("requests=%v schedule=%s points=%s answers=%v alice=%v bob=%v carol=%v challenges=%v", all, strings.Join(sched, ""), c16Shape(r.trace, -1, -1)+c16AllPoints(r.trace), r.outcome.resp, r.outcome.profiles[0], r.outcome.profiles[1], r.outcome.profiles[2], r.outcome.challenges))
		}
		res.bump("groups")
		if len(runs) > 0 {
			last := runs[len(runs)-1]
			if len(res.Samples) < 6 {
				res.sample(map[string]interface{}{"requests": g, "then": grp.post, "schedules": len(runs), "last_answers": last.outcome.resp})
			}
		}
	}
	ucases, uidx := c16UnsealSchedules(t, res)
	c16StallSchedules(t, res)
	var sb strings.Builder
	sb.WriteString(coqCaseHeader)
	sb.WriteString("From KM Require Import Base.Cases Model.Conc.\nOpen Scope N_scope.\n")
	sb.WriteString("Definition tk (i : N) (n : N) : token := {| t_idx := i; t_enabled := true; t_name := n |}.\n")
	sb.WriteString("Definition db0 : db := [(1, {| toks := [tk 1 11; tk 2 12]; botp := None; last_totp := 0 |}); (2, {| toks := []; botp := Some 7; last_totp := 0 |})].\n")
	sb.WriteString("(* (requests, schedule at parking-point granularity, observed (answers, final profiles of users 1 2 3, -)) *)\n")
	sb.WriteString("Definition cases : list (list hid * list nat * (list (option N) * list (option profile) * list (option N))) := [\n " + strings.Join(cases, ";\n ") + "].\n")
	sb.WriteString("Definition c16_bad (c : list hid * list nat * (list (option N) * list (option profile) * list (option N))) : bool :=\n  let '(hs, sched, obs) := c in\n  negb (outcome_eqb (outcome [1; 2; 3] (run_seg (init_world db0 [(M_localAuth, 1, 3); (M_pendingOauth2, 9, 5)] (map handler hs)) sched)) obs).\n")
	sb.WriteString("Definition c16_mismatches := Eval vm_compute in mismatches c16_bad cases.\nPrint c16_mismatches.\nDefinition c16_ncases := Eval vm_compute in length cases.\nPrint c16_ncases.\n")
	sb.WriteString("(* a one-time value presented once more after the schedule: (requests ++ [the replay], schedule ++ the replay's turns, index of the replay, its observed answer) *)\n")
	sb.WriteString("Definition rcases : list (list hid * list nat * nat * option N) := [\n " + strings.Join(rcases, ";\n ") + "].\n")
	sb.WriteString("Definition c16r_bad (c : list hid * list nat * nat * option N) : bool :=\n  let '(hs, sched, i, obs) := c in\n  negb (oN_eq (resp_at (run_seg (init_world db0 [(M_localAuth, 1, 3); (M_pendingOauth2, 9, 5)] (map handler hs)) sched) i) obs).\n")
	sb.WriteString("Definition c16r_mismatches := Eval vm_compute in mismatches c16r_bad rcases.\nPrint c16r_mismatches.\nDefinition c16r_ncases := Eval vm_compute in length rcases.\nPrint c16r_ncases.\n")
	sb.WriteString("(* unseal || requests that serve the published keys, on a state that starts sealed: (requests, schedule, observed answers) *)\n")
	sb.WriteString("Definition ucases : list (list hid * list nat * list (option N)) := [\n " + strings.Join(ucases, ";\n ") + "].\n")
	sb.WriteString("Definition c16u_bad (c : list hid * list nat * list (option N)) : bool :=\n  let '(hs, sched, obs) := c in\n  negb (list_eqb oN_eq (map resp (threads (run_seg (init_world [] [] (map handler hs)) sched))) obs).\n")
	sb.WriteString("Definition c16u_mismatches := Eval vm_compute in mismatches c16u_bad ucases.\nPrint c16u_mismatches.\nDefinition c16u_ncases := Eval vm_compute in length ucases.\nPrint c16u_ncases.\n")
	if err := ioutil.WriteFile(filepath.Join(verifOut(), "CasesC16.v"), []byte(sb.String()), 0644); err != nil {
		t.Fatal(err)
	}
	ioutil.WriteFile(filepath.Join(verifOut(), "CasesC16.idx"), []byte(strings.Join(idx, "\n")), 0644)
	ioutil.WriteFile(filepath.Join(verifOut(), "CasesC16U.idx"), []byte(strings.Join(uidx, "\n")), 0644)
	ioutil.WriteFile(filepath.Join(verifOut(), "CasesC16R.idx"), []byte(strings.Join(ridx, "\n")), 0644)
	res.Extra["replays"] = len(rcases)
	res.Extra["schedules"] = len(cases)
	res.Extra["unseal_schedules"] = len(ucases)
	res.write(t, "TestVerif_C16")
}

// ---------------------------------------------------------------- unseal || requests
//
// Every schedule starts from a freshly loaded SEALED state (the production configuration path).  The
// unseal request is the real secretInjectorHandler; the other requests are served through the
// regenerated mux and park once before they start.  Parking points of the unseal path: every
// Mutex.Lock of unseal.go and every write of a RuntimeState field of the regenerated
// shared_field_writes table that is reached with the mutex free (lib/checks/c16.py).
func c16UnsealSchedules(t *testing.T, res *verifResult) (cases, idx []string) {
	routes := map[string]string{"sshca": "/public/sshca", "x509ca": "/public/x509ca", "jwks": idpOpenIDCJWKSPath}
	coq := map[string]string{"unseal": "HUnseal", "sshca": "HReadKeys", "x509ca": "HReadKeys", "jwks": "HReadKeys"}
	groups := [][]string{{"unseal", "sshca"}, {"unseal", "x509ca"}, {"unseal", "jwks"}, {"unseal", "unseal"}, {"unseal", "unseal", "sshca"}, {"unseal", "sshca", "jwks"}}
	for _, g := range groups {
		gname := strings.Join(g, "|")
		type runObs struct {
			trace  []vStep
			resp   []int
			bodies [][]byte
			env    *verifEnv
		}
		var runs []*runObs
		mk := func() []func() {
			env := verifSetupSealed(t, func(c *AppConfigFile, dir string) {
				c.Base.AllowedAuthBackendsForWebUI = []string{"password"}
				c.Base.AllowedAuthBackendsForCerts = []string{"U2F", "TOTP"}
			})
			env.handler = env.buildHandler()
			r := &runObs{resp: make([]int, len(g)), bodies: make([][]byte, len(g)), env: env}
			runs = append(runs, r)
			var bodies []func()
			for i, name := range g {
				i, name := i, name
				if name == "unseal" {
					bodies = append(bodies, func() { r.resp[i] = env.inject(env.passphrase, true) })
					continue
				}
				req := verifNewRequest("GET", routes[name], nil)
				bodies = append(bodies, func() {
					verifYield("Start")
					rr, pan := env.serve(req)
					r.resp[i] = rr.Code
					if pan {
						r.resp[i] = 599
					}
					r.bodies[i] = append([]byte{}, rr.Body.Bytes()...)
				})
			}
			return bodies
		}
		_, err := verifEnumerate(mk, func(trace []vStep) bool {
			r := runs[len(runs)-1]
			r.trace = trace
			// what the same routes answer once everything has finished
			for i, name := range g {
				if name == "unseal" || r.resp[i] != 200 {
					continue
				}
				rr, _ := r.env.serve(verifNewRequest("GET", routes[name], nil))
				if rr.Code == 200 && !bytes.Equal(rr.Body.Bytes(), r.bodies[i]) {
					r.resp[i] = 299
					var sched []string
					for _, s := range trace {
						sched = append(sched, strconv.Itoa(s.thread))
					}
					res.hit(verifHit{Key: "C16:unsealed-incomplete-keys:" + name, Kind: "schedule",
						Oracle: "a request served while the unseal request runs sees the server either sealed or unsealed with its complete key material",
						What:   fmt.Sprintf("requests %v under schedule %s (parking points%s): GET %s was answered 200 with %d bytes %q while the same request after the unseal has finished gives %d bytes", g, strings.Join(sched, ""), c16AllPoints(trace), routes[name], len(r.bodies[i]), c16Trunc(r.bodies[i]), rr.Body.Len()),
						Case:   map[string]interface{}{"requests": g, "schedule": sched}})
				}
			}
			return true
		}, 400)
		if err != nil {
			res.hit(verifHit{Key: "C16:harness:schedule:" + gname, Oracle: "harness", What: "schedule replay failed: " + err.Error(), Case: gname})
			continue
		}
		serial := map[string]bool{}
		for _, r := range runs {
			if c16Serial(r.trace) {
				serial[fmt.Sprint(r.resp)] = true
			}
		}
		for _, r := range runs {
			var sched, hl, resp []string
			for _, s := range r.trace {
				sched = append(sched, strconv.Itoa(s.thread))
			}
			for i, name := range g {
				hl = append(hl, coq[name])
				resp = append(resp, fmt.Sprintf("Some %d", r.resp[i]))
			}
			res.eval("unseal|"+gname+"|"+strings.Join(sched, ""), !c16Serial(r.trace))
			res.bump(fmt.Sprintf("unseal_schedules_%d_requests", len(g)))
			if !serial[fmt.Sprint(r.resp)] {
				res.hit(verifHit{Key: "C16:nonserial-unseal:" + gname, Kind: "schedule", Oracle: "answers equal those of some sequential order of the requests",
					What: fmt.Sprintf("requests %v under schedule %s (parking points%s): answers %v (299 = answered as unsealed with other key material than after the unseal) — no sequential order gives this", g, strings.Join(sched, ""), c16AllPoints(r.trace), r.resp),
					Case: map[string]interface{}{"requests": g, "schedule": sched}})
			}
			cases = append(cases, fmt.Sprintf("([%s], [%s]%%nat, [%s])", strings.Join(hl, "; "), strings.Join(sched, "; "), strings.Join(resp, "; ")))
			idx = append(idx, fmt.Sprintf("requests=%v schedule=%s points=%s answers=%v", g, strings.Join(sched, ""), c16AllPoints(r.trace), r.resp))
		}
		res.bump("unseal_groups")
	}
	return cases, idx
}

func c16Trunc(b []byte) string {
	if len(b) > 60 {
		return string(b[:60]) + "..."
	}
	return string(b)
}

func c16AllPoints(trace []vStep) string {
	var sb strings.Builder
	for _, s := range trace {
		sb.WriteString(fmt.Sprintf(" %d:%s", s.thread, s.point))
	}
	return sb.String()
}

// ---------------------------------------------------------------- randomised concurrent mixes (run under -race)

// the unseal request among concurrent requests: fresh sealed states, two injections racing readers of
// the key material that poll from before the unseal until after it
func c16RaceUnseal(t *testing.T, res *verifResult) {
	rounds := 4
	if verifThorough() {
		rounds = 60
	}
	routes := []string{"/public/sshca", idpOpenIDCJWKSPath, "/public/x509ca"}
	for round := 0; round < rounds; round++ {
		env := verifSetupSealed(t, func(c *AppConfigFile, dir string) {
			c.Base.AllowedAuthBackendsForWebUI = []string{"password"}
		})
		env.handler = env.buildHandler()
		var wg sync.WaitGroup
		start := make(chan bool)
		var stop atomic.Bool
		type obs struct {
			route string
			body  []byte
		}
		var mu sync.Mutex
		var seen []obs
		inj := make([]int, 2)
		for i := range inj {
			wg.Add(1)
			go func(i int) {
				defer wg.Done()
				<-start
				time.Sleep(time.Duration(200+300*i) * time.Microsecond)
				inj[i] = env.inject(env.passphrase, true)
			}(i)
		}
		var readers sync.WaitGroup
		for i := 0; i < 12; i++ {
			readers.Add(1)
			go func(i int) {
				defer readers.Done()
				<-start
				route := routes[i%len(routes)]
				for n := 0; n < 4000 && !stop.Load(); n++ {
					rr, pan := env.serve(verifNewRequest("GET", route, nil))
					if pan {
						res.hit(verifHit{Key: "C16:panic:unseal-reader", Oracle: "no handler panics under concurrency", What: route + " panicked while the unseal request ran", Case: round})
						return
					}
					if rr.Code == 200 {
						mu.Lock()
						seen = append(seen, obs{route, append([]byte{}, rr.Body.Bytes()...)})
						mu.Unlock()
						if n%2 == 0 {
							return
						}
					}
				}
			}(i)
		}
		close(start)
		wg.Wait()
		time.Sleep(2 * time.Millisecond)
		stop.Store(true)
		readers.Wait()
		ok := 0
		for _, c := range inj {
			if c == 200 {
				ok++
			}
		}
		if ok != 1 {
			res.hit(verifHit{Key: "C16:unseal-twice", Kind: "schedule", Oracle: "two simultaneous unseal requests: exactly one is acknowledged", What: fmt.Sprintf("answers %v", inj), Case: round})
		}
		final := map[string][]byte{}
		for _, route := range routes {
			rr, _ := env.serve(verifNewRequest("GET", route, nil))
			final[route] = rr.Body.Bytes()
		}
		for _, o := range seen {
			res.eval("race-unseal|"+o.route, true)
			if !bytes.Equal(o.body, final[o.route]) {
				name := map[string]string{"/public/sshca": "sshca", idpOpenIDCJWKSPath: "jwks", "/public/x509ca": "x509ca"}[o.route]
				res.hit(verifHit{Key: "C16:unsealed-incomplete-keys:" + name, Kind: "schedule",
					Oracle: "a request served while the unseal request runs sees the server either sealed or unsealed with its complete key material",
					What:   fmt.Sprintf("under real concurrency GET %s was answered 200 with %d bytes while the unseal request ran; afterwards it gives %d bytes", o.route, len(o.body), len(final[o.route])), Case: round})
			}
		}
		res.bump("race_unseal_rounds")
	}
}

func TestVerif_C16Race(t *testing.T) {
	res := newVerifResult("randomised concurrent mixes of the whole handler set (token management, registration requests, U2F sign request / response with a software token, TOTP auth, bootstrap OTP, VIP push start / poll, OAuth2 begin / callback, user add / delete, state clean-up) under the race detector; plus the one-time-value oracles on simultaneous presentations")
	provider := c16Provider()
	defer provider.Close()
	env := verifSetup(t, func(c *AppConfigFile, dir string) {
		c.Base.AllowedAuthBackendsForWebUI = []string{"password"}
		c.Base.AllowedAuthBackendsForCerts = []string{"U2F", "TOTP"}
		c.Base.AdminUsers = []string{"admin"}
		c16OauthConfig(c, provider.URL)
	})
	env.handler = env.buildHandler()
	cw := &c16World{env: env, token: c16NewToken()}
	cw.admin = env.cookie("admin", AuthTypePassword|AuthTypeU2F)
	res.write(t, "TestVerif_C16Race") // a result file exists even if the runtime aborts the binary ("concurrent map writes")
	c16LockHandoff(t, res, cw)
	res.write(t, "TestVerif_C16Race")
	// the periodic clean-up pass of the in-memory maps, among the requests (the daemon runs it every 30 s)
	go env.state.performStateCleanup(1)
	rng := verifRand()
	hs := c16Handlers()
	var names []string
	for n := range hs {
		names = append(names, n)
	}
	sort.Strings(names)
	c16RaceUnseal(t, res)
	budget := 10 * time.Second
	if verifThorough() {
		budget = 150 * time.Second
	}
	deadline := time.Now().Add(budget)
	round := 0
	for time.Now().Before(deadline) {
		round++
		cw.reset(t)
		// reset left a fresh U2F challenge for alice: it is answered three times at the same moment
		signBody := cw.signBody
		var wg sync.WaitGroup
		start := make(chan bool)
		// federated logins started before the round: their callbacks arrive during the round, one of them twice
		var pend []c16Pending
		for j := 0; j < 3; j++ {
			if p, ok := cw.oauthBegin(); ok {
				pend = append(pend, p)
			} else {
				res.hit(verifHit{Key: "C16:harness:oauth2-begin", Oracle: "harness", What: "the federated login could not be started", Case: round})
			}
		}
		n := 24 + 8
		codes := make([]int, n)
		kinds := make([]string, n)
		finished := make([]int32, n)
		for i := 0; i < n; i++ {
			var req *http.Request
			switch {
			case i >= 24 && i < 28 && len(pend) > 0:
				kinds[i] = "oauth2-callback"
				req = cw.oauthCallbackReq(pend[(i-24)%len(pend)])
			case i >= 28:
				kinds[i] = "oauth2-begin"
				req = verifNewRequest("GET", oauth2LoginBeginPath, nil)
			case i < 3 && signBody != nil:
				kinds[i] = "u2f-sign-response"
				req = verifNewRequest("POST", u2fSignResponsePath, nil)
				req.Body = ioutil.NopCloser(bytes.NewReader(signBody))
				req.Header.Set("Referer", "https://keymaster.example/")
				req.AddCookie(cw.userCookie(c16Alice, AuthTypePassword))
			case i < 5:
				kinds[i] = "u2f-sign-request"
				req = verifNewRequest("GET", u2fSignRequestPath, nil)
				req.AddCookie(cw.userCookie(c16Alice, AuthTypePassword))
			case i < 8:
				kinds[i] = "bootauth-bob"
				req = hs["bootauth-bob"].build(cw)
			case i < 11:
				kinds[i] = "totp-alice"
				req = hs["totp-alice"].build(cw)
			case i == 11:
				kinds[i] = "u2f-sign-request-bob"
				req = verifNewRequest("GET", u2fSignRequestPath, nil)
				req.AddCookie(cw.userCookie(c16Bob, AuthTypePassword))
			case i == 12:
				kinds[i] = "vip-push-start"
				req = verifNewRequest("GET", vipPushStartPath, nil)
				req.AddCookie(cw.userCookie(c16Alice, AuthTypePassword))
			case i == 13:
				kinds[i] = "oauth2-begin"
				req = verifNewRequest("GET", oauth2LoginBeginPath, nil)
				req.URL.RawQuery = "login_destination=%2Fprofile%2F"
			case i == 14:
				kinds[i] = "webauthn-login-begin"
				req = verifNewRequest("GET", webAuthnAuthBeginPath, nil)
				req.AddCookie(cw.userCookie(c16Alice, AuthTypePassword))
			default:
				name := names[rng.Intn(len(names))]
				kinds[i] = name
				req = hs[name].build(cw)
			}
			wg.Add(1)
			go func(i int, req *http.Request) {
				defer wg.Done()
				<-start
				rr, pan := env.serve(req)
				codes[i] = c16Status(rr.Code)
				if pan {
					codes[i] = 599
				}
				atomic.StoreInt32(&finished[i], 1)
			}(i, req)
		}
		close(start)
		// watchdog: every request of the round returns
		allDone := make(chan struct{})
		go func() { wg.Wait(); close(allDone) }()
		select {
		case <-allDone:
		case <-time.After(c16HangLimit):
			for i := range kinds {
				if atomic.LoadInt32(&finished[i]) == 0 {
					res.hit(verifHit{Key: "C16:hang:" + kinds[i], Kind: "schedule", Oracle: "every request of a concurrent round returns",
						What: fmt.Sprintf("round %d of %d simultaneous requests: %s had not returned %v after the start of the round (all others had)", round, n, kinds[i], c16HangLimit), Case: map[string]interface{}{"round": round, "kinds": kinds}})
				}
			}
			res.Extra["rounds"] = round
			res.write(t, "TestVerif_C16Race")
			return
		}
		count := func(kind string, code int) int {
			c := 0
			for i := range kinds {
				if kinds[i] == kind && codes[i] == code {
					c++
				}
			}
			return c
		}
		if c := count("bootauth-bob", 200); c > 1 {
			res.hit(verifHit{Key: "C16:double-spend:bootstrap-otp", Kind: "schedule", Oracle: "a one-time value presented several times at the same moment is honoured at most once", What: fmt.Sprintf("%d simultaneous presentations of one bootstrap OTP were all accepted", c), Case: round})
		}
		if c := count("totp-alice", 200); c > 1 {
			res.hit(verifHit{Key: "C16:double-spend:totp", Kind: "schedule", Oracle: "a one-time value presented several times at the same moment is honoured at most once", What: fmt.Sprintf("%d simultaneous presentations of one TOTP code were all accepted", c), Case: round})
		}
		if c := count("u2f-sign-response", 200); c > 1 {
			res.hit(verifHit{Key: "C16:double-spend:u2f-challenge", Kind: "schedule", Oracle: "a one-time value presented several times at the same moment is honoured at most once", What: fmt.Sprintf("%d simultaneous presentations of one U2F assertion were all accepted", c), Case: round})
		}
		for i := range kinds {
			res.eval(fmt.Sprintf("race|%s|%d", kinds[i], codes[i]), codes[i] == 200)
			res.bump(fmt.Sprintf("race_%s_%d", kinds[i], codes[i]))
			if codes[i] == 599 {
				res.hit(verifHit{Key: "C16:panic:" + kinds[i], Oracle: "no handler panics under concurrency", What: kinds[i] + " panicked", Case: round})
			}
		}
		if c := count("oauth2-callback", 200); c == 0 && len(pend) > 0 {
			res.hit(verifHit{Key: "C16:harness:oauth2-callback", Oracle: "harness", What: "no callback of a started federated login was accepted in this round", Case: round})
		}
		res.Extra["rounds"] = round
		if round%5 == 0 {
			res.write(t, "TestVerif_C16Race")
		}
	}
	res.Extra["rounds"] = round
	res.sample(map[string]interface{}{"rounds": round, "per_round": "24 concurrent requests"})
	res.write(t, "TestVerif_C16Race")
}

// ---------------------------------------------------------------- federated login among the requests

const c16HangLimit = 20 * time.Second

// a fake OAuth2 provider: token and userinfo endpoints
func c16Provider() *httptest.Server {
	return httptest.NewServer(http.HandlerFunc(func(w http.ResponseWriter, r *http.Request) {
		w.Header().Set("Content-Type", "application/json")
		switch r.URL.Path {
		case "/token":
			w.Write([]byte(`{"access_token":"tok","token_type":"bearer","expires_in":3600}`))
		case "/userinfo":
			w.Write([]byte(`{"login":"alice"}`))
		default:
			w.WriteHeader(404)
		}
	}))
}

func c16OauthConfig(c *AppConfigFile, providerURL string) {
	c.Oauth2.Enabled = true
	c.Oauth2.ClientID = "keymaster"
	c.Oauth2.ClientSecret = "secret"
	c.Oauth2.AuthUrl = providerURL + "/auth"
	c.Oauth2.TokenUrl = providerURL + "/token"
	c.Oauth2.UserinfoUrl = providerURL + "/userinfo"
	c.Oauth2.Scopes = "openid"
}

type c16Pending struct {
	cookie *http.Cookie
	state  string
}

func (cw *c16World) oauthBegin() (c16Pending, bool) {
	rr, _ := cw.env.serve(verifNewRequest("GET", oauth2LoginBeginPath, nil))
	if rr.Code != 302 {
		return c16Pending{}, false
	}
	u, err := url.Parse(rr.Header().Get("Location"))
	if err != nil {
		return c16Pending{}, false
	}
	for _, c := range rr.Result().Cookies() {
		if c.Name == redirCookieName {
			return c16Pending{cookie: c, state: u.Query().Get("state")}, true
		}
	}
	return c16Pending{}, false
}

func (cw *c16World) oauthCallbackReq(p c16Pending) *http.Request {
	q := url.Values{}
	q.Set("state", p.state)
	q.Set("code", "abc")
	req := verifNewRequest("GET", redirectPath, q)
	req.AddCookie(&http.Cookie{Name: p.cookie.Name, Value: p.cookie.Value})
	return req
}

// the mutexes of the state, found by reflection (sync.Mutex fields of RuntimeState)
func c16StateMutexes(st *RuntimeState) map[string]*sync.Mutex {
	out := map[string]*sync.Mutex{}
	v := reflect.ValueOf(st).Elem()
	mt := reflect.TypeOf(sync.Mutex{})
	for i := 0; i < v.NumField(); i++ {
		if v.Type().Field(i).Type == mt {
			out[v.Type().Field(i).Name] = (*sync.Mutex)(unsafe.Pointer(v.Field(i).UnsafeAddr()))
		}
	}
	return out
}

// Lock hand-over: a request that arrives while ANOTHER request is inside a critical section of one of the
// state's mutexes waits for it and is then served.  (A request that works on a private copy of a held
// mutex waits for ever: nobody unlocks the copy.)  For every kind of request of the concurrent mix and
// every mutex of the state: the harness holds the mutex as "the other request", starts the request,
// releases the mutex a moment later and expects the answer.
func c16LockHandoff(t *testing.T, res *verifResult, cw *c16World) {
	hs := c16Handlers()
	type probe struct {
		name  string
		build func() *http.Request
	}
	var probes []probe
	var names []string
	for n := range hs {
		names = append(names, n)
	}
	sort.Strings(names)
	for _, n := range names {
		h := hs[n]
		probes = append(probes, probe{n, func() *http.Request { return h.build(cw) }})
	}
	probes = append(probes,
		probe{"oauth2-begin", func() *http.Request { return verifNewRequest("GET", oauth2LoginBeginPath, nil) }},
		probe{"oauth2-callback", func() *http.Request {
			p, ok := cw.oauthBegin()
			if !ok {
				return nil
			}
			return cw.oauthCallbackReq(p)
		}},
		probe{"oauth2-callback-unknown", func() *http.Request {
			return cw.oauthCallbackReq(c16Pending{cookie: &http.Cookie{Name: redirCookieName, Value: "unknown"}, state: "x"})
		}},
		probe{"u2f-sign-request", func() *http.Request {
			r := verifNewRequest("GET", u2fSignRequestPath, nil)
			r.AddCookie(cw.userCookie(c16Alice, AuthTypePassword))
			return r
		}},
		probe{"vip-push-start", func() *http.Request {
			r := verifNewRequest("GET", vipPushStartPath, nil)
			r.AddCookie(cw.userCookie(c16Alice, AuthTypePassword))
			return r
		}},
		probe{"webauthn-login-begin", func() *http.Request {
			r := verifNewRequest("GET", webAuthnAuthBeginPath, nil)
			r.AddCookie(cw.userCookie(c16Alice, AuthTypePassword))
			return r
		}})
	mutexes := c16StateMutexes(cw.env.state)
	var mnames []string
	for n := range mutexes {
		mnames = append(mnames, n)
	}
	sort.Strings(mnames)
	if len(mnames) == 0 {
		res.hit(verifHit{Key: "C16:harness:no-mutex", Oracle: "harness", What: "RuntimeState has no sync.Mutex field", Case: "lock hand-over"})
	}
	for _, mn := range mnames {
		mu := mutexes[mn]
		for _, p := range probes {
			cw.reset(t)
			req := p.build()
			if req == nil {
				continue
			}
			done := make(chan int, 1)
			mu.Lock()
			go func() {
				rr, pan := cw.env.serve(req)
				if pan {
					done <- 599
					return
				}
				done <- rr.Code
			}()
			time.Sleep(15 * time.Millisecond)
			waited := false
			select {
			case <-done:
			default:
				waited = true
			}
			mu.Unlock()
			if waited {
				select {
				case <-done:
				case <-time.After(c16HangLimit / 4):
					res.hit(verifHit{Key: "C16:hang:" + p.name, Kind: "schedule", Oracle: "a request that arrives while another request holds a mutex of the state is served once the mutex is released",
						What: fmt.Sprintf("%s started while RuntimeState.%s was held by another request; the mutex was released 15 ms later; the request had not returned %v after that", p.name, mn, c16HangLimit/4),
						Case: map[string]interface{}{"request": p.name, "mutex_held_by_another_request": mn}})
				}
			}
			res.eval("handoff|"+mn+"|"+p.name, waited)
			res.bump("lock_handoff_probes")
			if waited {
				res.bump("lock_handoff_request_waited_for_" + mn)
			}
		}
	}
}
