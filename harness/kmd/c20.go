package main

// C20 (daemon side): issuing and login histories over all six issuing paths with in-process
// subscribers of different speeds attached to the real EventNotifier.

import (
	"bufio"
	"bytes"
	"encoding/base64"
	"encoding/json"
	"encoding/pem"
	"fmt"
	"io"
	"io/ioutil"
	"math/rand"
	"net"
	"net/http"
	"net/http/httptest"
	"net/url"
	"path/filepath"
	"strings"
	"sync"
	"testing"
	"time"

	"github.com/Cloud-Foundations/keymaster/keymasterd/eventnotifier"
	"github.com/Cloud-Foundations/keymaster/proto/eventmon"
)

type c20Sub struct {
	ch    chan eventmon.EventV0
	speed int // 0 never reads, 1 one event every other operation, 2 drains after every operation, 3 probe
	live  bool
	got   []eventmon.EventV0
}

type c20Step struct {
	coq  string
	lens []int // nil: no snapshot
	desc string
}

type c20History struct {
	t      *testing.T
	env    *verifEnv
	res    *verifResult
	rng    *rand.Rand
	subs   []*c20Sub
	steps  []c20Step
	name   string
	opNo   int
	stuck  bool
	hangUp bool
	// credentials
	keys        *verifKeys
	userCookie  *http.Cookie
	adminCookie *http.Cookie
	ipChainFn   func() *http.Request
}

func coqBytesOfString(s string) string { return coqPacked([]byte(s)) }

// long byte strings (certificates) are written once as a definition and referred to by name
var c20Blobs = map[string]string{}
var c20BlobDefs strings.Builder

func c20Blob(b []byte) string {
	if len(b) <= 40 {
		return coqPacked(b)
	}
	if n, ok := c20Blobs[string(b)]; ok {
		return n
	}
	n := fmt.Sprintf("blob%d", len(c20Blobs))
	c20Blobs[string(b)] = n
	c20BlobDefs.WriteString(fmt.Sprintf("Definition %s : bs := %s.\n", n, coqPacked(b)))
	return n
}

func c20CoqEvent(e eventmon.EventV0) string {
	switch e.Type {
	case eventmon.EventTypeSSHCert:
		return "ECert 0 " + c20Blob(e.CertData)
	case eventmon.EventTypeX509Cert:
		return "ECert 1 " + c20Blob(e.CertData)
	case eventmon.EventTypeAuth:
		n := 9
		switch e.AuthType {
		case eventmon.AuthTypePassword:
			n = 0
		case eventmon.AuthTypeU2F:
			n = 1
		case eventmon.AuthTypeSymantecVIP:
			n = 2
		case eventmon.AuthTypeTOTP:
			n = 3
		}
		return fmt.Sprintf("EAuth %d %s", n, coqBytesOfString(e.Username))
	case eventmon.EventTypeWebLogin:
		return "EWebLogin " + coqBytesOfString(e.Username)
	case eventmon.EventTypeServiceProviderLogin:
		return "ESPLogin " + coqBytesOfString(e.ServiceProviderUrl) + " " + coqBytesOfString(e.Username)
	}
	return "ECert 99 []"
}

func c20CoqEvents(l []eventmon.EventV0) string {
	var parts []string
	for _, e := range l {
		parts = append(parts, "("+c20CoqEvent(e)+")")
	}
	return "[" + strings.Join(parts, "; ") + "]"
}

func (h *c20History) snapshot() []int {
	lens := make([]int, len(h.subs))
	for i, s := range h.subs {
		lens[i] = len(s.ch)
	}
	return lens
}

func (h *c20History) emit(coq, desc string, snap bool) {
	st := c20Step{coq: coq, desc: desc}
	if snap {
		st.lens = h.snapshot()
		if st.lens == nil {
			st.lens = []int{}
		}
	}
	h.steps = append(h.steps, st)
}

// subscriber i takes one event if there is one (DRecv i)
func (h *c20History) recv(i int, snap bool) (eventmon.EventV0, bool) {
	s := h.subs[i]
	select {
	case e := <-s.ch:
		s.got = append(s.got, e)
		h.emit(fmt.Sprintf("DRecv %d", i), fmt.Sprintf("recv %d", i), snap)
		return e, true
	default:
		h.emit(fmt.Sprintf("DRecv %d", i), fmt.Sprintf("recv %d (empty)", i), snap)
		return eventmon.EventV0{}, false
	}
}

func (h *c20History) drain(i int) []eventmon.EventV0 {
	var out []eventmon.EventV0
	for {
		e, ok := h.recv(i, false)
		if !ok {
			return out
		}
		out = append(out, e)
	}
}

func (h *c20History) attach(speed int) int {
	s := &c20Sub{ch: eventNotifier.VerifAttach(), speed: speed, live: true}
	h.subs = append(h.subs, s)
	h.emit(fmt.Sprintf("DSub %d", eventnotifier.VerifBufferLength), fmt.Sprintf("attach speed=%d", speed), true)
	h.res.bump(fmt.Sprintf("sub_speed_%d", speed))
	return len(h.subs) - 1
}

func (h *c20History) detach(i int) {
	s := h.subs[i]
	eventNotifier.VerifDetach(s.ch)
	s.live = false
	h.emit(fmt.Sprintf("DUnsub %d", i), fmt.Sprintf("detach %d", i), true)
}

func (h *c20History) probe() int {
	for i, s := range h.subs {
		if s.speed == 3 && s.live {
			return i
		}
	}
	return -1
}

// the subscribers read according to their speed
func (h *c20History) readers() {
	h.opNo++
	for i, s := range h.subs {
		if !s.live {
			continue
		}
		switch s.speed {
		case 1:
			if h.opNo%2 == 0 {
				h.recv(i, true)
			}
		case 2, 3:
			h.drain(i)
			h.emit(fmt.Sprintf("DRecv %d", i), "snapshot", true)
		}
	}
}

type c20Writer struct {
	*httptest.ResponseRecorder
	onFirst func()
	fired   bool
	hangUp  bool // the requester goes away while the body is written: Write reports an error
}

func (w *c20Writer) first() {
	if !w.fired {
		w.fired = true
		w.onFirst()
	}
}
func (w *c20Writer) WriteHeader(c int) { w.first(); w.ResponseRecorder.WriteHeader(c) }
func (w *c20Writer) Write(b []byte) (int, error) {
	w.first()
	n, err := w.ResponseRecorder.Write(b)
	if w.hangUp {
		// the connection breaks on the write that completes the certificate
		if _, wire := c20ResponseCert(w.ResponseRecorder.Body.Bytes()); wire != nil {
			return 0, io.ErrClosedPipe
		}
	}
	return n, err
}

// serve with a hook on the first byte of the response and a watchdog
func (h *c20History) serve(req *http.Request, onFirst func()) (*httptest.ResponseRecorder, time.Duration, bool) {
	w := &c20Writer{ResponseRecorder: httptest.NewRecorder(), onFirst: onFirst, hangUp: h.hangUp}
	done := make(chan struct{})
	t0 := time.Now()
	go func() {
		defer func() {
			if p := recover(); p != nil {
				w.ResponseRecorder.Code = 500
			}
			close(done)
		}()
		h.env.handler.ServeHTTP(w, req)
	}()
	select {
	case <-done:
		return w.ResponseRecorder, time.Since(t0), true
	case <-time.After(8 * time.Second):
		return w.ResponseRecorder, time.Since(t0), false
	}
}

var c20PathNames = []string{"ssh", "x509", "x509-kubernetes", "role", "refresh", "aws"}
var c20PathCoq = []string{"PSsh", "PX509", "PK8s", "PRole", "PRefresh", "PAws"}

func (h *c20History) request(path string, good bool) *http.Request {
	sshLine, pemKey, derRU := h.keys.sshPub, h.keys.pemPub, h.keys.derPubRU
	if !good {
		sshLine, pemKey, derRU = "ssh-rsa AAAA garbage\n", "-----BEGIN PUBLIC KEY-----\nAAAA\n-----END PUBLIC KEY-----\n", "AAAA"
	}
	switch path {
	case "ssh":
		r := verifCertgenRequest("POST", "alice", "ssh", sshLine, nil, nil)
		r.AddCookie(h.userCookie)
		return r
	case "x509", "x509-kubernetes":
		r := verifCertgenRequest("POST", "alice", path, pemKey, nil, nil)
		r.AddCookie(h.userCookie)
		return r
	case "role":
		r := verifNewRequest("POST", getRoleRequestingPath, roleCertForm("svc-automation", []string{"10.0.0.0/8"}, derRU))
		r.AddCookie(h.adminCookie)
		return r
	case "refresh":
		r := verifNewRequest("POST", refreshRoleRequestingCertPath, roleCertForm("", nil, derRU))
		return withTLS(r, h.env.ipRestrictedChain("svc-automation", []net.IPNet{mustCIDR("10.0.0.0/8")}, &h.keys.ec.PublicKey), "10.9.9.9:1234")
	default:
		return verifAwsRequest(pemKey)
	}
}

// the bytes a 200 response carries: SSH wire form or X.509 DER
func c20ResponseCert(body []byte) (string, []byte) {
	if blk, _ := pem.Decode(body); blk != nil && blk.Type == "CERTIFICATE" {
		return eventmon.EventTypeX509Cert, blk.Bytes
	}
	f := strings.Fields(string(body))
	if len(f) >= 2 && strings.Contains(f[0], "-cert-v01@openssh.com") {
		if b, err := base64.StdEncoding.DecodeString(f[1]); err == nil {
			return eventmon.EventTypeSSHCert, b
		}
	}
	return "", nil
}

func (h *c20History) issue(pi int, good bool) {
	path := c20PathNames[pi]
	h.hangUp = good && h.rng.Intn(7) == 0
	defer func() { h.hangUp = false }()
	if h.hangUp {
		h.res.bump("requester_hangs_up")
	}
	req := h.request(path, good)
	p := h.probe()
	var pre, post []eventmon.EventV0
	var lensAtResponse []int
	rr, lat, finished := h.serve(req, func() {
		lensAtResponse = h.snapshot()
		if p >= 0 {
			// what the probe subscriber holds at the moment the first response byte is written
			for {
				select {
				case e := <-h.subs[p].ch:
					pre = append(pre, e)
					continue
				default:
				}
				break
			}
		}
	})
	cs := map[string]interface{}{"history": h.name, "op": len(h.steps), "path": path, "good_request": good, "requester_hangs_up_during_body": h.hangUp, "subscribers": h.describeSubs()}
	if !finished {
		h.stuck = true
		h.res.hit(verifHit{Key: "C20:blocked:publish", Oracle: "issuance does not complete while a subscriber is not reading", Kind: "history",
			What: fmt.Sprintf("%s request still running after %v with subscribers %s", path, lat, h.describeSubs()), Case: cs})
		return
	}
	if p >= 0 {
		for {
			select {
			case e := <-h.subs[p].ch:
				post = append(post, e)
				continue
			default:
			}
			break
		}
	}
	typ, wire := c20ResponseCert(rr.Body.Bytes())
	ok := rr.Code == 200 && wire != nil
	h.res.bump("path:" + path)
	if ok {
		h.res.bump("issued")
	} else {
		h.res.bump(fmt.Sprintf("refused_%d", rr.Code))
	}
	if good && !ok {
		h.t.Errorf("%s request refused: %d %s", path, rr.Code, rr.Body.String())
		h.res.hit(verifHit{Key: "C20:harness:" + path, Oracle: "harness", What: fmt.Sprintf("plain %s request was refused (%d)", path, rr.Code), Case: cs})
	}
	h.res.eval(fmt.Sprintf("issue|%s|%v|%d|%s|%d|%d", path, good, rr.Code, h.describeSubs(), len(pre), len(post)), ok)
	if ok && p >= 0 {
		find := func(l []eventmon.EventV0) (same, other bool) {
			for _, e := range l {
				if e.Type == eventmon.EventTypeSSHCert || e.Type == eventmon.EventTypeX509Cert {
					if e.Type == typ && bytes.Equal(e.CertData, wire) {
						same = true
					} else {
						other = true
					}
				}
			}
			return
		}
		preSame, preOther := find(pre)
		postSame, postOther := find(post)
		obs := map[string]interface{}{"status": rr.Code, "events_before_first_response_byte": len(pre), "events_after": len(post), "latency_ms": lat.Milliseconds()}
		switch {
		case preSame:
		case postSame:
			h.res.hit(verifHit{Key: "C20:published-after-response:" + path, Oracle: "the certificate event is published only after the response has been started", Kind: "history",
				What: fmt.Sprintf("%s: 200 response written before the event with the same bytes was published", path), Case: cs, Observed: obs})
		case preOther || postOther:
			h.res.hit(verifHit{Key: "C20:other-bytes:" + path, Oracle: "the published certificate bytes differ from the bytes returned", Kind: "history",
				What: fmt.Sprintf("%s: a certificate event was published but its CertData/type differ from the %d bytes returned", path, len(wire)), Case: cs, Observed: obs})
		default:
			h.res.hit(verifHit{Key: "C20:not-published:" + path, Oracle: "a certificate was returned (200) and no event was published", Kind: "history",
				What: fmt.Sprintf("%s: 200 response with a %d-byte certificate, no certificate event reached a subscriber with free slots", path, len(wire)), Case: cs, Observed: obs})
		}
	}
	// every other connected subscriber with a free slot must hold one more event at response time
	_ = lensAtResponse
	h.emit(fmt.Sprintf("DIssue %s %s %s", c20PathCoq[pi], coqBool(ok), c20Blob(wire)), fmt.Sprintf("issue %s good=%v status=%d pre=%d post=%d", path, good, rr.Code, len(pre), len(post)), false)
	if p >= 0 {
		for _, e := range append(pre, post...) {
			h.subs[p].got = append(h.subs[p].got, e)
			h.emit(fmt.Sprintf("DRecv %d", p), "probe", false)
		}
	}
}

func (h *c20History) describeSubs() string {
	var parts []string
	for _, s := range h.subs {
		if s.live {
			parts = append(parts, fmt.Sprintf("%d:%d/%d", s.speed, len(s.ch), cap(s.ch)))
		}
	}
	return "[" + strings.Join(parts, " ") + "]"
}

func (h *c20History) login(user, password string, html bool) {
	form := url.Values{}
	form.Set("username", user)
	form.Set("password", password)
	req := verifNewRequest("POST", "/api/v0/login", form)
	if html {
		req.Header.Set("Accept", "text/html")
	}
	rr, _, finished := h.serve(req, func() {})
	if !finished {
		h.stuck = true
		h.res.hit(verifHit{Key: "C20:blocked:publish", Oracle: "login does not complete while a subscriber is not reading", Kind: "history", What: "login still running after 8 s", Case: h.name})
		return
	}
	ok := (html && rr.Code == 302) || (!html && rr.Code == 200)
	h.res.bump("login")
	h.res.eval(fmt.Sprintf("login|%s|%v|%v|%d|%s", user, html, ok, rr.Code, h.describeSubs()), ok)
	h.emit(fmt.Sprintf("DLogin %s %s %s", coqBytesOfString(user), coqBool(ok), coqBool(html)), fmt.Sprintf("login %s html=%v status=%d", user, html, rr.Code), false)
	if p := h.probe(); p >= 0 {
		evs := h.drain(p)
		var sawAuth, sawWeb bool
		for _, e := range evs {
			if e.Type == eventmon.EventTypeAuth && e.AuthType == eventmon.AuthTypePassword && e.Username == user {
				sawAuth = true
			}
			if e.Type == eventmon.EventTypeWebLogin && e.Username == user {
				sawWeb = true
			}
		}
		if ok && html && !sawWeb {
			h.res.hit(verifHit{Key: "C20:weblogin-not-published", Oracle: "a completed web login is not reported", Kind: "history",
				What: fmt.Sprintf("browser login of %s answered %d, no WebLogin event", user, rr.Code), Case: map[string]interface{}{"history": h.name, "user": user}})
		}
		if !ok && (sawAuth || sawWeb) {
			h.res.hit(verifHit{Key: "C20:login-event-without-login", Oracle: "a refused login is reported as a login", Kind: "history",
				What: fmt.Sprintf("login of %s answered %d but events were published", user, rr.Code), Case: map[string]interface{}{"history": h.name, "user": user}})
		}
	}
}

const c20SPGood = "https://app.example.com/callback"
const c20SPBad = "https://app.elsewhere.test/callback"

func (h *c20History) spLogin(good bool) {
	redirect := c20SPGood
	if !good {
		redirect = c20SPBad
	}
	q := url.Values{}
	q.Set("response_type", "code")
	q.Set("client_id", "c20sp")
	q.Set("scope", "openid")
	q.Set("redirect_uri", redirect)
	q.Set("state", "st4te")
	req := verifNewRequest("GET", idpOpenIDCAuthorizationPath, q)
	req.AddCookie(h.env.cookie("alice", AuthTypePassword))
	rr, _, finished := h.serve(req, func() {})
	if !finished {
		h.stuck = true
		return
	}
	ok := rr.Code == 302 && strings.Contains(rr.Header().Get("Location"), "code=")
	h.res.bump("splogin")
	h.res.eval(fmt.Sprintf("splogin|%v|%d|%s", good, rr.Code, h.describeSubs()), ok)
	if good && !ok {
		h.res.hit(verifHit{Key: "C20:harness:splogin", Oracle: "harness", What: fmt.Sprintf("plain authorization request refused (%d)", rr.Code), Case: h.name})
	}
	h.emit(fmt.Sprintf("DSPLogin %s %s %s", coqBytesOfString(redirect), coqBytesOfString("alice"), coqBool(ok)), fmt.Sprintf("splogin good=%v status=%d", good, rr.Code), false)
	if p := h.probe(); p >= 0 {
		evs := h.drain(p)
		saw := false
		for _, e := range evs {
			if e.Type == eventmon.EventTypeServiceProviderLogin && e.Username == "alice" && e.ServiceProviderUrl == redirect {
				saw = true
			}
		}
		if ok && !saw {
			h.res.hit(verifHit{Key: "C20:splogin-not-published", Oracle: "a service-provider login is not reported", Kind: "history",
				What: "authorization code handed out, no ServiceProviderLogin event", Case: map[string]interface{}{"history": h.name}})
		}
	}
}

// a subscriber over the production path: CONNECT to the notifier's ServeHTTP, JSON stream
type c20Conn struct {
	conn net.Conn
	mu   sync.Mutex
	got  []eventmon.EventV0
}

func c20Connect(t *testing.T, addr string, read bool) *c20Conn {
	conn, err := net.Dial("tcp", addr)
	if err != nil {
		t.Fatal(err)
	}
	fmt.Fprintf(conn, "CONNECT %s HTTP/1.0\r\n\r\n", eventmon.HttpPath)
	br := bufio.NewReader(conn)
	line, err := br.ReadString('\n')
	if err != nil || !strings.Contains(line, eventmon.ConnectString) {
		t.Fatalf("eventmon connect: %q %v", line, err)
	}
	br.ReadString('\n')
	c := &c20Conn{conn: conn}
	if read {
		go func() {
			dec := json.NewDecoder(br)
			for {
				var e eventmon.EventV0
				if err := dec.Decode(&e); err != nil {
					return
				}
				c.mu.Lock()
				c.got = append(c.got, e)
				c.mu.Unlock()
			}
		}()
	}
	return c
}

func (c *c20Conn) count() int {
	c.mu.Lock()
	defer c.mu.Unlock()
	return len(c.got)
}

func c20SameEvent(a, b eventmon.EventV0) bool {
	return a.Type == b.Type && bytes.Equal(a.CertData, b.CertData) && a.AuthType == b.AuthType &&
		a.ServiceProviderUrl == b.ServiceProviderUrl && a.Username == b.Username && a.VIPAuthType == b.VIPAuthType
}

func TestVerif_C20(t *testing.T) {
	verifWriteConsts(t)
	res := newVerifResult("operation histories (issue on ssh/x509/kubernetes/role-requesting/refresh/cloud-role with a good or a malformed request, a requester that hangs up while the body is written, password login browser/CLI good/bad, service-provider authorization good/bad, attach/detach) with 0..3 subscribers that never read / read every other operation / drain at once, plus a probe subscriber drained at the first response byte; one history with subscribers over the CONNECT stream; one with no subscriber at all; non-trivial = the request was answered with a certificate / a completed login; distinct by (operation, status, subscriber occupancy)")
	env := verifSetup(t, func(c *AppConfigFile, dir string) {
		c.Base.AllowedAuthBackendsForWebUI = []string{"password"}
		c.Base.AllowedAuthBackendsForCerts = []string{"U2F"}
		c.Base.AutomationUsers = []string{"svc-automation"}
		c.Base.AdminUsers = []string{"admin"}
		c.AwsCerts.AllowedAccounts = []string{"123456789012"}
		c.OpenIDConnectIDP.Client = append(c.OpenIDConnectIDP.Client, OpenIDConnectClientConfig{ClientID: "c20sp", ClientSecret: "s3cret",
			AllowedRedirectDomains: []string{"example.com"}})
	})
	env.enableFakeAws()
	env.handler = env.buildHandler()
	rng := verifRand()
	keys := verifNewKeys()
	nHist, nOps := 14, 45
	if verifThorough() {
		nHist, nOps = 160, 70
	}
	var sb, idx strings.Builder
	sb.WriteString("Definition histories : list (list (dop * option (list nat)) * list (list event * list event)) := [\n")
	var latFull, latFree []time.Duration
	nWritten := 0
	for hi := 0; hi < nHist; hi++ {
		eventNotifier = eventnotifier.New(logger)
		h := &c20History{t: t, env: env, res: res, rng: rng, keys: keys, name: fmt.Sprintf("h%d", hi),
			userCookie: env.cookie("alice", AuthTypeU2F), adminCookie: env.cookie("admin", AuthTypePassword)}
		var fastConn, slowConn *c20Conn
		var srv *httptest.Server
		withProbe := hi != 1
		if withProbe {
			h.attach(3)
		}
		switch {
		case hi == 0:
			// the production stream: one reader that keeps up, one that never reads
			srv = httptest.NewServer(eventNotifier)
			addr := strings.TrimPrefix(srv.URL, "http://")
			fastConn = c20Connect(t, addr, true)
			slowConn = c20Connect(t, addr, false)
			for w := 0; w < 200 && eventNotifier.VerifSubscribers() < 3; w++ {
				time.Sleep(5 * time.Millisecond)
			}
			res.bump("connect_subscribers")
		case hi == 1:
			// nobody listens
		default:
			n := rng.Intn(4)
			if hi == 2 {
				n = 3
			}
			for k := 0; k < n; k++ {
				sp := rng.Intn(3)
				if hi == 2 {
					sp = k // one of each speed
				}
				h.attach(sp)
			}
		}
		for k := 0; k < nOps && !h.stuck; k++ {
			c := rng.Intn(100)
			if hi <= 2 && k < 12 {
				c = (k % 6) * 10 // every path at least twice, in order
			}
			fullBefore := false
			for _, s := range h.subs {
				if s.live && len(s.ch) == cap(s.ch) {
					fullBefore = true
				}
			}
			switch {
			case c < 60:
				t0 := time.Now()
				h.issue(c/10, (hi <= 2 && k < 12) || rng.Intn(6) != 0)
				if fullBefore {
					latFull = append(latFull, time.Since(t0))
				} else {
					latFree = append(latFree, time.Since(t0))
				}
			case c < 74:
				u := verifUsers[rng.Intn(2)]
				pw := u.password
				if rng.Intn(4) == 0 {
					pw = "wrong"
				}
				h.login(u.name, pw, rng.Intn(2) == 0)
			case c < 84:
				h.spLogin(rng.Intn(4) != 0)
			case c < 92:
				if hi > 1 && len(h.subs) < 5 {
					h.attach(rng.Intn(3))
				}
			default:
				var cand []int
				for i, s := range h.subs {
					if s.live && s.speed != 3 {
						cand = append(cand, i)
					}
				}
				if len(cand) > 0 {
					h.detach(cand[rng.Intn(len(cand))])
				}
			}
			h.readers()
			if fastConn != nil && withProbe {
				// the reader that keeps up has everything the probe has
				want := len(h.subs[0].got)
				for w := 0; w < 600 && fastConn.count() < want; w++ {
					time.Sleep(5 * time.Millisecond)
				}
			}
		}
		if fastConn != nil {
			probe := h.subs[0].got
			fastConn.mu.Lock()
			got := append([]eventmon.EventV0(nil), fastConn.got...)
			fastConn.mu.Unlock()
			same := len(got) == len(probe)
			for i := 0; same && i < len(got); i++ {
				same = c20SameEvent(got[i], probe[i])
			}
			res.eval(fmt.Sprintf("connect-stream|%d", len(probe)), len(probe) > 0)
			if !same {
				res.hit(verifHit{Key: "C20:connect-stream", Oracle: "a connected reader that keeps up does not receive the published events, byte for byte and in order", Kind: "history",
					What: fmt.Sprintf("reader over the eventmon stream has %d events, the in-process probe %d (or contents differ)", len(got), len(probe)), Case: h.name})
			}
			fastConn.conn.Close()
			slowConn.conn.Close()
			srv.Close()
		}
		if h.stuck {
			break
		}
		// Coq case
		if nWritten > 0 {
			sb.WriteString(";\n")
		}
		nWritten++
		sb.WriteString(" ([")
		for i, st := range h.steps {
			if i > 0 {
				sb.WriteString(";\n   ")
			}
			lens := "None"
			if st.lens != nil {
				var ls []string
				for _, l := range st.lens {
					ls = append(ls, fmt.Sprintf("%d%%nat", l))
				}
				lens = "Some [" + strings.Join(ls, ";") + "]"
			}
			sb.WriteString(fmt.Sprintf("(%s, %s)", st.coq, lens))
		}
		sb.WriteString("],\n  [")
		for i, s := range h.subs {
			if i > 0 {
				sb.WriteString(";\n   ")
			}
			var rest []eventmon.EventV0
			for {
				select {
				case e := <-s.ch:
					rest = append(rest, e)
					continue
				default:
				}
				break
			}
			sb.WriteString("(" + c20CoqEvents(s.got) + ", " + c20CoqEvents(rest) + ")")
		}
		sb.WriteString("])")
		var descs []string
		for _, st := range h.steps {
			descs = append(descs, st.desc)
		}
		idx.WriteString(fmt.Sprintf("%d\t%s: %s\n", hi, h.name, strings.Join(descs, " | ")))
		res.bump("histories")
	}
	sb.WriteString("\n].\n")
	sb.WriteString("Definition c20_hist_mismatches := Eval vm_compute in mismatches (fun h => negb (dhistory_ok (fst h) (snd h))) histories.\nPrint c20_hist_mismatches.\n")
	sb.WriteString("Definition c20_ncases := Eval vm_compute in fold_left (fun n h => (n + N.of_nat (length (fst h)))%N) histories 0%N.\nPrint c20_ncases.\n")
	head := coqCaseHeader + "From KM Require Import Base.Cases Model.Events.\n" + c20BlobDefs.String()
	if err := ioutil.WriteFile(filepath.Join(verifOut(), "CasesC20.v"), []byte(head+sb.String()), 0644); err != nil {
		t.Fatal(err)
	}
	ioutil.WriteFile(filepath.Join(verifOut(), "CasesC20.idx"), []byte(idx.String()), 0644)
	med := func(l []time.Duration) int64 {
		if len(l) == 0 {
			return -1
		}
		var s time.Duration
		for _, d := range l {
			s += d
		}
		return (s / time.Duration(len(l))).Microseconds()
	}
	res.Extra["mean_issue_latency_us_with_a_full_subscriber"] = med(latFull)
	res.Extra["mean_issue_latency_us_otherwise"] = med(latFree)
	res.Extra["issues_with_a_full_subscriber"] = len(latFull)
	res.sample(map[string]interface{}{"issues_with_a_full_never-reading_subscriber": len(latFull), "mean_latency_us": med(latFull), "mean_latency_us_without": med(latFree)})
	if len(latFull) == 0 {
		res.hit(verifHit{Key: "C20:harness:no-full-subscriber", Oracle: "harness", What: "no issuance ran against a full subscriber channel", Case: "generator"})
	}
	res.write(t, "TestVerif_C20")
}
