package main

// C17, round 4: the leading slash-run family, the scheme-in-first-segment family, the observed Location resolved as
// a browser would, and configuration by reflection (every empty-by-default string knob of the base configuration
// set to a plausible URL through the real loader).

import (
	"fmt"
	"io/ioutil"
	"os"
	"path/filepath"
	"reflect"
	"strings"
	"testing"
	"time"

	"github.com/Cloud-Foundations/golib/pkg/log/testlogger"
	"gopkg.in/yaml.v2"
)

// every run of '/' and '\' of length 2..5 (32+16+8+4 = 60 runs; a browser reads an authority behind ANY run of two
// or more of them for a special scheme, url.Parse only behind exactly "//"), followed by a host, without and with
// path / query
func c17SlashRuns() []string {
	out := []string{}
	prev := []string{""}
	for l := 1; l <= 5; l++ {
		var next []string
		for _, p := range prev {
			next = append(next, p+"/", p+"\\")
		}
		if l >= 2 {
			out = append(out, next...)
		}
		prev = next
	}
	return out
}

func c17SlashRunFamily(full bool) []string {
	tails := []string{"evil.example.net", "evil.example.net/a?b=c"}
	if full {
		tails = append(tails, "evil.example.net/", "evil.example.net:443/x#f", "user@evil.example.net/", "evil.example.net/..", "evil.example.net?x")
	}
	var out []string
	for _, run := range c17SlashRuns() {
		for _, tl := range tails {
			out = append(out, run+tl)
		}
	}
	// the same runs behind a dot segment or an empty query: what a cleaning step in front of the sink would remove
	for _, run := range []string{"//", "///", "/\\", "////"} {
		out = append(out, "/."+run+"evil.example.net/", "/a/.."+run+"evil.example.net/")
	}
	return out
}

// a destination whose FIRST path segment is itself a URL (a scheme, a scheme-relative reference, ...): harmless as
// long as the leading slash stays in front of it, an absolute reference as soon as a post-filter step strips the
// slash, joins it to a base, or resolves it against a configured URL
func c17SchemeSegFamily(full bool) []string {
	out := []string{
		"/https://evil.example.net/", "/http://evil.example.net/x?y=1", "/http:/evil.example.net", "/https:/\\evil.example.net/",
		"/javascript:alert(1)", "/HTTPS://evil.example.net/a?b=c", "/ftp://evil.example.net/", "/https:evil.example.net",
		"/profile/", "/ok/landing?x=1", "/./https://evil.example.net/", "/data:text/html,x", "/%2Fevil.example.net/", "/..//evil.example.net/",
		"/../https://evil.example.net/", "/@evil.example.net/", "/https%3A//evil.example.net/", "/.evil.example.net/", "/:evil.example.net/",
		"/ws://evil.example.net/", "/x/../../../evil", "/?//evil.example.net/", "/#//evil.example.net/",
	}
	if full {
		for _, sch := range []string{"https", "http", "HtTpS", "ftp", "wss", "file", "mailto", "javascript", "a+b.c-d"} {
			for _, sep := range []string{"://", ":/", ":", ":///", ":\\\\", ":/\\"} {
				for _, tl := range []string{"evil.example.net/", "evil.example.net", "user@evil.example.net/x?y#z"} {
					out = append(out, "/"+sch+sep+tl)
				}
			}
		}
	}
	// (values with a second slash / backslash right behind the first: the filter refuses them; they are here so that
	// a step that strips ONE slash is met with "//host" -> "/host" as well)
	out = append(out, "//evil.example.net/", "///evil.example.net/", "/\\evil.example.net/", "//https://evil.example.net/")
	return out
}

// ------------------------------------------------------------------ the observed Location as a browser resolves it
// WHATWG URL parsing, the part that decides the origin, for a page served from https://keymaster.example: tab/CR/LF
// are removed; "<special scheme>:" followed by anything but "//" and naming the page's own scheme is relative to the
// page; otherwise every '/' and '\' behind a special scheme is skipped and the authority follows; a reference that
// starts with two of '/' '\' is scheme-relative (again the whole run is skipped); one leading '/' or '\' is
// path-absolute; a non-special scheme (javascript:, data:, mailto: ...) is never same-origin.
type c17Origin struct {
	scheme, host, port, path string
	opaque, invalid          bool
}

const c17PageScheme, c17PageHost, c17PagePort = "https", "keymaster.example", "443"

func c17DefaultPort(scheme string) string {
	switch scheme {
	case "https", "wss":
		return "443"
	case "http", "ws":
		return "80"
	case "ftp":
		return "21"
	}
	return ""
}

func c17CleanURLPath(p string) string {
	if i := strings.IndexAny(p, "?#"); i >= 0 {
		p = p[:i]
	}
	p = strings.ReplaceAll(p, "\\", "/")
	var stack []string
	segs := strings.Split(p, "/")
	for i, s := range segs {
		l := strings.ToLower(s)
		switch l {
		case ".", "%2e":
			if i == len(segs)-1 {
				stack = append(stack, "")
			}
		case "..", ".%2e", "%2e.", "%2e%2e":
			if len(stack) > 0 {
				stack = stack[:len(stack)-1]
			}
			if i == len(segs)-1 {
				stack = append(stack, "")
			}
		default:
			if i == 0 && s == "" {
				continue
			}
			stack = append(stack, s)
		}
	}
	return "/" + strings.Join(stack, "/")
}

func c17Authority(scheme, rest string) c17Origin {
	end := strings.IndexAny(rest, "/\\?#")
	auth, path := rest, ""
	if end >= 0 {
		auth, path = rest[:end], rest[end:]
	}
	if i := strings.LastIndex(auth, "@"); i >= 0 {
		auth = auth[i+1:]
	}
	host, port := auth, c17DefaultPort(scheme)
	if i := strings.LastIndex(auth, ":"); i >= 0 && !strings.HasSuffix(auth, "]") {
		host = auth[:i]
		if auth[i+1:] != "" {
			port = strings.TrimLeft(auth[i+1:], "0")
		}
	}
	host = strings.ToLower(host)
	return c17Origin{scheme: scheme, host: host, port: port, path: c17CleanURLPath(path), invalid: host == ""}
}

func c17Resolve(loc string) c17Origin {
	var b []byte
	for i := 0; i < len(loc); i++ {
		if c := loc[i]; c != '\t' && c != '\n' && c != '\r' {
			b = append(b, c)
		}
	}
	s := strings.TrimFunc(string(b), func(r rune) bool { return r <= 0x20 })
	relative := func(s string) c17Origin {
		isSl := func(c byte) bool { return c == '/' || c == '\\' }
		if len(s) >= 2 && isSl(s[0]) && isSl(s[1]) {
			return c17Authority(c17PageScheme, strings.TrimLeft(s, "/\\"))
		}
		p := s
		if len(s) == 0 || !isSl(s[0]) {
			p = "/" + s // relative to the page's directory: the origin is what matters
		}
		return c17Origin{scheme: c17PageScheme, host: c17PageHost, port: c17PagePort, path: c17CleanURLPath(p)}
	}
	isAlpha := func(c byte) bool { return (c >= 'a' && c <= 'z') || (c >= 'A' && c <= 'Z') }
	if len(s) > 0 && isAlpha(s[0]) {
		i := 1
		for i < len(s) && (isAlpha(s[i]) || (s[i] >= '0' && s[i] <= '9') || s[i] == '+' || s[i] == '-' || s[i] == '.') {
			i++
		}
		if i < len(s) && s[i] == ':' {
			scheme, rest := strings.ToLower(s[:i]), s[i+1:]
			if c17DefaultPort(scheme) == "" {
				return c17Origin{scheme: scheme, opaque: true}
			}
			if scheme == c17PageScheme && !strings.HasPrefix(rest, "//") {
				return relative(rest)
			}
			return c17Authority(scheme, strings.TrimLeft(rest, "/\\"))
		}
	}
	return relative(s)
}

// the property's predicate on an observed Location: it resolves to the page's own origin, or — when the deployment
// names an external URL of its own (ext) — to that URL's origin under that URL's path.  Control bytes are refused.
func c17LocationAllowed(loc, ext string) (bool, string) {
	for i := 0; i < len(loc); i++ {
		if c := loc[i]; (c < 0x20 && c != '\t' && c != '\n' && c != '\r') || c == 0x7f {
			return false, "control byte"
		}
	}
	r := c17Resolve(loc)
	desc := fmt.Sprintf("resolves to %s://%s:%s%s", r.scheme, r.host, r.port, r.path)
	if r.opaque {
		return false, "non-special scheme " + r.scheme + ":"
	}
	if r.invalid {
		return false, desc + " (no host)"
	}
	if r.scheme == c17PageScheme && r.host == c17PageHost && r.port == c17PagePort {
		return true, desc
	}
	if ext != "" {
		e := c17Resolve(ext)
		pre := strings.TrimRight(e.path, "/")
		if !e.opaque && !e.invalid && r.scheme == e.scheme && r.host == e.host && r.port == e.port && (r.path == pre || strings.HasPrefix(r.path, pre+"/")) {
			return true, desc
		}
	}
	return false, desc
}

// the handler class of a "via" label: what stands in front of the first ':' (loginHandler, oauth2, totp, ...)
func c17HandlerClass(via string) string {
	if i := strings.Index(via, ":"); i > 0 {
		return via[:i]
	}
	return via
}

// ------------------------------------------------------------------ configuration by reflection
// every string field of the base configuration (nested structs included), found at run time
type c17Knob struct {
	name  string // Go field path, for the report only
	yaml  string
	index []int
}

func c17StringKnobs() []c17Knob {
	var out []c17Knob
	var walk func(t reflect.Type, idx []int, name string, depth int)
	walk = func(t reflect.Type, idx []int, name string, depth int) {
		if depth > 3 {
			return
		}
		for i := 0; i < t.NumField(); i++ {
			f := t.Field(i)
			tag := strings.Split(f.Tag.Get("yaml"), ",")[0]
			if f.PkgPath != "" || tag == "-" {
				continue
			}
			fidx := append(append([]int{}, idx...), i)
			fname := name + "." + f.Name
			switch f.Type.Kind() {
			case reflect.String:
				out = append(out, c17Knob{name: fname, yaml: tag, index: fidx})
			case reflect.Struct:
				walk(f.Type, fidx, fname, depth+1)
			}
		}
	}
	bf, ok := reflect.TypeOf(AppConfigFile{}).FieldByName("Base")
	if !ok || bf.Type.Kind() != reflect.Struct {
		return nil
	}
	walk(bf.Type, bf.Index, "Base", 0)
	return out
}

// a daemon from a configuration file that the real loader may refuse (no t.Fatal): nil, err then
func c17TrySetup(t *testing.T, edit func(c *AppConfigFile, dir string)) (env *verifEnv, err error) {
	defer func() {
		if p := recover(); p != nil {
			env, err = nil, fmt.Errorf("loader panicked: %v", p)
		}
	}()
	material := verifMaterial(t)
	dir, err := ioutil.TempDir("", "verif_km_c17knob")
	if err != nil {
		return nil, err
	}
	t.Cleanup(func() { os.RemoveAll(dir) })
	copyTree(t, material, dir)
	configFilename := filepath.Join(dir, "config.yml")
	raw, err := ioutil.ReadFile(configFilename)
	if err != nil {
		return nil, err
	}
	raw = []byte(strings.ReplaceAll(string(raw), material, dir))
	var cfg AppConfigFile
	if err := yaml.Unmarshal(raw, &cfg); err != nil {
		return nil, err
	}
	cfg.Base.HostIdentity = "keymaster.example"
	cfg.Base.HttpAddress = ":443"
	cfg.Base.AdminAddress = ":6920"
	f, err := os.OpenFile(cfg.Base.HtpasswdFilename, os.O_APPEND|os.O_WRONLY, 0644)
	if err != nil {
		return nil, err
	}
	f.WriteString("\n" + verifHtpasswdLines())
	f.Close()
	edit(&cfg, dir)
	out, err := yaml.Marshal(&cfg)
	if err != nil {
		return nil, fmt.Errorf("yaml.Marshal: %v", err)
	}
	if err := ioutil.WriteFile(configFilename, out, 0640); err != nil {
		return nil, err
	}
	state, err := loadVerifyConfigFile(configFilename, testlogger.New(t))
	if err != nil {
		return nil, fmt.Errorf("loader: %v", err)
	}
	t.Cleanup(func() {
		if state.dbDone != nil {
			close(state.dbDone)
		}
	})
	env = &verifEnv{t: t, dir: dir, configFile: configFilename, passphrase: verifPassphrase, state: state}
	env.adminClient = verifReadCert(t, filepath.Join(dir, "etc/keymaster/adminClient.pem"))
	env.adminCA = verifReadCert(t, filepath.Join(dir, "etc/keymaster/adminCA.pem"))
	if code := env.inject(env.passphrase, true); code != 200 {
		return nil, fmt.Errorf("unseal answered %d", code)
	}
	select {
	case <-state.SignerIsReady:
	case <-time.After(5 * time.Second):
		return nil, fmt.Errorf("SignerIsReady not signalled")
	}
	env.finishStartup()
	return env, nil
}
