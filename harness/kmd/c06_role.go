package main

// C06 - role (IP-restricted) certificates minted through the real endpoint for every key type, presented with the
// chain crypto/x509 really verifies, are never plain keymaster certificates.
//
// Two daemons through the production path (generated configuration -> loadVerifyConfigFile -> unseal -> client-CA
// pool of main()): one with the main signer only, one with an Ed25519 CA key (ed25519_ca_keyfilename) as well.  On
// each, POST /v1/getRoleRequestingCert (as admin) for every kind of public key - RSA 2048, ECDSA P-256 / P-384 /
// P-521, Ed25519, and two the endpoint has to refuse (RSA 1024, ECDSA P-224) - and every certificate so obtained is
// refreshed through POST /v1/refreshRoleRequestingCert (presented from inside its block).  For every certificate
// the harness finds out FROM THE BYTES who signed it (signature and issuer name against each CA certificate of the
// daemon), whether it carries the address delegation extension (OID 1.3.6.1.5.5.7.1.7), and which chains
// crypto/x509 builds for it against the service port's client-CA pool (leaf.Verify, key usage client auth - no
// hand-built chain); the chains are classified with the gate's own three questions.  That goes to Coq as an RMint
// case (Model/AuthGateRole.v: issue / verified_chains of the MODEL's issuer).  The certificate is then presented
// with exactly those verified chains from an address inside and one outside its block to checkAuth directly under
// the masks {IPCert, KeymasterX509, Any, IPCert|X509, webui|X509} and through routes that take keymaster
// certificates (/certgen/<cn>, /users/, /v1/getRoleRequestingCert, /u2f/SignRequest) and routes that take IP
// certificates (/v1/refreshRoleRequestingCert, /certgen/<cn>): RGate / RRoute cases, compared with check_auth /
// run on the connection state built from the model's issuer.
//
// The Go oracle knows the specification only: a certificate that carries the address extension establishes nothing
// from outside its blocks and never the KeymasterX509 level.

import (
	"bytes"
	"crypto"
	"crypto/ecdsa"
	"crypto/ed25519"
	"crypto/elliptic"
	"crypto/rand"
	"crypto/rsa"
	"crypto/tls"
	"crypto/x509"
	"encoding/base64"
	"encoding/pem"
	"fmt"
	"io/ioutil"
	stdlog "log"
	mrand "math/rand"
	"net"
	"net/http"
	"net/http/httptest"
	"net/url"
	"os"
	"path/filepath"
	"strings"
	"testing"
	"time"

	"github.com/Cloud-Foundations/Dominator/lib/log/debuglogger"
	"github.com/Cloud-Foundations/keymaster/lib/instrumentedwriter"
	"github.com/Cloud-Foundations/keymaster/lib/webapi/v0/proto"
	"golang.org/x/crypto/openpgp"
	"golang.org/x/crypto/openpgp/armor"
)

// a public key the role endpoint is asked to certify
type c06RoleKey struct {
	name     string // goes into oracle keys
	kt       int    // Model/AuthGateRole.v keytype_of: 0 RSA, 1 P-256, 2 P-384, 3 P-521, 4 Ed25519, 5 one the endpoint must refuse
	priv     crypto.Signer
	pubRU    string // PKIX DER, base64 raw-url (the role endpoints' pubkey parameter)
	pubPEM   string // PKIX PEM (the pubkeyfile of /certgen/)
	accepted bool   // by the documented strength rule: RSA >= 2048 bits, curves >= 255 bits, Ed25519
}

func c06RoleNewKey(name string, kt int, accepted bool, priv crypto.Signer, err error) c06RoleKey {
	if err != nil {
		panic(fmt.Sprintf("c06 role key %s: %v", name, err))
	}
	der, err := x509.MarshalPKIXPublicKey(priv.Public())
	if err != nil {
		panic(fmt.Sprintf("c06 role key %s: %v", name, err))
	}
	return c06RoleKey{name: name, kt: kt, priv: priv, pubRU: base64.RawURLEncoding.EncodeToString(der), accepted: accepted,
		pubPEM: string(pem.EncodeToMemory(&pem.Block{Type: "PUBLIC KEY", Bytes: der}))}
}

func c06RoleKeys() []c06RoleKey {
	var ks []c06RoleKey
	r2048, err := rsa.GenerateKey(rand.Reader, 2048)
	ks = append(ks, c06RoleNewKey("rsa2048", 0, true, r2048, err))
	p256, err := ecdsa.GenerateKey(elliptic.P256(), rand.Reader)
	ks = append(ks, c06RoleNewKey("ecdsa-p256", 1, true, p256, err))
	p384, err := ecdsa.GenerateKey(elliptic.P384(), rand.Reader)
	ks = append(ks, c06RoleNewKey("ecdsa-p384", 2, true, p384, err))
	p521, err := ecdsa.GenerateKey(elliptic.P521(), rand.Reader)
	ks = append(ks, c06RoleNewKey("ecdsa-p521", 3, true, p521, err))
	_, ed, err := ed25519.GenerateKey(rand.Reader)
	ks = append(ks, c06RoleNewKey("ed25519", 4, true, ed, err))
	r1024, err := rsa.GenerateKey(rand.Reader, 1024)
	ks = append(ks, c06RoleNewKey("rsa1024", 5, false, r1024, err))
	p224, err := ecdsa.GenerateKey(elliptic.P224(), rand.Reader)
	ks = append(ks, c06RoleNewKey("ecdsa-p224", 5, false, p224, err))
	return ks
}

// PGP-armoured symmetric encryption: the format of the CA key files
func c06RoleArmor(plaintext []byte, pass string) ([]byte, error) {
	buf := new(bytes.Buffer)
	aw, err := armor.Encode(buf, "PGP MESSAGE", nil)
	if err != nil {
		return nil, err
	}
	pw, err := openpgp.SymmetricallyEncrypt(aw, []byte(pass), nil, nil)
	if err != nil {
		return nil, err
	}
	if _, err := pw.Write(plaintext); err != nil {
		return nil, err
	}
	if err := pw.Close(); err != nil {
		return nil, err
	}
	if err := aw.Close(); err != nil {
		return nil, err
	}
	return buf.Bytes(), nil
}

// one daemon of the stage
type c06RoleServer struct {
	name   string
	withEd bool
	p      *c06Prober
	admin  *http.Cookie
	alice  *http.Cookie
	roleCA *x509.Certificate
	mainCA *x509.Certificate
	edCA   *x509.Certificate
}

func c06RolePKIX(pub interface{}) []byte {
	b, err := x509.MarshalPKIXPublicKey(pub)
	if err != nil {
		return nil
	}
	return b
}

func c06RoleServerNew(t *testing.T, p *c06Prober, mat *c06Material, fakes *c06Fakes, res *verifResult, withEd bool) *c06RoleServer {
	env := verifSetup(t, func(c *AppConfigFile, dir string) {
		c.Base.AllowedAuthBackendsForWebUI = []string{"U2F", "TOTP"}
		c.Base.AllowedAuthBackendsForCerts = []string{proto.AuthTypeU2F, proto.AuthTypeTOTP, proto.AuthTypeIPCertificate}
		c.Base.AdminUsers = []string{"admin"}
		c.Base.AutomationUsers = []string{"svc-automation", "autoadm"}
		c.Base.AutomationAdmins = []string{"autoadm"}
		c.Base.EnableLocalTOTP = true
		c.Base.PasswordAttemptGlobalBurstLimit = 100000000
		c.Base.PasswordAttemptGlobalRateLimit = 100000000
		if withEd {
			_, priv, err := ed25519.GenerateKey(rand.Reader)
			if err != nil {
				t.Fatal(err)
			}
			der, err := x509.MarshalPKCS8PrivateKey(priv)
			if err != nil {
				t.Fatal(err)
			}
			asc, err := c06RoleArmor(pem.EncodeToMemory(&pem.Block{Type: "PRIVATE KEY", Bytes: der}), verifPassphrase)
			if err != nil {
				t.Fatal(err)
			}
			fn := filepath.Join(dir, "ed25519Key.asc")
			if err := ioutil.WriteFile(fn, asc, 0600); err != nil {
				t.Fatal(err)
			}
			c.Base.Ed25519CAFilename = fn
		}
	})
	st := env.state
	quiet := debuglogger.New(stdlog.New(ioutil.Discard, "", 0))
	logger = quiet
	st.logger = quiet
	st.db.SetMaxIdleConns(4)
	s := &c06RoleServer{withEd: withEd, name: map[bool]string{false: "main-signer-only", true: "with-ed25519-ca"}[withEd]}
	s.p = &c06Prober{t: t, env: env, res: res, mat: mat, fakes: fakes, log: &c06Logger{}, cfgName: "role-" + s.name, jwtRE: p.jwtRE,
		witnessed: map[string]int{}, denies: p.denies}
	s.p.handler = instrumentedwriter.NewLoggingHandler(verifBuildServiceMux(st), s.p.log)
	s.p.webui = st.getRequiredWebUIAuthLevel()
	s.roleCA, _ = x509.ParseCertificate(st.selfRoleCaCertDer)
	mainPub := c06RolePKIX(st.Signer.Public())
	for _, der := range st.caCertDer {
		c, err := x509.ParseCertificate(der)
		if err != nil {
			continue
		}
		s.p.caCerts = append(s.p.caCerts, c)
		if _, isEd := c.PublicKey.(ed25519.PublicKey); isEd {
			s.edCA = c
		} else if bytes.Equal(c06RolePKIX(c.PublicKey), mainPub) {
			s.mainCA = c
		}
	}
	if s.roleCA != nil {
		s.p.caCerts = append(s.p.caCerts, s.roleCA)
	}
	s.p.seedProfiles()
	s.admin = env.cookie("admin", AuthTypeU2F)
	s.alice = env.cookie("alice", AuthTypeU2F)
	if s.roleCA == nil || s.mainCA == nil || (withEd && (s.edCA == nil || st.Ed25519Signer == nil)) || (!withEd && (s.edCA != nil || st.Ed25519Signer != nil)) {
		t.Fatalf("c06 role stage: signer state of daemon %s not as intended", s.name)
	}
	return s
}

var c06RoleExtOID = []int{1, 3, 6, 1, 5, 5, 7, 1, 7}

// a certificate a role endpoint handed out, and what the bytes say about it
type c06RoleCert struct {
	srv     *c06RoleServer
	ep      int // 0 /v1/getRoleRequestingCert, 1 /v1/refreshRoleRequestingCert, 2 /certgen/<user>?type=x509 (no netblock)
	key     *c06RoleKey
	cn      string
	block   c06Block
	status  int
	leaf    *x509.Certificate
	issuer  int // 0 role CA, 1 main CA, 2 Ed25519 CA, 3 none of them
	hasExt  bool
	chains  [][]*x509.Certificate
	cls     []c06Chain
	coqName string
}

var c06RoleEPName = []string{"getRoleRequestingCert", "refreshRoleRequestingCert", "certgen-x509"}
var c06RoleIssuerName = []string{"role-requesting CA", "main CA", "Ed25519 CA", "none of the daemon's CAs"}

func c06RoleFirstCert(body []byte) *x509.Certificate {
	rest := body
	for {
		var blk *pem.Block
		blk, rest = pem.Decode(rest)
		if blk == nil {
			return nil
		}
		if blk.Type == "CERTIFICATE" {
			if c, err := x509.ParseCertificate(blk.Bytes); err == nil {
				return c
			}
		}
	}
}

func (s *c06RoleServer) inspect(rc *c06RoleCert) {
	st := s.p.env.state
	leaf := rc.leaf
	rc.issuer = 3
	for i, ca := range []*x509.Certificate{s.roleCA, s.mainCA, s.edCA} {
		if ca != nil && bytes.Equal(leaf.RawIssuer, ca.RawSubject) && leaf.CheckSignatureFrom(ca) == nil {
			rc.issuer = i
			break
		}
	}
	for _, e := range leaf.Extensions {
		if len(e.Id) == len(c06RoleExtOID) {
			same := true
			for i := range e.Id {
				same = same && e.Id[i] == c06RoleExtOID[i]
			}
			rc.hasExt = rc.hasExt || same
		}
	}
	// what a handshake with the service port verifies: the pool of main(), client-auth usage
	chains, err := leaf.Verify(x509.VerifyOptions{Roots: st.ClientCAPool, KeyUsages: []x509.ExtKeyUsage{x509.ExtKeyUsageClientAuth}})
	if err == nil {
		rc.chains = chains
	}
	for _, ch := range rc.chains {
		c := c06Chain{len2: len(ch) >= 2}
		if c.len2 {
			c.role = bytes.Equal(ch[1].Raw, st.selfRoleCaCertDer)
			ik := c06RolePKIX(ch[1].PublicKey)
			for _, k := range st.KeymasterPublicKeys {
				if ik != nil && bytes.Equal(ik, c06RolePKIX(k)) {
					c.trusted = true
				}
			}
		}
		rc.cls = append(rc.cls, c)
	}
}

func (rc *c06RoleCert) coq() string {
	var cs []string
	for _, c := range rc.cls {
		cs = append(cs, fmt.Sprintf("och %s %s %s", coqBool(c.len2), coqBool(c.role), coqBool(c.trusted)))
	}
	b := rc.block
	blocks := fmt.Sprintf("[blk %d %d %d %d %d]", b.base>>24, b.base>>16&255, b.base>>8&255, b.base&255, b.p)
	if rc.ep == 2 {
		blocks = "[]"
	}
	// automation identity: the role endpoints only certify configured automation users; /certgen/ is asked for alice
	return fmt.Sprintf("RCert %d %d %s %d %s %s %s %d %s [%s]", rc.ep, rc.key.kt, coqBool(rc.srv.withEd), c06User(rc.cn), blocks, coqBool(rc.ep != 2),
		coqBool(rc.leaf != nil), rc.issuer, coqBool(rc.hasExt), strings.Join(cs, "; "))
}

func (rc *c06RoleCert) describe() string {
	blk := rc.block.String()
	if rc.ep == 2 {
		blk = "none"
	}
	d := fmt.Sprintf("daemon=%s endpoint=%s key=%s identity=%s block=%s -> status=%d", rc.srv.name, c06RoleEPName[rc.ep], rc.key.name, rc.cn, blk, rc.status)
	if rc.leaf != nil {
		var cs []string
		for i, ch := range rc.chains {
			var names []string
			for _, c := range ch {
				names = append(names, fmt.Sprintf("%q", c.Subject.CommonName))
			}
			cs = append(cs, fmt.Sprintf("[%s](len>=2:%v role-CA:%v keymaster-key:%v)", strings.Join(names, ","), rc.cls[i].len2, rc.cls[i].role, rc.cls[i].trusted))
		}
		d += fmt.Sprintf(" signed-by=%q address-extension=%v verified-chains=%s", c06RoleIssuerName[rc.issuer], rc.hasExt, strings.Join(cs, "+"))
	}
	return strings.ReplaceAll(d, "\t", " ")
}

func c06RoleInside(b c06Block, rng *mrand.Rand) uint32 {
	host := uint32(0)
	if b.p < 32 {
		host = rng.Uint32() & (1<<uint(32-b.p) - 1)
	}
	return b.base | host
}

// the neighbouring block: the last bit of the prefix flipped, seeded host bits
func c06RoleOutside(b c06Block, rng *mrand.Rand) uint32 {
	return c06RoleInside(b, rng) ^ (1 << uint(32-b.p))
}

// returns the text appended to CasesC06.v and the lines of CasesC06_role.idx
func c06RoleCertStage(t *testing.T, p *c06Prober, cfg c06Config, mat *c06Material, fakes *c06Fakes, res *verifResult, hit func(verifHit)) (string, []string) {
	start := time.Now()
	rng := mrand.New(mrand.NewSource(verifSeed() + 606))
	thorough := verifThorough() || os.Getenv("VERIF_C06_ROLE_ALL") != "" // the knob runs this stage alone at its thorough volume
	keys := c06RoleKeys()
	servers := []*c06RoleServer{c06RoleServerNew(t, p, mat, fakes, res, false), c06RoleServerNew(t, p, mat, fakes, res, true)}
	var defs, cases, idx []string
	var certs []*c06RoleCert
	addCase := func(term, class, line string) {
		cases = append(cases, term)
		idx = append(idx, fmt.Sprintf("%d\tclass=%s %s", len(idx), class, strings.ReplaceAll(strings.ReplaceAll(line, "\n", " "), "\t", " ")))
	}
	register := func(rc *c06RoleCert) {
		rc.coqName = fmt.Sprintf("role_cert_%d", len(certs))
		certs = append(certs, rc)
		defs = append(defs, fmt.Sprintf("Definition %s : rcert := %s.", rc.coqName, rc.coq()))
		addCase("RMint "+rc.coqName, fmt.Sprintf("%s:%s:issuer", rc.key.name, c06RoleEPName[rc.ep]), "mint "+rc.describe())
		res.eval(fmt.Sprintf("role-mint|%s|%d|%s|%s|%d|%d|%v|%d", rc.srv.name, rc.ep, rc.key.name, rc.cn, rc.status, rc.issuer, rc.hasExt, len(rc.chains)), rc.leaf != nil)
		res.bump("role-cert-request")
		if rc.leaf != nil {
			res.bump("role-cert-minted:" + rc.key.name)
		}
		if rc.key.accepted && (rc.leaf == nil || len(rc.chains) == 0) {
			hit(verifHit{Key: "C06:harness:role-cert-not-minted:" + rc.key.name, Oracle: "harness", Kind: "harness",
				What: "the role endpoint did not hand out a certificate that verifies against the service port's client-CA pool for a key type it takes: " + rc.describe(), Case: rc.describe()})
		}
	}
	blockFor := func(i int) c06Block {
		plens := []int{8, 12, 16, 20, 24, 27}
		pl := plens[i%len(plens)]
		base := (uint32(1+rng.Intn(222))<<24 | rng.Uint32()&0xffffff) &^ (1<<uint(32-pl) - 1)
		return c06Block{base, pl}
	}
	n := 0
	for _, s := range servers {
		for ki := range keys {
			k := &keys[ki]
			idents := []string{"svc-automation"}
			if thorough || k.name == "ed25519" || k.name == "ecdsa-p256" {
				idents = append(idents, "autoadm")
			}
			for _, cn := range idents {
				blk := blockFor(n)
				n++
				// ---- POST /v1/getRoleRequestingCert as admin
				req := verifNewRequest("POST", getRoleRequestingPath, roleCertForm(cn, []string{blk.String()}, k.pubRU))
				req.AddCookie(s.admin)
				_, rr := s.p.serveRR(req)
				rc := &c06RoleCert{srv: s, ep: 0, key: k, cn: cn, block: blk, status: rr.Code}
				if rr.Code == 200 {
					rc.leaf = c06RoleFirstCert(rr.Body.Bytes())
				}
				if rc.leaf != nil {
					s.inspect(rc)
				}
				register(rc)
				if rc.leaf == nil || len(rc.chains) == 0 {
					continue
				}
				// ---- POST /v1/refreshRoleRequestingCert with that certificate from inside its block
				req = verifNewRequest("POST", refreshRoleRequestingCertPath, roleCertForm("", nil, k.pubRU))
				withTLS(req, rc.chains, c06V4(c06RoleInside(blk, rng))+":4711")
				_, rr = s.p.serveRR(req)
				rf := &c06RoleCert{srv: s, ep: 1, key: k, cn: cn, block: blk, status: rr.Code}
				if rr.Code == 200 {
					rf.leaf = c06RoleFirstCert(rr.Body.Bytes())
				}
				if rf.leaf != nil {
					s.inspect(rf)
				}
				register(rf)
			}
		}
	}
	// ---- the other issuer: POST /certgen/alice?type=x509 with alice's session, every kind of key, both daemons
	for _, s := range servers {
		for ki := range keys {
			k := &keys[ki]
			req := verifCertgenRequest("POST", "alice", "x509", k.pubPEM, nil, nil)
			req.AddCookie(s.alice)
			_, rr := s.p.serveRR(req)
			rc := &c06RoleCert{srv: s, ep: 2, key: k, cn: "alice", status: rr.Code}
			if rr.Code == 200 {
				rc.leaf = c06RoleFirstCert(rr.Body.Bytes())
			}
			if rc.leaf != nil {
				s.inspect(rc)
			}
			register(rc)
		}
	}
	// ---- presentations
	type rq struct {
		method, path, key string
		self              bool // the route names the certificate's identity as target
		takesIP           bool // the route's mask has the IP-certificate bit
		live              bool // from inside, an accepted key type must be admitted here
	}
	reqs := []rq{
		{"POST", refreshRoleRequestingCertPath, "runtimeState.refreshRoleRequestingCertGenHandler", false, true, true},
		{"POST", certgenPath, "runtimeState.certGenHandler", true, true, true},
		{"GET", usersPath, "runtimeState.usersHandler", false, false, false},
		{"POST", getRoleRequestingPath, "runtimeState.roleRequetingCertGenHandler", false, false, false},
		{"GET", u2fSignRequestPath, "runtimeState.u2fSignRequest", false, true, false},
	}
	admittedInside := map[string]bool{}
	wantInside := map[string]string{} // what must be witnessed -> the harness key that says it was not
	for _, rc := range certs {
		if rc.leaf == nil || len(rc.chains) == 0 {
			continue
		}
		s := rc.srv
		st := s.p.env.state
		masks := []int{AuthTypeIPCertificate, AuthTypeKeymasterX509, AuthTypeAny, AuthTypeIPCertificate | AuthTypeKeymasterX509, s.p.webui | AuthTypeKeymasterX509}
		positions := []string{"inside", "outside"}
		if rc.ep == 2 {
			positions = []string{"anywhere"} // a user certificate carries no netblock
		}
		for _, pos := range positions {
			addr := c06RoleInside(rc.block, rng)
			if pos == "outside" {
				addr = c06RoleOutside(rc.block, rng)
			}
			inside := rc.ep != 2 && rc.block.holds(addr) // the oracle's own arithmetic
			if rc.ep != 2 && inside != (pos == "inside") {
				t.Fatalf("c06 role stage: address %s not %s %s", c06V4(addr), pos, rc.block)
			}
			remote := c06V4(addr) + ":4711"
			peer := c06PeerCoq(remote)
			blkName := rc.block.String()
			if rc.ep == 2 {
				blkName = "no block"
			}
			what := fmt.Sprintf("certificate of %s (%s key, daemon %s, signed by the %s, address extension %v for %s, verified chains %d) presented from %s (%s)",
				c06RoleEPName[rc.ep], rc.key.name, s.name, c06RoleIssuerName[rc.issuer], rc.hasExt, blkName, len(rc.chains), c06V4(addr), pos)
			desc := map[string]interface{}{"daemon": s.name, "endpoint": c06RoleEPName[rc.ep], "key_type": rc.key.name, "identity": rc.cn, "netblock": blkName,
				"signed_by": c06RoleIssuerName[rc.issuer], "address_extension": rc.hasExt, "peer": c06V4(addr), "position": pos, "certificate": rc.describe()}
			// -- checkAuth directly
			for mi, mask := range masks {
				methods := []string{"POST"}
				if mi == 0 || thorough {
					methods = append(methods, "GET")
				}
				for _, method := range methods {
					req := verifNewRequest(method, "/probe", nil)
					withTLS(req, rc.chains, remote)
					w := &c06Writer{ResponseRecorder: httptest.NewRecorder()}
					ai, err := st.checkAuth(w, req, mask)
					adm, user, level, code, uname := 0, 0, 0, 0, ""
					if err == nil && ai != nil {
						adm, user, level, uname = 1, c06User(ai.Username), ai.AuthType, ai.Username
					} else if w.wrote {
						code = w.code
					}
					res.eval(fmt.Sprintf("role-gate|%s|%d|%s|%s|%s|%d|%s|%d|%d|%d|%d", s.name, rc.ep, rc.key.name, rc.cn, pos, mask, method, adm, user, level, code), adm == 1)
					res.bump("role-cert-gate-call")
					d := map[string]interface{}{"mask": mask, "method": method}
					for k, v := range desc {
						d[k] = v
					}
					observed := map[string]interface{}{"admitted": adm == 1, "user": uname, "level": level, "status": code}
					if rc.ep == 2 && mask == AuthTypeKeymasterX509 && method == "POST" {
						lk := rc.key.name + " on checkAuth(KeymasterX509) as a user certificate of /certgen/"
						wantInside[lk] = "C06:harness:user-cert-not-admitted:" + rc.key.name
						if adm == 1 && uname == rc.cn && level == AuthTypeKeymasterX509 {
							admittedInside[lk] = true
						}
					}
					if rc.hasExt && adm == 1 && level&AuthTypeKeymasterX509 != 0 {
						hit(verifHit{Key: fmt.Sprintf("C06:role-cert-as-plain-keymaster:%s:%s", rc.key.name, pos), Oracle: "a certificate that carries the address delegation extension is taken for a plain keymaster certificate",
							What: fmt.Sprintf("checkAuth(mask=%d) %s: %s -> admitted as %q at level %d (KeymasterX509 bit set)", mask, method, what, uname, level), Case: d, Observed: observed})
					}
					if rc.hasExt && adm == 1 && !inside {
						hit(verifHit{Key: fmt.Sprintf("C06:role-cert-outside-its-blocks:%s:checkAuth", rc.key.name), Oracle: "an IP-restricted certificate presented from outside its netblocks establishes an identity",
							What: fmt.Sprintf("checkAuth(mask=%d) %s: %s -> admitted as %q at level %d", mask, method, what, uname, level), Case: d, Observed: observed})
					}
					addCase(fmt.Sprintf("RGate %s %s %d %d %d %d %d %d", rc.coqName, peer, mask, c06MethN(method), adm, user, level, code),
						fmt.Sprintf("%s:%s:checkAuth", rc.key.name, pos),
						fmt.Sprintf("checkAuth mask=%d %s %s -> admitted=%d user=%q level=%d code=%d", mask, method, what, adm, uname, level, code))
				}
			}
			// -- through the service mux
			for _, q := range reqs {
				target := "alice"
				if q.self {
					target = rc.cn
				}
				req := s.p.build(verifRoute{Path: q.path}, q.key, q.method, target, false, nil)
				withTLS(req, rc.chains, remote)
				obs := s.p.serve(req)
				res.eval(fmt.Sprintf("role-route|%s|%d|%s|%s|%s|%s|%d|%s|%d", s.name, rc.ep, rc.key.name, rc.cn, pos, q.key, obs.status, obs.user, obs.effects), obs.user != "" || obs.effects != 0)
				res.bump("role-cert-route-probe")
				d := map[string]interface{}{"method": q.method, "route": q.path, "handler": q.key}
				for k, v := range desc {
					d[k] = v
				}
				observed := map[string]interface{}{"status": obs.status, "logged_user": obs.user, "effects": c06EffNames(obs.effects)}
				let := obs.user != "" || obs.effects != 0
				if rc.hasExt && let && !q.takesIP {
					hit(verifHit{Key: fmt.Sprintf("C06:role-cert-as-plain-keymaster:%s:%s", rc.key.name, pos), Oracle: "a certificate that carries the address delegation extension is let in by a route that takes keymaster certificates but no IP certificates",
						What: fmt.Sprintf("%s %s: %s -> status %d, logged user %q, effects %v", q.method, req.URL.Path, what, obs.status, obs.user, c06EffNames(obs.effects)), Case: d, Observed: observed})
				}
				if rc.hasExt && let && !inside {
					hit(verifHit{Key: fmt.Sprintf("C06:role-cert-outside-its-blocks:%s:%s", rc.key.name, q.key), Oracle: "an IP-restricted certificate presented from outside its netblocks is let in",
						What: fmt.Sprintf("%s %s: %s -> status %d, logged user %q, effects %v", q.method, req.URL.Path, what, obs.status, obs.user, c06EffNames(obs.effects)), Case: d, Observed: observed})
				}
				if inside && q.live && rc.key.accepted {
					lk := rc.key.name + " on " + q.key
					wantInside[lk] = "C06:harness:role-cert-not-admitted-inside:" + rc.key.name
					if obs.user == rc.cn && obs.effects&c06EffSigned != 0 {
						admittedInside[lk] = true
					}
				}
				loggedN := c06User(obs.user)
				if obs.panic {
					loggedN = 255
				}
				addCase(fmt.Sprintf("RRoute %s %s %s %d %d %d %d %d", rc.coqName, peer, coqStringLit(q.key), s.p.webui, c06MethN(q.method), c06User(target), loggedN, obs.effects),
					fmt.Sprintf("%s:%s:%s", rc.key.name, pos, q.key),
					fmt.Sprintf("%s %s handler=%s %s -> status=%d user=%q effects=%v", q.method, req.URL.Path, q.key, what, obs.status, obs.user, c06EffNames(obs.effects)))
			}
		}
	}
	// liveness: from inside its block a role certificate of every accepted key type works where IP certificates are taken
	for lk, hk := range wantInside {
		if !admittedInside[lk] {
			hit(verifHit{Key: hk, Oracle: "harness", Kind: "harness",
				What: "no certificate of this key type, presented with its verified chain (a role certificate from inside its netblock), was let in where it must be: " + lk, Case: lk})
		}
	}
	c06RoleRealTLS(servers, certs, thorough, res, hit)
	res.Extra["role_cert_cases"] = len(cases)
	res.Extra["role_cert_certificates"] = len(certs)
	res.Extra["role_cert_stage_seconds"] = time.Since(start).Seconds()
	if len(certs) > 0 {
		res.sample(certs[len(certs)-1].describe())
	}
	var sb strings.Builder
	sb.WriteString("From KM Require Import Model.AuthGateRole Model.RoleCases.\n")
	sb.WriteString(strings.Join(defs, "\n") + "\n")
	for i := 0; i < len(cases); i += 1500 {
		j := i + 1500
		if j > len(cases) {
			j = len(cases)
		}
		sb.WriteString(fmt.Sprintf("Definition role_cases_%d : list rcase := [\n %s].\n", i/1500, strings.Join(cases[i:j], ";\n ")))
	}
	var parts []string
	for i := 0; i < len(cases); i += 1500 {
		parts = append(parts, fmt.Sprintf("role_cases_%d", i/1500))
	}
	sb.WriteString("Definition role_cases : list rcase := " + strings.Join(append(parts, "[]"), " ++ ") + ".\n")
	sb.WriteString("Definition c06_role_mismatches := Eval vm_compute in first_bad (map (role_bad now) role_cases).\nPrint c06_role_mismatches.\n")
	sb.WriteString("Definition c06_role_violating := Eval vm_compute in first_bad (map (role_violating now) role_cases).\nPrint c06_role_violating.\n")
	sb.WriteString("Definition c06_role_ncases := Eval vm_compute in count_all role_cases.\nPrint c06_role_ncases.\n")
	return sb.String(), idx
}

// the same certificates (quick tier: RSA and Ed25519 keys; thorough: every key type) in real TLS handshakes against a
// crypto/tls server with the service port's client-CA pool; the identity the handlers log must be the one obtained
// with the chains leaf.Verify returned, and from a loopback socket (outside every minted block) nothing may be let in
func c06RoleRealTLS(servers []*c06RoleServer, certs []*c06RoleCert, thorough bool, res *verifResult, hit func(verifHit)) {
	for _, s := range servers {
		st := s.p.env.state
		srv := httptest.NewUnstartedServer(s.p.handler)
		srv.TLS = &tls.Config{ClientCAs: st.ClientCAPool, ClientAuth: tls.VerifyClientCertIfGiven, MinVersion: tls.VersionTLS12}
		srv.StartTLS()
		for _, rc := range certs {
			if rc.srv != s || rc.leaf == nil || len(rc.chains) == 0 || rc.cn != "svc-automation" {
				continue
			}
			if !thorough && rc.key.name != "ed25519" && rc.key.name != "rsa2048" {
				continue
			}
			client := &http.Client{Transport: &http.Transport{DialContext: (&net.Dialer{Timeout: 5 * time.Second}).DialContext, TLSClientConfig: &tls.Config{InsecureSkipVerify: true,
				Certificates: []tls.Certificate{{Certificate: [][]byte{rc.leaf.Raw}, PrivateKey: rc.key.priv}}}, DisableKeepAlives: true},
				CheckRedirect: func(*http.Request, []*http.Request) error { return http.ErrUseLastResponse }}
			for _, q := range [][3]string{{"GET", usersPath, "runtimeState.usersHandler"}, {"POST", certgenPath, "runtimeState.certGenHandler"}, {"POST", refreshRoleRequestingCertPath, "runtimeState.refreshRoleRequestingCertGenHandler"}} {
				sreq := s.p.build(verifRoute{Path: q[1]}, q[2], q[0], rc.cn, false, nil)
				withTLS(sreq, rc.chains, "127.0.0.1:4711")
				so := s.p.serve(sreq)
				rreq := s.p.build(verifRoute{Path: q[1]}, q[2], q[0], rc.cn, false, nil)
				u, _ := url.Parse(srv.URL + rreq.URL.RequestURI())
				rreq.URL = u
				rreq.RequestURI = ""
				rreq.Host = "keymaster.example"
				s.p.log.last = nil
				resp, err := client.Do(rreq)
				status, user := -1, ""
				if err == nil {
					ioutil.ReadAll(resp.Body)
					resp.Body.Close()
					status = resp.StatusCode
					if s.p.log.last != nil && s.p.log.last.Username != "-" {
						user = s.p.log.last.Username
					}
					if _, d := s.p.tableRows(); d != s.p.baseDig {
						s.p.restoreTables()
					}
					s.p.resetMaps()
				}
				res.eval(fmt.Sprintf("role-realtls|%s|%d|%s|%s|%d|%s", s.name, rc.ep, rc.key.name, q[2], status, user), user != "")
				res.bump("role-cert-real-tls-handshake")
				desc := map[string]interface{}{"certificate": rc.describe(), "method": q[0], "route": q[1]}
				if rc.hasExt && err == nil && user != "" && !rc.block.holds(127<<24|1) {
					hit(verifHit{Key: fmt.Sprintf("C06:role-cert-outside-its-blocks:%s:%s", rc.key.name, q[2]), Oracle: "an IP-restricted certificate presented in a real TLS handshake from a socket outside its netblock is let in",
						What: fmt.Sprintf("%s %s with %s from 127.0.0.1: logged user %q status %d", q[0], q[1], rc.describe(), user, status), Case: desc})
				}
				if rc.hasExt && err == nil && user != "" && q[2] == "runtimeState.usersHandler" {
					hit(verifHit{Key: fmt.Sprintf("C06:role-cert-as-plain-keymaster:%s:real-tls", rc.key.name), Oracle: "a certificate that carries the address delegation extension, presented in a real TLS handshake, is let in by a route that takes keymaster certificates but no IP certificates",
						What: fmt.Sprintf("%s %s with %s from 127.0.0.1: logged user %q status %d", q[0], q[1], rc.describe(), user, status), Case: desc})
				}
				if err != nil || status != so.status || user != so.user {
					hit(verifHit{Key: "C06:real-tls:role-cert:" + rc.key.name, Oracle: "a real TLS handshake and the connection state built from leaf.Verify are treated differently",
						What: fmt.Sprintf("%s %s with %s: real handshake -> status %d user %q (err %v); VerifiedChains of leaf.Verify from 127.0.0.1 -> status %d user %q", q[0], q[1], rc.describe(), status, user, err, so.status, so.user), Case: desc})
				}
			}
		}
		srv.Close()
	}
}
