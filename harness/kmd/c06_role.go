package main

// C06 - role (IP-restricted) certificates minted through the real endpoint for every key type, presented with the
// chain crypto/x509 really verifies, are never plain keymaster certificates.

import "testing"

// returns the text appended to CasesC06.v and the lines of CasesC06_role.idx
func c06RoleCertStage(t *testing.T, p *c06Prober, cfg c06Config, mat *c06Material, fakes *c06Fakes, res *verifResult, hit func(verifHit)) (string, []string) {
	return "", nil
}
