package main

// C20 (subscriber churn): connections to the notifier come and go.  Every connection goes through
// the PRODUCTION path (the notifier's exported ServeHTTP with a hijackable writer over a net.Pipe, so
// serveHTTP / handleConnection / the deferred removal run unchanged), every disconnect is the peer
// closing its end, and between any two of them something is published (the exported Publish*
// methods, certificates through the real certgen handler).  The histories are ALL sequences of
// connect / disconnect-the-k-th-connected of a small length (every order of arrivals and
// departures) plus longer random ones.  What the property says of each: every connection is handed
// exactly the events published while it was connected, in order.
//
// Synchronisation without looking inside the notifier: a connection is registered by its own
// goroutine some time after the connect message; "settle" publications are made until the new
// connection is handed one — the first one it is handed marks the instant it was registered (the
// model's KConn is placed right before it).  A disconnect is complete when ServeHTTP has returned.
// This file uses nothing of the notifier but its exported API.

import (
	"bufio"
	"encoding/base64"
	"encoding/json"
	"encoding/pem"
	"fmt"
	"io/ioutil"
	"net"
	"net/http/httptest"
	"path/filepath"
	"strings"
	"sync"
	"testing"
	"time"

	"github.com/Cloud-Foundations/keymaster/keymasterd/eventnotifier"
	"github.com/Cloud-Foundations/keymaster/proto/eventmon"
)

type c20kConn struct {
	id     int
	client net.Conn
	done   chan struct{}
	mu     sync.Mutex
	got    []eventmon.EventV0
	bad    string
	on     bool
	from   int // number of events published before it was registered
	to     int // number of events published when it left (-1: still there)
	acked  int // reads already written into the operation list
	// it did not have an event in time: not waited for again before the end of the history
	suspect bool
	// index in the history's churn list of its own connect
	churnAt int
}

func (c *c20kConn) count() int {
	c.mu.Lock()
	defer c.mu.Unlock()
	return len(c.got)
}

func (c *c20kConn) waitCount(n int, d time.Duration) bool {
	deadline := time.Now().Add(d)
	for i := 0; ; i++ {
		if c.count() >= n {
			return true
		}
		if time.Now().After(deadline) {
			return false
		}
		if i < 200 {
			time.Sleep(20 * time.Microsecond)
		} else {
			time.Sleep(time.Millisecond)
		}
	}
}

func c20kConnect(t *testing.T, n *eventnotifier.EventNotifier, id int) *c20kConn {
	client, server := net.Pipe()
	req := httptest.NewRequest("CONNECT", "http://keymaster.example"+eventmon.HttpPath, nil)
	c := &c20kConn{id: id, client: client, done: make(chan struct{}), on: true, to: -1}
	go func() {
		defer close(c.done)
		n.ServeHTTP(&c20sHijackWriter{httptest.NewRecorder(), server}, req)
	}()
	br := bufio.NewReader(client)
	client.SetReadDeadline(time.Now().Add(10 * time.Second))
	line, err := br.ReadString('\n')
	if err != nil || !strings.Contains(line, eventmon.ConnectString) {
		t.Fatalf("eventmon connect over the pipe: %q %v", line, err)
	}
	br.ReadString('\n')
	client.SetReadDeadline(time.Time{})
	go func() {
		dec := json.NewDecoder(br)
		for {
			var e eventmon.EventV0
			if err := dec.Decode(&e); err != nil {
				c.mu.Lock()
				if c.on {
					c.bad = err.Error()
				}
				c.mu.Unlock()
				return
			}
			c.mu.Lock()
			c.got = append(c.got, e)
			c.mu.Unlock()
		}
	}()
	return c
}

// every sequence of churn operations of length n: -1 = connect, k >= 0 = the k-th connected (oldest
// first) leaves; at most maxLive connected at a time
func c20kAllHistories(n, maxLive int) [][]int {
	var out [][]int
	var rec func(cur []int, live int)
	rec = func(cur []int, live int) {
		if len(cur) == n {
			out = append(out, append([]int(nil), cur...))
			return
		}
		if live < maxLive {
			rec(append(cur, -1), live+1)
		}
		for k := 0; k < live; k++ {
			rec(append(cur, k), live-1)
		}
	}
	rec(nil, 0)
	return out
}

func c20kScript(h []int) string {
	var sb strings.Builder
	for _, o := range h {
		if o < 0 {
			sb.WriteString("C")
		} else {
			sb.WriteString(fmt.Sprintf("D%d", o))
		}
	}
	return sb.String()
}

// what happened to the others while this connection was there, up to churn operation `upto`
func c20kShape(churn []string, from, upto int) string {
	departure, arrivalAfterDeparture, arrival := false, false, false
	for i := from + 1; i < upto && i < len(churn); i++ {
		if churn[i] == "D" {
			departure = true
		} else {
			arrival = true
			if departure {
				arrivalAfterDeparture = true
			}
		}
	}
	switch {
	case arrivalAfterDeparture:
		return "departure-then-arrival"
	case departure:
		return "departure"
	case arrival:
		return "arrival"
	}
	return "steady"
}

func c20kChurn(t *testing.T, env *verifEnv, res *verifResult, keys *verifKeys) {
	rng := verifRand()
	var hists [][]int
	maxLen, nRandom := 6, 16
	if verifThorough() {
		maxLen, nRandom = 7, 150
	}
	for n := 1; n <= maxLen; n++ {
		hists = append(hists, c20kAllHistories(n, 3)...)
	}
	for r := 0; r < nRandom; r++ {
		var h []int
		live := 0
		for len(h) < 7+rng.Intn(2) {
			if live == 0 || (live < 4 && rng.Intn(5) < 3) {
				h = append(h, -1)
				live++
			} else {
				h = append(h, rng.Intn(live))
				live--
			}
		}
		hists = append(hists, h)
	}
	cookie := env.cookie("alice", AuthTypeU2F)
	// generous while nothing has gone wrong (a healthy tree never waits); once a few waits have run
	// out the tree is broken anyway and the rest is kept short
	longWaits := 4
	wait := func() time.Duration {
		if longWaits > 0 {
			return 2 * time.Second
		}
		return 25 * time.Millisecond
	}
	var cases, idx []string
	totalOps := 0
	for hi, h := range hists {
		n := eventnotifier.New(logger)
		eventNotifier = n
		var conns []*c20kConn
		var published []eventmon.EventV0
		var ops, desc, churn []string
		live := func() []*c20kConn {
			var l []*c20kConn
			for _, c := range conns {
				if c.on {
					l = append(l, c)
				}
			}
			return l
		}
		ackReads := func() {
			for _, c := range conns {
				for k := c.count(); c.acked < k; c.acked++ {
					ops = append(ops, fmt.Sprintf("KRecv %d", c.id))
				}
			}
		}
		// one publication; returns the Coq operation (not yet in the list)
		pubNo := 0
		publish := func(certificate bool) string {
			pubNo++
			var e eventmon.EventV0
			tag := fmt.Sprintf("h%d-%d", hi, pubNo)
			switch {
			case certificate:
				ty := []string{"ssh", "x509", "x509-kubernetes"}[pubNo%3]
				keyData := keys.pemPub
				if ty == "ssh" {
					keyData = keys.sshPub
				}
				r := verifCertgenRequest("POST", "alice", ty, keyData, nil, nil)
				r.AddCookie(cookie)
				rr, _ := env.serve(r)
				if rr.Code != 200 {
					t.Fatalf("certgen %s: %d %s", ty, rr.Code, rr.Body.String())
				}
				body := rr.Body.Bytes()
				if blk, _ := pem.Decode(body); blk != nil && blk.Type == "CERTIFICATE" {
					e = eventmon.EventV0{Type: eventmon.EventTypeX509Cert, CertData: blk.Bytes}
				} else if f := strings.Fields(string(body)); len(f) >= 2 {
					b, err := base64.StdEncoding.DecodeString(f[1])
					if err != nil {
						t.Fatal(err)
					}
					e = eventmon.EventV0{Type: eventmon.EventTypeSSHCert, CertData: b}
				}
				desc = append(desc, "issue "+ty)
			case pubNo%5 == 0:
				e = eventmon.EventV0{Type: eventmon.EventTypeSSHCert, CertData: []byte("ssh " + tag)}
				n.PublishSSH(e.CertData)
				desc = append(desc, "PublishSSH")
			case pubNo%5 == 1:
				e = eventmon.EventV0{Type: eventmon.EventTypeX509Cert, CertData: []byte("x509 " + tag)}
				n.PublishX509(e.CertData)
				desc = append(desc, "PublishX509")
			case pubNo%5 == 2:
				e = eventmon.EventV0{Type: eventmon.EventTypeWebLogin, Username: tag}
				n.PublishWebLoginEvent(tag)
				desc = append(desc, "PublishWebLoginEvent")
			case pubNo%5 == 3:
				e = eventmon.EventV0{Type: eventmon.EventTypeServiceProviderLogin, ServiceProviderUrl: "https://sp.example/" + tag, Username: "bob"}
				n.PublishServiceProviderLoginEvent(e.ServiceProviderUrl, "bob")
				desc = append(desc, "PublishServiceProviderLoginEvent")
			default:
				e = eventmon.EventV0{Type: eventmon.EventTypeAuth, AuthType: eventmon.AuthTypePassword, Username: tag}
				n.PublishAuthEvent(eventmon.AuthTypePassword, tag)
				desc = append(desc, "PublishAuthEvent")
			}
			published = append(published, e)
			return "KPub (" + c20sCoqEvent(e) + ")"
		}
		// wait until every connection that is connected (and was not caught short before) has it
		settleAll := func(except *c20kConn) {
			for _, c := range live() {
				if c == except || c.suspect {
					continue
				}
				if !c.waitCount(len(published)-c.from, wait()) {
					c.suspect = true
					if longWaits > 0 {
						longWaits--
					}
				}
			}
		}
		for oi, o := range h {
			if o < 0 {
				c := c20kConnect(t, n, len(conns))
				c.churnAt = len(churn)
				conns = append(conns, c)
				churn = append(churn, "C")
				desc = append(desc, fmt.Sprintf("connect #%d", c.id))
				time.Sleep(500 * time.Microsecond)
				// settle publications until the new connection is handed one
				var pending []string
				pendingStart := len(published)
				registered := false
				for try := 0; try < 60 && !registered; try++ {
					pending = append(pending, publish(false))
					settleAll(c)
					d := 5 * time.Millisecond
					if try > 3 {
						d = 40 * time.Millisecond
					}
					if c.waitCount(1, d) {
						// the first event it is handed marks the instant it was registered
						c.mu.Lock()
						first := c.got[0]
						c.mu.Unlock()
						for k := pendingStart; k < len(published); k++ {
							if c20sSame(published[k], first) {
								c.from = k
								registered = true
								ops = append(ops, pending[:k-pendingStart]...)
								ops = append(ops, "KConn 16")
								ops = append(ops, pending[k-pendingStart:]...)
								break
							}
						}
						if !registered {
							break
						}
					}
				}
				if !registered {
					// never handed anything: as if registered before the first of them
					c.from = len(published) - len(pending)
					c.suspect = true
					ops = append(ops, "KConn 16")
					ops = append(ops, pending...)
				}
				ackReads()
			} else {
				c := live()[o]
				c.mu.Lock()
				c.on = false
				c.mu.Unlock()
				c.client.Close()
				select {
				case <-c.done:
				case <-time.After(10 * time.Second):
					res.hit(verifHit{Key: "C20:subscriber-churn:handler-still-running", Oracle: "the connection handler returns when the peer closes", Kind: "history",
						What: fmt.Sprintf("history %s: ServeHTTP of connection #%d had not returned 10 s after the peer closed", c20kScript(h), c.id), Case: map[string]interface{}{"history": c20kScript(h)}})
				}
				c.to = len(published)
				churn = append(churn, "D")
				desc = append(desc, fmt.Sprintf("disconnect #%d", c.id))
				ops = append(ops, fmt.Sprintf("KDisc %d", c.id))
			}
			// something is published after every arrival and departure; a certificate through the real
			// handler at the end of every fourth history
			ops = append(ops, publish(oi == len(h)-1 && hi%4 == 0))
			settleAll(nil)
			ackReads()
		}
		// the end: connections caught short get a last chance, then everybody leaves
		for _, c := range live() {
			if c.suspect {
				d := 30 * time.Millisecond
				if longWaits > 0 {
					d = 500 * time.Millisecond
				}
				c.waitCount(len(published)-c.from, d)
			}
		}
		ackReads()
		script := c20kScript(h)
		nontrivial := false
		var streams []string
		for _, c := range conns {
			to := c.to
			if to < 0 {
				to = len(published)
			}
			c.mu.Lock()
			got := append([]eventmon.EventV0(nil), c.got...)
			bad := c.bad
			c.mu.Unlock()
			want := published[c.from:to]
			shapeAll := c20kShape(churn, c.churnAt, len(churn))
			if shapeAll == "departure-then-arrival" {
				nontrivial = true
			}
			same := len(got) == len(want)
			for k := 0; same && k < len(got); k++ {
				same = c20sSame(got[k], want[k])
			}
			if !same {
				// is what it has a subsequence of what it should have (events missing), or something else?
				j, firstMissing := 0, -1
				subseq := true
				for _, e := range got {
					for j < len(want) && !c20sSame(e, want[j]) {
						if firstMissing < 0 {
							firstMissing = j
						}
						j++
					}
					if j == len(want) {
						subseq = false
						break
					}
					j++
				}
				if subseq && firstMissing < 0 {
					firstMissing = len(got)
				}
				cs := map[string]interface{}{"history": script, "operations": desc, "connection": c.id,
					"connected_before_publication": c.from, "left_before_publication": to, "events_handed": len(got), "events_published_while_connected": len(want), "stream_error": bad}
				if subseq {
					// the churn operations up to the publication it missed
					upto := c.churnAt
					seen := 0
					for i := range desc {
						if strings.HasPrefix(desc[i], "connect") || strings.HasPrefix(desc[i], "disconnect") {
							seen++
						} else if pubIndexOf(desc, i) == c.from+firstMissing {
							upto = seen
							break
						}
					}
					shape := c20kShape(churn, c.churnAt, upto)
					res.hit(verifHit{Key: "C20:connected-subscriber-missed-event:" + shape, Oracle: "every subscriber connected when something is published (and whose queue has room) is handed it, whatever arrivals and departures went before", Kind: "history",
						What: fmt.Sprintf("history %s (C connect, Dk the k-th connected leaves, a publication after each): connection #%d was connected for publications %d..%d and was handed %d of %d; the first one it missed is publication %d (%s), with its connection healthy and its queue empty", script, c.id, c.from, to-1, len(got), len(want), c.from+firstMissing, pubName(desc, c.from+firstMissing)), Case: cs})
				} else {
					res.hit(verifHit{Key: "C20:subscriber-stream-differs:" + shapeAll, Oracle: "a subscriber is handed exactly the events published while it was connected, in order", Kind: "history",
						What: fmt.Sprintf("history %s: connection #%d was handed %d events that are not a subsequence of the %d published while it was connected", script, c.id, len(got), len(want)), Case: cs})
				}
			}
			var evs []string
			for _, e := range got {
				evs = append(evs, "("+c20sCoqEvent(e)+")")
			}
			streams = append(streams, "["+strings.Join(evs, "; ")+"]")
			if c.on {
				c.mu.Lock()
				c.on = false
				c.mu.Unlock()
				c.client.Close()
			}
		}
		res.eval("churn|"+script, nontrivial)
		res.bump("churn_histories")
		if nontrivial {
			res.bump("churn_histories_with_an_arrival_after_a_departure")
		}
		totalOps += len(ops)
		cases = append(cases, fmt.Sprintf(" ([%s],\n  [%s])", strings.Join(ops, "; "), strings.Join(streams, ";\n   ")))
		idx = append(idx, fmt.Sprintf("%d\tchurn history %s (C connect, Dk the k-th connected leaves; a publication after each, settle publications after a connect), %d connections, %d publications: %s", hi, script, len(conns), len(published), strings.Join(desc, ", ")))
	}
	var sb strings.Builder
	sb.WriteString(coqCaseHeader)
	sb.WriteString("From KM Require Import Base.Cases Model.Events Model.EventsChurn.\n")
	sb.WriteString("(* (connects / disconnects / publishes / reads in the order they happened, the stream each connection was handed, in connection order) *)\n")
	sb.WriteString("Definition khists : list (list kop * list (list event)) := [\n" + strings.Join(cases, ";\n") + "\n].\n")
	sb.WriteString("Definition c20k_mismatches := Eval vm_compute in mismatches (fun c => negb (churn_history_ok c)) khists.\nPrint c20k_mismatches.\n")
	sb.WriteString("(* mismatching cases whose OBSERVATION violates the property: some connection was not handed exactly the events published while it was connected *)\n")
	sb.WriteString("Definition c20k_violating := Eval vm_compute in mismatches (fun c => negb (churn_history_ok c) && churn_obs_violates c) khists.\nPrint c20k_violating.\n")
	sb.WriteString(fmt.Sprintf("Definition c20k_ncases := %d%%N.\nPrint c20k_ncases.\n", totalOps))
	if err := ioutil.WriteFile(filepath.Join(verifOut(), "CasesC20K.v"), []byte(sb.String()), 0644); err != nil {
		t.Fatal(err)
	}
	ioutil.WriteFile(filepath.Join(verifOut(), "CasesC20K.idx"), []byte(strings.Join(idx, "\n")+"\n"), 0644)
	if len(idx) > 12 {
		res.sample(idx[12])
	}
}

// index (among publications) of the description entry i, -1 when it is not a publication
func pubIndexOf(desc []string, i int) int {
	if strings.HasPrefix(desc[i], "connect") || strings.HasPrefix(desc[i], "disconnect") {
		return -1
	}
	k := 0
	for j := 0; j < i; j++ {
		if !strings.HasPrefix(desc[j], "connect") && !strings.HasPrefix(desc[j], "disconnect") {
			k++
		}
	}
	return k
}

func pubName(desc []string, p int) string {
	for i := range desc {
		if pubIndexOf(desc, i) == p {
			return desc[i]
		}
	}
	return "?"
}
