package main

// The primary / cache SQLite pair of a RuntimeState under harness control (shared by C15 and
// C07): both databases re-opened through the fault-injecting driver, the background copier
// stopped, outage modes (up / slow = remoteDBQueryTimeout 0 / dead = primary closed), and raw
// snapshots of both files through separate connections.

import (
	"bytes"
	"database/sql"
	"path/filepath"
	"strconv"
	"strings"
	"sync"
	"testing"
	"time"

	"github.com/Cloud-Foundations/golib/pkg/log"
	"github.com/Cloud-Foundations/golib/pkg/log/testlogger"
)

const (
	c15Up    = iota
	c15Slow  // reads hang past the deadline (remoteDBQueryTimeout = 0), writes work
	c15Dead  // closed pool, deadline 0
	c15PrepW // fail-fast outages through the wrapping driver, non-zero deadline; W: writes still work
	c15QueryW
	c15ScanW
	c15PrepX // X: every other statement fails too
	c15QueryX
	c15ScanX
	c15NModes
)

// the model's name of each mode (Model/Storage.v: Up | Out kind writes; Slow, Dead are notations)
var c15ModeNames = []string{"Up", "Slow", "Dead", "(Out RPrepare true)", "(Out RQuery true)", "(Out RScan true)",
	"(Out RPrepare false)", "(Out RQuery false)", "(Out RScan false)"}

// stable names for oracle keys: how the primary fails its reads
var c15ModeKinds = []string{"up", "hang", "closed-pool", "fail-at-prepare", "fail-at-query", "fail-at-scan",
	"fail-at-prepare+no-writes", "fail-at-query+no-writes", "fail-at-scan+no-writes"}

var c15ModeStage = []string{"", "", "", "prepare", "query", "scan", "prepare", "query", "scan"}

func c15Writable(m int) bool { return m == c15Up || m == c15Slow || (m >= c15PrepW && m <= c15ScanW) }

// deadline of primary reads in the fail-fast modes: long enough for a reported error to arrive
// first, short enough to be waited for on every read
const c15FailFastTimeout = 20 * time.Millisecond

// ---------------------------------------------------------------- the two stores

type c15SRow struct {
	jws string
	exp int64
}

type c15Snap struct {
	profiles map[string][]byte
	signed   map[string]c15SRow // "user|type"
}

func (a c15Snap) equal(b c15Snap) bool {
	if len(a.profiles) != len(b.profiles) || len(a.signed) != len(b.signed) {
		return false
	}
	for k, v := range a.profiles {
		w, ok := b.profiles[k]
		if !ok || !bytes.Equal(v, w) {
			return false
		}
	}
	for k, v := range a.signed {
		if w, ok := b.signed[k]; !ok || v != w {
			return false
		}
	}
	return true
}

type c15Env struct {
	t                   *testing.T
	env                 *verifEnv
	st                  *RuntimeState
	primFile, cacheFile string
	admP, admC          *sql.DB
	mode                int
	closed              bool
	dirty               bool // a timed-out primary read (or an asynchronous save) may still be running
	res                 *verifResult
	restarts            int
	restartTime         time.Duration
	// the per-connection settings (PRAGMA journal_mode, synchronous, cache_size ...) of the handles the
	// production initDB opened, asked before they were replaced (at set-up and at every restart), and what
	// of them is replayed on the wrapping driver's connections
	connProbes  []verifConnProbe
	connCarried map[string][]string
}

// Ask the handles initDB built for their per-connection settings (several connections each) and have the
// wrapping driver apply the same on the connections that replace them.  Called while st.db / st.cacheDB are
// still the production handles.
func (e *c15Env) probeConnections(st *RuntimeState) {
	if e.connCarried == nil {
		e.connCarried = map[string][]string{}
	}
	for _, h := range []struct {
		name, file string
		db         *sql.DB
	}{{"cache", e.cacheFile, st.cacheDB}, {"primary", e.primFile, st.db}} {
		probes, err := verifProbeDB(h.db, h.name, 3)
		if err != nil {
			e.t.Fatalf("probing the %s handle: %v", h.name, err)
		}
		if len(e.connProbes) < 64 {
			e.connProbes = append(e.connProbes, probes...)
		}
		carried, err := verifCarryConnSettings(h.file, probes)
		if err != nil {
			e.t.Fatalf("carrying the %s connection settings over: %v", h.name, err)
		}
		e.connCarried[h.name] = carried
	}
}

func c15Setup(t *testing.T, res *verifResult) *c15Env {
	env := verifSetup(t, func(c *AppConfigFile, dir string) {
		c.Base.AllowedAuthBackendsForWebUI = []string{"password"}
		c.Base.AllowedAuthBackendsForCerts = []string{"U2F", "TOTP"}
		c.Base.AdminUsers = []string{"admin"}
		c.Base.EnableLocalTOTP = true
		c.Base.EnableBootstrapOTP = true
	})
	st := env.state
	// stop the background copier: every synchronisation here is driven by the harness
	select {
	case st.dbDone <- struct{}{}:
	case <-time.After(20 * time.Second):
		t.Fatal("background copier did not stop")
	}
	e := &c15Env{t: t, env: env, st: st, res: res}
	e.primFile = filepath.Join(st.Config.Base.DataDirectory, profileDBFilename)
	e.cacheFile = filepath.Join(st.Config.Base.DataDirectory, cachedDBFilename)
	e.probeConnections(st)
	st.db.Close()
	st.cacheDB.Close()
	var err error
	if st.cacheDB, err = verifOpenFaultDB(e.cacheFile); err != nil {
		t.Fatal(err)
	}
	e.closed = true
	e.reopen()
	if e.admP, err = sql.Open("sqlite3", e.primFile); err != nil {
		t.Fatal(err)
	}
	if e.admC, err = sql.Open("sqlite3", e.cacheFile); err != nil {
		t.Fatal(err)
	}
	t.Cleanup(func() { e.admP.Close(); e.admC.Close() }) // (closes whatever handles are current at the end)
	return e
}

// restart: the daemon process ends and a new one starts on the same data directory.  Everything the
// old process held in memory is gone (its RuntimeState, its database handles); both database FILES
// stay.  The new RuntimeState comes from the production loader (loadVerifyConfigFile -> initDB), is
// unsealed like the first one, its background copier is stopped before its first copy (every
// synchronisation is driven by the harness), and the environment's outage is put back in force.
func (e *c15Env) restart() {
	t0 := time.Now()
	defer func() { e.restartTime += time.Since(t0) }()
	e.settle()
	mode := e.mode
	old := e.st
	verifOutage.clear()
	if !e.closed {
		old.db.Close()
	}
	old.cacheDB.Close()
	e.admP.Close()
	e.admC.Close()
	st, err := loadVerifyConfigFile(e.env.configFile, testlogger.New(e.t))
	if err != nil {
		e.t.Fatalf("restart: loadVerifyConfigFile: %v", err)
	}
	select {
	case st.dbDone <- struct{}{}:
	case <-time.After(20 * time.Second):
		e.t.Fatal("restart: background copier did not stop")
	}
	e.env.state = st
	if code := e.env.inject(e.env.passphrase, true); code != 200 {
		e.t.Fatalf("restart: unseal failed: %d", code)
	}
	select {
	case <-st.SignerIsReady:
	case <-time.After(5 * time.Second):
		e.t.Fatalf("restart: SignerIsReady not signalled")
	}
	e.env.finishStartup()
	e.probeConnections(st)
	st.db.Close()
	st.cacheDB.Close()
	if st.cacheDB, err = verifOpenFaultDB(e.cacheFile); err != nil {
		e.t.Fatal(err)
	}
	e.st = st
	e.closed = true
	e.reopen()
	// the harness's own view of the two files (a removed and re-created file is a new inode)
	if e.admP, err = sql.Open("sqlite3", e.primFile); err != nil {
		e.t.Fatal(err)
	}
	if e.admC, err = sql.Open("sqlite3", e.cacheFile); err != nil {
		e.t.Fatal(err)
	}
	e.restarts++
	e.mode = c15Up
	e.setMode(mode)
}

// a logger for BackgroundDBCopy that keeps what the loop reports about its copies
type c15CopierLog struct {
	log.DebugLogger
	mu       sync.Mutex
	started  int
	failures int
	success  int
}

func (l *c15CopierLog) Printf(format string, v ...interface{}) {
	l.mu.Lock()
	if strings.HasPrefix(format, "err=") {
		l.failures++
	}
	l.mu.Unlock()
	l.DebugLogger.Printf(format, v...)
}

func (l *c15CopierLog) Debugf(level uint8, format string, v ...interface{}) {
	l.mu.Lock()
	switch {
	case strings.Contains(format, "starting db copy"):
		l.started++
	case strings.Contains(format, "db copy success"):
		l.success++
	}
	l.mu.Unlock()
	l.DebugLogger.Debugf(level, format, v...)
}

func (l *c15CopierLog) counts() (started, failures, success int) {
	l.mu.Lock()
	defer l.mu.Unlock()
	return l.started, l.failures, l.success
}

// One turn of the REAL background copier: state.BackgroundDBCopy is started with no initial sleep and
// stopped through its done channel while it sleeps ProfileStorage.SyncInterval after its first turn (copy,
// purge of the primary, purge of the cache).  Reports what the loop logged about its copy.
func (e *c15Env) copierTurn() (reportedSuccess bool, turns int) {
	lg := &c15CopierLog{DebugLogger: testlogger.New(e.t)}
	done := make(chan struct{})
	finished := make(chan struct{})
	go func() {
		e.st.BackgroundDBCopy(0, done, lg)
		close(finished)
	}()
	// the loop is in its sleep once it has reported on its copy (and purged: two more statements)
	deadline := time.Now().Add(20 * time.Second)
	for {
		_, f, s := lg.counts()
		if f+s > 0 {
			break
		}
		if time.Now().After(deadline) {
			e.t.Fatal("copier: no turn within 20 s")
		}
		time.Sleep(200 * time.Microsecond)
	}
	select {
	case done <- struct{}{}:
	case <-time.After(20 * time.Second):
		e.t.Fatal("copier: did not stop")
	}
	<-finished
	st, f, s := lg.counts()
	return s == 1 && f == 0, st
}

func (e *c15Env) reopen() {
	if !e.closed {
		return
	}
	db, err := verifOpenFaultDB(e.primFile)
	if err != nil {
		e.t.Fatal(err)
	}
	db.SetMaxIdleConns(0) // as initDBSQlite does
	e.st.db = db
	e.closed = false
}

func (e *c15Env) setMode(m int) {
	e.settle()
	verifOutage.clear()
	switch m {
	case c15Up:
		e.reopen()
		e.st.remoteDBQueryTimeout = 20 * time.Second // production: 2 s; longer so that a loaded machine cannot turn an up primary into a slow one
	case c15Slow:
		e.reopen()
		e.st.remoteDBQueryTimeout = 0
	case c15Dead:
		if !e.closed {
			e.st.db.Close()
			e.closed = true
		}
		e.st.remoteDBQueryTimeout = 0
	default:
		// the primary fails fast: every read of it fails at the chosen stage
		e.reopen()
		e.st.remoteDBQueryTimeout = c15FailFastTimeout
		verifOutage.set(e.primFile, c15ModeStage[m], c15Writable(m))
	}
	e.mode = m
}

// let the goroutines of timed-out primary reads (and asynchronous saves) finish
func (e *c15Env) settle() {
	if e.dirty {
		time.Sleep(35 * time.Millisecond)
		e.dirty = false
	}
}

func (e *c15Env) touched() {
	if e.mode != c15Up {
		e.dirty = true
	}
}

func c15Read(db *sql.DB) (c15Snap, error) {
	s := c15Snap{profiles: map[string][]byte{}, signed: map[string]c15SRow{}}
	rows, err := db.Query("SELECT username, profile_data FROM user_profile")
	if err != nil {
		return s, err
	}
	for rows.Next() {
		var u string
		var b []byte
		if err := rows.Scan(&u, &b); err != nil {
			rows.Close()
			return s, err
		}
		s.profiles[u] = b
	}
	rows.Close()
	rows, err = db.Query("SELECT username, type, jws_data, expiration_epoch FROM expiring_signed_user_data")
	if err != nil {
		return s, err
	}
	for rows.Next() {
		var u, j string
		var ty int
		var ex int64
		if err := rows.Scan(&u, &ty, &j, &ex); err != nil {
			rows.Close()
			return s, err
		}
		s.signed[u+"|"+strconv.Itoa(ty)] = c15SRow{j, ex}
	}
	rows.Close()
	return s, nil
}

func (e *c15Env) snapP() c15Snap {
	s, err := c15Read(e.admP)
	if err != nil {
		e.t.Fatalf("reading primary: %v", err)
	}
	return s
}

func (e *c15Env) snapC() c15Snap {
	s, err := c15Read(e.admC)
	if err != nil {
		e.t.Fatalf("reading cache: %v", err)
	}
	return s
}

func (e *c15Env) wipe() {
	e.setMode(c15Up)
	for _, db := range []*sql.DB{e.admP, e.admC} {
		for _, q := range []string{"DELETE FROM user_profile", "DELETE FROM expiring_signed_user_data"} {
			if _, err := db.Exec(q); err != nil {
				e.t.Fatalf("wipe: %v", err)
			}
		}
	}
}

// what a completed copy must leave in the cache
func c15Mirror(p c15Snap, now int64) c15Snap {
	m := c15Snap{profiles: map[string][]byte{}, signed: map[string]c15SRow{}}
	for k, v := range p.profiles {
		m.profiles[k] = v
	}
	for k, v := range p.signed {
		if v.exp > now {
			m.signed[k] = v
		}
	}
	return m
}

// the first way in which the cache differs from the mirror of the primary (stable class names)
func c15MirrorDiff(c, want c15Snap, prim c15Snap) string {
	for k := range c.profiles {
		if _, ok := want.profiles[k]; !ok {
			return "user-not-deleted"
		}
	}
	for k := range c.signed {
		if _, ok := want.signed[k]; !ok {
			if _, inPrim := prim.signed[k]; inPrim {
				return "expired-row-kept"
			}
			return "signed-not-deleted"
		}
	}
	for k, v := range want.profiles {
		w, ok := c.profiles[k]
		if !ok {
			return "user-missing"
		}
		if !bytes.Equal(v, w) {
			return "profile-content-differs"
		}
	}
	for k, v := range want.signed {
		w, ok := c.signed[k]
		if !ok {
			return "signed-missing"
		}
		if v != w {
			return "signed-content-differs"
		}
	}
	return ""
}
