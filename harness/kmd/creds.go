package main

// Credential and request builders shared by the harness tests.

import (
	"bytes"
	"crypto"
	"crypto/ecdsa"
	"crypto/elliptic"
	"crypto/rand"
	"crypto/tls"
	"crypto/x509"
	"crypto/x509/pkix"
	"encoding/base64"
	"encoding/pem"
	"math/big"
	"mime/multipart"
	"net"
	"net/http"
	"net/http/httptest"
	"net/url"
	"strings"
	"time"

	"github.com/Cloud-Foundations/keymaster/lib/certgen"
	"github.com/Cloud-Foundations/keymaster/lib/paths"
	"github.com/Cloud-Foundations/keymaster/lib/server/aws_identity_cert"
	"github.com/go-jose/go-jose/v4"
	"github.com/go-jose/go-jose/v4/jwt"
	"golang.org/x/crypto/ssh"
)

// sign arbitrary claims with the given key (default: the state's own signer)
func verifSignClaims(key crypto.Signer, claims interface{}) string {
	alg, err := publicToPreferedJoseSigAlgo(key.Public())
	if err != nil {
		panic(err)
	}
	signer, err := jose.NewSigner(jose.SigningKey{Algorithm: alg, Key: key}, (&jose.SignerOptions{}).WithType("JWT"))
	if err != nil {
		panic(err)
	}
	s, err := jwt.Signed(signer).Claims(claims).Serialize()
	if err != nil {
		panic(err)
	}
	return s
}

// a session cookie exactly as genNewSerializedAuthJWT builds it, but with chosen times
func (env *verifEnv) sessionJWT(user string, level int, iat, nbf, exp int64) string {
	issuer := env.state.idpGetIssuer()
	return verifSignClaims(env.state.Signer, authInfoJWT{Issuer: issuer, Subject: user, Audience: []string{issuer},
		AuthType: level, TokenType: "keymaster_auth", NotBefore: nbf, IssuedAt: iat, Expiration: exp})
}

func authCookie(v string) *http.Cookie { return &http.Cookie{Name: authCookieName, Value: v} }

type verifKeys struct {
	ec       *ecdsa.PrivateKey
	sshPub   string // authorized_keys line
	pemPub   string // PKIX PEM
	derPubRU string // PKIX DER, base64 raw-url
}

func verifNewKeys() *verifKeys {
	k, err := ecdsa.GenerateKey(elliptic.P256(), rand.Reader)
	if err != nil {
		panic(err)
	}
	sp, err := ssh.NewPublicKey(&k.PublicKey)
	if err != nil {
		panic(err)
	}
	der, err := x509.MarshalPKIXPublicKey(&k.PublicKey)
	if err != nil {
		panic(err)
	}
	return &verifKeys{ec: k, sshPub: strings.TrimSpace(string(ssh.MarshalAuthorizedKey(sp))) + " verif@harness\n",
		pemPub:   string(pem.EncodeToMemory(&pem.Block{Type: "PUBLIC KEY", Bytes: der})),
		derPubRU: base64.RawURLEncoding.EncodeToString(der)}
}

// POST /certgen/<user> with a multipart body; fields with empty value are omitted
func verifCertgenRequest(method, user, certType, keyData string, duration *string, extra map[string]string) *http.Request {
	body := &bytes.Buffer{}
	mw := multipart.NewWriter(body)
	if keyData != "" {
		fw, _ := mw.CreateFormFile("pubkeyfile", "key.pub")
		fw.Write([]byte(keyData))
	}
	if duration != nil {
		mw.WriteField("duration", *duration)
	}
	if certType != "" {
		mw.WriteField("type", certType)
	}
	for k, v := range extra {
		mw.WriteField(k, v)
	}
	mw.Close()
	req := httptest.NewRequest(method, "https://keymaster.example"+certgenPath+user, body)
	req.Header.Set("Content-Type", mw.FormDataContentType())
	req.Host = "keymaster.example"
	req.RemoteAddr = "10.1.2.3:34567"
	return req
}

type verifCert struct {
	kind       string // "ssh" | "x509" | ""
	principals []string
	cn         string
	notBefore  int64
	notAfter   int64
	notAfterU  uint64
	ssh        *ssh.Certificate
	x509       *x509.Certificate
}

// parse whatever a certificate endpoint returned
func verifParseCertBody(body []byte) *verifCert {
	if blk, _ := pem.Decode(body); blk != nil && blk.Type == "CERTIFICATE" {
		c, err := x509.ParseCertificate(blk.Bytes)
		if err != nil {
			return nil
		}
		return &verifCert{kind: "x509", cn: c.Subject.CommonName, notBefore: c.NotBefore.Unix(), notAfter: c.NotAfter.Unix(), notAfterU: uint64(c.NotAfter.Unix()), x509: c}
	}
	pk, _, _, _, err := ssh.ParseAuthorizedKey(body)
	if err != nil {
		return nil
	}
	c, ok := pk.(*ssh.Certificate)
	if !ok {
		return nil
	}
	return &verifCert{kind: "ssh", principals: c.ValidPrincipals, notBefore: int64(c.ValidAfter), notAfter: int64(c.ValidBefore), notAfterU: c.ValidBefore, ssh: c}
}

// a client certificate signed by `caDer`/`signer` for CN `cn`, with the verified chain as a TLS
// server would build it
func verifClientChain(caDer []byte, signer crypto.Signer, cn string, notBefore time.Time, pub crypto.PublicKey, extra []pkix.Extension) (*x509.Certificate, [][]*x509.Certificate) {
	ca, err := x509.ParseCertificate(caDer)
	if err != nil {
		panic(err)
	}
	serial, _ := rand.Int(rand.Reader, new(big.Int).Lsh(big.NewInt(1), 100))
	tmpl := x509.Certificate{SerialNumber: serial, Subject: pkix.Name{CommonName: cn, Organization: []string{"keymaster"}},
		NotBefore: notBefore, NotAfter: notBefore.Add(48 * time.Hour), KeyUsage: x509.KeyUsageDigitalSignature,
		ExtKeyUsage: []x509.ExtKeyUsage{x509.ExtKeyUsageClientAuth}, BasicConstraintsValid: true, ExtraExtensions: extra}
	der, err := x509.CreateCertificate(rand.Reader, &tmpl, ca, pub, signer)
	if err != nil {
		panic(err)
	}
	leaf, err := x509.ParseCertificate(der)
	if err != nil {
		panic(err)
	}
	return leaf, [][]*x509.Certificate{{leaf, ca}}
}

// the CA certificate of the main signer among state.caCertDer: the one whose public key is the
// signer's (its position in the list is an implementation detail of the loading code)
func verifMainCADer(st *RuntimeState) []byte {
	if st.Signer != nil {
		want, err := x509.MarshalPKIXPublicKey(st.Signer.Public())
		if err == nil {
			for _, der := range st.caCertDer {
				if c, err := x509.ParseCertificate(der); err == nil {
					if got, err := x509.MarshalPKIXPublicKey(c.PublicKey); err == nil && bytes.Equal(got, want) {
						return der
					}
				}
			}
		}
	}
	return st.caCertDer[len(st.caCertDer)-1]
}

// keymaster-issued user certificate (signed by the main CA)
func (env *verifEnv) keymasterChain(user string, notBefore time.Time, pub crypto.PublicKey) [][]*x509.Certificate {
	st := env.state
	_, ch := verifClientChain(verifMainCADer(st), st.Signer, user, notBefore, pub, nil)
	return ch
}

// IP-restricted automation certificate minted by the real generator (role CA)
func (env *verifEnv) ipRestrictedChain(identity string, blocks []net.IPNet, pub crypto.PublicKey) [][]*x509.Certificate {
	st := env.state
	ca, err := x509.ParseCertificate(st.selfRoleCaCertDer)
	if err != nil {
		panic(err)
	}
	der, err := certgen.GenIPRestrictedX509Cert(identity, pub, ca, st.Signer, blocks, time.Hour, nil, nil)
	if err != nil {
		panic(err)
	}
	leaf, err := x509.ParseCertificate(der)
	if err != nil {
		panic(err)
	}
	return [][]*x509.Certificate{{leaf, ca}}
}

func withTLS(req *http.Request, chains [][]*x509.Certificate, remote string) *http.Request {
	req.TLS = &tls.ConnectionState{VerifiedChains: chains, HandshakeComplete: true}
	if len(chains) > 0 {
		req.TLS.PeerCertificates = chains[0][:1]
	}
	if remote != "" {
		req.RemoteAddr = remote
	}
	return req
}

func mustCIDR(s string) net.IPNet {
	_, n, err := net.ParseCIDR(s)
	if err != nil {
		panic(err)
	}
	return *n
}

func roleCertForm(identity string, blocks []string, pubRU string) url.Values {
	f := url.Values{}
	if identity != "" {
		f.Set("identity", identity)
	}
	for _, b := range blocks {
		f.Add("requestor_netblock", b)
		f.Add("target_netblock", b)
	}
	if pubRU != "" {
		f.Set("pubkey", pubRU)
	}
	return f
}

// ---------------------------------------------------------------- cloud-role (AWS) path

type verifFakeSTS struct{}

func (verifFakeSTS) RoundTrip(r *http.Request) (*http.Response, error) {
	body := `<GetCallerIdentityResponse xmlns="https://sts.amazonaws.com/doc/2011-06-15/"><GetCallerIdentityResult><Arn>arn:aws:sts::123456789012:assumed-role/verif-role/i-0123456789</Arn><UserId>AROA:i-0123456789</UserId><Account>123456789012</Account></GetCallerIdentityResult></GetCallerIdentityResponse>`
	rec := httptest.NewRecorder()
	rec.WriteHeader(200)
	rec.Body.WriteString(body)
	return rec.Result(), nil
}

const verifAwsClaimedArn = "arn:aws:iam::123456789012:role/verif-role"

// Replace the issuer's STS client by one that answers from a canned identity document (the
// configuration must list account 123456789012 under aws_certs.allowed_accounts).
func (env *verifEnv) enableFakeAws() {
	st := env.state
	failureWriter := func(w http.ResponseWriter, r *http.Request, errorString string, code int) {
		st.writeFailureResponse(w, r, code, errorString)
	}
	issuer, err := aws_identity_cert.New(aws_identity_cert.Params{
		CertificateGenerator: st.generateRoleCert,
		AccountIdValidator:   st.checkAwsAccountAllowed,
		FailureWriter:        failureWriter,
		HttpClient:           &http.Client{Transport: verifFakeSTS{}},
		Logger:               st.logger,
	})
	if err != nil {
		panic(err)
	}
	st.awsCertIssuer = issuer
}

func verifAwsRequest(pemKey string) *http.Request {
	req := httptest.NewRequest("POST", "https://keymaster.example"+paths.RequestAwsRoleCertificatePath, strings.NewReader(pemKey))
	req.Host = "keymaster.example"
	req.RemoteAddr = "10.1.2.3:34567"
	req.Header.Set("Claimed-Arn", verifAwsClaimedArn)
	req.Header.Set("Presigned-Method", "GET")
	req.Header.Set("Presigned-Url", "https://sts.us-west-2.amazonaws.com/?Action=GetCallerIdentity&Version=2011-06-15&X-Amz-Signature=abc")
	return req
}
