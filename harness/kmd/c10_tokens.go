package main

// C10, stage (e): "no malformed ... signed token makes a handler panic".
// Every token-consuming sink of the service (session cookie, OpenID code at the token endpoint
// for a secret and for a PKCE client, bearer token at userinfo, CLI web-auth token at verify/send,
// signed storage record) is fed every KIND of genuine artefact the server produces (so a consumer
// also sees well-signed tokens of the wrong kind, which lack the claims it goes on to use), every
// claim-dropped and type-confused variant re-signed with the server's own key, header variants and
// byte corruptions — under the panic-recording wrapper.  Uses the producers of the C04 harness.

import (
	"fmt"
	"math/rand"
	"net/http"
	"net/http/httptest"
	"net/url"
	"sort"
	"strings"
	"testing"

	"github.com/Cloud-Foundations/keymaster/lib/paths"
)

type c10Sink struct {
	name string
	run  func(raw string) (panicked bool, status int)
}

func (env *verifEnv) c10TokenSinks() []c10Sink {
	st := env.state
	serve := func(req *http.Request) (bool, int) {
		rr, pan := env.serve(req)
		return pan, rr.Code
	}
	verifier := strings.Repeat("v", 50)
	userCookie := env.cookie("alice", AuthTypePassword)
	sinks := []c10Sink{
		{"cookie:/profile/", func(raw string) (bool, int) {
			req := verifNewRequest("GET", profilePath, nil)
			req.Header.Set("Cookie", authCookieName+"="+raw)
			return serve(req)
		}},
		{"cookie:certgen", func(raw string) (bool, int) {
			req := verifCertgenRequest("POST", "alice", "ssh", "ssh-ed25519 AAAAC3NzaC1lZDI1NTE5AAAAIJ7v0zE9yq1cX0m0cN0mB1oG7mX2dVQ0x3o3mJ0C1c9E c\n", nil, nil)
			req.Header.Set("Cookie", authCookieName+"="+raw)
			return serve(req)
		}},
		{"cookie:totpAuth", func(raw string) (bool, int) {
			req := verifNewRequest("POST", totpAuthPath, url.Values{"OTP": {"123456"}})
			req.Header.Set("Cookie", authCookieName+"="+raw)
			return serve(req)
		}},
		{"code:token(secret client, basic)", func(raw string) (bool, int) {
			req := verifNewRequest("POST", idpOpenIDCTokenPath, url.Values{"grant_type": {"authorization_code"}, "redirect_uri": {c04RedirectA}, "code": {raw}})
			req.SetBasicAuth(url.QueryEscape(c04ClientA), url.QueryEscape(c04SecretA))
			return serve(req)
		}},
		{"code:token(secret client, form)", func(raw string) (bool, int) {
			req := verifNewRequest("POST", idpOpenIDCTokenPath, url.Values{"grant_type": {"authorization_code"}, "redirect_uri": {c04RedirectA}, "code": {raw},
				"client_id": {c04ClientA}, "client_secret": {c04SecretA}})
			return serve(req)
		}},
		{"code:token(pkce client, verifier)", func(raw string) (bool, int) {
			req := verifNewRequest("POST", idpOpenIDCTokenPath, url.Values{"grant_type": {"authorization_code"}, "redirect_uri": {c04RedirectB}, "code": {raw},
				"client_id": {c04ClientB}, "code_verifier": {verifier}})
			return serve(req)
		}},
		{"code:token(pkce client, basic, verifier)", func(raw string) (bool, int) {
			req := verifNewRequest("POST", idpOpenIDCTokenPath, url.Values{"grant_type": {"authorization_code"}, "redirect_uri": {c04RedirectB}, "code": {raw},
				"code_verifier": {verifier}})
			req.SetBasicAuth(c04ClientB, "")
			return serve(req)
		}},
		{"code:token(pkce client, no verifier)", func(raw string) (bool, int) {
			req := verifNewRequest("POST", idpOpenIDCTokenPath, url.Values{"grant_type": {"authorization_code"}, "redirect_uri": {c04RedirectB}, "code": {raw},
				"client_id": {c04ClientB}})
			return serve(req)
		}},
		{"bearer:userinfo(header)", func(raw string) (bool, int) {
			req := verifNewRequest("GET", idpOpenIDCUserinfoPath, nil)
			req.Header.Set("Authorization", "Bearer "+raw)
			return serve(req)
		}},
		{"bearer:userinfo(form)", func(raw string) (bool, int) {
			return serve(verifNewRequest("POST", idpOpenIDCUserinfoPath, url.Values{"access_token": {raw}}))
		}},
		{"cli:verifyAuthToken", func(raw string) (bool, int) {
			return serve(verifNewRequest("POST", paths.VerifyAuthToken, url.Values{"token": {raw}}))
		}},
		{"cli:sendAuthDocument", func(raw string) (bool, int) {
			req := verifNewRequest("POST", paths.SendAuthDocument, url.Values{"token": {raw}, "port": {"12345"}})
			req.AddCookie(userCookie)
			return serve(req)
		}},
		{"storage:record", func(raw string) (pan bool, status int) {
			defer func() {
				if p := recover(); p != nil {
					pan = true
					env.pmu.Lock()
					env.panics = append(env.panics, fmt.Sprintf("getStorageDataFromStorageStringDataJWT: %v", p))
					env.pmu.Unlock()
				}
			}()
			if _, err := st.getStorageDataFromStorageStringDataJWT(raw); err != nil {
				return false, 400
			}
			return false, 200
		}},
		{"cookie:updateAuthLevel", func(raw string) (pan bool, status int) {
			defer func() {
				if p := recover(); p != nil {
					pan = true
					env.pmu.Lock()
					env.panics = append(env.panics, fmt.Sprintf("updateAuthCookieAuthlevel: %v", p))
					env.pmu.Unlock()
				}
			}()
			req := verifNewRequest("POST", totpAuthPath, nil)
			req.Header.Set("Cookie", authCookieName+"="+raw)
			sub := ""
			if _, claims, ok := tokParse(raw); ok {
				sub, _ = claims["sub"].(string)
			}
			if _, err := st.updateAuthCookieAuthlevel(httptest.NewRecorder(), req, sub, AuthTypeTOTP); err != nil {
				return false, 400
			}
			return false, 200
		}},
	}
	return sinks
}

// claim-level variants of one genuine token, all re-signed with the server's own key: each claim
// dropped, each claim replaced by a value of every other JSON type, all claims but one dropped
func (env *verifEnv) c10ClaimVariants(orig *symTok) []*symTok {
	_, claims, ok := tokParse(orig.raw)
	if !ok {
		return nil
	}
	var names []string
	for k := range claims {
		names = append(names, k)
	}
	sort.Strings(names)
	confused := []interface{}{nil, "", "x", 0, -1, 1.5, 1e300, true, []interface{}{}, []interface{}{"a", 1}, map[string]interface{}{}, map[string]interface{}{"a": "b"},
		strings.Repeat("A", 5000), []interface{}{[]interface{}{[]interface{}{}}}}
	var out []*symTok
	out = append(out, env.tokServerSigned(map[string]interface{}{}, "no claims at all"))
	for _, n := range names {
		c := cloneClaims(claims)
		delete(c, n)
		out = append(out, env.tokServerSigned(c, "claim dropped: "+n))
		only := map[string]interface{}{n: claims[n]}
		out = append(out, env.tokServerSigned(only, "only claim: "+n))
		for i, v := range confused {
			c2 := cloneClaims(claims)
			c2[n] = v
			out = append(out, env.tokServerSigned(c2, fmt.Sprintf("claim %s := confused value #%d", n, i)))
		}
	}
	return out
}

func c10TokenStage(t *testing.T, env *verifEnv, res *verifResult, rng *rand.Rand) {
	p := env.c04Produce(t)
	genuine := []*symTok{p.session, p.sessionLogin, p.cli, p.cliPage, p.storage, p.code, p.access, p.id}
	// a second authorization code, bound to the PKCE client with a challenge
	if code, _ := env.c04Authorize(t, "alice", c04ClientB, c04RedirectB, url.Values{"code_challenge": {strings.Repeat("c", 43)}, "code_challenge_method": {"plain"}}); code != "" {
		genuine = append(genuine, newSymTok(code, env.signerKeyID(), false, "producer:code(pkce client)"))
	}
	var corpus []*symTok
	for _, g := range genuine {
		if g == nil {
			continue
		}
		corpus = append(corpus, g)
		vars := env.c10ClaimVariants(g)
		if !verifThorough() {
			// quick: every dropped / only-claim variant, a third of the type confusions
			var keep []*symTok
			for i, v := range vars {
				if strings.HasPrefix(v.note, "claim dropped") || strings.HasPrefix(v.note, "only claim") || strings.HasPrefix(v.note, "no claims") || (i+int(verifSeed()))%3 == 0 {
					keep = append(keep, v)
				}
			}
			vars = keep
		}
		corpus = append(corpus, vars...)
		corpus = append(corpus, env.tokHeaderVariants(g.raw)...)
		nc := 6
		if verifThorough() {
			nc = 60
		}
		for i := 0; i < nc; i++ {
			corpus = append(corpus, env.tokCorrupt(g.raw, rng.Intn(len(g.raw)), byte(rng.Intn(256)), "byte corruption"))
		}
	}
	// plus raw garbage a JWS parser may meet
	for _, s := range []string{"", ".", "..", "...", "a.b.c", "eyJhbGciOiJub25lIn0..", "eyJhbGciOiJSUzI1NiJ9.e30.", strings.Repeat("A", 20000), "e30.e30.e30", "\x00.\x00.\x00",
		"eyJhbGciOiJSUzI1NiJ9.bnVsbA.AAAA", "eyJhbGciOiJSUzI1NiJ9.W10.AAAA", "eyJhbGciOiJSUzI1NiJ9.MQ.AAAA"} {
		corpus = append(corpus, newSymTok(s, 0, true, "garbage"))
	}
	sinks := env.c10TokenSinks()
	for _, tok := range corpus {
		if tok == nil {
			continue
		}
		for _, s := range sinks {
			pan, status := s.run(tok.raw)
			res.eval(fmt.Sprintf("tok|%s|%s|%d", s.name, tok.note, status), !tok.tampered)
			res.bump("token-sink:" + strings.SplitN(s.name, ":", 2)[0])
			if pan {
				res.hit(verifHit{Key: "C10:panic:token:" + s.name, Oracle: "panic",
					What: fmt.Sprintf("sink %s panicked on a signed token (%s)", s.name, tok.note),
					Case: map[string]interface{}{"sink": s.name, "token": tok.raw, "note": tok.note}})
			}
		}
	}
	res.Extra["token_corpus"] = len(corpus)
	res.Extra["token_sinks"] = len(sinks)
}
