package main

// C10, stage (e): "no malformed ... signed token makes a handler panic".
// Every token-consuming sink of the service (session cookie, OpenID code at the token endpoint
// for a secret and for a PKCE client, bearer token at userinfo, CLI web-auth token at verify/send,
// signed storage record) is fed every KIND of genuine artefact the server produces (so a consumer
// also sees well-signed tokens of the wrong kind, which lack the claims it goes on to use), every
// claim-dropped and type-confused variant re-signed with the server's own key, header variants and
// byte corruptions — under the panic-recording wrapper.  Uses the producers of the C04 harness.

import (
	"crypto"
	"crypto/ecdsa"
	"crypto/ed25519"
	crand "crypto/rand"
	"crypto/rsa"
	"crypto/sha256"
	"crypto/sha512"
	"encoding/asn1"
	"encoding/json"
	"fmt"
	"math/big"
	"math/rand"
	"net/http"
	"net/http/httptest"
	"net/url"
	"regexp"
	"sort"
	"strconv"
	"strings"
	"testing"
	"time"

	"github.com/Cloud-Foundations/keymaster/lib/paths"
)

type c10Sink struct {
	name string
	run  func(raw string) (panicked bool, status int)
}

func (env *verifEnv) c10TokenSinks() []c10Sink {
	st := env.state
	serve := func(req *http.Request) (bool, int) {
		rr, pan := env.serve(req)
		return pan, rr.Code
	}
	verifier := strings.Repeat("v", 50)
	userCookie := env.cookie("alice", AuthTypePassword)
	sinks := []c10Sink{
		{"cookie:/profile/", func(raw string) (bool, int) {
			req := verifNewRequest("GET", profilePath, nil)
			req.Header.Set("Cookie", authCookieName+"="+raw)
			return serve(req)
		}},
		{"cookie:certgen", func(raw string) (bool, int) {
			req := verifCertgenRequest("POST", "alice", "ssh", "ssh-ed25519 AAAAC3NzaC1lZDI1NTE5AAAAIJ7v0zE9yq1cX0m0cN0mB1oG7mX2dVQ0x3o3mJ0C1c9E c\n", nil, nil)
			req.Header.Set("Cookie", authCookieName+"="+raw)
			return serve(req)
		}},
		{"cookie:totpAuth", func(raw string) (bool, int) {
			req := verifNewRequest("POST", totpAuthPath, url.Values{"OTP": {"123456"}})
			req.Header.Set("Cookie", authCookieName+"="+raw)
			return serve(req)
		}},
		{"code:token(secret client, basic)", func(raw string) (bool, int) {
			req := verifNewRequest("POST", idpOpenIDCTokenPath, url.Values{"grant_type": {"authorization_code"}, "redirect_uri": {c04RedirectA}, "code": {raw}})
			req.SetBasicAuth(url.QueryEscape(c04ClientA), url.QueryEscape(c04SecretA))
			return serve(req)
		}},
		{"code:token(secret client, form)", func(raw string) (bool, int) {
			req := verifNewRequest("POST", idpOpenIDCTokenPath, url.Values{"grant_type": {"authorization_code"}, "redirect_uri": {c04RedirectA}, "code": {raw},
				"client_id": {c04ClientA}, "client_secret": {c04SecretA}})
			return serve(req)
		}},
		{"code:token(pkce client, verifier)", func(raw string) (bool, int) {
			req := verifNewRequest("POST", idpOpenIDCTokenPath, url.Values{"grant_type": {"authorization_code"}, "redirect_uri": {c04RedirectB}, "code": {raw},
				"client_id": {c04ClientB}, "code_verifier": {verifier}})
			return serve(req)
		}},
		{"code:token(pkce client, basic, verifier)", func(raw string) (bool, int) {
			req := verifNewRequest("POST", idpOpenIDCTokenPath, url.Values{"grant_type": {"authorization_code"}, "redirect_uri": {c04RedirectB}, "code": {raw},
				"code_verifier": {verifier}})
			req.SetBasicAuth(c04ClientB, "")
			return serve(req)
		}},
		{"code:token(pkce client, no verifier)", func(raw string) (bool, int) {
			req := verifNewRequest("POST", idpOpenIDCTokenPath, url.Values{"grant_type": {"authorization_code"}, "redirect_uri": {c04RedirectB}, "code": {raw},
				"client_id": {c04ClientB}})
			return serve(req)
		}},
		{"bearer:userinfo(header)", func(raw string) (bool, int) {
			req := verifNewRequest("GET", idpOpenIDCUserinfoPath, nil)
			req.Header.Set("Authorization", "Bearer "+raw)
			return serve(req)
		}},
		{"bearer:userinfo(form)", func(raw string) (bool, int) {
			return serve(verifNewRequest("POST", idpOpenIDCUserinfoPath, url.Values{"access_token": {raw}}))
		}},
		{"cli:verifyAuthToken", func(raw string) (bool, int) {
			return serve(verifNewRequest("POST", paths.VerifyAuthToken, url.Values{"token": {raw}}))
		}},
		{"cli:sendAuthDocument", func(raw string) (bool, int) {
			req := verifNewRequest("POST", paths.SendAuthDocument, url.Values{"token": {raw}, "port": {"12345"}})
			req.AddCookie(userCookie)
			return serve(req)
		}},
		{"storage:record", func(raw string) (pan bool, status int) {
			defer func() {
				if p := recover(); p != nil {
					pan = true
					env.pmu.Lock()
					env.panics = append(env.panics, fmt.Sprintf("getStorageDataFromStorageStringDataJWT: %v", p))
					env.pmu.Unlock()
				}
			}()
			if _, err := st.getStorageDataFromStorageStringDataJWT(raw); err != nil {
				return false, 400
			}
			return false, 200
		}},
		{"cookie:updateAuthLevel", func(raw string) (pan bool, status int) {
			defer func() {
				if p := recover(); p != nil {
					pan = true
					env.pmu.Lock()
					env.panics = append(env.panics, fmt.Sprintf("updateAuthCookieAuthlevel: %v", p))
					env.pmu.Unlock()
				}
			}()
			req := verifNewRequest("POST", totpAuthPath, nil)
			req.Header.Set("Cookie", authCookieName+"="+raw)
			sub := ""
			if _, claims, ok := tokParse(raw); ok {
				sub, _ = claims["sub"].(string)
			}
			if _, err := st.updateAuthCookieAuthlevel(httptest.NewRecorder(), req, sub, AuthTypeTOTP); err != nil {
				return false, 400
			}
			return false, 200
		}},
	}
	return sinks
}

// claim-level variants of one genuine token, all re-signed with the server's own key: each claim
// dropped, each claim replaced by a value of every other JSON type, all claims but one dropped
func (env *verifEnv) c10ClaimVariants(orig *symTok) []*symTok {
	_, claims, ok := tokParse(orig.raw)
	if !ok {
		return nil
	}
	var names []string
	for k := range claims {
		names = append(names, k)
	}
	sort.Strings(names)
	confused := []interface{}{nil, "", "x", 0, -1, 1.5, 1e300, true, []interface{}{}, []interface{}{"a", 1}, map[string]interface{}{}, map[string]interface{}{"a": "b"},
		strings.Repeat("A", 5000), []interface{}{[]interface{}{[]interface{}{}}}}
	var out []*symTok
	out = append(out, env.tokServerSigned(map[string]interface{}{}, "no claims at all"))
	for _, n := range names {
		c := cloneClaims(claims)
		delete(c, n)
		out = append(out, env.tokServerSigned(c, "claim dropped: "+n))
		only := map[string]interface{}{n: claims[n]}
		out = append(out, env.tokServerSigned(only, "only claim: "+n))
		for i, v := range confused {
			c2 := cloneClaims(claims)
			c2[n] = v
			out = append(out, env.tokServerSigned(c2, fmt.Sprintf("claim %s := confused value #%d", n, i)))
		}
	}
	return out
}

// ---------------------------------------------------------------- header-level mutations
//
// The protected header of a compact JWS is attacker-controlled JSON that every token parser reads
// BEFORE (and independently of) the signature: each registered header parameter, and an unknown
// one, is given a value of every JSON type.  Two signature modes: junk (anyone can send it) and
// genuine - the mutated header really signed with the server's own key (a token the server's
// parsers accept as theirs as far as the signature goes), where the server key can sign at all.

// sign header.payload with the server's key, by hand (go-jose's signer does not let a caller choose
// the type of registered header members)
func (env *verifEnv) c10RawSign(signingInput string) (sig []byte, alg string, ok bool) {
	signer := env.state.Signer
	switch pub := signer.Public().(type) {
	case *rsa.PublicKey:
		d := sha256.Sum256([]byte(signingInput))
		sig, err := signer.Sign(crand.Reader, d[:], crypto.SHA256)
		return sig, "RS256", err == nil
	case *ecdsa.PublicKey:
		var digest []byte
		var h crypto.Hash
		switch pub.Curve.Params().BitSize {
		case 256:
			d := sha256.Sum256([]byte(signingInput))
			digest, h, alg = d[:], crypto.SHA256, "ES256"
		case 384:
			d := sha512.Sum384([]byte(signingInput))
			digest, h, alg = d[:], crypto.SHA384, "ES384"
		default:
			d := sha512.Sum512([]byte(signingInput))
			digest, h, alg = d[:], crypto.SHA512, "ES512"
		}
		der, err := signer.Sign(crand.Reader, digest, h)
		if err != nil {
			return nil, alg, false
		}
		var rs struct{ R, S *big.Int }
		if _, err := asn1.Unmarshal(der, &rs); err != nil {
			return nil, alg, false
		}
		n := (pub.Curve.Params().BitSize + 7) / 8
		out := make([]byte, 2*n)
		rs.R.FillBytes(out[:n])
		rs.S.FillBytes(out[n:])
		return out, alg, true
	case ed25519.PublicKey:
		sig, err := signer.Sign(crand.Reader, []byte(signingInput), crypto.Hash(0))
		return sig, "EdDSA", err == nil
	}
	return nil, "RS256", false
}

// a JSON object with members in the given order (duplicates allowed)
type c10Member struct {
	name string
	raw  string // JSON text of the value
}

func c10Object(ms []c10Member) string {
	var parts []string
	for _, m := range ms {
		n, _ := json.Marshal(m.name)
		parts = append(parts, string(n)+":"+m.raw)
	}
	return "{" + strings.Join(parts, ",") + "}"
}

var c10HeaderParams = []string{"alg", "typ", "kid", "cty", "crit", "jwk", "jku", "x5c", "x5t", "x5t#S256", "x5u", "b64", "nonce", "zip", "enc", "verif-unknown"}

func c10JSONTypeValues() []c10Member {
	deep := strings.Repeat("[", 300) + strings.Repeat("]", 300)
	deepObj := strings.Repeat(`{"a":`, 200) + "1" + strings.Repeat("}", 200)
	return []c10Member{
		{"string", `"x"`}, {"empty string", `""`}, {"long string", `"` + strings.Repeat("A", 6000) + `"`},
		{"number", `7`}, {"negative number", `-1`}, {"fraction", `1.5`}, {"huge number", `123456789012345678901234567890123456789012345678901234567890`}, {"huge exponent", `1e999`},
		{"true", `true`}, {"false", `false`}, {"null", `null`},
		{"empty array", `[]`}, {"array of strings", `["a","b"]`}, {"mixed array", `["a",1,null,{}]`}, {"array of numbers", `[1,2]`},
		{"empty object", `{}`}, {"object", `{"a":"b"}`}, {"object of objects", `{"kty":{"a":1},"n":[],"e":null}`},
		{"deep array", deep}, {"deep object", deepObj},
	}
}

// header variants of one genuine token: the payload is kept, the protected header is rebuilt with one
// member set to a value of each JSON type (replacing the genuine member, or added; also as a
// duplicate after the genuine member)
func (env *verifEnv) c10HeaderMemberVariants(orig *symTok, stride, phase int) []*symTok {
	parts := strings.Split(orig.raw, ".")
	if len(parts) != 3 {
		return nil
	}
	_, alg, canSign := env.c10RawSign("probe")
	sid := env.signerKeyID()
	var out []*symTok
	n := 0
	emit := func(ms []c10Member, note string) {
		n++
		h := b64e([]byte(c10Object(ms)))
		in := h + "." + parts[1]
		// junk signature: what any unauthenticated client can send
		if stride <= 1 || (n+phase)%stride == 0 {
			out = append(out, newSymTok(in+"."+parts[2], sid, true, "hdr-member: "+note+" (old signature)"))
		}
		if canSign {
			if sig, _, ok := env.c10RawSign(in); ok {
				out = append(out, newSymTok(in+"."+b64e(sig), sid, false, "hdr-member: "+note+" (signed by the server key)"))
			}
		}
	}
	base := []c10Member{{"alg", `"` + alg + `"`}, {"typ", `"JWT"`}}
	for _, name := range c10HeaderParams {
		for _, v := range c10JSONTypeValues() {
			var ms []c10Member
			replaced := false
			for _, b := range base {
				if b.name == name {
					ms = append(ms, c10Member{name, v.raw})
					replaced = true
				} else {
					ms = append(ms, b)
				}
			}
			if !replaced {
				ms = append(ms, c10Member{name, v.raw})
			}
			emit(ms, name+" := "+v.name)
		}
		// the member twice: genuine first, confused second, and the other way round
		for _, v := range []c10Member{{"number", `7`}, {"object", `{"a":"b"}`}, {"null", `null`}} {
			emit(append(append([]c10Member{}, base...), c10Member{name, v.raw}), name+" duplicated, second := "+v.name)
			emit(append([]c10Member{{name, v.raw}}, base...), name+" duplicated, first := "+v.name)
		}
	}
	// the header itself of another JSON type / not JSON
	for _, h := range []string{`[]`, `null`, `7`, `"x"`, `true`, `{}`, `{"alg":null}`, `{"alg":"` + alg + `"`, ``, `{"alg":"` + alg + `","crit":["typ"],"typ":7}`,
		`{"alg":"` + alg + `","crit":["b64"],"b64":false}`, `{"alg":"` + alg + `","crit":[7]}`, `{"alg":"` + alg + `","typ":"JWT"}{"typ":7}`} {
		in := b64e([]byte(h)) + "." + parts[1]
		out = append(out, newSymTok(in+"."+parts[2], sid, true, "hdr-whole: "+h+" (old signature)"))
		if sig, _, ok := env.c10RawSign(in); ok && canSign {
			out = append(out, newSymTok(in+"."+b64e(sig), sid, false, "hdr-whole: "+h+" (signed by the server key)"))
		}
	}
	return out
}

// ---------------------------------------------------------------- claim access: model vs getAuthInfoFromAuthJWT
//
// Well-signed tokens with type-confused / dropped claims: the real claim extraction (go-jose decoding
// into authInfoJWT, then keymaster's comparisons and Audience[0]) against Model.ClaimAccess.get_auth_info
// on the same payload.

var c10IntRE = regexp.MustCompile(`^-?[0-9]+$`)

func coqJSON(v interface{}) string {
	switch x := v.(type) {
	case nil:
		return "JNull"
	case bool:
		return "(JBool " + coqBool(x) + ")"
	case json.Number:
		if c10IntRE.MatchString(string(x)) {
			if i, err := strconv.ParseInt(string(x), 10, 64); err == nil {
				return fmt.Sprintf("(JNum true %s)", coqZ(i))
			}
		}
		return "(JNum false 0%Z)"
	case string:
		return "(JStr " + coqPacked([]byte(x)) + ")"
	case []interface{}:
		var el []string
		for _, e := range x {
			el = append(el, coqJSON(e))
		}
		return "(JArr [" + strings.Join(el, "; ") + "])"
	case map[string]interface{}:
		var ks []string
		for k := range x {
			ks = append(ks, k)
		}
		sort.Strings(ks)
		var el []string
		for _, k := range ks {
			el = append(el, "("+coqPacked([]byte(k))+", "+coqJSON(x[k])+")")
		}
		return "(JObj [" + strings.Join(el, "; ") + "])"
	}
	return "JNull"
}

func (env *verifEnv) c10ClaimAccessCases(res *verifResult, toks []*symTok) (cases, idx []string) {
	for _, tok := range toks {
		if tok == nil || tok.tampered {
			continue
		}
		parts := strings.Split(tok.raw, ".")
		if len(parts) != 3 {
			continue
		}
		pb, err := b64d(parts[1])
		if err != nil {
			continue
		}
		var payload interface{}
		dec := json.NewDecoder(strings.NewReader(string(pb)))
		dec.UseNumber()
		if dec.Decode(&payload) != nil {
			continue
		}
		now := time.Now().Unix()
		var info authInfo
		var gerr error
		panicked := false
		func() {
			defer func() {
				if p := recover(); p != nil {
					panicked = true
				}
			}()
			info, gerr = env.state.getAuthInfoFromAuthJWT(tok.raw)
		}()
		res.eval("claim-access|"+tok.note+"|"+fmt.Sprint(gerr == nil), gerr == nil)
		res.bump("claim-access")
		if panicked {
			res.hit(verifHit{Key: "C10:panic:claim-access", Oracle: "panic", What: "getAuthInfoFromAuthJWT panicked on a well-signed token (" + tok.note + ")", Case: map[string]interface{}{"token": tok.raw, "note": tok.note}})
		}
		obs := "None"
		if gerr == nil && !panicked {
			obs = fmt.Sprintf("(Some (%s, %s, %s, %s))", coqPacked([]byte(info.Username)), coqZ(int64(info.AuthType)), coqZ(info.ExpiresAt.Unix()), coqZ(info.IssuedAt.Unix()))
		}
		cases = append(cases, fmt.Sprintf("(%s, %s, %s, %s)", coqJSON(payload), coqZ(now), coqBool(panicked), obs))
		idx = append(idx, fmt.Sprintf("claim-access note=%q accepted=%v payload=%s", tok.note, gerr == nil, string(pb)))
	}
	return cases, idx
}

func c10TokenStage(t *testing.T, env *verifEnv, res *verifResult, rng *rand.Rand) (claimCases, claimIdx []string) {
	p := env.c04Produce(t)
	genuine := []*symTok{p.session, p.sessionLogin, p.cli, p.cliPage, p.storage, p.code, p.access, p.id}
	// a second authorization code, bound to the PKCE client with a challenge
	if code, _ := env.c04Authorize(t, "alice", c04ClientB, c04RedirectB, url.Values{"code_challenge": {strings.Repeat("c", 43)}, "code_challenge_method": {"plain"}}); code != "" {
		genuine = append(genuine, newSymTok(code, env.signerKeyID(), false, "producer:code(pkce client)"))
	}
	var corpus []*symTok
	hdrBases := 0
	for _, g := range genuine {
		if g == nil {
			continue
		}
		corpus = append(corpus, g)
		vars := env.c10ClaimVariants(g)
		if g == p.session || g == p.sessionLogin || verifThorough() {
			// every type confusion of the session token's claims (and, thorough, of every kind) goes to the claim-access model
			cc, ci := env.c10ClaimAccessCases(res, append([]*symTok{g}, vars...))
			claimCases, claimIdx = append(claimCases, cc...), append(claimIdx, ci...)
		} else {
			cc, ci := env.c10ClaimAccessCases(res, []*symTok{g})
			claimCases, claimIdx = append(claimCases, cc...), append(claimIdx, ci...)
		}
		if !verifThorough() {
			// quick: every dropped / only-claim variant, a third of the type confusions
			var keep []*symTok
			for i, v := range vars {
				if strings.HasPrefix(v.note, "claim dropped") || strings.HasPrefix(v.note, "only claim") || strings.HasPrefix(v.note, "no claims") || (i+int(verifSeed()))%3 == 0 {
					keep = append(keep, v)
				}
			}
			vars = keep
		}
		corpus = append(corpus, vars...)
		corpus = append(corpus, env.tokHeaderVariants(g.raw)...)
		hdrBases++
		if verifThorough() {
			corpus = append(corpus, env.c10HeaderMemberVariants(g, 1, 0)...)
		} else if hdrBases == 1 || (hdrBases-2)%4 == int(verifSeed())%4 {
			// quick: the session cookie (genuine signature for every member x type, the junk-signature
			// twin for every third) and a rotating quarter of the other kinds
			corpus = append(corpus, env.c10HeaderMemberVariants(g, 3, int(verifSeed()))...)
		}
		nc := 6
		if verifThorough() {
			nc = 60
		}
		for i := 0; i < nc; i++ {
			corpus = append(corpus, env.tokCorrupt(g.raw, rng.Intn(len(g.raw)), byte(rng.Intn(256)), "byte corruption"))
		}
	}
	// plus raw garbage a JWS parser may meet
	for _, s := range []string{"", ".", "..", "...", "a.b.c", "eyJhbGciOiJub25lIn0..", "eyJhbGciOiJSUzI1NiJ9.e30.", strings.Repeat("A", 20000), "e30.e30.e30", "\x00.\x00.\x00",
		"eyJhbGciOiJSUzI1NiJ9.bnVsbA.AAAA", "eyJhbGciOiJSUzI1NiJ9.W10.AAAA", "eyJhbGciOiJSUzI1NiJ9.MQ.AAAA"} {
		corpus = append(corpus, newSymTok(s, 0, true, "garbage"))
	}
	sinks := env.c10TokenSinks()
	for _, tok := range corpus {
		if tok == nil {
			continue
		}
		for _, s := range sinks {
			pan, status := s.run(tok.raw)
			res.eval(fmt.Sprintf("tok|%s|%s|%d", s.name, tok.note, status), !tok.tampered)
			res.bump("token-sink:" + strings.SplitN(s.name, ":", 2)[0])
			if pan {
				res.hit(verifHit{Key: "C10:panic:token:" + s.name, Oracle: "panic",
					What: fmt.Sprintf("sink %s panicked on a signed token (%s)", s.name, tok.note),
					Case: map[string]interface{}{"sink": s.name, "token": tok.raw, "note": tok.note}})
			}
		}
	}
	res.Extra["token_corpus"] = len(corpus)
	res.Extra["token_sinks"] = len(sinks)
	res.Extra["claim_access_cases"] = len(claimCases)
	return claimCases, claimIdx
}
