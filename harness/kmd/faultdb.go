package main

// A database/sql driver that wraps mattn/go-sqlite3 (same code paths: QueryerContext,
// ExecerContext, ConnPrepareContext, ConnBeginTx are passed through) and, while armed, numbers
// every statement-level call it sees — Query, Exec, Prepare, Begin, Commit and every
// rows.Next — and makes the k-th one fail instead of reaching SQLite.  Used by C15 (a fault
// at every statement of a synchronisation) and C07.

import (
	"context"
	"database/sql"
	"database/sql/driver"
	"errors"
	"strings"
	"sync"

	sqlite3 "github.com/mattn/go-sqlite3"
)

var errVerifInjected = errors.New("verif: injected storage fault")

type verifFaultCtl struct {
	mu       sync.Mutex
	armed    bool
	count    int
	failAt   int
	fired    bool
	kinds    []string
	errKind  int  // which error value the failing call returns (verifFaultGeneric ...)
	standing bool // false: only the failAt-th call fails; true: that one and every later one
}

var verifFault verifFaultCtl

// WHAT the failing call returns.  Busy / locked are real sqlite3.Error values (type tests and
// errors.As match them), bad-conn is driver.ErrBadConn (database/sql reacts to it on its own),
// deadline is context.DeadlineExceeded.
const (
	verifFaultGeneric = iota
	verifFaultBusy
	verifFaultLocked
	verifFaultBadConn
	verifFaultDeadline
	verifNFaultKinds
)

// names in the model (Model/Storage.v fkind) and in oracle keys
var verifFaultCoq = []string{"KGeneric", "KBusy", "KLocked", "KBadConn", "KDeadline"}
var verifFaultNames = []string{"generic", "busy", "locked", "bad-conn", "deadline"}

func verifFaultError(kind int) error {
	switch kind {
	case verifFaultBusy:
		return sqlite3.Error{Code: sqlite3.ErrBusy}
	case verifFaultLocked:
		return sqlite3.Error{Code: sqlite3.ErrLocked}
	case verifFaultBadConn:
		return driver.ErrBadConn
	case verifFaultDeadline:
		return context.DeadlineExceeded
	}
	return errVerifInjected
}

// arm the counter; failAt < 0 only counts
func (c *verifFaultCtl) arm(failAt int) { c.armKind(failAt, verifFaultGeneric, false) }

// the failAt-th call fails with an error of the given kind; standing: every later call too
func (c *verifFaultCtl) armKind(failAt, kind int, standing bool) {
	c.mu.Lock()
	c.armed, c.count, c.failAt, c.fired, c.kinds = true, 0, failAt, false, nil
	c.errKind, c.standing = kind, standing
	c.mu.Unlock()
}

func (c *verifFaultCtl) disarm() (count int, fired bool, kinds []string) {
	c.mu.Lock()
	defer c.mu.Unlock()
	c.armed = false
	return c.count, c.fired, c.kinds
}

func (c *verifFaultCtl) event(kind string) error {
	c.mu.Lock()
	defer c.mu.Unlock()
	if !c.armed {
		return nil
	}
	i := c.count
	c.count++
	c.kinds = append(c.kinds, kind)
	if i == c.failAt || (c.standing && c.failAt >= 0 && i > c.failAt) {
		c.fired = true
		return verifFaultError(c.errKind)
	}
	return nil
}

// ---------------------------------------------------------------- standing outages
// Besides the one-shot "k-th statement fails", a database FILE can be put into a standing outage:
// every READ of it fails at a chosen stage (prepare / query / scan of the row), as a primary that
// fails fast does; with writes = false every other statement fails too.  Stages:
//
//	prepare: Prepare of a SELECT fails (writes = false: every Prepare, Begin, Query, Exec)
//	query:   running a prepared SELECT fails (writes = false: also every Exec / Query)
//	scan:    fetching a row of a prepared SELECT fails (writes = false: also every Exec and
//	         every other row fetch)
//
// Standing failures are not numbered by the one-shot counter.
type verifOutageCtl struct {
	mu     sync.Mutex
	file   string
	stage  string // "" = none
	writes bool
	fired  int
}

var verifOutage verifOutageCtl

func (c *verifOutageCtl) set(file, stage string, writes bool) {
	c.mu.Lock()
	c.file, c.stage, c.writes, c.fired = file, stage, writes, 0
	c.mu.Unlock()
}

func (c *verifOutageCtl) clear() { c.set("", "", true) }

func verifIsSelect(q string) bool {
	q = strings.TrimSpace(q)
	return len(q) >= 6 && strings.EqualFold(q[:6], "select")
}

// does the event fail?  read = the event belongs to a prepared SELECT
func (c *verifOutageCtl) fails(file, event string, read bool) error {
	c.mu.Lock()
	defer c.mu.Unlock()
	if c.stage == "" || file != c.file {
		return nil
	}
	hit := false
	switch c.stage {
	case "prepare":
		if c.writes {
			hit = event == "prepare" && read
		} else {
			hit = event == "prepare" || event == "begin" || event == "query" || event == "exec"
		}
	case "query":
		if c.writes {
			hit = event == "stmt-query" && read
		} else {
			hit = event == "stmt-query" || event == "stmt-exec" || event == "query" || event == "exec"
		}
	case "scan":
		if c.writes {
			hit = event == "next" && read
		} else {
			hit = event == "next" || event == "stmt-exec" || event == "exec"
		}
	}
	if hit {
		c.fired++
		return errVerifOutage
	}
	return nil
}

var errVerifOutage = errors.New("verif: primary unreachable (standing outage)")

type verifFaultDriver struct{ base sqlite3.SQLiteDriver }

func (d *verifFaultDriver) Open(dsn string) (driver.Conn, error) {
	c, err := d.base.Open(dsn)
	if err != nil {
		return nil, err
	}
	// connection settings of the handle this one stands in for (verifCarryConnSettings)
	for _, q := range verifConnSetup.get(dsn) {
		if _, err := c.(*sqlite3.SQLiteConn).Exec(q, nil); err != nil {
			c.Close()
			return nil, err
		}
	}
	return &vfConn{c.(*sqlite3.SQLiteConn), dsn}, nil
}

// ---------------------------------------------------------------- connection settings of the real handles
// The harness replaces the *sql.DB handles that initDB built by handles of the wrapping driver on the
// same files.  Whatever the tree under test configured PER CONNECTION (DSN parameters, a connect hook)
// would be lost that way, so the real handle is asked first (PRAGMA on fresh connections: database/sql
// pools connections, a DSN parameter reaches every new one, a PRAGMA statement only the one it ran on)
// and every setting in which it differs from a plain connection of the wrapping driver is replayed on
// each connection the wrapping driver opens for that file.

// the settings of a connection that decide what a transaction, a roll-back and a crash mean, and how
// much of a transaction stays in memory
var verifConnPragmas = []string{"journal_mode", "synchronous", "locking_mode", "cache_size", "cache_spill", "page_size",
	"temp_store", "mmap_size", "busy_timeout", "query_only", "secure_delete", "wal_autocheckpoint", "journal_size_limit",
	"read_uncommitted", "foreign_keys", "recursive_triggers"}

// not replayed: page_size belongs to the file; an exclusive locking mode would shut out the harness's own
// readers of the file (it is reported, not carried over)
var verifConnNotCarried = map[string]bool{"page_size": true, "locking_mode": true}

type verifConnProbe struct {
	Handle   string            `json:"handle"`
	Conn     int               `json:"connection"`
	Settings map[string]string `json:"settings"`
}

// the pragmas as answered by n connections of db held at the same time (so that they are n different
// connections: the pool's idle one, if any, and fresh ones)
func verifProbeDB(db *sql.DB, handle string, n int) ([]verifConnProbe, error) {
	ctx := context.Background()
	var conns []*sql.Conn
	defer func() {
		for _, c := range conns {
			c.Close()
		}
	}()
	var out []verifConnProbe
	for i := 0; i < n; i++ {
		c, err := db.Conn(ctx)
		if err != nil {
			return out, err
		}
		conns = append(conns, c)
		p := verifConnProbe{Handle: handle, Conn: i, Settings: map[string]string{}}
		for _, name := range verifConnPragmas {
			var v sql.NullString
			if err := c.QueryRowContext(ctx, "PRAGMA "+name).Scan(&v); err != nil {
				if err == sql.ErrNoRows {
					continue
				}
				return out, err
			}
			p.Settings[name] = strings.ToLower(v.String)
		}
		out = append(out, p)
	}
	return out, nil
}

type verifConnSetupCtl struct {
	mu    sync.Mutex
	stmts map[string][]string
}

var verifConnSetup verifConnSetupCtl

func (c *verifConnSetupCtl) get(file string) []string {
	c.mu.Lock()
	defer c.mu.Unlock()
	return c.stmts[file]
}

func (c *verifConnSetupCtl) set(file string, stmts []string) {
	c.mu.Lock()
	defer c.mu.Unlock()
	if c.stmts == nil {
		c.stmts = map[string][]string{}
	}
	c.stmts[file] = stmts
}

// real: the probed connections of the handle initDB built for `file`.  Every setting in which the first
// probed connection that deviates from a plain connection of the wrapping driver differs from it is from
// now on applied to each connection the wrapping driver opens for the file.  Returns the statements.
func verifCarryConnSettings(file string, real []verifConnProbe) ([]string, error) {
	verifConnSetup.set(file, nil)
	plainDB, err := verifOpenFaultDB(file)
	if err != nil {
		return nil, err
	}
	defer plainDB.Close()
	plain, err := verifProbeDB(plainDB, "plain", 1)
	if err != nil {
		return nil, err
	}
	var stmts []string
	for _, p := range real {
		for _, name := range verifConnPragmas {
			v, ok := p.Settings[name]
			if !ok || verifConnNotCarried[name] || v == plain[0].Settings[name] {
				continue
			}
			stmts = append(stmts, "PRAGMA "+name+" = "+v)
		}
		if len(stmts) > 0 {
			break
		}
	}
	verifConnSetup.set(file, stmts)
	return stmts, nil
}

type vfConn struct {
	c   *sqlite3.SQLiteConn
	dsn string
}

func (c *vfConn) Prepare(q string) (driver.Stmt, error) {
	return c.PrepareContext(context.Background(), q)
}
func (c *vfConn) Close() error { return c.c.Close() }
func (c *vfConn) Begin() (driver.Tx, error) {
	return c.BeginTx(context.Background(), driver.TxOptions{})
}
func (c *vfConn) Ping(ctx context.Context) error {
	return c.c.Ping(ctx)
}
func (c *vfConn) PrepareContext(ctx context.Context, q string) (driver.Stmt, error) {
	read := verifIsSelect(q)
	if err := verifOutage.fails(c.dsn, "prepare", read); err != nil {
		return nil, err
	}
	if err := verifFault.event("prepare"); err != nil {
		return nil, err
	}
	s, err := c.c.PrepareContext(ctx, q)
	if err != nil {
		return nil, err
	}
	return &vfStmt{s.(*sqlite3.SQLiteStmt), c.dsn, read}, nil
}
func (c *vfConn) BeginTx(ctx context.Context, opts driver.TxOptions) (driver.Tx, error) {
	if err := verifOutage.fails(c.dsn, "begin", false); err != nil {
		return nil, err
	}
	if err := verifFault.event("begin"); err != nil {
		return nil, err
	}
	tx, err := c.c.BeginTx(ctx, opts)
	if err != nil {
		return nil, err
	}
	return &vfTx{tx}, nil
}
func (c *vfConn) ExecContext(ctx context.Context, q string, args []driver.NamedValue) (driver.Result, error) {
	if err := verifOutage.fails(c.dsn, "exec", false); err != nil {
		return nil, err
	}
	if err := verifFault.event("exec"); err != nil {
		return nil, err
	}
	return c.c.ExecContext(ctx, q, args)
}
func (c *vfConn) QueryContext(ctx context.Context, q string, args []driver.NamedValue) (driver.Rows, error) {
	if err := verifOutage.fails(c.dsn, "query", false); err != nil {
		return nil, err
	}
	if err := verifFault.event("query"); err != nil {
		return nil, err
	}
	r, err := c.c.QueryContext(ctx, q, args)
	if err != nil {
		return nil, err
	}
	return &vfRows{r, c.dsn, false}, nil
}

type vfTx struct{ tx driver.Tx }

func (t *vfTx) Commit() error {
	if err := verifFault.event("commit"); err != nil {
		// the commit did not happen.  database/sql releases the connection after a failed
		// Commit without calling Rollback, so undo here, as mattn's Commit itself does when
		// COMMIT answers SQLITE_BUSY
		t.tx.Rollback()
		return err
	}
	return t.tx.Commit()
}
func (t *vfTx) Rollback() error { return t.tx.Rollback() }

type vfStmt struct {
	s    *sqlite3.SQLiteStmt
	dsn  string
	read bool
}

func (s *vfStmt) Close() error  { return s.s.Close() }
func (s *vfStmt) NumInput() int { return s.s.NumInput() }
func (s *vfStmt) Exec(args []driver.Value) (driver.Result, error) {
	return nil, errors.New("verif: legacy Exec not used")
}
func (s *vfStmt) Query(args []driver.Value) (driver.Rows, error) {
	return nil, errors.New("verif: legacy Query not used")
}
func (s *vfStmt) ExecContext(ctx context.Context, args []driver.NamedValue) (driver.Result, error) {
	if err := verifOutage.fails(s.dsn, "stmt-exec", false); err != nil {
		return nil, err
	}
	if err := verifFault.event("stmt-exec"); err != nil {
		return nil, err
	}
	return s.s.ExecContext(ctx, args)
}
func (s *vfStmt) QueryContext(ctx context.Context, args []driver.NamedValue) (driver.Rows, error) {
	if err := verifOutage.fails(s.dsn, "stmt-query", s.read); err != nil {
		return nil, err
	}
	if err := verifFault.event("stmt-query"); err != nil {
		return nil, err
	}
	r, err := s.s.QueryContext(ctx, args)
	if err != nil {
		return nil, err
	}
	return &vfRows{r, s.dsn, s.read}, nil
}

type vfRows struct {
	r    driver.Rows
	dsn  string
	read bool
}

func (r *vfRows) Columns() []string { return r.r.Columns() }
func (r *vfRows) Close() error      { return r.r.Close() }
func (r *vfRows) Next(dest []driver.Value) error {
	if err := verifOutage.fails(r.dsn, "next", r.read); err != nil {
		return err
	}
	if err := verifFault.event("next"); err != nil {
		return err
	}
	return r.r.Next(dest)
}

var verifFaultRegister sync.Once

const verifFaultDriverName = "verif-fault-sqlite3"

func verifOpenFaultDB(filename string) (*sql.DB, error) {
	verifFaultRegister.Do(func() { sql.Register(verifFaultDriverName, &verifFaultDriver{}) })
	return sql.Open(verifFaultDriverName, filename)
}
