package main

// A database/sql driver that wraps mattn/go-sqlite3 (same code paths: QueryerContext,
// ExecerContext, ConnPrepareContext, ConnBeginTx are passed through) and, while armed, numbers
// every statement-level call it sees — Query, Exec, Prepare, Begin, Commit and every
// rows.Next — and makes the k-th one fail instead of reaching SQLite.  Used by C15 (a fault
// at every statement of a synchronisation) and C07.

import (
	"context"
	"database/sql"
	"database/sql/driver"
	"errors"
	"strings"
	"sync"

	sqlite3 "github.com/mattn/go-sqlite3"
)

var errVerifInjected = errors.New("verif: injected storage fault")

type verifFaultCtl struct {
	mu       sync.Mutex
	armed    bool
	count    int
	failAt   int
	fired    bool
	kinds    []string
	errKind  int  // which error value the failing call returns (verifFaultGeneric ...)
	standing bool // false: only the failAt-th call fails; true: that one and every later one
}

var verifFault verifFaultCtl

// WHAT the failing call returns.  Busy / locked are real sqlite3.Error values (type tests and
// errors.As match them), bad-conn is driver.ErrBadConn (database/sql reacts to it on its own),
// deadline is context.DeadlineExceeded.
const (
	verifFaultGeneric = iota
	verifFaultBusy
	verifFaultLocked
	verifFaultBadConn
	verifFaultDeadline
	verifNFaultKinds
)

// names in the model (Model/Storage.v fkind) and in oracle keys
var verifFaultCoq = []string{"KGeneric", "KBusy", "KLocked", "KBadConn", "KDeadline"}
var verifFaultNames = []string{"generic", "busy", "locked", "bad-conn", "deadline"}

func verifFaultError(kind int) error {
	switch kind {
	case verifFaultBusy:
		return sqlite3.Error{Code: sqlite3.ErrBusy}
	case verifFaultLocked:
		return sqlite3.Error{Code: sqlite3.ErrLocked}
	case verifFaultBadConn:
		return driver.ErrBadConn
	case verifFaultDeadline:
		return context.DeadlineExceeded
	}
	return errVerifInjected
}

// arm the counter; failAt < 0 only counts
func (c *verifFaultCtl) arm(failAt int) { c.armKind(failAt, verifFaultGeneric, false) }

// the failAt-th call fails with an error of the given kind; standing: every later call too
func (c *verifFaultCtl) armKind(failAt, kind int, standing bool) {
	c.mu.Lock()
	c.armed, c.count, c.failAt, c.fired, c.kinds = true, 0, failAt, false, nil
	c.errKind, c.standing = kind, standing
	c.mu.Unlock()
}

func (c *verifFaultCtl) disarm() (count int, fired bool, kinds []string) {
	c.mu.Lock()
	defer c.mu.Unlock()
	c.armed = false
	return c.count, c.fired, c.kinds
}

func (c *verifFaultCtl) event(kind string) error {
	c.mu.Lock()
	defer c.mu.Unlock()
	if !c.armed {
		return nil
	}
	i := c.count
	c.count++
	c.kinds = append(c.kinds, kind)
	if i == c.failAt || (c.standing && c.failAt >= 0 && i > c.failAt) {
		c.fired = true
		return verifFaultError(c.errKind)
	}
	return nil
}

// ---------------------------------------------------------------- standing outages
// Besides the one-shot "k-th statement fails", a database FILE can be put into a standing outage:
// every READ of it fails at a chosen stage (prepare / query / scan of the row), as a primary that
// fails fast does; with writes = false every other statement fails too.  Stages:
//
//	prepare: Prepare of a SELECT fails (writes = false: every Prepare, Begin, Query, Exec)
//	query:   running a prepared SELECT fails (writes = false: also every Exec / Query)
//	scan:    fetching a row of a prepared SELECT fails (writes = false: also every Exec and
//	         every other row fetch)
//
// Standing failures are not numbered by the one-shot counter.
type verifOutageCtl struct {
	mu     sync.Mutex
	file   string
	stage  string // "" = none
	writes bool
	fired  int
}

var verifOutage verifOutageCtl

func (c *verifOutageCtl) set(file, stage string, writes bool) {
	c.mu.Lock()
	c.file, c.stage, c.writes, c.fired = file, stage, writes, 0
	c.mu.Unlock()
}

func (c *verifOutageCtl) clear() { c.set("", "", true) }

func verifIsSelect(q string) bool {
	q = strings.TrimSpace(q)
	return len(q) >= 6 && strings.EqualFold(q[:6], "select")
}

// does the event fail?  read = the event belongs to a prepared SELECT
func (c *verifOutageCtl) fails(file, event string, read bool) error {
	c.mu.Lock()
	defer c.mu.Unlock()
	if c.stage == "" || file != c.file {
		return nil
	}
	hit := false
	switch c.stage {
	case "prepare":
		if c.writes {
			hit = event == "prepare" && read
		} else {
			hit = event == "prepare" || event == "begin" || event == "query" || event == "exec"
		}
	case "query":
		if c.writes {
			hit = event == "stmt-query" && read
		} else {
			hit = event == "stmt-query" || event == "stmt-exec" || event == "query" || event == "exec"
		}
	case "scan":
		if c.writes {
			hit = event == "next" && read
		} else {
			hit = event == "next" || event == "stmt-exec" || event == "exec"
		}
	}
	if hit {
		c.fired++
		return errVerifOutage
	}
	return nil
}

var errVerifOutage = errors.New("verif: primary unreachable (standing outage)")

type verifFaultDriver struct{ base sqlite3.SQLiteDriver }

func (d *verifFaultDriver) Open(dsn string) (driver.Conn, error) {
	c, err := d.base.Open(dsn)
	if err != nil {
		return nil, err
	}
	return &vfConn{c.(*sqlite3.SQLiteConn), dsn}, nil
}

type vfConn struct {
	c   *sqlite3.SQLiteConn
	dsn string
}

func (c *vfConn) Prepare(q string) (driver.Stmt, error) {
	return c.PrepareContext(context.Background(), q)
}
func (c *vfConn) Close() error { return c.c.Close() }
func (c *vfConn) Begin() (driver.Tx, error) {
	return c.BeginTx(context.Background(), driver.TxOptions{})
}
func (c *vfConn) Ping(ctx context.Context) error {
	return c.c.Ping(ctx)
}
func (c *vfConn) PrepareContext(ctx context.Context, q string) (driver.Stmt, error) {
	read := verifIsSelect(q)
	if err := verifOutage.fails(c.dsn, "prepare", read); err != nil {
		return nil, err
	}
	if err := verifFault.event("prepare"); err != nil {
		return nil, err
	}
	s, err := c.c.PrepareContext(ctx, q)
	if err != nil {
		return nil, err
	}
	return &vfStmt{s.(*sqlite3.SQLiteStmt), c.dsn, read}, nil
}
func (c *vfConn) BeginTx(ctx context.Context, opts driver.TxOptions) (driver.Tx, error) {
	if err := verifOutage.fails(c.dsn, "begin", false); err != nil {
		return nil, err
	}
	if err := verifFault.event("begin"); err != nil {
		return nil, err
	}
	tx, err := c.c.BeginTx(ctx, opts)
	if err != nil {
		return nil, err
	}
	return &vfTx{tx}, nil
}
func (c *vfConn) ExecContext(ctx context.Context, q string, args []driver.NamedValue) (driver.Result, error) {
	if err := verifOutage.fails(c.dsn, "exec", false); err != nil {
		return nil, err
	}
	if err := verifFault.event("exec"); err != nil {
		return nil, err
	}
	return c.c.ExecContext(ctx, q, args)
}
func (c *vfConn) QueryContext(ctx context.Context, q string, args []driver.NamedValue) (driver.Rows, error) {
	if err := verifOutage.fails(c.dsn, "query", false); err != nil {
		return nil, err
	}
	if err := verifFault.event("query"); err != nil {
		return nil, err
	}
	r, err := c.c.QueryContext(ctx, q, args)
	if err != nil {
		return nil, err
	}
	return &vfRows{r, c.dsn, false}, nil
}

type vfTx struct{ tx driver.Tx }

func (t *vfTx) Commit() error {
	if err := verifFault.event("commit"); err != nil {
		// the commit did not happen.  database/sql releases the connection after a failed
		// Commit without calling Rollback, so undo here, as mattn's Commit itself does when
		// COMMIT answers SQLITE_BUSY
		t.tx.Rollback()
		return err
	}
	return t.tx.Commit()
}
func (t *vfTx) Rollback() error { return t.tx.Rollback() }

type vfStmt struct {
	s    *sqlite3.SQLiteStmt
	dsn  string
	read bool
}

func (s *vfStmt) Close() error  { return s.s.Close() }
func (s *vfStmt) NumInput() int { return s.s.NumInput() }
func (s *vfStmt) Exec(args []driver.Value) (driver.Result, error) {
	return nil, errors.New("verif: legacy Exec not used")
}
func (s *vfStmt) Query(args []driver.Value) (driver.Rows, error) {
	return nil, errors.New("verif: legacy Query not used")
}
func (s *vfStmt) ExecContext(ctx context.Context, args []driver.NamedValue) (driver.Result, error) {
	if err := verifOutage.fails(s.dsn, "stmt-exec", false); err != nil {
		return nil, err
	}
	if err := verifFault.event("stmt-exec"); err != nil {
		return nil, err
	}
	return s.s.ExecContext(ctx, args)
}
func (s *vfStmt) QueryContext(ctx context.Context, args []driver.NamedValue) (driver.Rows, error) {
	if err := verifOutage.fails(s.dsn, "stmt-query", s.read); err != nil {
		return nil, err
	}
	if err := verifFault.event("stmt-query"); err != nil {
		return nil, err
	}
	r, err := s.s.QueryContext(ctx, args)
	if err != nil {
		return nil, err
	}
	return &vfRows{r, s.dsn, s.read}, nil
}

type vfRows struct {
	r    driver.Rows
	dsn  string
	read bool
}

func (r *vfRows) Columns() []string { return r.r.Columns() }
func (r *vfRows) Close() error      { return r.r.Close() }
func (r *vfRows) Next(dest []driver.Value) error {
	if err := verifOutage.fails(r.dsn, "next", r.read); err != nil {
		return err
	}
	if err := verifFault.event("next"); err != nil {
		return err
	}
	return r.r.Next(dest)
}

var verifFaultRegister sync.Once

const verifFaultDriverName = "verif-fault-sqlite3"

func verifOpenFaultDB(filename string) (*sql.DB, error) {
	verifFaultRegister.Do(func() { sql.Register(verifFaultDriverName, &verifFaultDriver{}) })
	return sql.Open(verifFaultDriverName, filename)
}
