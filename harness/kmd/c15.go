package main

// C15 — profiles survive storage round trips; the offline cache mirrors the primary; an
// interrupted synchronisation leaves old-or-new; an outage refuses profile changes.
//
//  part 1  histories of add/change/delete user and signed-record operations, interleaved with
//          synchronisations on a real SQLite pair; every synchronisation of the first histories
//          is repeated with a fault injected at its k-th statement for every k (wrapping
//          database/sql driver, faultdb.go); loads and signed reads in the three modes
//          up / slow (remoteDBQueryTimeout = 0) / dead (primary closed).  The same histories
//          are run by the Coq model (Model/Storage.v) and compared inside Coq.
//  part 2  gob round trip of randomly generated rich profiles through the primary and the cache.
//  part 3  every mutating handler that can be driven (and every route of the regenerated mux,
//          generically) probed in both outage modes with before/after digests of both stores.

import (
	"bytes"
	"crypto/sha256"
	"crypto/sha512"
	"crypto/x509"
	"database/sql"
	"encoding/gob"
	"encoding/hex"
	"fmt"
	"io/ioutil"
	"math/big"
	mrand "math/rand"
	"net/http"
	"net/http/httptest"
	"net/url"
	"os"
	"path/filepath"
	"reflect"
	"sort"
	"strconv"
	"strings"
	"testing"
	"time"

	"github.com/duo-labs/webauthn/protocol"
	"github.com/duo-labs/webauthn/webauthn"
	"github.com/pquerna/otp/totp"
	"github.com/tstranex/u2f"
)

// ---------------------------------------------------------------- canonical form of a profile

func c15CanonValue(v reflect.Value, sb *strings.Builder) {
	if !v.IsValid() {
		sb.WriteString("nil")
		return
	}
	if v.CanInterface() {
		switch x := v.Interface().(type) {
		case time.Time:
			fmt.Fprintf(sb, "T%d.%d", x.Unix(), x.Nanosecond())
			return
		case u2f.Registration:
			fmt.Fprintf(sb, "REG(%x|%x|%v|%v)", x.Raw, x.KeyHandle, x.PubKey.X, x.PubKey.Y)
			return
		case *x509.Certificate:
			if x == nil {
				sb.WriteString("nil")
			} else {
				fmt.Fprintf(sb, "CERT(%x)", x.Raw)
			}
			return
		case *big.Int:
			fmt.Fprintf(sb, "%v", x)
			return
		}
	}
	switch v.Kind() {
	case reflect.Ptr, reflect.Interface:
		if v.IsNil() {
			sb.WriteString("nil")
			return
		}
		// a pointer to a zero-length slice: gob flattens pointers and does not send a zero-length slice,
		// it comes back as a nil pointer (Model/Profile.v cptr_list makes the same identification)
		if v.Kind() == reflect.Ptr && v.Elem().Kind() == reflect.Slice && v.Elem().Len() == 0 {
			sb.WriteString("nil")
			return
		}
		sb.WriteString("&")
		c15CanonValue(v.Elem(), sb)
	case reflect.Struct:
		sb.WriteString("{")
		for i := 0; i < v.NumField(); i++ {
			f := v.Type().Field(i)
			if f.PkgPath != "" { // unexported: gob does not carry it either
				continue
			}
			sb.WriteString(f.Name + ":")
			c15CanonValue(v.Field(i), sb)
			sb.WriteString(";")
		}
		sb.WriteString("}")
	case reflect.Map: // nil and empty are the same thing to gob and to the code
		keys := v.MapKeys()
		sort.Slice(keys, func(i, j int) bool { return fmt.Sprint(keys[i]) < fmt.Sprint(keys[j]) })
		sb.WriteString("map[")
		for _, k := range keys {
			fmt.Fprintf(sb, "%v=", k)
			c15CanonValue(v.MapIndex(k), sb)
			sb.WriteString(",")
		}
		sb.WriteString("]")
	case reflect.Slice, reflect.Array:
		if v.Type().Elem().Kind() == reflect.Uint8 {
			b := make([]byte, v.Len())
			for i := range b {
				b[i] = byte(v.Index(i).Uint())
			}
			fmt.Fprintf(sb, "x%x", b)
			return
		}
		sb.WriteString("[")
		for i := 0; i < v.Len(); i++ {
			c15CanonValue(v.Index(i), sb)
			sb.WriteString(",")
		}
		sb.WriteString("]")
	default:
		fmt.Fprintf(sb, "%v", v)
	}
}

func c15Canon(p *userProfile) string {
	var sb strings.Builder
	c15CanonValue(reflect.ValueOf(p).Elem(), &sb)
	return sb.String()
}

func c15CanonBytes(b []byte) (string, error) {
	var p userProfile
	if err := gob.NewDecoder(bytes.NewReader(b)).Decode(&p); err != nil {
		return "", err
	}
	return c15Canon(&p), nil
}

func c15Hash(s string) string {
	h := sha256.Sum256([]byte(s))
	return hex.EncodeToString(h[:6])
}

// ---------------------------------------------------------------- a profile as a term of Model/Profile.v
//
// C15, first clause — a userProfile rendered as a term of coq/theories/Model/Profile.v, so that Coq
// evaluates  profile_eqb (canon (gob_roundtrip saved)) (canon loaded)  on every (saved, loaded) pair
// that went through the real SaveUserProfile / LoadUserProfile.
//
// What the rendering keeps: every exported field of userProfile and of the structs it reaches (the
// fields gob carries), maps with their keys in Go's iteration order (the model sorts), nil / empty
// kept apart for maps, slices and pointers (the model decides what of that is content).
// What it abstracts: a byte string or string longer than c15AbsLen bytes is rendered as
// [256 + length; first 6 bytes of its SHA-256] (an element >= 256 cannot be a byte, so the two forms
// never collide); a u2f.Registration is its Raw bytes (its own MarshalBinary — what gob carries of it);
// SessionData.Extensions is the byte string of its sorted "key=value," listing; a time is
// Unix()*10^9 + Nanosecond() (location and monotonic reading are not content).

const c15AbsLen = 14

// transport: seven bytes per 63-bit integer literal (Base/Pack.v; Coq reads number literals slowly);
// sb n ws = the n bytes packed in ws, pdig n w = [256 + n; the six bytes of w] (defined in the case file)
func c15CoqElems(b []byte) string {
	if len(b) == 0 {
		return "[]"
	}
	if len(b) > c15AbsLen {
		h := sha256.Sum256(b)
		var w uint64
		for j := 0; j < 6; j++ {
			w |= uint64(h[j]) << (8 * uint(j))
		}
		return fmt.Sprintf("(pdig %d %d%%uint63)", len(b), w)
	}
	var ws []string
	for i := 0; i < len(b); i += 7 {
		var w uint64
		for j := 0; j < 7 && i+j < len(b); j++ {
			w |= uint64(b[i+j]) << (8 * uint(j))
		}
		ws = append(ws, strconv.FormatUint(w, 10))
	}
	return fmt.Sprintf("(sb %d [%s]%%uint63)", len(b), strings.Join(ws, ";"))
}

func c15CoqStr(s string) string { return c15CoqElems([]byte(s)) }

func c15CoqGbytes(b []byte) string {
	if b == nil {
		return "None"
	}
	return "(Some " + c15CoqElems(b) + ")"
}

func c15CoqBytesList(l [][]byte) string {
	if l == nil {
		return "None"
	}
	var el []string
	for _, b := range l {
		el = append(el, c15CoqGbytes(b))
	}
	return "(Some [" + strings.Join(el, ";") + "])"
}

func c15CoqStrList(l []string) string {
	if l == nil {
		return "None"
	}
	var el []string
	for _, s := range l {
		el = append(el, c15CoqStr(s))
	}
	return "(Some [" + strings.Join(el, ";") + "])"
}

func c15CoqZ(v *big.Int) string {
	if v.Sign() < 0 {
		return "(" + v.String() + ")%Z"
	}
	return v.String() + "%Z"
}

func c15CoqInt(v int64) string   { return c15CoqZ(big.NewInt(v)) }
func c15CoqUint(v uint64) string { return c15CoqZ(new(big.Int).SetUint64(v)) }

func c15CoqTime(t time.Time) string {
	v := new(big.Int).Mul(big.NewInt(t.Unix()), big.NewInt(1000000000))
	return c15CoqZ(v.Add(v, big.NewInt(int64(t.Nanosecond()))))
}

func c15CoqBool(b bool) string {
	if b {
		return "true"
	}
	return "false"
}

func c15CoqRegistration(r *u2f.Registration) string {
	if r == nil {
		return "None"
	}
	raw := r.Raw
	if raw == nil {
		raw = []byte{}
	}
	return c15CoqGbytes(raw)
}

func c15CoqExtensions(m map[string]interface{}) string {
	if m == nil {
		return "None"
	}
	keys := make([]string, 0, len(m))
	for k := range m {
		keys = append(keys, k)
	}
	sort.Strings(keys)
	var sb strings.Builder
	for _, k := range keys {
		fmt.Fprintf(&sb, "%s=%v,", k, m[k])
	}
	return c15CoqGbytes([]byte(sb.String()))
}

func c15CoqChallenge(c *u2f.Challenge) string {
	if c == nil {
		return "None"
	}
	return fmt.Sprintf("(Some (mk_chal %s %s %s %s))", c15CoqGbytes(c.Challenge), c15CoqTime(c.Timestamp), c15CoqStr(c.AppID), c15CoqStrList(c.TrustedFacets))
}

func c15CoqSession(s *webauthn.SessionData) string {
	if s == nil {
		return "None"
	}
	return fmt.Sprintf("(Some (mk_sess %s %s %s %s %s))", c15CoqStr(s.Challenge), c15CoqGbytes(s.UserID), c15CoqBytesList(s.AllowedCredentialIDs),
		c15CoqStr(string(s.UserVerification)), c15CoqExtensions(s.Extensions))
}

// a nil element of a map is not a value of the model (gob refuses to encode it): ok = false
func c15CoqProfile(p *userProfile) (term string, ok bool) {
	ok = true
	u2fMap := "None"
	if p.U2fAuthData != nil {
		var el []string
		for k, e := range p.U2fAuthData {
			if e == nil {
				ok = false
				continue
			}
			el = append(el, fmt.Sprintf("(%s, mk_u2f %s %s %s %s %s %s)", c15CoqInt(k), c15CoqBool(e.Enabled), c15CoqTime(e.CreatedAt), c15CoqStr(e.CreatorAddr),
				c15CoqUint(uint64(e.Counter)), c15CoqStr(e.Name), c15CoqRegistration(e.Registration)))
		}
		u2fMap = "(Some [" + strings.Join(el, ";") + "])"
	}
	totpMap := "None"
	if p.TOTPAuthData != nil {
		var el []string
		for k, e := range p.TOTPAuthData {
			if e == nil {
				ok = false
				continue
			}
			el = append(el, fmt.Sprintf("(%s, mk_totp %s %s %s %s %s %s)", c15CoqInt(k), c15CoqBool(e.Enabled), c15CoqTime(e.CreatedAt), c15CoqStr(e.Name),
				c15CoqBytesList(e.EncryptedSecret), c15CoqInt(int64(e.TOTPType)), c15CoqStr(e.ValidatorAddr)))
		}
		totpMap = "(Some [" + strings.Join(el, ";") + "])"
	}
	waMap := "None"
	if p.WebauthnData != nil {
		var el []string
		for k, e := range p.WebauthnData {
			if e == nil {
				ok = false
				continue
			}
			c := e.Credential
			el = append(el, fmt.Sprintf("(%s, mk_wa %s %s %s %s %s %s %s %s %s)", c15CoqInt(k), c15CoqBool(e.Enabled), c15CoqTime(e.CreatedAt), c15CoqStr(e.Name),
				c15CoqGbytes(c.ID), c15CoqGbytes(c.PublicKey), c15CoqStr(c.AttestationType),
				c15CoqGbytes(c.Authenticator.AAGUID), c15CoqUint(uint64(c.Authenticator.SignCount)), c15CoqBool(c.Authenticator.CloneWarning)))
		}
		waMap = "(Some [" + strings.Join(el, ";") + "])"
	}
	pending := "None"
	if p.PendingTOTPSecret != nil {
		pending = "(Some " + c15CoqBytesList(*p.PendingTOTPSecret) + ")"
	}
	term = fmt.Sprintf("(mk_profile %s %s %s %s %s (mk_boot %s %s) %s %s %s %s %s %s)",
		u2fMap, c15CoqChallenge(p.RegistrationChallenge), pending, c15CoqInt(p.LastSuccessfullTOTPCounter), totpMap,
		c15CoqTime(p.BootstrapOTP.ExpiresAt), c15CoqGbytes(p.BootstrapOTP.Sha512Hash), c15CoqBool(p.UserHasRegistered2ndFactor),
		waMap, c15CoqUint(p.WebauthnID), c15CoqStr(p.DisplayName), c15CoqStr(p.Username), c15CoqSession(p.WebauthnSessionData))
	return term, ok
}

// the (saved, loaded) pairs of a run
type c15ProfilePairs struct {
	terms    []string
	idx      []string
	max      int
	rejected int
}

// the pairs of the histories (part 1)
var c15HistPairs = &c15ProfilePairs{max: 40}

// loaded == nil (LoadUserProfile returned an error) is shipped as the zero profile
func (pp *c15ProfilePairs) add(what string, saved, loaded *userProfile) {
	if len(pp.terms) >= pp.max {
		return
	}
	if loaded == nil {
		loaded = &userProfile{}
	}
	s, ok1 := c15CoqProfile(saved)
	l, ok2 := c15CoqProfile(loaded)
	if !ok1 || !ok2 {
		return
	}
	pp.terms = append(pp.terms, "("+s+",\n  "+l+")")
	q := strconv.QuoteToASCII(what) // one line, ASCII (the canonical text holds random bytes)
	pp.idx = append(pp.idx, q[1:len(q)-1])
}

// the case file CasesC15p.v; the names of Model/Profile.v stay inside the module
func (pp *c15ProfilePairs) coq() string {
	var sb strings.Builder
	sb.WriteString("Require KM.Model.Profile.\nModule C15P.\nImport KM.Model.Profile.\nLocal Open Scope N_scope.\n")
	sb.WriteString("Definition sb (n : N) (ws : list int) : bs := unpack (N.to_nat n) ws.\nDefinition pdig (n : N) (w : int) : bs := (256 + n) :: le_bytes 6 (N_of_int w).\n")
	sb.WriteString("Definition pcases : list pcase := [\n" + strings.Join(pp.terms, ";\n") + "\n].\n")
	sb.WriteString("End C15P.\n")
	sb.WriteString("Definition c15_profile_npairs := Eval vm_compute in length C15P.pcases.\nPrint c15_profile_npairs.\n")
	sb.WriteString("Definition c15_profile_mismatches := Eval vm_compute in KM.Model.Profile.pmismatches KM.Model.Profile.pcase_ok C15P.pcases.\nPrint c15_profile_mismatches.\n")
	sb.WriteString("Definition c15_profile_violating := Eval vm_compute in KM.Model.Profile.pmismatches KM.Model.Profile.pcase_content_kept C15P.pcases.\nPrint c15_profile_violating.\n")
	return sb.String()
}

// ---------------------------------------------------------------- rich profiles

type c15Material struct {
	devs    []*verifU2FDevice
	secrets []string
	enc     [][][]byte
}

func c15NewMaterial(e *c15Env) *c15Material {
	m := &c15Material{}
	for i := 0; i < 3; i++ {
		m.devs = append(m.devs, newVerifU2FDevice())
		key, err := totp.Generate(totp.GenerateOpts{Issuer: "keymaster.example", AccountName: "u" + strconv.Itoa(i)})
		if err != nil {
			e.t.Fatal(err)
		}
		enc, err := e.st.encryptWithPublicKeys([]byte(key.Secret()))
		if err != nil {
			e.t.Fatal(err)
		}
		m.secrets = append(m.secrets, key.Secret())
		m.enc = append(m.enc, enc)
	}
	return m
}

func (m *c15Material) registration(i int) *u2f.Registration {
	var r u2f.Registration
	if err := r.UnmarshalBinary(m.devs[i].rawRegistration(u2fAppID)); err != nil {
		panic(err)
	}
	return &r
}

func c15NewProfile() *userProfile {
	return &userProfile{U2fAuthData: map[int64]*u2fAuthData{}, TOTPAuthData: map[int64]*totpAuthData{}}
}

func (m *c15Material) pool() []*userProfile {
	t0 := time.Unix(1790000000, 0)
	p1 := c15NewProfile()
	p2 := c15NewProfile()
	p2.U2fAuthData[1790000001] = &u2fAuthData{Enabled: true, CreatedAt: t0, CreatorAddr: "10.1.2.3:4000", Counter: 5, Name: "yubi", Registration: m.registration(0)}
	p2.UserHasRegistered2ndFactor = true
	p3 := c15NewProfile()
	p3.TOTPAuthData[1790000002] = &totpAuthData{Enabled: true, CreatedAt: t0.Add(time.Hour), Name: "phone", EncryptedSecret: m.enc[0], TOTPType: 1, ValidatorAddr: "10.9.9.9:1"}
	p3.LastSuccessfullTOTPCounter = 59666666
	pend := m.enc[1]
	p3.PendingTOTPSecret = &pend
	p4 := c15NewProfile()
	p4.WebauthnData = map[int64]*webauthAuthData{1790000003: {Enabled: true, CreatedAt: t0, Name: "passkey",
		Credential: webauthn.Credential{ID: []byte{1, 2, 3, 4}, PublicKey: m.devs[1].pub(), AttestationType: "none",
			Authenticator: webauthn.Authenticator{AAGUID: make([]byte, 16), SignCount: 9, CloneWarning: true}}}}
	p4.WebauthnID = 0xfeedfacecafe
	p4.DisplayName = "Alice Example"
	p4.Username = "alice"
	p4.WebauthnSessionData = &webauthn.SessionData{Challenge: "Y2hhbGxlbmdl", UserID: []byte{9, 9}, AllowedCredentialIDs: [][]byte{{1, 2, 3, 4}},
		UserVerification: protocol.VerificationPreferred, Extensions: protocol.AuthenticationExtensions{"appid": "https://keymaster.example"}}
	p5 := c15NewProfile()
	h := sha512.Sum512([]byte("bootstrap"))
	p5.BootstrapOTP = bootstrapOTPData{ExpiresAt: t0.Add(48 * time.Hour), Sha512Hash: h[:]}
	p5.RegistrationChallenge = &u2f.Challenge{Challenge: []byte("0123456789abcdef0123456789abcdef"), Timestamp: t0, AppID: u2fAppID, TrustedFacets: []string{u2fAppID}}
	p6 := c15NewProfile()
	p6.U2fAuthData[1790000010] = &u2fAuthData{Enabled: true, CreatedAt: t0, Counter: 77, Name: "a", Registration: m.registration(1)}
	p6.U2fAuthData[1790000011] = &u2fAuthData{Enabled: false, CreatedAt: t0.Add(time.Minute), Counter: 0, Name: "b", Registration: m.registration(2)}
	p6.TOTPAuthData[1790000012] = &totpAuthData{Enabled: true, CreatedAt: t0, Name: "t1", EncryptedSecret: m.enc[1]}
	p6.TOTPAuthData[1790000013] = &totpAuthData{Enabled: false, CreatedAt: t0, Name: "t2", EncryptedSecret: m.enc[2]}
	p6.UserHasRegistered2ndFactor = true
	p6.DisplayName = "six"
	p6.Username = "six"
	p6.WebauthnID = 6
	return []*userProfile{p1, p2, p3, p4, p5, p6}
}

func c15RandBytes(rng *mrand.Rand, n int) []byte {
	b := make([]byte, n)
	rng.Read(b)
	return b
}

// a random profile; pointers are nil or point at non-empty values and maps hold no nil
// element (gob cannot tell an empty value behind a pointer from a missing one, and refuses nil
// map elements; the code never builds such values)
func (m *c15Material) random(rng *mrand.Rand) *userProfile {
	p := c15NewProfile()
	tm := func() time.Time { return time.Unix(1500000000+rng.Int63n(400000000), rng.Int63n(1000000000)) }
	for i, n := 0, rng.Intn(4); i < n; i++ {
		p.U2fAuthData[rng.Int63n(1<<40)] = &u2fAuthData{Enabled: rng.Intn(2) == 0, CreatedAt: tm(), CreatorAddr: fmt.Sprintf("10.0.%d.%d:%d", rng.Intn(256), rng.Intn(256), rng.Intn(65536)),
			Counter: rng.Uint32(), Name: string(c15RandBytes(rng, rng.Intn(12))), Registration: m.registration(rng.Intn(len(m.devs)))}
	}
	for i, n := 0, rng.Intn(4); i < n; i++ {
		var enc [][]byte
		for j, k := 0, 1+rng.Intn(3); j < k; j++ {
			enc = append(enc, c15RandBytes(rng, 1+rng.Intn(300)))
		}
		p.TOTPAuthData[rng.Int63n(1<<40)] = &totpAuthData{Enabled: rng.Intn(2) == 0, CreatedAt: tm(), Name: string(c15RandBytes(rng, rng.Intn(12))),
			EncryptedSecret: enc, TOTPType: rng.Intn(3), ValidatorAddr: "[::1]:" + strconv.Itoa(rng.Intn(65536))}
	}
	if rng.Intn(2) == 0 {
		p.WebauthnData = map[int64]*webauthAuthData{}
		for i, n := 0, rng.Intn(3); i < n; i++ {
			p.WebauthnData[rng.Int63n(1<<40)] = &webauthAuthData{Enabled: rng.Intn(2) == 0, CreatedAt: tm(), Name: "w" + strconv.Itoa(i),
				Credential: webauthn.Credential{ID: c15RandBytes(rng, 1+rng.Intn(64)), PublicKey: c15RandBytes(rng, 65), AttestationType: []string{"none", "fido-u2f", "packed"}[rng.Intn(3)],
					Authenticator: webauthn.Authenticator{AAGUID: c15RandBytes(rng, 16), SignCount: rng.Uint32(), CloneWarning: rng.Intn(2) == 0}}}
		}
	}
	if rng.Intn(3) == 0 {
		p.RegistrationChallenge = &u2f.Challenge{Challenge: c15RandBytes(rng, 32), Timestamp: tm(), AppID: u2fAppID, TrustedFacets: []string{u2fAppID, "https://other.example"}}
	}
	if rng.Intn(3) == 0 {
		pend := [][]byte{c15RandBytes(rng, 1+rng.Intn(256))}
		p.PendingTOTPSecret = &pend
	}
	if rng.Intn(3) == 0 {
		p.BootstrapOTP = bootstrapOTPData{ExpiresAt: tm(), Sha512Hash: c15RandBytes(rng, 64)}
	}
	if rng.Intn(3) == 0 {
		p.WebauthnSessionData = &webauthn.SessionData{Challenge: b64u(c15RandBytes(rng, 32)), UserID: c15RandBytes(rng, 8),
			AllowedCredentialIDs: [][]byte{c15RandBytes(rng, 16)}, UserVerification: protocol.VerificationDiscouraged}
	}
	p.LastSuccessfullTOTPCounter = rng.Int63()
	p.UserHasRegistered2ndFactor = rng.Intn(2) == 0
	p.WebauthnID = rng.Uint64()
	p.DisplayName = string(c15RandBytes(rng, rng.Intn(20)))
	p.Username = "user" + strconv.Itoa(rng.Intn(1000))
	return p
}

// ---------------------------------------------------------------- part 1: histories

var c15Users = []string{"", "alice", "bob", "carol"}

type c15Hist struct {
	e        *c15Env
	rng      *mrand.Rand
	pool     []*userProfile
	poolIdx  map[string]int // canon hash -> pool index (1-based)
	jwsData  map[string]int // stored jws string -> payload number
	ops      []string
	outs     []string
	snaps    []string
	human    []string
	now      int64
	enumSync bool
	allKinds bool // every (kind, transient/standing) combination at every statement index
	no       int  // number of the history (spreads the fault kinds over the statement indices)
	syncs    int
	faults   int
	stalled  bool
	// what the primary held at the last synchronisation that reported success, while nothing has
	// written the cache since (nil otherwise): what outage reads must answer
	mirrored  *c15Snap
	restarted bool // a restart since then
	// the user profiles the primary held at the last copy that reported success (a direct copy or a turn
	// of the background copier); empty before the first
	ghost map[string][]byte
	// number of a stored profile by its bytes (the large history asks for the same two thousands of times)
	idxMemo map[[32]byte]int
}

func (h *c15Hist) record(op, out string) {
	h.ops = append(h.ops, op)
	h.outs = append(h.outs, out)
	h.human = append(h.human, op+"->"+out)
}

func (h *c15Hist) tick() {
	n := time.Now().Unix()
	if n != h.now {
		h.record(fmt.Sprintf("(Tick (%d)%%Z)", n-h.now), "OOk")
		h.now = n
	}
}

func (h *c15Hist) profIdx(b []byte) int {
	key := sha256.Sum256(b)
	if i, ok := h.idxMemo[key]; ok {
		return i
	}
	i := h.profIdxOf(b)
	if h.idxMemo == nil {
		h.idxMemo = map[[32]byte]int{}
	}
	h.idxMemo[key] = i
	return i
}

func (h *c15Hist) profIdxOf(b []byte) int {
	c, err := c15CanonBytes(b)
	if err != nil {
		return 9998
	}
	if i, ok := h.poolIdx[c15Hash(c)]; ok {
		return i
	}
	return 9999
}

func (h *c15Hist) coqDB(s c15Snap) string {
	var ps, ss []string
	for _, u := range sortedStrings(keysOfBytes(s.profiles)) {
		ps = append(ps, fmt.Sprintf("(%d%%N, %d%%N)", c15UserNo(u), h.profIdx(s.profiles[u])))
	}
	for _, k := range sortedStrings(keysOfSRow(s.signed)) {
		parts := strings.SplitN(k, "|", 2)
		d, ok := h.jwsData[s.signed[k].jws]
		if !ok {
			d = 9999
		}
		ss = append(ss, fmt.Sprintf("((%d%%N, %s%%N), mk_srow %d%%N (%d)%%Z 0%%Z)", c15UserNo(parts[0]), parts[1], d, s.signed[k].exp))
	}
	return "(mk_db [" + strings.Join(ps, "; ") + "] [" + strings.Join(ss, "; ") + "])"
}

func c15UserNo(u string) int {
	for i, n := range c15Users {
		if n == u && i > 0 {
			return i
		}
	}
	if strings.HasPrefix(u, "vol") { // the users of the large history (below)
		if n, err := strconv.Atoi(u[3:]); err == nil && n >= 0 {
			return c15VolUserBase + n
		}
	}
	return 99
}

func keysOfBytes(m map[string][]byte) []string {
	var ks []string
	for k := range m {
		ks = append(ks, k)
	}
	return ks
}

func keysOfSRow(m map[string]c15SRow) []string {
	var ks []string
	for k := range m {
		ks = append(ks, k)
	}
	return ks
}

func sortedStrings(s []string) []string { sort.Strings(s); return s }

func (h *c15Hist) snapshot() {
	h.snaps = append(h.snaps, fmt.Sprintf("(%d%%nat, %s, %s)", len(h.ops)-1, h.coqDB(h.e.snapP()), h.coqDB(h.e.snapC())))
}

func errOut(err error) string {
	if err != nil {
		return "OErr"
	}
	return "OOk"
}

func (h *c15Hist) save(u, b int) {
	err := h.e.st.SaveUserProfile(c15Users[u], h.pool[b-1])
	h.record(fmt.Sprintf("(Save %d%%N %d%%N)", u, b), errOut(err))
	h.e.res.bump("op:save")
	if err == nil && h.e.mode == c15Up {
		// the round trip itself: what was saved is what is read back
		got, ok, fromCache, lerr := h.e.st.LoadUserProfile(c15Users[u])
		// the first such pairs of the run also go to Coq (Model/Profile.v), and so does every pair the comparison below rejects
		if same := got != nil && c15Canon(got) == c15Canon(h.pool[b-1]); (same && len(c15HistPairs.terms) < 24) || (!same && c15HistPairs.rejected < 8) {
			if !same {
				c15HistPairs.rejected++
			}
			c15HistPairs.add(fmt.Sprintf("profile %d saved for %s and loaded from the primary (ok=%v fromCache=%v err=%v) at the end of the history %s", b, c15Users[u], ok, fromCache, lerr, strings.Join(h.human[len(h.human)-minInt(len(h.human), 12):], " ")), h.pool[b-1], got)
		}
		if lerr != nil || !ok || fromCache || c15Canon(got) != c15Canon(h.pool[b-1]) {
			h.e.res.hit(verifHit{Key: "C15:roundtrip:primary", Oracle: "a saved profile is read back identical from the primary",
				What:     fmt.Sprintf("profile %d saved for %s, LoadUserProfile gave ok=%v fromCache=%v err=%v equal=%v", b, c15Users[u], ok, fromCache, lerr, got != nil && c15Canon(got) == c15Canon(h.pool[b-1])),
				Case:     map[string]interface{}{"history": h.human},
				Observed: map[string]interface{}{"ok": ok, "fromCache": fromCache}})
		}
	}
}

func (h *c15Hist) load(u int) {
	p, ok, fromCache, err := h.e.st.LoadUserProfile(c15Users[u])
	out := "OErr"
	if err == nil {
		idx := 0
		if ok {
			idx = 9999
			if i, found := h.poolIdx[c15Hash(c15Canon(p))]; found {
				idx = i
			}
		}
		out = fmt.Sprintf("(OLoad %s %s %d%%N)", coqBool(ok), coqBool(fromCache), idx)
	}
	h.record(fmt.Sprintf("(Load %d%%N)", u), out)
	h.e.res.bump("op:load-" + c15ModeNames[h.e.mode])
	h.e.touched()
	if h.e.mode != c15Up {
		want, inCache := h.e.snapC().profiles[c15Users[u]]
		same := err == nil && ok == inCache && (!ok || h.profIdx(want) == h.poolIdx[c15Hash(c15Canon(p))])
		c15ReadOracle(h.e, "LoadUserProfile", err, fromCache, same, map[string]interface{}{"history": h.human, "user": c15Users[u]})
		if h.mirrored != nil && err == nil {
			wantB, wantOk := h.mirrored.profiles[c15Users[u]]
			var gotB []byte
			if ok {
				var buf bytes.Buffer
				gob.NewEncoder(&buf).Encode(p)
				gotB = buf.Bytes()
				if wantOk { // compare canonical forms (the encoding of maps is not canonical)
					if c1, e1 := c15CanonBytes(wantB); e1 == nil && c1 == c15Canon(p) {
						gotB = wantB
					}
				}
			}
			h.mirrorReadOracle("LoadUserProfile", c15Users[u], ok, gotB, wantOk, wantB)
		}
	}
}

// During an outage of whatever kind a read is answered from the cache, and says so.
func c15ReadOracle(e *c15Env, fn string, err error, fromCache, sameAsCache bool, kase map[string]interface{}) {
	kase["outage"] = c15ModeKinds[e.mode]
	e.res.eval("outage-read|"+fn+"|"+c15ModeKinds[e.mode]+"|"+fmt.Sprint(err == nil, fromCache, sameAsCache), true)
	shape := ""
	switch {
	case err != nil:
		shape = "failed"
	case !fromCache:
		shape = "not-flagged-from-cache"
	case !sameAsCache:
		shape = "not-the-cache-content"
	default:
		return
	}
	e.res.hit(verifHit{Key: "C15:outage-read:" + fn + ":" + shape + ":" + c15ModeKinds[e.mode],
		Oracle: "while the primary is unreachable, in whichever way, reads continue from the cache",
		What:   fmt.Sprintf("%s while the primary is out (%s; read deadline %v): err=%v fromCache=%v content-equals-cache=%v", fn, c15ModeKinds[e.mode], e.st.remoteDBQueryTimeout, err, fromCache, sameAsCache),
		Case:   kase, Observed: map[string]interface{}{"error": fmt.Sprint(err), "fromCache": fromCache}})
}

func (h *c15Hist) users() {
	names, fromCache, err := h.e.st.GetUsers()
	out := "OErr"
	if err == nil {
		var ns []string
		for _, n := range names {
			ns = append(ns, fmt.Sprintf("%d%%N", c15UserNo(n)))
		}
		out = fmt.Sprintf("(OUsers %s [%s])", coqBool(fromCache), strings.Join(ns, "; "))
	}
	h.record("Users", out)
	h.e.res.bump("op:users-" + c15ModeNames[h.e.mode])
	h.e.touched()
	if h.e.mode != c15Up {
		want := h.e.snapC().profiles
		same := err == nil && len(names) == len(want)
		for _, n := range names {
			if _, ok := want[n]; !ok {
				same = false
			}
		}
		c15ReadOracle(h.e, "GetUsers", err, fromCache, same, map[string]interface{}{"history": h.human})
		if h.mirrored != nil && err == nil {
			got := map[string]bool{}
			for _, n := range names {
				got[n] = true
			}
			for n := range h.mirrored.profiles {
				if !got[n] {
					h.mirrorReadOracle("GetUsers", n, false, nil, true, nil)
					break
				}
			}
		}
	}
}

func (h *c15Hist) getS(u, ty int) {
	h.tick()
	ok, data, err := h.e.st.GetSigned(c15Users[u], ty)
	out := "OErr"
	if err == nil {
		d := 0
		if ok {
			d, _ = strconv.Atoi(strings.TrimPrefix(data, "payload-"))
		}
		out = fmt.Sprintf("(OSigned %s %d%%N)", coqBool(ok), d)
	}
	h.record(fmt.Sprintf("(GetS %d%%N %d%%N)", u, ty), out)
	h.e.res.bump("op:getsigned-" + c15ModeNames[h.e.mode])
	h.e.touched()
	if h.e.mode != c15Up {
		// GetSigned has no fromCache result; a found record must be the cache's unexpired row
		row, inCache := h.e.snapC().signed[c15Users[u]+"|"+strconv.Itoa(ty)]
		nowU := time.Now().Unix()
		near := inCache && row.exp-nowU < 2 && row.exp-nowU > -2 // the expiry comparison may fall either way
		live := inCache && row.exp > nowU
		same := err == nil && (near || ok == live)
		if same && ok && !near {
			d, known := h.jwsData[row.jws]
			same = known && data == "payload-"+strconv.Itoa(d)
		}
		c15ReadOracle(h.e, "GetSigned", err, true, same, map[string]interface{}{"history": h.human, "user": c15Users[u], "type": ty})
	}
}

func (h *c15Hist) upsert(u, ty, d int, exp int64) { h.upsertNamed(c15Users[u], u, ty, d, exp) }

func (h *c15Hist) upsertNamed(name string, u, ty, d int, exp int64) {
	h.tick()
	err := h.e.st.UpsertSigned(name, ty, exp, "payload-"+strconv.Itoa(d))
	h.record(fmt.Sprintf("(Upsert %d%%N %d%%N %d%%N (%d)%%Z)", u, ty, d, exp), errOut(err))
	h.e.res.bump("op:upsert")
	if err == nil {
		var jws string
		if e2 := h.e.admP.QueryRow("SELECT jws_data FROM expiring_signed_user_data WHERE username=? AND type=?", name, ty).Scan(&jws); e2 == nil {
			h.jwsData[jws] = d
		}
	}
}

// one run of copyDBIntoSQLite with the k-th statement failing (k < 0: none)
func (h *c15Hist) syncOnce(k int) (fired bool) { return h.syncFault(k, verifFaultGeneric, false) }

// ... failing with an error of the given kind, that call only or every call from there on
func (h *c15Hist) syncFault(k, kind int, standing bool) (fired bool) {
	e := h.e
	e.settle()
	h.tick()
	before := e.snapC()
	prim := e.snapP()
	verifFault.armKind(k, kind, standing)
	t0 := time.Now()
	err := copyDBIntoSQLite(e.st.db, e.st.cacheDB, "sqlite")
	count, fired, kinds := verifFault.disarm()
	if time.Since(t0) > 2*time.Second {
		// SQLite's busy timeout: a statement of the copy waited for the copy's own transaction
		h.stalled = true
		e.res.hit(verifHit{Key: "C15:sync:blocked", Oracle: "every destination statement of the copy runs inside its transaction",
			What: fmt.Sprintf("copyDBIntoSQLite took %v (error: %v): a statement issued outside the destination transaction waited for the lock the transaction holds", time.Since(t0), err),
			Case: map[string]interface{}{"history": h.human, "fault_at": k}})
	}
	after := e.snapC()
	primAfter := e.snapP()
	op := "(Sync None)"
	if k >= 0 {
		op = fmt.Sprintf("(Sync (Some (F %d%%nat %s %s)))", k, verifFaultCoq[kind], coqBool(!standing))
	}
	h.record(op, fmt.Sprintf("(OSync %s)", coqBool(err == nil)))
	h.snapshot()
	want := c15Mirror(prim, h.now)
	failing := ""
	if fired && k < len(kinds) {
		failing = kinds[k]
		if kind != verifFaultGeneric {
			failing += "/" + verifFaultNames[kind]
		}
	}
	h.syncs++
	h.mirrored, h.restarted = nil, false
	if err == nil {
		h.mirrored = &prim
		h.ghost = prim.profiles
	}
	kase := map[string]interface{}{"history": h.human, "fault_at": k, "fault_kind": verifFaultNames[kind], "fault_standing": standing,
		"statements": count, "failing_statement": failing}
	obs := map[string]interface{}{"error": fmt.Sprint(err), "cache_users": len(after.profiles), "cache_signed": len(after.signed),
		"primary_users": len(prim.profiles), "primary_signed": len(prim.signed)}
	if !prim.equal(primAfter) {
		e.res.hit(verifHit{Key: "C15:sync:primary-changed", Oracle: "a synchronisation never changes the primary", What: "primary differs after copyDBIntoSQLite", Case: kase, Observed: obs})
	}
	if err == nil {
		if d := c15MirrorDiff(after, want, prim); d != "" {
			e.res.hit(verifHit{Key: "C15:mirror:" + d, Oracle: "after a completed synchronisation the cache holds exactly the primary's users and unexpired signed records",
				What: fmt.Sprintf("copyDBIntoSQLite returned nil but the cache is not the mirror of the primary: %s (primary users=%d signed=%d, cache users=%d signed=%d)", d, len(prim.profiles), len(prim.signed), len(after.profiles), len(after.signed)),
				Case: kase, Observed: obs})
		}
		// (a transient driver.ErrBadConn is absorbed by database/sql's own repetition of the call)
		if fired && !(kind == verifFaultBadConn && !standing) {
			e.res.hit(verifHit{Key: "C15:sync:error-ignored@" + failing, Oracle: "a failed statement makes the synchronisation fail",
				What: fmt.Sprintf("statement %d (%s) failed and copyDBIntoSQLite returned nil", k, failing), Case: kase, Observed: obs})
		}
	} else if !after.equal(before) && !after.equal(want) {
		e.res.hit(verifHit{Key: "C15:atomic:mixture@" + failing, Oracle: "an interrupted synchronisation leaves the cache equal to its previous or its new content",
			What: fmt.Sprintf("fault at statement %d/%d (%s): cache is neither the old content nor the mirror of the primary (%s)", k, count, failing, c15MirrorDiff(after, want, prim)),
			Case: kase, Observed: obs})
	}
	if err != nil && !after.equal(before) && after.equal(want) {
		// reported failure, yet the new content is there: the report is what the copier's caller
		// (and the operator's log) goes by
		e.res.hit(verifHit{Key: "C15:sync:completed-reported-failed@" + failing, Oracle: "a synchronisation that reports failure leaves the previous content",
			What: fmt.Sprintf("fault at statement %d/%d (%s): copyDBIntoSQLite returned %v but the cache holds the new content", k, count, failing, err), Case: kase, Observed: obs})
	}
	if fired {
		h.faults++
		e.res.bump("fault@" + failing)
		e.res.bump("fault-kind:" + verifFaultNames[kind] + map[bool]string{false: ":transient", true: ":standing"}[standing])
	} else if c15Writable(e.mode) {
		e.res.bump("sync-statements:" + strconv.Itoa(count))
	}
	e.res.eval(fmt.Sprintf("sync|%d|%d|%v|%s", len(prim.profiles), len(prim.signed), err == nil, failing), len(prim.profiles)+len(prim.signed)+len(before.profiles)+len(before.signed) > 0)
	return fired
}

func (h *c15Hist) sync() {
	if !c15Writable(h.e.mode) {
		h.syncOnce(-1)
		return
	}
	nCombos := 2 * verifNFaultKinds
	if h.enumSync {
		// a fault at statement k for k = 0, 1, ... until it no longer fires; WHAT fails there (kind of
		// error x transient / standing) goes round so that over the histories every combination meets
		// every statement of the script; the first histories get all of them at every k
		base := h.no*3 + h.syncs
		for k := 0; ; k++ {
			fired := false
			if h.allKinds {
				for c := 0; c < nCombos; c++ {
					fired = h.syncFault(k, c%verifNFaultKinds, c >= verifNFaultKinds) || fired
				}
			} else {
				c := (base + k) % nCombos
				fired = h.syncFault(k, c%verifNFaultKinds, c >= verifNFaultKinds)
			}
			if !fired || h.stalled {
				return
			}
		}
	}
	c := h.rng.Intn(nCombos)
	if h.syncFault(h.rng.Intn(26), c%verifNFaultKinds, c >= verifNFaultKinds) {
		h.syncOnce(-1)
	}
}

// one turn of the real background copier (BackgroundDBCopy: copy, purge of the primary, purge of the
// cache), optionally with a transient fault at one of the first statements of its copy
func (h *c15Hist) copier(k, kind int) {
	e := h.e
	if !c15Writable(e.mode) {
		// the copy stops at its first source query (the standing outage, not counted): a one-shot fault
		// would strike the purge that follows, which is not what the op's fault means
		k = -1
	}
	e.settle()
	h.tick()
	prim, before := e.snapP(), e.snapC()
	verifFault.armKind(k, kind, false)
	ok, turns := e.copierTurn()
	_, fired, _ := verifFault.disarm()
	op := "(Copier None)"
	if k >= 0 {
		op = fmt.Sprintf("(Copier (Some (F %d%%nat %s true)))", k, verifFaultCoq[kind])
	}
	h.record(op, fmt.Sprintf("(OSync %s)", coqBool(ok)))
	h.snapshot()
	after := e.snapC()
	h.mirrored, h.restarted = nil, false
	if ok {
		h.mirrored = &prim
		h.ghost = prim.profiles
	}
	e.res.bump("op:copier-" + c15ModeNames[e.mode])
	e.res.eval(fmt.Sprintf("copier|%d|%d|%v|%v", len(prim.profiles), len(prim.signed), ok, fired), len(prim.profiles)+len(before.profiles) > 0)
	kase := map[string]interface{}{"history": h.human, "fault_at": k, "fault_kind": verifFaultNames[kind]}
	if turns != 1 {
		e.res.hit(verifHit{Key: "C15:copier:turns", Oracle: "the copier makes one turn, then sleeps its interval", What: fmt.Sprintf("%d turns of the copier before it could be stopped in its sleep", turns), Case: kase})
	}
	want := c15Mirror(prim, h.now)
	if ok && !c15SameProfiles(after.profiles, want.profiles) {
		e.res.hit(verifHit{Key: "C15:copier:reported-success-not-mirror", Oracle: "a turn of the copier that reports success leaves the cache holding exactly the primary's users",
			What: fmt.Sprintf("the copier logged success; primary users=%d, cache users=%d (%s)", len(prim.profiles), len(after.profiles), c15MirrorDiff(after, want, prim)), Case: kase})
	}
	if !ok && !c15SameProfiles(after.profiles, before.profiles) {
		e.res.hit(verifHit{Key: "C15:copier:reported-failure-changed-cache", Oracle: "a turn of the copier that reports a failure leaves the previous users in the cache",
			What: fmt.Sprintf("the copier logged an error; cache users before=%d after=%d", len(before.profiles), len(after.profiles)), Case: kase})
	}
	for name, s := range map[string]c15Snap{"primary": e.snapP(), "cache": after} {
		if name == "primary" && !c15Writable(e.mode) {
			continue
		}
		for key, r := range s.signed {
			if r.exp < h.now-1 {
				e.res.hit(verifHit{Key: "C15:cleanup:expired-row-kept:" + name, Oracle: "every turn of the copier purges signed rows that expired",
					What: fmt.Sprintf("row %s expired %d s ago and is still in the %s after a turn of the copier", key, h.now-r.exp, name), Case: kase})
			}
		}
	}
}

func c15SameProfiles(a, b map[string][]byte) bool {
	if len(a) != len(b) {
		return false
	}
	for k, v := range a {
		if w, ok := b[k]; !ok || !bytes.Equal(v, w) {
			return false
		}
	}
	return true
}

// the cache is never more than one completed copy behind: its users are those the primary held when the
// last copy reported success
func (h *c15Hist) lagOracle() {
	got := h.e.snapC().profiles
	if c15SameProfiles(got, h.ghost) {
		return
	}
	h.e.res.hit(verifHit{Key: "C15:copier:cache-not-last-completed-copy", Oracle: "at every moment the cache holds the users the primary held when the last copy completed",
		What: fmt.Sprintf("cache users=%d, users at the last completed copy=%d", len(got), len(h.ghost)),
		Case: map[string]interface{}{"history": h.human}})
}

// the daemon is restarted on the same data directory
func (h *c15Hist) restart() {
	e := h.e
	bp, bc := e.snapP(), e.snapC()
	e.restart()
	ap, ac := e.snapP(), e.snapC()
	h.record("Restart", "OOk")
	h.snapshot()
	h.restarted = true
	e.res.bump("op:restart-" + c15ModeNames[e.mode])
	e.res.eval("restart|"+c15ModeKinds[e.mode]+"|"+fmt.Sprint(bp.equal(ap), bc.equal(ac)), len(bc.profiles)+len(bc.signed) > 0)
	kase := map[string]interface{}{"history": h.human, "mode": c15ModeKinds[e.mode]}
	obs := map[string]interface{}{"cache_users_before": len(bc.profiles), "cache_users_after": len(ac.profiles), "cache_signed_before": len(bc.signed), "cache_signed_after": len(ac.signed)}
	if !bc.equal(ac) {
		shape := "cache-changed"
		if len(ac.profiles) < len(bc.profiles) || len(ac.signed) < len(bc.signed) {
			shape = "cache-lost"
		}
		e.res.hit(verifHit{Key: "C15:restart:" + shape + ":" + c15ModeKinds[e.mode], Oracle: "a restart of the daemon changes neither store: what the previous process served from the cache is still served",
			What: fmt.Sprintf("after a restart on the same data directory (primary: %s) the cache holds %d users / %d signed records, before it held %d / %d", c15ModeKinds[e.mode], len(ac.profiles), len(ac.signed), len(bc.profiles), len(bc.signed)),
			Case: kase, Observed: obs})
	}
	if !bp.equal(ap) {
		e.res.hit(verifHit{Key: "C15:restart:primary-changed:" + c15ModeKinds[e.mode], Oracle: "a restart of the daemon changes neither store",
			What: "the primary differs after a restart on the same data directory", Case: kase, Observed: obs})
	}
}

// after a completed copy, while nothing wrote the cache, an outage read answers what the primary
// held at that copy — across restarts
func (h *c15Hist) mirrorReadOracle(fn, user string, found bool, content []byte, wantFound bool, want []byte) {
	if h.mirrored == nil || h.e.mode == c15Up {
		return
	}
	if found == wantFound && (!found || bytes.Equal(content, want)) {
		return
	}
	key := "C15:mirror-read:" + fn + ":" + c15ModeKinds[h.e.mode]
	if h.restarted {
		key = "C15:restart:cache-lost:" + c15ModeKinds[h.e.mode]
	}
	h.e.res.hit(verifHit{Key: key, Oracle: "after a completed synchronisation, while the primary is unreachable, reads are answered with what the primary held — also after a restart of the daemon",
		What: fmt.Sprintf("%s(%s) during the outage (%s, restarted since the copy: %v): found=%v, the primary held it at the completed copy: %v", fn, user, c15ModeKinds[h.e.mode], h.restarted, found, wantFound),
		Case: map[string]interface{}{"history": h.human, "user": user}})
}

func (h *c15Hist) cleanup() {
	h.tick()
	e := h.e
	if !e.closed {
		cleanupDBData(e.st.db)
	} else {
		cleanupDBData(e.st.db) // fails: database is closed
	}
	cleanupDBData(e.st.cacheDB)
	h.record("Cleanup", "OOk")
	h.snapshot()
	e.res.bump("op:cleanup")
	for name, s := range map[string]c15Snap{"primary": e.snapP(), "cache": e.snapC()} {
		if name == "primary" && !c15Writable(e.mode) {
			continue
		}
		for k, r := range s.signed {
			if r.exp < h.now-1 {
				e.res.hit(verifHit{Key: "C15:cleanup:expired-row-kept:" + name, Oracle: "cleanupDBData purges signed rows that expired",
					What: fmt.Sprintf("row %s expired %d s ago and is still in the %s after cleanupDBData", k, h.now-r.exp, name), Case: map[string]interface{}{"history": h.human}})
			}
		}
	}
}

func (h *c15Hist) setMode(m int) {
	h.e.setMode(m)
	h.record("(SetMode "+c15ModeNames[m]+")", "OOk")
	h.e.res.bump("op:mode-" + c15ModeNames[m])
}

func (h *c15Hist) randomOp() {
	rng := h.rng
	u := 1 + rng.Intn(3)
	ty := 1 + rng.Intn(2)
	switch w := rng.Intn(100); {
	case w < 24:
		h.save(u, 1+rng.Intn(len(h.pool)))
	case w < 34:
		err := h.e.st.DeleteUserProfile(c15Users[u])
		h.record(fmt.Sprintf("(DelUser %d%%N)", u), errOut(err))
		h.e.res.bump("op:deluser")
	case w < 52:
		exp := h.nowish() + []int64{-7200, -900, 900, 86400, 96 * 3600}[rng.Intn(5)]
		h.upsert(u, ty, 1+rng.Intn(5), exp)
	case w < 60:
		err := h.e.st.DeleteSigned(c15Users[u], ty)
		h.record(fmt.Sprintf("(DelSigned %d%%N %d%%N)", u, ty), errOut(err))
		h.e.res.bump("op:delsigned")
	case w < 71:
		h.sync()
	case w < 76:
		if rng.Intn(3) == 0 {
			h.copier(rng.Intn(8), rng.Intn(verifNFaultKinds))
		} else {
			h.copier(-1, 0)
		}
	case w < 80:
		h.cleanup()
	case w < 84:
		h.load(u)
	case w < 89:
		h.getS(u, ty)
	case w < 92:
		h.users()
	case w < 94:
		h.restart()
	default:
		h.setMode(c15RandomMode(rng, true))
	}
}

// Up, hang and closed-pool as often as before; the fail-fast kinds share the rest
func c15RandomMode(rng *mrand.Rand, withUp bool) int {
	if withUp && rng.Intn(4) == 0 {
		return c15Up
	}
	if rng.Intn(2) == 0 {
		return c15Slow + rng.Intn(2)
	}
	return c15PrepW + rng.Intn(c15NModes-c15PrepW)
}

func (h *c15Hist) nowish() int64 { return time.Now().Unix() }

func (h *c15Hist) emit() string {
	return "(([" + strings.Join(h.ops, "; ") + "],\n  [" + strings.Join(h.outs, "; ") + "]),\n  [" + strings.Join(h.snaps, ";\n   ") + "])"
}

func c15AlignSecond() {
	for time.Now().Nanosecond() > 150000000 {
		time.Sleep(20 * time.Millisecond)
	}
}

// ---------------------------------------------------------------- part 3: handlers during an outage

type c15Probe struct {
	name    string
	kind    string // HMutate | HAuthSave | HRead | HDelete
	present bool
	target  string
	pre     func()
	req     func() *http.Request
}

type c15Fixture struct {
	e       *c15Env
	mat     *c15Material
	dev     *verifU2FDevice
	secret  string
	pending string
	u2fIdx  int64
	totpIdx int64
}

func (f *c15Fixture) alice(marker string) *userProfile {
	p := c15NewProfile()
	var reg u2f.Registration
	if err := reg.UnmarshalBinary(f.dev.rawRegistration(u2fAppID)); err != nil {
		f.e.t.Fatal(err)
	}
	p.U2fAuthData[f.u2fIdx] = &u2fAuthData{Enabled: true, CreatedAt: time.Unix(f.u2fIdx, 0), Counter: 0, Name: "token", Registration: &reg}
	enc, _ := f.e.st.encryptWithPublicKeys([]byte(f.secret))
	p.TOTPAuthData[f.totpIdx] = &totpAuthData{Enabled: true, CreatedAt: time.Unix(f.totpIdx, 0), Name: "phone", EncryptedSecret: enc}
	pend, _ := f.e.st.encryptWithPublicKeys([]byte(f.pending))
	p.PendingTOTPSecret = &pend
	p.UserHasRegistered2ndFactor = true
	p.DisplayName = marker
	p.Username = "alice"
	p.WebauthnID = 4242
	p.WebauthnData = map[int64]*webauthAuthData{}
	return p
}

func (f *c15Fixture) plain(name, marker string, otp bool) *userProfile {
	p := c15NewProfile()
	p.DisplayName = marker
	p.Username = name
	if otp {
		h := sha512.Sum512([]byte("bootstrap-otp-value"))
		p.BootstrapOTP = bootstrapOTPData{ExpiresAt: time.Now().Add(time.Hour), Sha512Hash: h[:]}
	}
	return p
}

// primary: fresh profiles; cache: an older copy of each (marker "stale")
func (f *c15Fixture) reset() {
	e := f.e
	e.wipe()
	st := e.st
	must := func(err error) {
		if err != nil {
			e.t.Fatalf("fixture: %v", err)
		}
	}
	for _, marker := range []string{"stale", "fresh"} {
		must(st.SaveUserProfile("alice", f.alice(marker)))
		must(st.SaveUserProfile("bob", f.plain("bob", marker, true)))
		must(st.SaveUserProfile("carol", f.plain("carol", marker, false)))
		must(st.SaveUserProfile("admin", f.plain("admin", marker, false)))
		if marker == "stale" {
			must(copyDBIntoSQLite(st.db, st.cacheDB, "sqlite"))
		}
	}
	st.totpLocalTateLimitMutex.Lock()
	st.totpLocalRateLimit = make(map[string]totpRateLimitInfo)
	st.totpLocalTateLimitMutex.Unlock()
	st.Mutex.Lock()
	st.localAuthData = make(map[string]localUserData)
	st.Mutex.Unlock()
}

func (f *c15Fixture) cookieFor(user string) *http.Cookie {
	return f.e.env.cookie(user, AuthTypePassword|AuthTypeU2F)
}

func (f *c15Fixture) request(method, path, user string, form url.Values) *http.Request {
	req := verifNewRequest(method, path, form)
	req.AddCookie(f.cookieFor(user))
	return req
}

func (f *c15Fixture) jsonRequest(path, user string, body []byte) *http.Request {
	req := verifNewRequest("POST", path, nil)
	req.Body = ioutil.NopCloser(bytes.NewReader(body))
	req.ContentLength = int64(len(body))
	req.Header.Set("Content-Type", "application/json")
	req.AddCookie(f.cookieFor(user))
	return req
}

func (f *c15Fixture) code(secret string) string {
	c, err := totp.GenerateCode(secret, time.Now())
	if err != nil {
		f.e.t.Fatal(err)
	}
	return c
}

func (f *c15Fixture) probes() []c15Probe {
	e := f.e
	var regReq []byte
	dev2 := newVerifU2FDevice()
	idx := strconv.FormatInt(f.totpIdx, 10)
	uidx := strconv.FormatInt(f.u2fIdx, 10)
	return []c15Probe{
		{name: "POST " + addUserPath, kind: "HMutate", present: false, target: "dave",
			req: func() *http.Request { return f.request("POST", addUserPath, "admin", url.Values{"username": {"dave"}}) }},
		{name: "POST " + deleteUserPath, kind: "HDelete", present: true, target: "bob",
			req: func() *http.Request {
				return f.request("POST", deleteUserPath, "admin", url.Values{"username": {"bob"}})
			}},
		{name: "POST " + generateBoostrapOTPPath, kind: "HMutate", present: true, target: "carol",
			req: func() *http.Request {
				return f.request("POST", generateBoostrapOTPPath, "admin", url.Values{"username": {"carol"}, "duration": {"1h"}})
			}},
		{name: "GET " + totpGeneratNewPath, kind: "HMutate", present: true, target: "alice",
			req: func() *http.Request { return f.request("GET", totpGeneratNewPath, "alice", nil) }},
		{name: "POST " + totpValidateNewPath, kind: "HMutate", present: true, target: "alice",
			req: func() *http.Request {
				return f.request("POST", totpValidateNewPath, "alice", url.Values{"OTP": {f.code(f.pending)}})
			}},
		{name: "POST " + totpTokenManagementPath + " Update", kind: "HMutate", present: true, target: "alice",
			req: func() *http.Request {
				return f.request("POST", totpTokenManagementPath, "alice", url.Values{"username": {"alice"}, "index": {idx}, "action": {"Update"}, "name": {"renamed"}})
			}},
		{name: "POST " + totpTokenManagementPath + " Delete", kind: "HMutate", present: true, target: "alice",
			req: func() *http.Request {
				return f.request("POST", totpTokenManagementPath, "alice", url.Values{"username": {"alice"}, "index": {idx}, "action": {"Delete"}})
			}},
		{name: "POST " + totpVerifyHandlerPath, kind: "HAuthSave", present: true, target: "alice",
			req: func() *http.Request {
				return f.request("POST", totpVerifyHandlerPath, "alice", url.Values{"OTP": {f.code(f.secret)}})
			}},
		{name: "POST " + totpAuthPath, kind: "HAuthSave", present: true, target: "alice",
			req: func() *http.Request {
				return f.request("POST", totpAuthPath, "alice", url.Values{"OTP": {f.code(f.secret)}})
			}},
		{name: "GET " + u2fRegustisterRequestPath, kind: "HMutate", present: true, target: "alice",
			req: func() *http.Request { return f.request("GET", u2fRegustisterRequestPath+"alice", "alice", nil) }},
		{name: "POST " + u2fRegisterRequesponsePath, kind: "HMutate", present: true, target: "alice",
			pre: func() {
				rr, _ := e.env.serve(f.request("GET", u2fRegustisterRequestPath+"alice", "alice", nil))
				regReq = rr.Body.Bytes()
			},
			req: func() *http.Request {
				body, err := dev2.register(regReq, u2fAppID)
				if err != nil {
					e.t.Fatalf("soft token: %v (%s)", err, regReq)
				}
				return f.jsonRequest(u2fRegisterRequesponsePath+"alice", "alice", body)
			}},
		{name: "POST " + u2fTokenManagementPath + " Update", kind: "HMutate", present: true, target: "alice",
			req: func() *http.Request {
				return f.request("POST", u2fTokenManagementPath, "alice", url.Values{"username": {"alice"}, "index": {uidx}, "action": {"Update"}, "name": {"renamed"}})
			}},
		{name: "POST " + u2fTokenManagementPath + " Disable", kind: "HMutate", present: true, target: "alice",
			req: func() *http.Request {
				return f.request("POST", u2fTokenManagementPath, "alice", url.Values{"username": {"alice"}, "index": {uidx}, "action": {"Disable"}})
			}},
		{name: "GET " + webAutnRegististerRequestPath, kind: "HMutate", present: true, target: "alice",
			req: func() *http.Request { return f.request("GET", webAutnRegististerRequestPath+"alice", "alice", nil) }},
		{name: "POST " + webAuthnAuthFinishPath, kind: "HAuthSave", present: true, target: "alice",
			pre: func() { e.env.serve(f.request("GET", webAuthnAuthBeginPath, "alice", nil)) },
			req: func() *http.Request {
				e.st.Mutex.Lock()
				la, ok := e.st.localAuthData["alice"]
				e.st.Mutex.Unlock()
				if !ok || la.WebAuthnChallenge == nil {
					return nil // the login could not even be begun
				}
				return f.jsonRequest(webAuthnAuthFinishPath, "alice", f.dev.assertion(la.WebAuthnChallenge.Challenge, u2fAppID, u2fAppID))
			}},
		{name: "POST " + bootstrapOtpAuthPath, kind: "HMutate", present: true, target: "bob",
			req: func() *http.Request {
				return f.request("POST", bootstrapOtpAuthPath, "bob", url.Values{"OTP": {"bootstrap-otp-value"}})
			}},
		{name: "GET " + profilePath, kind: "HRead", present: true, target: "alice",
			req: func() *http.Request { return f.request("GET", profilePath, "alice", nil) }},
		{name: "GET " + u2fSignRequestPath, kind: "HRead", present: true, target: "alice",
			req: func() *http.Request { return f.request("GET", u2fSignRequestPath, "alice", nil) }},
		{name: "GET " + webAuthnAuthBeginPath, kind: "HRead", present: true, target: "alice",
			req: func() *http.Request { return f.request("GET", webAuthnAuthBeginPath, "alice", nil) }},
		{name: "GET " + usersPath, kind: "HRead", present: true, target: "alice",
			req: func() *http.Request { return f.request("GET", usersPath, "admin", nil) }},
	}
}

// what the primary holds for the user after the request: 0 nothing, 11 what it held before,
// 10 the cache's older copy (or something derived from it), 12 new content
func c15Classify(before, after c15Snap, user string) int {
	a, ok := after.profiles[user]
	if !ok {
		return 0
	}
	if b, had := before.profiles[user]; had && bytes.Equal(a, b) {
		return 11
	}
	var p userProfile
	if err := gob.NewDecoder(bytes.NewReader(a)).Decode(&p); err == nil && p.DisplayName == "stale" {
		return 10
	}
	return 12
}

func c15OutageOracle(e *c15Env, route string, m int, status int, bp, ap, bc, ac c15Snap, kase interface{}) (changed bool) {
	mode := c15ModeNames[m]
	obs := map[string]interface{}{"status": status, "mode": mode}
	if !bc.equal(ac) {
		changed = true
		e.res.hit(verifHit{Key: "C15:outage:cache-written:" + route, Oracle: "requests never write the offline cache",
			What: fmt.Sprintf("%s in mode %s changed the cache database (status %d)", route, mode, status), Case: kase, Observed: obs})
	}
	if !c15Writable(m) {
		if !bp.equal(ap) {
			changed = true
			e.res.hit(verifHit{Key: "C15:outage-dead:primary-changed:" + route, Oracle: "with the primary unreachable nothing is changed",
				What: fmt.Sprintf("%s with the primary unreachable (%s) changed the primary database (status %d)", route, c15ModeKinds[m], status), Case: kase, Observed: obs})
		}
		return
	}
	// slow: no profile may be (re)written — every SaveUserProfile in the code stores a profile
	// obtained from LoadUserProfile, which answered from the cache
	for u, a := range ap.profiles {
		b, had := bp.profiles[u]
		if had && bytes.Equal(a, b) {
			continue
		}
		changed = true
		cls := c15Classify(bp, ap, u)
		e.res.hit(verifHit{Key: "C15:outage-slow:profile-written:" + route, Oracle: "a profile obtained with fromCache = true is never written back",
			What: fmt.Sprintf("%s while primary reads time out stored a profile for %s in the primary (class %d: 10 = the cache's older copy, 12 = other new content; status %d)", route, u, cls, status),
			Case: kase, Observed: obs})
	}
	if !bp.equal(ap) {
		changed = true
	}
	return
}

func TestVerif_C15(t *testing.T) {
	res := newVerifResult("part 1: random histories (<= 9 ops of save / delete user / upsert / delete signed / sync / cleanup / load / get-signed / mode switch over 3 users, 2 record types, 6 rich profiles, expiries {-2h,-15m,+15m,+1d,+96h}) on a real SQLite pair; every synchronisation of the first histories repeated with a fault at statement k for every k (wrapping database/sql driver), the others with one random fault; an expiry-boundary scenario on the real clock; the Coq model runs the same histories. part 2: gob round trip of random rich profiles through primary and cache. part 3: 20 driven handler requests x {up, slow, dead} with stale cache (model handler classes) and every route of the regenerated mux x {GET, POST} x {user, admin} x {slow, dead}; non-trivial = stores not empty / request reached a handler; distinct by (op shape, outcome)")
	e := c15Setup(t, res)
	// what "a destination transaction is all or nothing" needs of the cache connections that initDB opened
	c15WriteConnConsts(e)
	c15JournalOracle(e, 0, "start-up")
	probedAtStart := len(e.connProbes)
	rng := verifRand()
	mat := c15NewMaterial(e)
	pool := mat.pool()
	poolIdx := map[string]int{}
	for i, p := range pool {
		poolIdx[c15Hash(c15Canon(p))] = i + 1
	}
	if len(poolIdx) != len(pool) {
		t.Fatalf("profile pool is not distinct")
	}
	nHist, nEnum, nAllKinds := 200, 60, 5
	if verifThorough() {
		nHist, nEnum, nAllKinds = 2500, 500, 60
	}
	var cases, idx []string
	totalFaults := 0
	runHistory := func(i int, body func(h *c15Hist)) {
		e.wipe()
		h := &c15Hist{e: e, rng: rng, pool: pool, poolIdx: poolIdx, jwsData: map[string]int{}, enumSync: i < nEnum, allKinds: i >= 0 && i < nAllKinds, no: i + 1}
		if len(res.Hits) > 150 { // plenty of failing inputs already: no more enumeration of fault points
			h.enumSync, h.allKinds = false, false
		}
		body(h)
		e.setMode(c15Up)
		totalFaults += h.faults
		cases = append(cases, h.emit())
		idx = append(idx, strings.Join(h.human, " "))
		res.eval("history|"+strings.Join(h.outs, ","), true)
		if i < 3 {
			res.sample(map[string]interface{}{"history": h.human})
		}
	}
	// boundary of the expiry comparison on the real clock
	runHistory(-1, func(h *c15Hist) {
		h.enumSync = false
		h.save(1, 2)
		c15AlignSecond()
		exp := time.Now().Unix() + 2
		h.upsert(1, 1, 3, exp)
		h.upsert(2, 1, 4, exp+3600)
		h.syncOnce(-1)
		h.setMode(c15Slow)
		h.getS(1, 1)
		h.setMode(c15Up)
		for time.Now().Unix() < exp {
			time.Sleep(50 * time.Millisecond)
		}
		c15AlignSecond()
		h.getS(1, 1)
		h.cleanup()
		h.syncOnce(-1)
		h.setMode(c15Dead)
		h.getS(1, 1)
		h.getS(2, 1)
		h.setMode(c15Up)
		time.Sleep(1100 * time.Millisecond)
		c15AlignSecond()
		h.cleanup()
	})
	stalledRuns := 0
	for i := 0; i < nHist && stalledRuns < 3; i++ {
		runHistory(i, func(h *c15Hist) {
			defer func() {
				if h.stalled {
					stalledRuns++
				}
			}()
			n := 3 + rng.Intn(7)
			for j := 0; j < n; j++ {
				h.randomOp()
				h.lagOracle()
			}
			// finish with a completed copy and reads during an outage
			if !c15Writable(h.e.mode) {
				h.setMode(c15Up)
			}
			if h.enumSync {
				h.sync()
			} else {
				h.syncOnce(-1)
			}
			// ... in every kind of outage in turn; every third round of them restarts the daemon during the
			// outage (before or after its first read), the reads go on from the cache
			m := c15Slow + i%(c15NModes-c15Slow)
			if i >= 2*(c15NModes-c15Slow) && rng.Intn(3) == 0 {
				m = c15RandomMode(rng, false)
			}
			h.setMode(m)
			nOut := c15NModes - c15Slow
			withRestart := (i/nOut)%3 == 0
			if withRestart && (i/nOut)%2 == 0 {
				h.restart()
			}
			h.load(1)
			if withRestart && (i/nOut)%2 != 0 {
				h.restart()
			}
			for u := 2; u <= 3; u++ {
				h.load(u)
			}
			h.getS(1+rng.Intn(3), 1)
			h.users()
			h.lagOracle()
		})
	}
	res.Extra["fault_points"] = totalFaults

	// ---------------- part 2: gob round trip
	nGob := 150
	if verifThorough() {
		nGob = 2000
	}
	e.wipe()
	gobBad := 0
	// every (saved, loaded) pair goes to Coq in the representation of Model/Profile.v (c15profile.go)
	ppairs := &c15ProfilePairs{max: 600}
	ppairs.terms, ppairs.idx = append(ppairs.terms, c15HistPairs.terms...), append(ppairs.idx, c15HistPairs.idx...)
	for i, p := range pool { // the six profiles of the histories (extensions map, two-entry maps, ...)
		user := "pool" + strconv.Itoa(i)
		if err := e.st.SaveUserProfile(user, p); err != nil {
			t.Fatalf("pool save: %v", err)
		}
		got, _, _, _ := e.st.LoadUserProfile(user)
		ppairs.add(fmt.Sprintf("pool profile %d saved for %s and loaded from the primary", i+1, user), p, got)
	}
	for i := 0; i < nGob; i++ {
		p := mat.random(rng)
		want := c15Canon(p)
		user := "gob" + strconv.Itoa(i%7)
		if err := e.st.SaveUserProfile(user, p); err != nil {
			t.Fatalf("gob save: %v", err)
		}
		got, ok, fromCache, err := e.st.LoadUserProfile(user)
		ppairs.add(fmt.Sprintf("random profile #%d saved for %s and loaded from the primary (ok=%v fromCache=%v err=%v): %s", i, user, ok, fromCache, err, want[:minInt(len(want), 300)]), p, got)
		okP := err == nil && ok && !fromCache && c15Canon(got) == want
		okC := true
		if i%5 == 0 {
			if err := copyDBIntoSQLite(e.st.db, e.st.cacheDB, "sqlite"); err != nil {
				t.Fatalf("gob sync: %v", err)
			}
			e.setMode(c15Slow)
			got2, ok2, fromCache2, err2 := e.st.LoadUserProfile(user)
			ppairs.add(fmt.Sprintf("random profile #%d saved for %s, copied, loaded with the primary slow (ok=%v fromCache=%v err=%v): %s", i, user, ok2, fromCache2, err2, want[:minInt(len(want), 300)]), p, got2)
			okC = err2 == nil && ok2 && fromCache2 && c15Canon(got2) == want
			e.setMode(c15Up)
		}
		res.eval("gob|"+c15Hash(want), true)
		res.bump("gob-roundtrip")
		if !okP || !okC {
			gobBad++
			store := "primary"
			if okP {
				store = "cache"
			}
			res.hit(verifHit{Key: "C15:roundtrip:gob:" + store, Oracle: "a saved profile is read back identical (after canonicalising nil/empty maps)",
				What: fmt.Sprintf("random profile #%d read back from the %s differs from what was saved", i, store),
				Case: map[string]interface{}{"profile": want[:minInt(len(want), 600)]}})
		}
	}

	// ---------------- part 3: handlers during an outage
	secretKey, _ := totp.Generate(totp.GenerateOpts{Issuer: "keymaster.example", AccountName: "alice"})
	pendingKey, _ := totp.Generate(totp.GenerateOpts{Issuer: "keymaster.example", AccountName: "alice-pending"})
	fx := &c15Fixture{e: e, mat: mat, dev: newVerifU2FDevice(), secret: secretKey.Secret(), pending: pendingKey.Secret(), u2fIdx: 1790001000, totpIdx: 1790002000}
	var hcases, hidx []string
	for _, pr := range fx.probes() {
		for m := c15Up; m < c15NModes; m++ {
			if m >= c15PrepX && !verifThorough() && pr.kind != "HAuthSave" && pr.kind != "HDelete" {
				continue // quick tier: the fail-fast outages with failing writes only for the second-factor checks and the delete
			}
			fx.reset()
			if pr.pre != nil {
				pr.pre()
			}
			req := pr.req()
			if req == nil {
				t.Fatalf("%s: the request cannot be built", pr.name)
			}
			e.setMode(m)
			bp, bc := e.snapP(), e.snapC()
			rr, _ := e.env.serve(req)
			time.Sleep(60 * time.Millisecond)
			e.dirty = false
			ap, ac := e.snapP(), e.snapC()
			e.setMode(c15Up)
			cls := c15Classify(bp, ap, pr.target)
			if !pr.present {
				if _, ok := ap.profiles[pr.target]; ok && cls == 11 {
					cls = 12
				}
			}
			served := rr.Code < 400
			kase := map[string]interface{}{"request": pr.name, "mode": c15ModeNames[m], "target": pr.target}
			if m != c15Up {
				c15OutageOracle(e, pr.name, m, rr.Code, bp, ap, bc, ac, kase)
				// logins and second-factor checks (and plain readers) continue from the cache
				if (pr.kind == "HAuthSave" || pr.kind == "HRead") && !served {
					e.res.hit(verifHit{Key: "C15:outage-2fa-refused:" + pr.name + ":" + c15ModeKinds[m],
						Oracle: "while the primary is unreachable, in whichever way, logins and second-factor checks continue from the cache",
						What:   fmt.Sprintf("%s with valid credentials answered %d while the primary is out (%s; read deadline %v); the cache holds the user's profile", pr.name, rr.Code, c15ModeKinds[m], e.st.remoteDBQueryTimeout),
						Case:   kase, Observed: map[string]interface{}{"status": rr.Code, "body": rr.Body.String()[:minInt(rr.Body.Len(), 200)]}})
				}
			}
			hcases = append(hcases, fmt.Sprintf("(%s, %s, %s, %d%%N, %s, %s)", pr.kind, c15ModeNames[m], coqBool(pr.present), cls, coqBool(!bc.equal(ac)), coqBool(served)))
			hidx = append(hidx, fmt.Sprintf("%s mode=%s status=%d primary-class=%d cache-changed=%v", pr.name, c15ModeNames[m], rr.Code, cls, !bc.equal(ac)))
			res.eval(fmt.Sprintf("probe|%s|%d|%d|%d", pr.name, m, rr.Code, cls), true)
			res.bump("probe:" + pr.kind + ":" + c15ModeNames[m])
		}
	}
	// the second-factor checks and the readers again, after a RESTART of the daemon during the outage:
	// the new process serves them from the cache file the previous one left
	var hrcases []string
	for _, pr := range fx.probes() {
		if pr.kind != "HAuthSave" && pr.kind != "HRead" {
			continue
		}
		for m := c15Slow; m < c15NModes; m++ {
			if !verifThorough() && pr.kind == "HRead" && m != c15Slow && m != c15Dead && m != c15QueryW {
				continue
			}
			fx.reset()
			e.setMode(m)
			cacheBefore := e.snapC()
			e.restart()
			if pr.pre != nil {
				pr.pre()
			}
			req := pr.req()
			bp, bc := e.snapP(), e.snapC()
			rr := httptest.NewRecorder()
			rr.Code = 0
			if req != nil {
				rr, _ = e.env.serve(req)
			}
			time.Sleep(60 * time.Millisecond)
			e.dirty = false
			ap, ac := e.snapP(), e.snapC()
			cls := c15Classify(bp, ap, pr.target)
			served := req != nil && rr.Code < 400
			kase := map[string]interface{}{"request": pr.name, "mode": c15ModeNames[m], "target": pr.target, "restarted": true}
			c15OutageOracle(e, pr.name, m, rr.Code, bp, ap, bc, ac, kase)
			if !served || !cacheBefore.equal(bc) {
				e.res.hit(verifHit{Key: "C15:restart:cache-lost:" + c15ModeKinds[m],
					Oracle: "while the primary is unreachable, logins and second-factor checks continue from the cache — also after a restart of the daemon",
					What:   fmt.Sprintf("%s with valid credentials answered %d after a restart during the outage (%s); cache unchanged by the restart: %v (users before %d, after %d)", pr.name, rr.Code, c15ModeKinds[m], cacheBefore.equal(bc), len(cacheBefore.profiles), len(bc.profiles)),
					Case:   kase, Observed: map[string]interface{}{"status": rr.Code, "body": rr.Body.String()[:minInt(rr.Body.Len(), 200)]}})
			}
			hrcases = append(hrcases, fmt.Sprintf("(%s, %s, %d%%N, %s, %s)", pr.kind, c15ModeNames[m], cls, coqBool(!cacheBefore.equal(ac)), coqBool(served)))
			hidx = append(hidx, fmt.Sprintf("%s mode=%s after-restart status=%d primary-class=%d cache-changed=%v", pr.name, c15ModeNames[m], rr.Code, cls, !cacheBefore.equal(ac)))
			res.eval(fmt.Sprintf("probe-restart|%s|%d|%d|%d", pr.name, m, rr.Code, cls), true)
			res.bump("probe-after-restart:" + pr.kind + ":" + c15ModeNames[m])
		}
	}
	e.setMode(c15Up)
	// every route of the regenerated mux, generically
	fx.reset()
	form := func() url.Values {
		return url.Values{"username": {"alice"}, "index": {strconv.FormatInt(fx.totpIdx, 10)}, "action": {"Disable"}, "OTP": {fx.code(fx.secret)},
			"name": {"x"}, "duration": {"1h"}, "login_destination": {"/"}}
	}
	for _, m := range []int{c15Slow, c15Dead} {
		for _, rt := range verifRouteTable() {
			path := rt.Path
			if strings.HasSuffix(path, "/") && path != "/" && !strings.HasPrefix(path, "/static") && !strings.HasPrefix(path, "/custom_static") && !strings.HasPrefix(path, "/public") {
				path += "alice"
			}
			for _, method := range []string{"GET", "POST"} {
				for _, user := range []string{"alice", "admin"} {
					req := verifNewRequest(method, path, form())
					req.AddCookie(fx.cookieFor(user))
					e.setMode(m)
					bp, bc := e.snapP(), e.snapC()
					rr, _ := e.env.serve(req)
					e.touched()
					e.settle()
					ap, ac := e.snapP(), e.snapC()
					name := method + " " + rt.Path
					changed := c15OutageOracle(e, name, m, rr.Code, bp, ap, bc, ac,
						map[string]interface{}{"request": name, "mode": c15ModeNames[m], "user": user, "handler": rt.Handler})
					res.eval(fmt.Sprintf("route|%s|%d|%s|%d", name, m, user, rr.Code), rr.Code != 404)
					res.bump(fmt.Sprintf("route-%s:%dxx", c15ModeNames[m], rr.Code/100))
					if changed || !bp.equal(ap) {
						fx.reset()
					}
				}
			}
		}
	}
	e.setMode(c15Up)
	if len(e.env.panics) > 0 {
		res.Extra["panics"] = e.env.panics
	}

	// ---------------- volume: a cache larger than SQLite's page cache, faults at late statements of the copy
	// (last: a tree that leaves the cache file damaged here must not take the other parts with it)
	runHistory(-2, c15LargeHistory)
	res.Extra["fault_points"] = totalFaults
	// the connections of every restart were probed too
	c15JournalOracle(e, probedAtStart, "after a restart")
	c15WriteConnConsts(e)
	res.Extra["cache_connections_probed"] = len(e.connProbes)
	res.Extra["connection_settings_carried"] = e.connCarried

	// ---------------- case files
	var sb strings.Builder
	sb.WriteString(coqCaseHeader)
	sb.WriteString("From KM Require Import Base.Cases Model.Storage.\n")
	sb.WriteString("Definition cases : list history_case := [\n" + strings.Join(cases, ";\n") + "\n].\n")
	sb.WriteString("Definition hcases : list handler_case := [\n" + strings.Join(hcases, ";\n") + "\n].\n")
	sb.WriteString("Definition hrcases : list restart_handler_case := [\n" + strings.Join(hrcases, ";\n") + "\n].\n")
	sb.WriteString("Definition c15_ncases := Eval vm_compute in (length cases + length hcases + length hrcases)%nat.\nPrint c15_ncases.\n")
	sb.WriteString("Definition c15_restart_handler_mismatches := Eval vm_compute in mismatches (fun c => negb (restart_handler_ok c)) hrcases.\nPrint c15_restart_handler_mismatches.\n")
	sb.WriteString("Definition c15_violating := Eval vm_compute in violating_cases cases.\nPrint c15_violating.\n")
	sb.WriteString("Definition c15_history_mismatches := Eval vm_compute in mismatches (fun c => negb (history_ok c)) cases.\nPrint c15_history_mismatches.\n")
	sb.WriteString("Definition c15_handler_mismatches := Eval vm_compute in mismatches (fun c => negb (handler_ok c)) hcases.\nPrint c15_handler_mismatches.\n")
	// a file of its own: lib/checks/c15.py compiles it while CasesC15.v is being evaluated
	if err := ioutil.WriteFile(filepath.Join(verifOut(), "CasesC15p.v"), []byte(coqCaseHeader+ppairs.coq()), 0644); err != nil {
		t.Fatal(err)
	}
	ioutil.WriteFile(filepath.Join(verifOut(), "CasesC15p.idx"), []byte(strings.Join(ppairs.idx, "\n")+"\n"), 0644)
	res.Extra["profile_pairs"] = len(ppairs.terms)
	if err := ioutil.WriteFile(filepath.Join(verifOut(), "CasesC15.v"), []byte(sb.String()), 0644); err != nil {
		t.Fatal(err)
	}
	ioutil.WriteFile(filepath.Join(verifOut(), "CasesC15.idx"), []byte(strings.Join(idx, "\n")+"\n"), 0644)
	ioutil.WriteFile(filepath.Join(verifOut(), "CasesC15h.idx"), []byte(strings.Join(hidx, "\n")+"\n"), 0644)
	res.Extra["histories"] = len(cases)
	res.Extra["handler_probes"] = len(hcases) + len(hrcases)
	res.Extra["restarts"] = e.restarts
	res.Extra["restart_ms"] = e.restartTime.Milliseconds()
	res.Extra["gob_failures"] = gobBad
	res.write(t, "TestVerif_C15")
}

func minInt(a, b int) int {
	if a < b {
		return a
	}
	return b
}

// ================================================================ journal of the cache connection, volume
// C15 — the precondition of "a destination transaction is all or nothing", and volume.
//
//  (1) What copyDBIntoSQLite relies on when a statement fails is tx.Rollback() of its one destination
//      transaction.  SQLite gives the previous content back only on a connection that keeps a rollback
//      journal in a file or a write-ahead log.  The per-connection settings of the handles the REAL
//      initDB opened are asked (storeenv.go probeConnections: PRAGMA journal_mode, synchronous, ... on
//      several connections of state.cacheDB and state.db held at the same time), judged here
//      (C15:cache-not-transactional:<pragma>), written to gen/ConstsC15.v for coq/obl/Obl_C15.v, and
//      carried over to the wrapping driver's connections so that the fault sweep runs with them.
//  (2) Whether a roll-back works without a journal depends on how much the transaction wrote: while
//      it fits SQLite's page cache nothing has reached the file.  One history per run therefore works
//      on a cache that is larger than the page cache of the probed connection, with faults at LATE
//      statements of the copy (C15:atomic:mixture@<call>/<kind>:large).

var c15TransactionalJournal = map[string]bool{"delete": true, "truncate": true, "persist": true, "wal": true}

func c15CoqIdent(s string) string {
	var sb strings.Builder
	for _, r := range s {
		if (r >= 'a' && r <= 'z') || (r >= '0' && r <= '9') || r == '_' || r == '-' {
			sb.WriteRune(r)
		}
	}
	return sb.String()
}

// gen/ConstsC15.v: (handle, connection, journal_mode, synchronous) of every probed connection
func c15WriteConnConsts(e *c15Env) {
	var rows []string
	for _, p := range e.connProbes {
		sy, err := strconv.Atoi(p.Settings["synchronous"])
		if err != nil || sy < 0 {
			sy = 99
		}
		rows = append(rows, fmt.Sprintf("(\"%s\", %d%%N, \"%s\", %d%%N)", c15CoqIdent(p.Handle), p.Conn, c15CoqIdent(p.Settings["journal_mode"]), sy))
	}
	src := "(* generated by the C15 harness: PRAGMA journal_mode / PRAGMA synchronous as answered by connections of the\n" +
		"   handles that the initDB of the tree under test opened (cache = state.cacheDB, primary = state.db);\n" +
		"   (handle, number of the connection, journal_mode, synchronous) *)\n" +
		"From Coq Require Import String List NArith.\nImport ListNotations.\nOpen Scope string_scope.\n" +
		"Definition c15_conn_probes : list (string * N * string * N) := [\n  " + strings.Join(rows, ";\n  ") + "].\n"
	dir := filepath.Join(verifOut(), "gen")
	os.MkdirAll(dir, 0755)
	if err := ioutil.WriteFile(filepath.Join(dir, "ConstsC15.v"), []byte(src), 0644); err != nil {
		e.t.Fatal(err)
	}
}

// The oracle on the probed settings of the cache connections (from index `from` of e.connProbes on).
func c15JournalOracle(e *c15Env, from int, when string) {
	seen := map[string]bool{}
	for _, p := range e.connProbes[from:] {
		if p.Handle != "cache" {
			continue
		}
		jm, sy := p.Settings["journal_mode"], p.Settings["synchronous"]
		e.res.eval("conn-probe|"+p.Handle+"|"+jm+"|"+sy+"|"+p.Settings["cache_size"]+"|"+p.Settings["locking_mode"], true)
		e.res.bump("cache-connection:journal_mode=" + jm + ",synchronous=" + sy)
		kase := map[string]interface{}{"handle": "state.cacheDB", "when": when, "connection": p.Conn, "settings": p.Settings,
			"probe": "PRAGMA <name> on connections of the handle initDB opened, held at the same time"}
		if !c15TransactionalJournal[jm] && !seen["journal_mode"] {
			seen["journal_mode"] = true
			kase["pragma"], kase["value"] = "journal_mode", jm
			e.res.hit(verifHit{Key: "C15:cache-not-transactional:journal_mode",
				Oracle: "the cache connection keeps a rollback journal in a file or a write-ahead log (journal_mode delete | truncate | persist | wal): what tx.Rollback() of a failed synchronisation, and the recovery after a killed process, restore the previous content from",
				What:   fmt.Sprintf("connection %d of state.cacheDB answers PRAGMA journal_mode = %q (synchronous = %s): copyDBIntoSQLite relies on tx.Rollback() of its destination transaction, which SQLite leaves undefined without a journal (memory: lost with the process) — a synchronisation that fails after the transaction outgrew the page cache (cache_size %s) leaves a mixture", p.Conn, jm, sy, p.Settings["cache_size"]),
				Case:   kase, Observed: map[string]interface{}{"journal_mode": jm, "synchronous": sy}})
		}
		if sy == "0" && !seen["synchronous"] {
			seen["synchronous"] = true
			kase2 := map[string]interface{}{}
			for k, v := range kase {
				kase2[k] = v
			}
			kase2["pragma"], kase2["value"] = "synchronous", sy
			e.res.hit(verifHit{Key: "C15:cache-not-transactional:synchronous",
				Oracle: "the cache connection waits for its journal to reach the disk before it overwrites database pages (synchronous >= normal): a synchronisation interrupted by the machine going down leaves the previous or the new content",
				What:   fmt.Sprintf("connection %d of state.cacheDB answers PRAGMA synchronous = 0 (off; journal_mode = %s): SQLite hands the journal and the database pages to the operating system without ordering them; a power loss or kernel crash during a synchronisation can leave the cache file a mixture or malformed (a failed statement or a killed process is not affected by this setting)", p.Conn, jm),
				Case:   kase2, Observed: map[string]interface{}{"journal_mode": jm, "synchronous": sy}})
		}
	}
}

// bytes of page cache of the probed cache connections (the largest): cache_size < 0 is KiB, > 0 pages
func c15PageCacheBytes(e *c15Env) int64 {
	var max int64
	for _, p := range e.connProbes {
		if p.Handle != "cache" {
			continue
		}
		cs, err1 := strconv.ParseInt(p.Settings["cache_size"], 10, 64)
		ps, err2 := strconv.ParseInt(p.Settings["page_size"], 10, 64)
		if err1 != nil {
			cs = -2000
		}
		if err2 != nil || ps <= 0 {
			ps = 4096
		}
		b := cs * ps
		if cs < 0 {
			b = -cs * 1024
		}
		if b > max {
			max = b
		}
	}
	if max == 0 {
		max = 2000 * 1024
	}
	return max
}

// ---------------------------------------------------------------- the large history

const c15VolUserBase = 1000

func c15VolUser(i int) string { return fmt.Sprintf("vol%05d", i) }

// a profile of about `size` bytes once encoded
func c15BigProfile(marker string, size int, fill byte) *userProfile {
	p := c15NewProfile()
	p.DisplayName = marker
	p.Username = marker
	p.UserHasRegistered2ndFactor = true
	p.TOTPAuthData[1790003000] = &totpAuthData{Enabled: true, CreatedAt: time.Unix(1790003000, 0), Name: marker,
		EncryptedSecret: [][]byte{bytes.Repeat([]byte{fill}, size)}}
	return p
}

func c15Encode(p *userProfile) []byte {
	var buf bytes.Buffer
	if err := gob.NewEncoder(&buf).Encode(p); err != nil {
		panic(err)
	}
	return buf.Bytes()
}

// the content of a database file through a connection of its own that is opened for this one read
func c15ReadFresh(file string) (c15Snap, string, error) {
	db, err := sql.Open("sqlite3", file)
	if err != nil {
		return c15Snap{}, "", err
	}
	defer db.Close()
	db.SetMaxOpenConns(1)
	s, err := c15Read(db)
	if err != nil {
		return s, "", err
	}
	var integrity string
	rows, err := db.Query("PRAGMA integrity_check(4)")
	if err != nil {
		return s, "", err
	}
	defer rows.Close()
	var lines []string
	for rows.Next() {
		var l string
		if err := rows.Scan(&l); err != nil {
			return s, "", err
		}
		lines = append(lines, l)
	}
	if err := rows.Err(); err != nil {
		return s, "", err
	}
	integrity = strings.Join(lines, "; ")
	return s, integrity, nil
}

func c15FileBytes(file string) int64 {
	var n int64
	for _, suffix := range []string{"", "-wal"} {
		if fi, err := os.Stat(file + suffix); err == nil {
			n += fi.Size()
		}
	}
	return n
}

type c15LargePoint struct {
	name     string
	k        int
	kind     int
	standing bool
}

// Statement indices of the copy for nP profiles and nS live signed rows (Model/Storage.v sync_script):
// 0,1 source queries; 2 Begin; 3,4 DELETEs; 5 Prepare; then fetch+insert per profile, the final fetch,
// Prepare, fetch+insert per signed row, the final fetch, COMMIT.
func c15LargePoints(nP, nS int, thorough bool) []c15LargePoint {
	total := 10 + 2*nP + 2*nS
	pts := []c15LargePoint{
		{"profile-insert-2/3", 6 + 2*(nP*2/3) + 1, verifFaultGeneric, false},
		{"last-profile-insert", 6 + 2*(nP-1) + 1, verifFaultBusy, false},
		{"profile-cursor-end", 6 + 2*nP, verifFaultGeneric, false},
		{"signed-prepare", 7 + 2*nP, verifFaultLocked, false},
		{"first-signed-fetch", 8 + 2*nP, verifFaultDeadline, false},
		{"first-signed-insert", 9 + 2*nP, verifFaultGeneric, true},
		{"last-signed-insert", 8 + 2*nP + 2*(nS-1) + 1, verifFaultBadConn, true},
		{"commit", total - 1, verifFaultBusy, false},
		{"commit", total - 1, verifFaultGeneric, false},
	}
	if thorough {
		for j := 1; j <= 24; j++ {
			pts = append(pts, c15LargePoint{fmt.Sprintf("profile-insert-%d/25", j), 6 + 2*(nP*j/25) + 1, j % verifNFaultKinds, j%3 == 0})
			pts = append(pts, c15LargePoint{fmt.Sprintf("profile-fetch-%d/25", j), 6 + 2*(nP*j/25), (j + 2) % verifNFaultKinds, j%4 == 0})
		}
		for j := 0; j < nS; j += 3 {
			pts = append(pts, c15LargePoint{"signed-insert", 9 + 2*nP + 2*j, (j + 1) % verifNFaultKinds, false})
		}
	}
	return pts
}

// one copy on the large pair with statement k failing; false: the cache file is damaged or unreadable
func (h *c15Hist) syncLarge(pt c15LargePoint) bool {
	e := h.e
	e.settle()
	h.tick()
	before, _, berr := c15ReadFresh(e.cacheFile)
	if berr != nil {
		return false
	}
	prim := e.snapP()
	verifFault.armKind(pt.k, pt.kind, pt.standing)
	t0 := time.Now()
	err := copyDBIntoSQLite(e.st.db, e.st.cacheDB, "sqlite")
	count, fired, kinds := verifFault.disarm()
	took := time.Since(t0)
	after, integrity, rerr := c15ReadFresh(e.cacheFile)
	op := "(Sync None)"
	if pt.k >= 0 {
		op = fmt.Sprintf("(Sync (Some (F %d%%nat %s %s)))", pt.k, verifFaultCoq[pt.kind], coqBool(!pt.standing))
	}
	h.ops = append(h.ops, op)
	h.outs = append(h.outs, fmt.Sprintf("(OSync %s)", coqBool(err == nil)))
	h.human = append(h.human, fmt.Sprintf("%s[%s]->(OSync %s)", op, pt.name, coqBool(err == nil)))
	failing := ""
	if fired && pt.k >= 0 && pt.k < len(kinds) {
		failing = kinds[pt.k]
		if pt.kind != verifFaultGeneric {
			failing += "/" + verifFaultNames[pt.kind]
		}
	}
	h.syncs++
	if fired {
		h.faults++
		e.res.bump("large-fault@" + failing)
	}
	want := c15Mirror(prim, h.now)
	kase := map[string]interface{}{"history": h.human, "fault_at": pt.k, "fault_point": pt.name, "fault_kind": verifFaultNames[pt.kind], "fault_standing": pt.standing,
		"statements": count, "failing_statement": failing, "cache_file_bytes": c15FileBytes(e.cacheFile), "page_cache_bytes": c15PageCacheBytes(e),
		"cache_connection_settings": e.connCarried["cache"]}
	obs := map[string]interface{}{"error": fmt.Sprint(err), "primary_users": len(prim.profiles), "primary_signed": len(prim.signed),
		"cache_users_before": len(before.profiles), "cache_signed_before": len(before.signed), "took_ms": took.Milliseconds()}
	e.res.eval(fmt.Sprintf("sync-large|%s|%v|%s", pt.name, err == nil, failing), len(before.profiles) > 0 && len(prim.profiles) > 0)
	if rerr != nil || integrity != "ok" {
		// a file that SQLite itself calls damaged is neither the old nor the new content
		obs["read_error"], obs["integrity_check"] = fmt.Sprint(rerr), integrity
		key := "C15:atomic:mixture@" + failing + ":large"
		if err == nil {
			key = "C15:mirror:cache-file-damaged:large"
		}
		e.res.hit(verifHit{Key: key, Oracle: "an interrupted synchronisation leaves the cache equal to its previous or its new content (a database file that SQLite reports as damaged is neither)",
			What: fmt.Sprintf("large cache (%d users, file %d bytes, page cache %d bytes): fault at statement %d/%d (%s, %s), copyDBIntoSQLite returned %v; reading the cache file afterwards: error %v, integrity_check: %q",
				len(before.profiles), c15FileBytes(e.cacheFile), c15PageCacheBytes(e), pt.k, count, pt.name, failing, err, rerr, integrity),
			Case: kase, Observed: obs})
		return false // nothing more can be learnt from a damaged file
	}
	// both stores go to the model's case file — in the thorough tier (three times the users, 130 attempts) only
	// for the un-faulted copies, every 8th attempt and every attempt that did not simply keep the old content
	if !verifThorough() || pt.k < 0 || h.syncs%8 == 0 || err == nil || !after.equal(before) {
		h.snaps = append(h.snaps, fmt.Sprintf("(%d%%nat, %s, %s)", len(h.ops)-1, h.coqDB(prim), h.coqDB(after)))
	}
	obs["cache_users"], obs["cache_signed"] = len(after.profiles), len(after.signed)
	if !prim.equal(e.snapP()) {
		e.res.hit(verifHit{Key: "C15:sync:primary-changed", Oracle: "a synchronisation never changes the primary", What: "primary differs after copyDBIntoSQLite (large history)", Case: kase, Observed: obs})
	}
	switch {
	case err == nil:
		if d := c15MirrorDiff(after, want, prim); d != "" {
			e.res.hit(verifHit{Key: "C15:mirror:" + d + ":large", Oracle: "after a completed synchronisation the cache holds exactly the primary's users and unexpired signed records",
				What: fmt.Sprintf("large cache: copyDBIntoSQLite returned nil but the cache is not the mirror of the primary: %s (primary users=%d signed=%d, cache users=%d signed=%d)", d, len(prim.profiles), len(prim.signed), len(after.profiles), len(after.signed)),
				Case: kase, Observed: obs})
		}
		if fired && !(pt.kind == verifFaultBadConn && !pt.standing) {
			e.res.hit(verifHit{Key: "C15:sync:error-ignored@" + failing + ":large", Oracle: "a failed statement makes the synchronisation fail",
				What: fmt.Sprintf("statement %d (%s) failed and copyDBIntoSQLite returned nil", pt.k, failing), Case: kase, Observed: obs})
		}
	case !after.equal(before) && !after.equal(want):
		e.res.hit(verifHit{Key: "C15:atomic:mixture@" + failing + ":large", Oracle: "an interrupted synchronisation leaves the cache equal to its previous or its new content",
			What: fmt.Sprintf("large cache (%d users, file %d bytes, page cache %d bytes): fault at statement %d/%d (%s, %s): the cache is neither the old content nor the mirror of the primary (%s; users before %d, after %d, primary %d)",
				len(before.profiles), c15FileBytes(e.cacheFile), c15PageCacheBytes(e), pt.k, count, pt.name, failing, c15MirrorDiff(after, want, prim), len(before.profiles), len(after.profiles), len(prim.profiles)),
			Case: kase, Observed: obs})
	case !after.equal(before):
		e.res.hit(verifHit{Key: "C15:sync:completed-reported-failed@" + failing + ":large", Oracle: "a synchronisation that reports failure leaves the previous content",
			What: fmt.Sprintf("large cache: fault at statement %d/%d (%s): copyDBIntoSQLite returned %v but the cache holds the new content", pt.k, count, failing, err), Case: kase, Observed: obs})
	}
	return true
}

// bulk change of the primary in one transaction of the harness's own connection (the statement of
// SaveUserProfile), recorded as the Save ops it stands for
func (h *c15Hist) bulkSave(from, to int, blob []byte, poolNo int) {
	tx, err := h.e.admP.Begin()
	if err != nil {
		h.e.t.Fatalf("bulk save: %v", err)
	}
	stmt, err := tx.Prepare(saveUserProfileStmt["sqlite"])
	if err != nil {
		h.e.t.Fatalf("bulk save: %v", err)
	}
	for i := from; i < to; i++ {
		if _, err := stmt.Exec(c15VolUser(i), blob); err != nil {
			h.e.t.Fatalf("bulk save: %v", err)
		}
		h.ops = append(h.ops, fmt.Sprintf("(Save %d%%N %d%%N)", c15VolUserBase+i, poolNo))
		h.outs = append(h.outs, "OOk")
	}
	stmt.Close()
	if err := tx.Commit(); err != nil {
		h.e.t.Fatalf("bulk save: %v", err)
	}
	h.human = append(h.human, fmt.Sprintf("(Save %d..%d profile %d, one transaction)->OOk", c15VolUserBase+from, c15VolUserBase+to-1, poolNo))
	h.e.res.bump("op:bulk-save")
}

// The history: nU users with ~4 KB profiles and nS signed records, a completed copy (the cache file is now
// larger than the page cache of the cache connections), every profile changed / some users deleted and
// added / signed records changed in the primary, then the copy with faults at late statements — the
// previous content must stay each time —, a completed copy, and the faults again in the other direction.
func c15LargeHistory(h *c15Hist) {
	e := h.e
	h.enumSync = false
	pageCache := c15PageCacheBytes(e)
	const blobSize = 4000
	nU := 600
	if need := int(pageCache*3/2/blobSize) + 1; need > nU {
		nU = need
	}
	if verifThorough() {
		nU *= 3
	}
	if nU > 40000 {
		nU = 40000
	}
	nS := 20
	// profiles 7 (old) and 8 (new) of this history's pool
	oldP, newP := c15BigProfile("vol-old", blobSize, 0xa5), c15BigProfile("vol-new", blobSize+300, 0x5a)
	pool := append(append([]*userProfile{}, h.pool...), oldP, newP)
	poolIdx := map[string]int{}
	for k, v := range h.poolIdx {
		poolIdx[k] = v
	}
	noOld, noNew := len(pool)-1, len(pool)
	poolIdx[c15Hash(c15Canon(oldP))], poolIdx[c15Hash(c15Canon(newP))] = noOld, noNew
	h.pool, h.poolIdx = pool, poolIdx
	oldB, newB := c15Encode(oldP), c15Encode(newP)

	h.bulkSave(0, nU, oldB, noOld)
	for i := 0; i < nS; i++ {
		h.upsertNamed(c15VolUser(i), c15VolUserBase+i, 1, 1+i%5, h.nowish()+86400)
	}
	if !h.syncLarge(c15LargePoint{"none", -1, verifFaultGeneric, false}) {
		return
	}
	size := c15FileBytes(e.cacheFile)
	threshold := pageCache * 5 / 4
	if threshold < 2500000 {
		threshold = 2500000
	}
	e.res.Extra["large_cache_file_bytes"] = size
	e.res.Extra["large_cache_users"] = nU
	e.res.Extra["page_cache_bytes"] = pageCache
	e.res.eval(fmt.Sprintf("large-cache|users=%d|exceeds-page-cache=%v", nU, size > threshold), size > threshold)
	if size <= threshold && nU < 40000 {
		e.t.Fatalf("the large history does not exceed the page cache: cache file %d bytes, page cache %d bytes", size, pageCache)
	}
	round := func(blob []byte, poolNo int, delFrom, addFrom int) bool {
		// every profile changes, 30 users go, 30 come, signed records change
		h.bulkSave(0, nU, blob, poolNo)
		for i := delFrom; i < delFrom+30; i++ {
			err := e.st.DeleteUserProfile(c15VolUser(i))
			h.record(fmt.Sprintf("(DelUser %d%%N)", c15VolUserBase+i), errOut(err))
		}
		h.bulkSave(addFrom, addFrom+30, blob, poolNo)
		for i := 0; i < nS; i += 2 {
			h.upsertNamed(c15VolUser(i), c15VolUserBase+i, 1, 1+(i+poolNo)%5, h.nowish()+2*86400)
		}
		prim := e.snapP()
		live := 0
		for _, r := range prim.signed {
			if r.exp > h.now {
				live++
			}
		}
		for _, pt := range c15LargePoints(len(prim.profiles), live, verifThorough()) {
			if len(e.res.Hits) > 150 {
				break
			}
			if !h.syncLarge(pt) {
				return false
			}
		}
		return h.syncLarge(c15LargePoint{"none", -1, verifFaultGeneric, false})
	}
	if !round(newB, noNew, 100, nU) {
		return
	}
	if verifThorough() {
		round(oldB, noOld, 200, nU+30)
	}
}
