package main

// C05 — a session gains a factor only when its own user proves that factor.
//
// Histories by two users (alice = 1, bob = 2) over any number of sessions are run against the
// real handlers through the regenerated service mux, with
//   - an in-process fake Symantec VIP endpoint (TLS, the four SOAP calls the client makes),
//   - TOTP secrets held by the harness (time steps simulated by moving what the code reads),
//   - software U2F / WebAuthn authenticators (ECDSA P-256 keys held by the harness),
//   - bootstrap OTPs issued through the administrator's endpoint, CLI tokens through the real pages.
// After every step the (subject, level) of every auth cookie the server emitted is decoded.  The same
// operation lists are run by Model.Session inside Coq and must give the same per-step outputs; the
// harness keeps its own ghost record of who proved what and which one-time values were accepted.

import (
	"bytes"
	"crypto/ecdsa"
	"crypto/elliptic"
	"crypto/rand"
	"crypto/sha256"
	"crypto/tls"
	"crypto/x509"
	"crypto/x509/pkix"
	"encoding/base64"
	"encoding/binary"
	"encoding/json"
	"encoding/pem"
	"fmt"
	"io/ioutil"
	"math/big"
	mrand "math/rand"
	"net/http"
	"net/http/httptest"
	"net/url"
	"os"
	"path/filepath"
	"reflect"
	"regexp"
	"strconv"
	"strings"
	"sync"
	"testing"
	"time"
	"unsafe"

	"github.com/Cloud-Foundations/golib/pkg/log/nulllogger"
	"github.com/Cloud-Foundations/keymaster/lib/authenticators/okta"
	"github.com/Cloud-Foundations/keymaster/lib/paths"
	"github.com/Cloud-Foundations/keymaster/lib/pwauth"
	"github.com/duo-labs/webauthn/webauthn"
	"github.com/go-jose/go-jose/v4"
	"github.com/go-jose/go-jose/v4/jwt"
	"github.com/pquerna/otp/totp"
	"github.com/tstranex/u2f"
	"golang.org/x/crypto/bcrypt"
)

// ---------------------------------------------------------------- fake VIP service

type c05Vip struct {
	mu       sync.Mutex
	srv      *httptest.Server
	txUser   map[string]string
	approved map[string]bool
	nextTx   int
	lastTx   string
	asked    []string // users the service was asked about (OTP validation / push)
}

var (
	c05ReUser  = regexp.MustCompile(`<(?:vip:)?userId>([^<]*)</`)
	c05ReCred  = regexp.MustCompile(`<vip:credentialId>([^<]*)</`)
	c05ReOtp   = regexp.MustCompile(`<vip:otp>([^<]*)</`)
	c05ReTx    = regexp.MustCompile(`<transactionId>([^<]*)</`)
	c05UserIdx = map[string]int{"alice": 1, "bob": 2, "admin": 3}
)

func c05VipOtp(user int, good bool) int {
	if !good {
		return 999999
	}
	return 100000*user + 4242
}

func (v *c05Vip) reset() {
	v.mu.Lock()
	v.txUser, v.approved, v.nextTx, v.lastTx, v.asked = map[string]string{}, map[string]bool{}, 0, "", nil
	v.mu.Unlock()
}

func (v *c05Vip) handle(w http.ResponseWriter, r *http.Request) {
	b, _ := ioutil.ReadAll(r.Body)
	body := string(b)
	v.mu.Lock()
	defer v.mu.Unlock()
	env := func(inner string) {
		w.Header().Set("Content-Type", "text/xml")
		fmt.Fprintf(w, `<?xml version="1.0" encoding="UTF-8"?><S:Envelope xmlns:S="http://schemas.xmlsoap.org/soap/envelope/"><S:Body>%s</S:Body></S:Envelope>`, inner)
	}
	ns := `xmlns="https://schemas.symantec.com/vip/2011/04/vipuserservices"`
	switch {
	case strings.Contains(body, "GetUserInfoRequest"):
		user := c05ReUser.FindStringSubmatch(body)[1]
		v.asked = append(v.asked, user)
		env(fmt.Sprintf(`<GetUserInfoResponse %s><requestId>x</requestId><status>0000</status><statusMessage>Success</statusMessage><userId>%s</userId><userStatus>ACTIVE</userStatus><numBindings>1</numBindings><credentialBindingDetail><credentialId>TOK-%s</credentialId><credentialType>STANDARD_OTP</credentialType><credentialStatus>ENABLED</credentialStatus><bindingDetail><bindStatus>ENABLED</bindStatus></bindingDetail></credentialBindingDetail></GetUserInfoResponse>`, ns, user, user))
	case strings.Contains(body, "AuthenticateCredentialsRequest"):
		cred := c05ReCred.FindStringSubmatch(body)[1]
		otp, _ := strconv.Atoi(c05ReOtp.FindStringSubmatch(body)[1])
		user := strings.TrimPrefix(cred, "TOK-")
		status := "6009"
		if idx, ok := c05UserIdx[user]; ok && otp == c05VipOtp(idx, true) {
			status = "0000"
		}
		env(fmt.Sprintf(`<AuthenticateCredentialsResponse %s><requestId>x</requestId><status>%s</status><statusMessage>m</statusMessage></AuthenticateCredentialsResponse>`, ns, status))
	case strings.Contains(body, "AuthenticateUserWithPushRequest"):
		user := c05ReUser.FindStringSubmatch(body)[1]
		v.asked = append(v.asked, user)
		tx := fmt.Sprintf("TX%04d", v.nextTx)
		v.nextTx++
		v.txUser[tx] = user
		v.lastTx = tx
		env(fmt.Sprintf(`<AuthenticateUserWithPushResponse %s><requestId>x</requestId><status>6040</status><statusMessage>Mobile push request sent</statusMessage><transactionId>%s</transactionId></AuthenticateUserWithPushResponse>`, ns, tx))
	case strings.Contains(body, "PollPushStatusRequest"):
		tx := c05ReTx.FindStringSubmatch(body)[1]
		st := "7001"
		if v.approved[tx] {
			st = "7000"
		}
		env(fmt.Sprintf(`<PollPushStatusResponse %s><requestId>x</requestId><status>0000</status><statusMessage>Success</statusMessage><transactionStatus><transactionId>%s</transactionId><status>%s</status><statusMessage>m</statusMessage></transactionStatus></PollPushStatusResponse>`, ns, tx, st))
	default:
		http.Error(w, "unknown call", 400)
	}
}

// ---------------------------------------------------------------- fake Okta authn API

// The Okta authentication API as the authenticator of lib/authenticators/okta uses it: the primary call
// answers a password check with a NEW state token (MFA_REQUIRED, a TOTP and a push factor, expiresAt = now +
// c05OktaLife); factors/totp/verify accepts the pass code of the user the state token belongs to;
// factors/push/verify sends the push on the first call for a state token (WAITING), keeps answering WAITING
// until the owner approves, answers SUCCESS once, and refuses afterwards (the transaction is finished).
const c05OktaLife = 300

type c05Okta struct {
	mu        sync.Mutex
	srv       *httptest.Server
	nextTok   int
	tokUser   map[string]string
	userTok   map[string]string
	push      map[string]int // per state token: 0 not started, 1 waiting, 2 approved, 3 finished
	passwords map[string]string
}

func c05OktaCode(user int, good bool) int {
	if !good {
		return 888888
	}
	return 100000*user + 7373
}

func (o *c05Okta) reset() {
	o.mu.Lock()
	o.tokUser, o.userTok, o.push = map[string]string{}, map[string]string{}, map[string]int{}
	o.mu.Unlock()
}

func (o *c05Okta) pushState(user string) int {
	o.mu.Lock()
	defer o.mu.Unlock()
	return o.push[o.userTok[user]]
}

// the owner of the phone approves the push that is waiting for the user's current state token
func (o *c05Okta) approve(user string) bool {
	o.mu.Lock()
	defer o.mu.Unlock()
	tok, ok := o.userTok[user]
	if !ok || o.push[tok] != 1 {
		return false
	}
	o.push[tok] = 2
	return true
}

func (o *c05Okta) handle(w http.ResponseWriter, r *http.Request) {
	w.Header().Set("Content-Type", "application/json")
	o.mu.Lock()
	defer o.mu.Unlock()
	switch {
	case strings.HasSuffix(r.URL.Path, "/api/v1/authn"):
		var in okta.OktaApiLoginDataType
		json.NewDecoder(r.Body).Decode(&in)
		if pw, ok := o.passwords[in.Username]; !ok || pw != in.Password {
			w.WriteHeader(http.StatusUnauthorized)
			return
		}
		tok := fmt.Sprintf("st-%06d", o.nextTok)
		o.nextTok++
		o.tokUser[tok], o.userTok[in.Username], o.push[tok] = in.Username, tok, 0
		json.NewEncoder(w).Encode(okta.OktaApiPrimaryResponseType{StateToken: tok, Status: "MFA_REQUIRED",
			ExpiresAtString: time.Now().Add(c05OktaLife * time.Second).UTC().Format(time.RFC3339Nano),
			Embedded: okta.OktaApiEmbeddedDataResponseType{Factor: []okta.OktaApiMFAFactorsType{
				{Id: "totp", FactorType: "token:software:totp", VendorName: "OKTA"}, {Id: "push", FactorType: "push", VendorName: "OKTA"}}}})
	case strings.HasSuffix(r.URL.Path, "/factors/totp/verify"):
		var in okta.OktaApiVerifyTOTPFactorDataType
		json.NewDecoder(r.Body).Decode(&in)
		user, ok := o.tokUser[in.StateToken]
		if idx := c05UserIdx[user]; ok && idx != 0 && in.PassCode == fmt.Sprintf("%06d", c05OktaCode(idx, true)) {
			json.NewEncoder(w).Encode(okta.OktaApiPrimaryResponseType{Status: "SUCCESS"})
			return
		}
		w.WriteHeader(http.StatusForbidden)
	case strings.HasSuffix(r.URL.Path, "/factors/push/verify"):
		var in okta.OktaApiVerifyTOTPFactorDataType
		json.NewDecoder(r.Body).Decode(&in)
		if _, ok := o.tokUser[in.StateToken]; !ok {
			w.WriteHeader(http.StatusForbidden)
			return
		}
		switch o.push[in.StateToken] {
		case 0:
			o.push[in.StateToken] = 1
			json.NewEncoder(w).Encode(okta.OktaApiPushResponseType{Status: "MFA_CHALLENGE", FactorResult: "WAITING"})
		case 1:
			json.NewEncoder(w).Encode(okta.OktaApiPushResponseType{Status: "MFA_CHALLENGE", FactorResult: "WAITING"})
		case 2:
			o.push[in.StateToken] = 3
			json.NewEncoder(w).Encode(okta.OktaApiPushResponseType{Status: "SUCCESS"})
		default:
			w.WriteHeader(http.StatusForbidden)
		}
	default:
		http.Error(w, "unknown call", 400)
	}
}

// ---------------------------------------------------------------- software authenticators

type c05Key struct {
	priv      *ecdsa.PrivateKey
	keyHandle []byte
	counter   uint32
}

func c05NewKey(tag string) *c05Key {
	k, err := ecdsa.GenerateKey(elliptic.P256(), rand.Reader)
	if err != nil {
		panic(err)
	}
	return &c05Key{priv: k, keyHandle: []byte("verif-key-handle-" + tag)}
}

func (k *c05Key) point() []byte {
	return elliptic.Marshal(elliptic.P256(), k.priv.PublicKey.X, k.priv.PublicKey.Y)
}

// COSE_Key (EC2, ES256, P-256)
func (k *c05Key) cose() []byte {
	x := k.priv.PublicKey.X.FillBytes(make([]byte, 32))
	y := k.priv.PublicKey.Y.FillBytes(make([]byte, 32))
	b := []byte{0xa5, 0x01, 0x02, 0x03, 0x26, 0x20, 0x01, 0x21, 0x58, 0x20}
	b = append(b, x...)
	b = append(b, 0x22, 0x58, 0x20)
	return append(b, y...)
}

// a raw U2F registration response (what u2f.Registration serialises to)
func (k *c05Key) u2fRegistration(t *testing.T) *u2f.Registration {
	tmpl := &x509.Certificate{SerialNumber: big.NewInt(1), Subject: pkix.Name{CommonName: "verif attestation"},
		NotBefore: time.Now().Add(-time.Hour), NotAfter: time.Now().Add(24 * time.Hour)}
	der, err := x509.CreateCertificate(rand.Reader, tmpl, tmpl, &k.priv.PublicKey, k.priv)
	if err != nil {
		t.Fatal(err)
	}
	h := sha256.Sum256([]byte("registration"))
	sig, err := ecdsa.SignASN1(rand.Reader, k.priv, h[:])
	if err != nil {
		t.Fatal(err)
	}
	raw := []byte{0x05}
	raw = append(raw, k.point()...)
	raw = append(raw, byte(len(k.keyHandle)))
	raw = append(raw, k.keyHandle...)
	raw = append(raw, der...)
	raw = append(raw, sig...)
	var reg u2f.Registration
	if err := reg.UnmarshalBinary(raw); err != nil {
		t.Fatal(err)
	}
	return &reg
}

var c05B64 = base64.RawURLEncoding

// U2F sign response over the given challenge bytes
func (k *c05Key) u2fSign(appID string, challenge []byte) []byte {
	k.counter++
	clientData, _ := json.Marshal(map[string]string{"typ": "navigator.id.getAssertion", "challenge": c05B64.EncodeToString(challenge), "origin": appID})
	app := sha256.Sum256([]byte(appID))
	cd := sha256.Sum256(clientData)
	raw := []byte{1, byte(k.counter >> 24), byte(k.counter >> 16), byte(k.counter >> 8), byte(k.counter)}
	buf := append(append(append([]byte{}, app[:]...), raw...), cd[:]...)
	h := sha256.Sum256(buf)
	sig, err := ecdsa.SignASN1(rand.Reader, k.priv, h[:])
	if err != nil {
		panic(err)
	}
	body, _ := json.Marshal(u2f.SignResponse{KeyHandle: c05B64.EncodeToString(k.keyHandle),
		SignatureData: c05B64.EncodeToString(append(raw, sig...)), ClientData: c05B64.EncodeToString(clientData)})
	return body
}

// WebAuthn assertion over the given challenge bytes
func (k *c05Key) waSign(rpID, origin string, challenge []byte) []byte {
	k.counter++
	clientData, _ := json.Marshal(map[string]string{"type": "webauthn.get", "challenge": c05B64.EncodeToString(challenge), "origin": origin})
	rp := sha256.Sum256([]byte(rpID))
	authData := append(append([]byte{}, rp[:]...), 0x01, byte(k.counter>>24), byte(k.counter>>16), byte(k.counter>>8), byte(k.counter))
	cd := sha256.Sum256(clientData)
	h := sha256.Sum256(append(append([]byte{}, authData...), cd[:]...))
	sig, err := ecdsa.SignASN1(rand.Reader, k.priv, h[:])
	if err != nil {
		panic(err)
	}
	id := c05B64.EncodeToString(k.keyHandle)
	body, _ := json.Marshal(map[string]interface{}{"id": id, "rawId": id, "type": "public-key",
		"response": map[string]string{"authenticatorData": c05B64.EncodeToString(authData), "clientDataJSON": c05B64.EncodeToString(clientData), "signature": c05B64.EncodeToString(sig)}})
	return body
}

// ---------------------------------------------------------------- the world of one check run

type c05Devs struct{ totp, u2f, wa, profile bool }

// one configuration of a check run: the NAMES of the two users, what is enrolled for them, and the order in
// which their profile rows are written (the row written last is the last in the table's scan order)
type c05Config struct {
	tag   string
	names [3]string // index = model user id (1, 2)
	devs  map[int]c05Devs
	order []int
	okta  bool // the password backend is the Okta authenticator (else htpasswd)
}

func (c c05Config) class() string {
	switch {
	case c.okta:
		return "okta"
	case strings.HasPrefix(c.tag, "family"):
		return "family"
	}
	return "plain"
}

type c05Cookie struct {
	val        string
	sub, level int
	iatM, expM int64 // the iat / exp claims on the model's clock
}

type c05Tok struct {
	val   string
	owner int
	expM  int64
}

type c05World struct {
	t        *testing.T
	env      *verifEnv
	vip      *c05Vip
	res      *verifResult
	names    []string // index = model user id
	devs     map[int]c05Devs
	cfg      c05Config
	okta     *c05Okta
	oktaAuth *okta.PasswordAuthenticator
	htpasswd pwauth.PasswordAuthenticator
	oktaAt   map[int]int64 // model time of the user's last successful password check through Okta
	secret   map[int]string
	u2fKey   map[int]*c05Key
	waKey    map[int]*c05Key
	admin    *http.Cookie
	webui    int
	// per history
	cookies        []c05Cookie
	tokens         []c05Tok
	fresh          int
	nowM           int64
	txReal         map[int]string
	txOwner        map[int]int
	vcTx           map[int]int
	vcAt           map[int]int64  // model time at which the push transaction of that cookie value was started
	values         map[string]int // every one-time value ever handed out (challenge, bootstrap OTP, push transaction), by CONTENT -> id
	handed         int            // id of the one-time value the current operation handed out (-1: none)
	chalBytes      map[int][]byte
	chalOwner      map[int]int
	chalAt         map[int]int64
	curChal        map[int]int
	firstChal      map[int]int // the first challenge ever handed to the user
	otpVal         map[int]string
	otpOwner       map[int]int
	otpExp         map[int]int64
	curOtp         map[int]int
	proved         map[[2]int]bool
	provedAt       map[[2]int]int64 // model time of the latest verification of (user, factor)
	accepted       map[string]bool
	realStep       int64
	expiredSession bool                             // the last auth cookie attached to the current request is expired
	cert           int                              // the next request carries a verified keymaster client certificate of this user (0: none)
	fault          bool                             // profile writes fail during the next request
	cachedReq      bool                             // the next request is served while the primary database does not answer in time (fromCache)
	cachedWrote    bool                             // ... and the primary's user_profile table was different afterwards
	addr           int                              // the next request comes from this client address (index into c05Addrs; 0: where every request came from before)
	addrAt         map[int]int                      // position in w.ops -> client address of that request (absent: 0)
	chains         map[string][][]*x509.Certificate // by user name
	dirty          bool                             // stored profiles may differ from the pristine ones
	savedFor       int                              // configuration the stored profiles were written for
	cfgID          int
	ops            []string
	outs           []string
	human          []string
}

// The user-name family: names that are patterns of each other under the matchers of the layers a user name
// travels through — SQL LIKE (`_` one character, `%` any run), LDAP filters (`*`, parentheses, backslash
// escapes), regular expressions (`.`, `|`), paths (`/`, `..`).  Each pair is (an ordinary
// account, an account whose NAME matches the ordinary one when read as a pattern); the two have distinct
// secrets and devices.  Names are lower case (logins are normalised by reprocessUsername).
var c05Family = [][2]string{
	{"jadoe", "j_doe"},       // SQL LIKE _
	{"jxdoe", "j%"},          // SQL LIKE %
	{"j.doe", "j_doe"},       // both valid for the administrator's endpoints (bootstrap OTP)
	{"jdoe", "j*"},           // LDAP filter / glob
	{"jdoe", "jdoe)(uid=*"},  // LDAP filter syntax
	{"jdoe", `j\64oe`},       // LDAP escape of 'd'
	{"jadoe", "j.doe|jadoe"}, // regular expression
	{"jdoe", "x/../jdoe"},    // path
	// (blank padding — "jdoe " — cannot be an account: the htpasswd reader trims names)
}

func c05FamilyNames() []string {
	seen := map[string]bool{}
	var out []string
	for _, p := range c05Family {
		for _, n := range p {
			if !seen[n] {
				seen[n] = true
				out = append(out, n)
			}
		}
	}
	return out
}

var c05AdminNameRE = regexp.MustCompile(`^[A-Za-z0-9-_.]+$`)

// Configurations 0 and 1 are two users with unrelated names under two enrolments; the others run the name
// family with the profile rows written in both orders (the other account's row older / newer) and with the
// pattern-named user having no row at all.  A user whose name the administrator's endpoints refuse
// (adminHandlers.go ensurePostAndGetUsername) is given a TOTP or U2F device or no row, so that "no bootstrap
// OTP for this user" holds in the model for the model's own reason.
func c05Configs() []c05Config {
	full := c05Devs{totp: true, u2f: true, wa: true, profile: true}
	cs := []c05Config{
		{tag: "plain-a", names: [3]string{"", "alice", "bob"}, devs: map[int]c05Devs{1: {totp: true, u2f: true, profile: true}, 2: {wa: true, profile: true}}, order: []int{1, 2}},
		{tag: "plain-b", names: [3]string{"", "alice", "bob"}, devs: map[int]c05Devs{1: full, 2: {profile: true}}, order: []int{1, 2}},
	}
	for i, p := range c05Family {
		names := [3]string{"", p[0], p[1]}
		adminOK := c05AdminNameRE.MatchString(p[0]) && c05AdminNameRE.MatchString(p[1])
		switch {
		case adminOK && i%2 == 0:
			// device-less accounts: the bootstrap OTP of one in the session of the other, both row orders
			cs = append(cs, c05Config{tag: "family-" + p[1] + "-otp-older", names: names, devs: map[int]c05Devs{1: {profile: true}, 2: {profile: true}}, order: []int{1, 2}})
			cs = append(cs, c05Config{tag: "family-" + p[1] + "-otp-newer", names: names, devs: map[int]c05Devs{1: {wa: true, profile: true}, 2: {profile: true}}, order: []int{2, 1}})
			fallthrough
		default:
			// the other account's row older than the pattern-named user's own row
			cs = append(cs, c05Config{tag: "family-" + p[1] + "-older", names: names, devs: map[int]c05Devs{1: full, 2: {totp: true, wa: true, profile: true}}, order: []int{1, 2}})
			// ... newer
			cs = append(cs, c05Config{tag: "family-" + p[1] + "-newer", names: names, devs: map[int]c05Devs{1: full, 2: {totp: true, u2f: true, profile: true}}, order: []int{2, 1}})
			// ... and the pattern-named user without a row
			cs = append(cs, c05Config{tag: "family-" + p[1] + "-norow", names: names, devs: map[int]c05Devs{1: full, 2: {}}, order: []int{1}})
		}
	}
	// the Okta authenticator as password backend: every login goes to the (fake) Okta authn API, which is
	// also what the Okta second factor asks; once with plain names, once with a pair of the family
	cs = append(cs, c05Config{tag: "okta-plain", names: [3]string{"", "alice", "bob"}, devs: map[int]c05Devs{1: {totp: true, u2f: true, profile: true}, 2: {wa: true, profile: true}}, order: []int{1, 2}, okta: true})
	cs = append(cs, c05Config{tag: "okta-family", names: [3]string{"", "jadoe", "j_doe"}, devs: map[int]c05Devs{1: full, 2: {profile: true}}, order: []int{1, 2}, okta: true})
	return cs
}

func (w *c05World) use(configs []c05Config, ci int) {
	c := configs[ci]
	w.cfg, w.devs, w.cfgID = c, c.devs, ci
	w.names = []string{"", c.names[1], c.names[2], "admin"}
	c05UserIdx = map[string]int{c.names[1]: 1, c.names[2]: 2, "admin": 3}
	if c.okta {
		w.env.state.passwordChecker = w.oktaAuth
	} else {
		w.env.state.passwordChecker = w.htpasswd
	}
}

// recentAuth of the Okta authenticator (unexported, another package): the cached answers of the password checks
func (w *c05World) oktaCache() reflect.Value {
	f := reflect.ValueOf(w.oktaAuth).Elem().FieldByName("recentAuth")
	return reflect.NewAt(f.Type(), unsafe.Pointer(f.UnsafeAddr())).Elem()
}

func (w *c05World) clearOktaCache() {
	m := w.oktaCache()
	for _, key := range m.MapKeys() {
		m.SetMapIndex(key, reflect.Value{})
	}
}

// simulated time for the Okta authenticator: every cached answer expires d earlier
func (w *c05World) ageOkta(d time.Duration) {
	m := w.oktaCache()
	for _, key := range m.MapKeys() {
		nv := reflect.New(m.Type().Elem()).Elem()
		nv.Set(m.MapIndex(key))
		ef := nv.FieldByName("expires")
		ep := reflect.NewAt(ef.Type(), unsafe.Pointer(ef.UnsafeAddr())).Elem()
		ep.Set(reflect.ValueOf(ep.Interface().(time.Time).Add(-d)))
		m.SetMapIndex(key, nv)
	}
}

func (w *c05World) oktaValid(u int) bool {
	at, ok := w.oktaAt[u]
	return w.cfg.okta && ok && w.nowM < at+c05OktaLife
}

// A CLI token's expiry is a signed claim the harness cannot move: tokens that must stay valid live longer
// than the simulated time of any history (at most 20 ticks of an hour), tokens that must be expired are
// minted with lifetime 0.
const c05TokenLife = 1000000

const (
	c05PW, c05U2F, c05VIP, c05TOTP, c05BOOT, c05X509, c05CLI, c05FIDO2 = 1, 3, 4, 6, 8, 9, 10, 11
	c05OKTA                                                            = 7
)

var c05Factors = []int{1, 2, 3, 4, 5, 6, 7, 8, 9, 10, 11}

func (w *c05World) saveProfiles() {
	st := w.env.state
	// the table holds exactly the rows of this configuration, written in its order: the row written
	// last is the last one a table scan meets
	if _, err := st.db.Exec(`DELETE FROM user_profile`); err != nil {
		w.t.Fatalf("wiping user_profile: %v", err)
	}
	for _, u := range w.cfg.order {
		d := w.devs[u]
		if !d.profile {
			continue
		}
		// a user that was never stored: LoadUserProfile hands out the empty default profile
		p, _, _, err := st.LoadUserProfile("verif-nobody")
		if err != nil {
			w.t.Fatal(err)
		}
		p.WebauthnData = map[int64]*webauthAuthData{}
		if d.totp {
			enc, err := st.encryptWithPublicKeys([]byte(w.secret[u]))
			if err != nil {
				w.t.Fatal(err)
			}
			p.TOTPAuthData[1] = &totpAuthData{CreatedAt: time.Now(), EncryptedSecret: enc, Enabled: true}
		}
		if d.u2f {
			p.U2fAuthData[1] = &u2fAuthData{Enabled: true, CreatedAt: time.Now(), Registration: w.u2fKey[u].u2fRegistration(w.t)}
		}
		if d.wa {
			p.WebauthnData[1] = &webauthAuthData{Enabled: true, CreatedAt: time.Now(), Credential: webauthn.Credential{
				ID: w.waKey[u].keyHandle, PublicKey: w.waKey[u].cose(), AttestationType: "none",
				Authenticator: webauthn.Authenticator{AAGUID: make([]byte, 16)}}}
		}
		if err := st.SaveUserProfile(w.names[u], p); err != nil {
			w.t.Fatal(err)
		}
	}
}

func (w *c05World) reset() {
	st := w.env.state
	st.Mutex.Lock()
	st.vipPushCookie = map[string]pushPollTransaction{}
	st.localAuthData = map[string]localUserData{}
	st.Mutex.Unlock()
	st.totpLocalTateLimitMutex.Lock()
	st.totpLocalRateLimit = map[string]totpRateLimitInfo{}
	st.totpLocalTateLimitMutex.Unlock()
	w.vip.reset()
	if w.dirty || w.savedFor != w.cfgID {
		w.saveProfiles()
		w.dirty, w.savedFor = false, w.cfgID
	}
	w.cookies, w.tokens, w.fresh, w.nowM = nil, nil, 0, 0
	w.txReal, w.txOwner, w.vcTx = map[int]string{}, map[int]int{}, map[int]int{}
	w.vcAt = map[int]int64{}
	w.values, w.handed = map[string]int{}, -1
	w.oktaAt = map[int]int64{}
	w.okta.reset()
	w.clearOktaCache()
	w.firstChal = map[int]int{}
	w.chalBytes, w.chalOwner, w.chalAt, w.curChal = map[int][]byte{}, map[int]int{}, map[int]int64{}, map[int]int{}
	w.otpVal, w.otpOwner, w.otpExp, w.curOtp = map[int]string{}, map[int]int{}, map[int]int64{}, map[int]int{}
	w.proved, w.accepted = map[[2]int]bool{}, map[string]bool{}
	w.provedAt = map[[2]int]int64{}
	w.cert, w.fault = 0, false
	w.addr, w.addrAt = 0, map[int]int{}
	if w.chains == nil {
		w.chains = map[string][][]*x509.Certificate{}
	}
	w.realStep = time.Now().Unix() / 30
	w.ops, w.outs, w.human = nil, nil, nil
	w.tick(3000) // the model's clock starts at 0; every history starts at step 100
}

// ghost: factor f was verified for user u, now
func (w *c05World) prove(u, f int) {
	w.proved[[2]int{u, f}] = true
	w.provedAt[[2]int{u, f}] = w.nowM
}

// a signed token (auth cookie or CLI token) as it would be had it been minted dt seconds earlier: the
// same claims with iat / nbf / exp moved back, signed by the server's key the way jwt.go signs
func (w *c05World) remint(val string, dt int64) string {
	parts := strings.Split(val, ".")
	if len(parts) != 3 {
		return val
	}
	raw, err := base64.RawURLEncoding.DecodeString(parts[1])
	if err != nil {
		w.t.Fatalf("remint: %v", err)
	}
	claims := map[string]interface{}{}
	dec := json.NewDecoder(bytes.NewReader(raw))
	dec.UseNumber()
	if err := dec.Decode(&claims); err != nil {
		w.t.Fatalf("remint: %v", err)
	}
	for k, x := range claims { // go-jose's encoder does not know json.Number
		if n, ok := x.(json.Number); ok {
			v, err := n.Int64()
			if err != nil {
				w.t.Fatalf("remint: claim %s = %s", k, n)
			}
			claims[k] = v
		}
	}
	for _, k := range []string{"iat", "nbf", "exp", "auth_exp"} {
		if v, ok := claims[k].(int64); ok {
			claims[k] = v - dt
		}
	}
	st := w.env.state
	alg, err := publicToPreferedJoseSigAlgo(st.Signer.Public())
	if err != nil {
		w.t.Fatal(err)
	}
	signer, err := jose.NewSigner(jose.SigningKey{Algorithm: alg, Key: st.Signer}, (&jose.SignerOptions{}).WithType("JWT"))
	if err != nil {
		w.t.Fatal(err)
	}
	out, err := jwt.Signed(signer).Claims(claims).Serialize()
	if err != nil {
		w.t.Fatal(err)
	}
	return out
}

// ---- simulated time: move what the code reads
func (w *c05World) shiftTotp(steps int64) {
	if steps == 0 {
		return
	}
	st := w.env.state
	// the step of the last success that validateUserTOTP keeps in memory (if this tree has one)
	st.totpLocalTateLimitMutex.Lock()
	for u, e := range st.totpLocalRateLimit {
		if f := reflect.ValueOf(&e).Elem().FieldByName("lastSuccessCounter"); f.IsValid() && f.Kind() == reflect.Int64 {
			if p := (*int64)(unsafe.Pointer(f.UnsafeAddr())); *p != 0 {
				*p -= steps
				st.totpLocalRateLimit[u] = e
			}
		}
	}
	st.totpLocalTateLimitMutex.Unlock()
	for u := 1; u <= 2; u++ {
		if !w.devs[u].profile {
			continue
		}
		p, ok, _, err := st.LoadUserProfile(w.names[u])
		if err != nil || !ok {
			continue
		}
		if p.LastSuccessfullTOTPCounter != 0 {
			p.LastSuccessfullTOTPCounter -= steps
			st.SaveUserProfile(w.names[u], p)
			w.dirty = true
		}
	}
}

func (w *c05World) tick(dt int64) {
	w.ops = append(w.ops, fmt.Sprintf("Tick %d", dt))
	w.outs = append(w.outs, "(true, None, None)")
	w.human = append(w.human, fmt.Sprintf("Tick(%ds)", dt))
	if dt <= 0 {
		return
	}
	w.nowM += dt
	if len(w.ops) == 1 {
		return // the initial offset: nothing exists yet
	}
	st := w.env.state
	d := time.Duration(dt) * time.Second
	// what the clients hold: every auth cookie and CLI token ages by dt
	for i := range w.cookies {
		w.cookies[i].val = w.remint(w.cookies[i].val, dt)
		if info, err := st.getAuthInfoFromAuthJWT(w.cookies[i].val); err != nil || info.AuthType != w.cookies[i].level || c05UserIdx[info.Username] != w.cookies[i].sub {
			w.t.Fatalf("re-signed cookie does not verify as before: %v %+v", err, info)
		}
	}
	for i := range w.tokens {
		w.tokens[i].val = w.remint(w.tokens[i].val, dt)
	}
	w.shiftTotp(dt / 30)
	for u := 1; u <= 2; u++ {
		if !w.devs[u].profile {
			continue
		}
		p, ok, _, err := st.LoadUserProfile(w.names[u])
		if err == nil && ok && len(p.BootstrapOTP.Sha512Hash) > 0 {
			p.BootstrapOTP.ExpiresAt = p.BootstrapOTP.ExpiresAt.Add(-d)
			st.SaveUserProfile(w.names[u], p)
			w.dirty = true
		}
	}
	w.ageOkta(d)
	st.Mutex.Lock()
	for v, e := range st.vipPushCookie {
		e.ExpiresAt = e.ExpiresAt.Add(-d)
		st.vipPushCookie[v] = e
	}
	for u, la := range st.localAuthData {
		la.ExpiresAt = la.ExpiresAt.Add(-d)
		if la.U2fAuthChallenge != nil {
			c := *la.U2fAuthChallenge
			c.Timestamp = c.Timestamp.Add(-d)
			la.U2fAuthChallenge = &c
		}
		st.localAuthData[u] = la
	}
	st.Mutex.Unlock()
}

// keep the model's TOTP step fixed while real time crosses a 30 s boundary; stay off the boundary
func (w *c05World) syncRealStep() {
	for {
		now := time.Now()
		if rem := 30*time.Second - time.Duration(now.UnixNano()%int64(30*time.Second)); rem < 150*time.Millisecond {
			time.Sleep(rem + 20*time.Millisecond)
			continue
		}
		r := now.Unix() / 30
		if r != w.realStep {
			w.shiftTotp(-(r - w.realStep)) // the stored counter keeps its distance to "now"
			w.realStep = r
		}
		return
	}
}

func (w *c05World) modelStep() int64 { return w.nowM / 30 }

// ---- requests
// attach the cookies (and the client certificate, if one is pending); returns whom checkAuth will
// authenticate the request as: with a mask that admits certificates the certificate's user at level
// KeymasterX509, else the user of the LAST cookie attached
func (w *c05World) attachMask(req *http.Request, cs []int, anyMask bool) (sessionUser int, sessionLevel int) {
	w.expiredSession = false
	for _, i := range cs {
		w.expiredSession = false
		if i >= 0 && i < len(w.cookies) {
			req.AddCookie(&http.Cookie{Name: authCookieName, Value: w.cookies[i].val})
			sessionUser, sessionLevel = w.cookies[i].sub, w.cookies[i].level // the last one attached names the session
			if w.cookies[i].expM <= w.nowM {
				sessionUser, sessionLevel = 0, 0 // ... unless it has expired
				w.expiredSession = true
				w.res.bump("request:expired-cookie-attached")
			}
		} else {
			// an index that names nothing issued: a value that does not verify
			req.AddCookie(&http.Cookie{Name: authCookieName, Value: "eyJhbGciOiJFUzI1NiIsInR5cCI6IkpXVCJ9.eyJzdWIiOiJqdW5rIn0.anVuaw"})
			sessionUser, sessionLevel = 0, 0
			w.res.bump("request:junk-cookie-attached")
		}
	}
	if len(cs) > 1 {
		w.res.bump("request:several-auth-cookies")
	}
	if w.cert != 0 {
		ch, ok := w.chains[w.names[w.cert]]
		if !ok {
			ch = w.env.keymasterChain(w.names[w.cert], time.Now().Add(-time.Minute), &w.u2fKey[1].priv.PublicKey)
			w.chains[w.names[w.cert]] = ch
		}
		withTLS(req, ch, "")
		w.prove(w.cert, c05X509) // presenting the certificate proves its key
		if anyMask {
			sessionUser, sessionLevel = w.cert, 1<<c05X509
		}
	}
	return
}

func (w *c05World) attach(req *http.Request, cs []int) (int, int) { return w.attachMask(req, cs, true) }

// the Coq / human text of the operation with its request modifiers
func (w *c05World) wrap(coq, human string) (string, string) {
	if w.addr != 0 { // the operation is about to be appended to w.ops: remember where its request came from
		w.addrAt[len(w.ops)] = w.addr
		human = "from(" + c05Addrs[w.addr].String() + ")+" + human
		w.res.bump("request:from-another-address")
	}
	if w.cachedReq {
		return fmt.Sprintf("Cached (%s)", coq), "cached+" + human
	}
	if w.cert == 0 && !w.fault {
		return coq, human
	}
	c := "None"
	if w.cert != 0 {
		c = fmt.Sprintf("(Some %d%%N)", w.cert)
		human = "cert(" + w.names[w.cert] + ")+" + human
	}
	if w.fault {
		human = "write-fault+" + human
	}
	return fmt.Sprintf("Req %s %s (%s)", c, coqBool(w.fault), coq), human
}

// run one operation as a request with a client certificate and/or failing profile writes
func (w *c05World) with(cert int, fault bool, f func()) {
	w.cert, w.fault = cert, fault
	f()
	w.cert, w.fault = 0, false
}

// The client address of a request: what the handlers see as r.RemoteAddr, and what a proxy (or the client itself)
// wrote into the forwarding headers.  For the model the address is carried next to the operation and ignored
// (Model.SessionAddr); the numbers are the model's addresses.
type c05Addr struct {
	remote string
	hdr    [][2]string
}

var c05Addrs = []c05Addr{
	{remote: "10.1.2.3:34567"},      // 0: where every request of the harness came from before
	{remote: "198.51.100.77:40000"}, // another host
	{remote: "10.1.2.3:50001"},      // the same host, another port
	{remote: "[2001:db8::5]:443"},   // IPv6
	{remote: "10.1.2.3:34567", hdr: [][2]string{{"X-Forwarded-For", "203.0.113.9"}}},
	{remote: "10.1.2.3:34567", hdr: [][2]string{{"X-Real-IP", "203.0.113.10"}}},
	{remote: "10.1.2.3:34567", hdr: [][2]string{{"Forwarded", "for=203.0.113.11;proto=https"}}},
	// through a local proxy (lib/util GetRequestRealIp believes the headers of a request from 127.0.0.1)
	{remote: "127.0.0.1:5555", hdr: [][2]string{{"X-Forwarded-For", "203.0.113.12, 10.0.0.1"}, {"X-Real-IP", "203.0.113.12"}}},
}

func (a c05Addr) String() string {
	out := a.remote
	for _, h := range a.hdr {
		out += " " + h[0] + ": " + h[1]
	}
	return out
}

// run one operation as a request coming from client address a
func (w *c05World) from(a int, f func()) {
	old := w.addr
	w.addr = a
	f()
	w.addr = old
}

// run one operation as a request during which every profile read is served from the cache database
func (w *c05World) cached(f func()) {
	w.cachedReq = true
	f()
	w.cachedReq = false
}

func (w *c05World) profileRows() string {
	rows, err := w.env.state.db.Query(`SELECT username, profile_data FROM user_profile ORDER BY username`)
	if err != nil {
		w.t.Fatalf("reading user_profile: %v", err)
	}
	defer rows.Close()
	var sb strings.Builder
	for rows.Next() {
		var n string
		var b []byte
		if err := rows.Scan(&n, &b); err != nil {
			w.t.Fatal(err)
		}
		sb.WriteString(fmt.Sprintf("%q:%x;", n, sha256.Sum256(b)))
	}
	return sb.String()
}

func c05CoqList(cs []int) string {
	var parts []string
	for _, i := range cs {
		parts = append(parts, fmt.Sprintf("%d%%nat", i))
	}
	return "[" + strings.Join(parts, ";") + "]"
}

var c05ReJWT = regexp.MustCompile(`eyJ[A-Za-z0-9_-]+\.[A-Za-z0-9_-]+\.[A-Za-z0-9_-]+`)

// every auth cookie the response carries (Set-Cookie or the CLI redirect)
func (w *c05World) emitted(rr *httptest.ResponseRecorder) []c05Cookie {
	var out []c05Cookie
	var vals []string
	for _, c := range rr.Result().Cookies() {
		if c.Name == authCookieName && c.Value != "" {
			vals = append(vals, c.Value)
		}
	}
	if loc := rr.Header().Get("Location"); strings.Contains(loc, "auth_cookie=") {
		if u, err := url.Parse(loc); err == nil {
			if v := u.Query().Get("auth_cookie"); v != "" {
				vals = append(vals, v)
			}
		}
	}
	for _, v := range vals {
		info, err := w.env.state.getAuthInfoFromAuthJWT(v)
		if err != nil {
			w.res.hit(verifHit{Key: "C05:harness:undecodable-cookie", Oracle: "harness", What: "the server emitted an auth cookie that does not verify: " + err.Error(), Case: w.human})
			continue
		}
		c := c05Cookie{val: v, sub: c05UserIdx[info.Username], level: info.AuthType}
		// the iat claim on the model's clock: the instant of one of the sessions that exist (cookies keep
		// their iat when re-signed) or now; real time passes while a history runs, hence the snapping
		rawIat := w.nowM - (time.Now().Unix() - info.IssuedAt.Unix())
		best, found := int64(0), false
		cands := []int64{w.nowM}
		for _, o := range w.cookies {
			cands = append(cands, o.iatM)
		}
		for _, cand := range cands {
			if d := cand - rawIat; d >= -14 && d <= 14 && (!found || abs64(d) < abs64(best-rawIat)) {
				best, found = cand, true
			}
		}
		if !found {
			w.res.hit(verifHit{Key: "C05:harness:cookie-iat", Oracle: "harness", What: fmt.Sprintf("emitted cookie with iat %d s (model clock %d) that is neither now nor the iat of an issued cookie", rawIat, w.nowM), Case: w.human})
			best = rawIat
		}
		c.iatM = best
		c.expM = c.iatM + (info.ExpiresAt.Unix() - info.IssuedAt.Unix())
		// a CLI cookie lives as long as its token ("time.Until(exp)" truncates the real remainder), and a
		// re-signed cookie keeps the exp of the one it was made from
		expCands := []int64{}
		for _, tk := range w.tokens {
			expCands = append(expCands, tk.expM)
		}
		for _, o := range w.cookies {
			if o.iatM == c.iatM && o.sub == c.sub {
				expCands = append(expCands, o.expM)
			}
		}
		for _, cand := range expCands {
			if d := cand - c.expM; d > 0 && d <= 14 {
				c.expM = cand
				break
			}
		}
		out = append(out, c)
	}
	return out
}

func abs64(x int64) int64 {
	if x < 0 {
		return -x
	}
	return x
}

// record the step; evaluate the oracles on what was emitted
func (w *c05World) record(kind, coqOp, human string, sessionUser int, ok bool, em []c05Cookie) {
	coqOp, human = w.wrap(coqOp, human)
	if w.cert != 0 {
		w.res.bump("request:with-certificate")
	}
	if w.fault {
		w.res.bump("request:write-fault")
	}
	if w.cachedWrote {
		w.res.hit(verifHit{Key: "C05:cached-write:" + kind, Oracle: "a request served from the cache writes no profile back", Kind: "history",
			What: fmt.Sprintf("%s was served from the cache database and the primary's user_profile table changed", kind), Case: append(append([]string{}, w.human...), human)})
		w.cachedWrote = false
	}
	w.ops = append(w.ops, coqOp)
	w.human = append(w.human, human)
	out := "None"
	if len(em) > 0 {
		out = fmt.Sprintf("Some (%d%%N, %d%%N, %d%%Z, %d%%Z)", em[0].sub, em[0].level, em[0].iatM, em[0].expM)
	}
	if len(em) > 1 {
		w.res.hit(verifHit{Key: "C05:harness:two-cookies:" + kind, Oracle: "harness", What: "one response carried two auth cookies", Case: w.human})
	}
	w.outs = append(w.outs, fmt.Sprintf("(%s, %s, %s)", coqBool(ok), out, w.handedCoq()))
	for _, c := range em {
		w.cookies = append(w.cookies, c)
		for _, f := range c05Factors {
			if c.level&(1<<uint(f)) != 0 && !w.proved[[2]int{c.sub, f}] {
				w.res.hit(verifHit{Key: fmt.Sprintf("C05:unproved-factor:%s:f%d", kind, f), Oracle: "every factor in an issued cookie was proved for the cookie's own user",
					Kind: "history", What: fmt.Sprintf("%s emitted a cookie for %s with level %#x although %s never proved factor bit %d", kind, w.names[c.sub], c.level, w.names[c.sub], f),
					Case: append([]string{}, w.human...), Observed: map[string]interface{}{"subject": w.names[c.sub], "level": c.level}})
			}
		}
		// ... and verified during the session the cookie belongs to: not before its iat
		for _, f := range c05Factors {
			if at, ok := w.provedAt[[2]int{c.sub, f}]; c.level&(1<<uint(f)) != 0 && ok && at < c.iatM {
				w.res.hit(verifHit{Key: fmt.Sprintf("C05:stale-factor:%s:f%d", kind, f), Oracle: "a session gains a factor only by a verification made during that session (not before its iat)",
					Kind: "history", What: fmt.Sprintf("%s emitted a cookie for %s with level %#x and iat %d: factor bit %d was last verified for %s at %d, before that session began", kind, w.names[c.sub], c.level, c.iatM, f, w.names[c.sub], at),
					Case: append([]string{}, w.human...), Observed: map[string]interface{}{"subject": w.names[c.sub], "level": c.level, "iat": c.iatM, "verified_at": at}})
			}
		}
		if !strings.HasPrefix(kind, "Login") && sessionUser != 0 && c.sub != sessionUser {
			w.res.hit(verifHit{Key: "C05:subject-changed:" + kind, Oracle: "a request of one user's session never yields a cookie for another user",
				Kind: "history", What: fmt.Sprintf("%s in a session of %s emitted a cookie for %s", kind, w.names[sessionUser], w.names[c.sub]), Case: append([]string{}, w.human...)})
		}
	}
	if w.expiredSession && w.cert == 0 && !strings.HasPrefix(kind, "Login") && (len(em) > 0 || (ok && kind != "Logout")) {
		w.res.hit(verifHit{Key: "C05:expired:cookie:" + kind, Oracle: "an expired session cookie never works", Kind: "history",
			What: fmt.Sprintf("%s succeeded although the auth cookie checkAuth looks at (the last one) is past its exp claim", kind), Case: append([]string{}, w.human...)})
	}
	w.expiredSession = false
	w.res.bump("op:" + kind)
	if len(em) > 0 {
		w.res.bump("upgrade:" + kind)
	}
}

func (w *c05World) acceptOnce(kind, value string, expired bool, em []c05Cookie) {
	if len(em) == 0 {
		return
	}
	if w.accepted[value] {
		w.res.hit(verifHit{Key: "C05:onetime:" + kind, Oracle: "an accepted one-time value is never accepted again", Kind: "history",
			What: fmt.Sprintf("%s accepted the one-time value %s a second time", kind, value), Case: append([]string{}, w.human...)})
	}
	w.accepted[value] = true
	if expired {
		w.res.hit(verifHit{Key: "C05:expired:" + kind, Oracle: "an expired one-time value never works", Kind: "history",
			What: fmt.Sprintf("%s accepted the expired value %s", kind, value), Case: append([]string{}, w.human...)})
	}
}

func (w *c05World) serve(req *http.Request) *httptest.ResponseRecorder {
	// the one place every request of a history passes: where it comes from
	req.RemoteAddr = c05Addrs[w.addr].remote
	for _, h := range c05Addrs[w.addr].hdr {
		req.Header.Set(h[0], h[1])
	}
	if w.fault {
		// the primary database stays readable but refuses profile writes for the time of this request
		if _, err := w.env.state.db.Exec(`CREATE TRIGGER IF NOT EXISTS verif_write_fault BEFORE INSERT ON user_profile BEGIN SELECT RAISE(FAIL, 'verif: write fault'); END`); err != nil {
			w.t.Fatalf("fault trigger: %v", err)
		}
		defer func() {
			time.Sleep(5 * time.Millisecond)
			if _, err := w.env.state.db.Exec(`DROP TRIGGER IF EXISTS verif_write_fault`); err != nil {
				w.t.Fatalf("fault trigger: %v", err)
			}
		}()
	}
	if w.cachedReq {
		// the cache is an up-to-date copy; the primary does not answer within the (zero) deadline, so every
		// LoadUserProfile of this request takes its cache branch
		st := w.env.state
		if err := copyDBIntoSQLite(st.db, st.cacheDB, "sqlite"); err != nil {
			w.t.Fatalf("copying into the cache: %v", err)
		}
		before := w.profileRows()
		old := st.remoteDBQueryTimeout
		st.remoteDBQueryTimeout = 0
		rr, _ := w.env.serve(req)
		time.Sleep(15 * time.Millisecond) // late readers of the primary and asynchronous saves
		st.remoteDBQueryTimeout = old
		w.cachedWrote = w.profileRows() != before
		w.res.bump("request:from-cache")
		return rr
	}
	rr, _ := w.env.serve(req)
	return rr
}

// ---- the operations
func (w *c05World) login(u int, ok bool) { w.loginWith(u, ok, nil) }

// a password login whose request also carries auth_cookie values (cs: positions in the list of everything the
// server issued, as for every other request; an index that names nothing issued is a value that does not verify).
// None of them is a credential of the login: the oracles of `record` (every factor of the emitted cookie proved
// for its user, and not before the cookie's iat) are applied to the Set-Cookie of the answer under the kind
// "LoginWithCookie".
func (w *c05World) loginWith(u int, ok bool, cs []int) {
	pw := w.names[u] + "pw"
	if !ok {
		pw = "wrong"
	}
	f := url.Values{}
	f.Set("username", w.names[u])
	f.Set("password", pw)
	req := verifNewRequest("POST", "/api/v0/login", f)
	kind, human := "Login", fmt.Sprintf("Login(%s,%v)", w.names[u], ok)
	if len(cs) > 0 {
		kind = "LoginWithCookie"
		var what []string
		for _, i := range cs {
			if i >= 0 && i < len(w.cookies) {
				c := w.cookies[i]
				req.AddCookie(&http.Cookie{Name: authCookieName, Value: c.val})
				whose, state := "own", "valid"
				if c.sub != u {
					whose = "other-user"
				}
				if c.expM <= w.nowM {
					state = "expired"
				}
				level := "password-only"
				if c.level&^(1<<c05PW) != 0 {
					level = "with-further-factors"
				}
				w.res.bump("login-attached:" + whose + ":" + state + ":" + level)
				what = append(what, fmt.Sprintf("%d=%s/%s cookie of %s level %#x", i, whose, state, w.names[c.sub], c.level))
			} else {
				req.AddCookie(&http.Cookie{Name: authCookieName, Value: "eyJhbGciOiJFUzI1NiIsInR5cCI6IkpXVCJ9.eyJzdWIiOiJqdW5rIn0.anVuaw"})
				w.res.bump("login-attached:junk")
				what = append(what, fmt.Sprintf("%d=junk", i))
			}
		}
		if len(cs) > 1 {
			w.res.bump("login-attached:several")
		}
		human = fmt.Sprintf("Login(%s,%v)[attached auth_cookie: %s]", w.names[u], ok, strings.Join(what, ", "))
	}
	if w.cert != 0 {
		w.attachMask(req, nil, true) // the client certificate of the request modifier (no credential of the login either)
	}
	rr := w.serve(req)
	em := w.emitted(rr)
	if ok {
		w.prove(u, c05PW)
		if w.cfg.okta && len(em) > 0 {
			w.oktaAt[u] = w.nowM // a new state token, cached for c05OktaLife seconds
		}
	}
	w.record(kind, fmt.Sprintf("Login %d %s %s", u, coqBool(ok), c05CoqList(cs)), human, 0, rr.Code < 400, em)
}

func (w *c05World) logout(cs []int) {
	req := verifNewRequest("GET", logoutPath, nil)
	su, _ := w.attach(req, cs)
	rr := w.serve(req)
	w.record("Logout", "Logout "+c05CoqList(cs), fmt.Sprintf("Logout%v", cs), su, true, w.emitted(rr))
}

func (w *c05World) vipOtp(cs []int, owner int, good bool) {
	f := url.Values{}
	f.Set("OTP", fmt.Sprintf("%06d", c05VipOtp(owner, good)))
	req := verifNewRequest("POST", vipAuthPath, f)
	su, _ := w.attach(req, cs)
	if good && su == owner {
		w.prove(owner, c05VIP)
	}
	rr := w.serve(req)
	code := "VBad"
	if good {
		code = fmt.Sprintf("(VGood %d)", owner)
	}
	w.record("VipOtp", fmt.Sprintf("VipOtp %s %s", c05CoqList(cs), code), fmt.Sprintf("VipOtp%v(code of %s, good=%v)", cs, w.names[owner], good), su, rr.Code < 400, w.emitted(rr))
}

func (w *c05World) pushStart(cs []int, vc int) {
	req := verifNewRequest("POST", vipPushStartPath, url.Values{})
	su, _ := w.attach(req, cs)
	req.AddCookie(&http.Cookie{Name: vipTransactionCookieName, Value: fmt.Sprintf("vc%d", vc)})
	w.vip.mu.Lock()
	before := w.vip.nextTx
	w.vip.mu.Unlock()
	rr := w.serve(req)
	ok := rr.Code < 400
	w.vip.mu.Lock()
	started := w.vip.nextTx > before
	last, lastUser := w.vip.lastTx, ""
	if started {
		lastUser = w.vip.txUser[last]
	}
	w.vip.mu.Unlock()
	if ok && started {
		id, isNew := w.valueID("PushStart", []byte("vip-transaction:"+last))
		if isNew {
			w.txReal[id] = last
			w.txOwner[id] = c05UserIdx[lastUser]
		}
		w.vcTx[vc] = id
		w.vcAt[vc] = w.nowM
	} else if ok != started {
		w.res.hit(verifHit{Key: "C05:harness:pushstart", Oracle: "harness", What: fmt.Sprintf("push start answered %d, transaction started=%v", rr.Code, started), Case: w.human})
	}
	w.record("PushStart", fmt.Sprintf("PushStart %s %d", c05CoqList(cs), vc), fmt.Sprintf("PushStart%v(vc%d)", cs, vc), su, ok, w.emitted(rr))
}

func (w *c05World) approve(tx int) {
	if real, ok := w.txReal[tx]; ok {
		w.vip.mu.Lock()
		w.vip.approved[real] = true
		w.vip.mu.Unlock()
		// the owner of the phone approves: that user has proved the factor
		w.prove(w.txOwner[tx], c05VIP)
	}
	w.ops = append(w.ops, fmt.Sprintf("Approve %d", tx))
	w.outs = append(w.outs, "(true, None, None)")
	w.human = append(w.human, fmt.Sprintf("Approve(tx%d)", tx))
	w.res.bump("op:Approve")
}

func (w *c05World) poll(cs []int, vc int) {
	req := verifNewRequest("POST", vipPollCheckPath, url.Values{})
	su, _ := w.attach(req, cs)
	req.AddCookie(&http.Cookie{Name: vipTransactionCookieName, Value: fmt.Sprintf("vc%d", vc)})
	// the service confirms now that the user it sent the push to has approved
	if tx, ok := w.vcTx[vc]; ok && su != 0 && w.txOwner[tx] == su && w.nowM < w.vcAt[vc]+int64(maxAgeSecondsVIPCookie) {
		w.vip.mu.Lock()
		approved := w.vip.approved[w.txReal[tx]]
		w.vip.mu.Unlock()
		if approved {
			w.prove(su, c05VIP)
		}
	}
	rr := w.serve(req)
	em := w.emitted(rr)
	if at, ok := w.vcAt[vc]; ok && len(em) > 0 && w.nowM >= at+int64(maxAgeSecondsVIPCookie) {
		w.res.hit(verifHit{Key: "C05:expired:Poll", Oracle: "an expired one-time value never works", Kind: "history",
			What: fmt.Sprintf("a push transaction started %d s ago (lifetime %d s) still raised the level", w.nowM-at, int64(maxAgeSecondsVIPCookie)), Case: append(append([]string{}, w.human...), fmt.Sprintf("Poll%v(vc%d)", cs, vc))})
	}
	w.record("Poll", fmt.Sprintf("Poll %s %d", c05CoqList(cs), vc), fmt.Sprintf("Poll%v(vc%d)", cs, vc), su, rr.Code < 400, em)
}

// owner = 0: a code that matches nothing
func (w *c05World) totp(cs []int, owner int, step int64) {
	w.syncRealStep()
	st := w.env.state
	var code string
	coq, human := "TBad", "garbage"
	if owner != 0 {
		at := time.Unix((w.realStep+(step-w.modelStep()))*30+7, 0)
		code, _ = totp.GenerateCode(w.secret[owner], at)
		coq = fmt.Sprintf("(TCode %d %d)", owner, step)
		human = fmt.Sprintf("code of %s for step %d, now step %d", w.names[owner], step, w.modelStep())
	} else {
		code = fmt.Sprintf("%06d", c05Garbage(w.secret[1], w.secret[2]))
	}
	// adjacent steps whose codes coincide (1 in 10^6) would make "which step matched" ambiguous
	if owner != 0 {
		for d := int64(-1); d <= 1; d++ {
			s2 := w.modelStep() + d
			if s2 == step {
				continue
			}
			other, _ := totp.GenerateCode(w.secret[owner], time.Unix((w.realStep+d)*30+7, 0))
			if other == code {
				w.res.bump("totp:code-collision-skipped")
				return
			}
		}
	}
	st.totpLocalTateLimitMutex.Lock()
	for u, e := range st.totpLocalRateLimit { // C14's subject; here every attempt is evaluated (what else the entry remembers stays)
		e.lastCheckTime, e.failCount, e.lastFailTime, e.lockoutExpirationTime = time.Time{}, 0, time.Time{}, time.Time{}
		st.totpLocalRateLimit[u] = e
	}
	st.totpLocalTateLimitMutex.Unlock()
	f := url.Values{}
	f.Set("OTP", code)
	req := verifNewRequest("POST", totpAuthPath, f)
	su, _ := w.attach(req, cs)
	inWindow := step >= w.modelStep()-1 && step <= w.modelStep()+1
	if owner != 0 && owner == su && inWindow && w.devs[su].totp {
		w.prove(owner, c05TOTP)
	}
	rr := w.serve(req)
	em := w.emitted(rr)
	w.dirty = true
	w.record("Totp", fmt.Sprintf("Totp %s %s", c05CoqList(cs), coq), fmt.Sprintf("Totp%v(%s)", cs, human), su, rr.Code < 400, em)
	if owner != 0 {
		w.acceptOnce("Totp", fmt.Sprintf("totp:%d:%d", owner, step), step < w.modelStep()-1, em)
	}
}

func (w *c05World) u2fBegin(cs []int) {
	req := verifNewRequest("GET", u2fSignRequestPath, nil)
	su, _ := w.attach(req, cs)
	rr := w.serve(req)
	ok := rr.Code == 200
	if ok {
		var sr u2f.WebSignRequest
		if err := json.Unmarshal(rr.Body.Bytes(), &sr); err != nil {
			w.t.Fatalf("sign request: %v %s", err, rr.Body.String())
		}
		ch, _ := c05B64.DecodeString(sr.Challenge)
		w.newChallenge("U2fBegin", su, ch)
	}
	w.record("U2fBegin", "U2fBegin "+c05CoqList(cs), fmt.Sprintf("U2fBegin%v", cs), su, ok, w.emitted(rr))
}

func (w *c05World) waBegin(cs []int) {
	req := verifNewRequest("GET", webAuthnAuthBeginPath, nil)
	su, _ := w.attach(req, cs)
	rr := w.serve(req)
	ok := rr.Code == 200
	if ok {
		var opts struct {
			PublicKey struct {
				Challenge string `json:"challenge"`
			} `json:"publicKey"`
		}
		if err := json.Unmarshal(rr.Body.Bytes(), &opts); err != nil || opts.PublicKey.Challenge == "" {
			w.t.Fatalf("webauthn options: %v %s", err, rr.Body.String())
		}
		// protocol.Challenge is a plain byte slice for encoding/json: standard base64
		ch, err := base64.StdEncoding.DecodeString(opts.PublicKey.Challenge)
		if err != nil {
			ch, err = c05B64.DecodeString(strings.TrimRight(opts.PublicKey.Challenge, "="))
		}
		if err != nil {
			w.t.Fatalf("webauthn challenge %q: %v", opts.PublicKey.Challenge, err)
		}
		w.newChallenge("WaBegin", su, ch)
	}
	w.record("WaBegin", "WaBegin "+c05CoqList(cs), fmt.Sprintf("WaBegin%v", cs), su, ok, w.emitted(rr))
}

// One-time values are identified by CONTENT: every challenge / bootstrap OTP / push transaction the server
// has ever handed out in this history is kept with the id of its FIRST appearance.  Bytes seen before are the
// same value — same id, same first issue time (hence the same original expiry) —, whichever operation
// "created" them this time.
func (w *c05World) valueID(kind string, content []byte) (id int, isNew bool) {
	key := fmt.Sprintf("%x", content)
	if id, ok := w.values[key]; ok {
		w.handed = id
		w.res.bump("value:handed-out-again:" + kind)
		return id, false
	}
	id = w.fresh
	w.fresh++
	w.values[key] = id
	w.handed = id
	w.res.bump("value:new:" + kind)
	return id, true
}

// the observation of the step: which one-time value was handed out
func (w *c05World) handedCoq() string {
	h := w.handed
	w.handed = -1
	if h < 0 {
		return "None"
	}
	return fmt.Sprintf("Some %d", h)
}

func (w *c05World) newChallenge(kind string, user int, ch []byte) {
	id, isNew := w.valueID(kind, ch)
	if isNew {
		w.chalBytes[id], w.chalOwner[id], w.chalAt[id] = ch, user, w.nowM
		if _, ok := w.firstChal[user]; !ok {
			w.firstChal[user] = id
		}
	}
	w.curChal[user] = id // what is pending for the user now
}

func (w *c05World) key(owner int, wa bool) *c05Key {
	if wa {
		return w.waKey[owner]
	}
	return w.u2fKey[owner]
}

// an assertion by owner's (U2F- or WebAuthn-registered) key over challenge id `chal`
func (w *c05World) finish(kind string, cs []int, owner int, wa bool, chal int) {
	ch, known := w.chalBytes[chal]
	if !known {
		ch = []byte("no-such-challenge-0123456789abcdef")
	}
	var req *http.Request
	if kind == "U2fFinish" {
		req = httptest.NewRequest("POST", "https://keymaster.example"+u2fSignResponsePath, bytes.NewReader(w.key(owner, wa).u2fSign(u2fAppID, ch)))
	} else {
		var body []byte
		if wa {
			body = w.key(owner, wa).waSign(w.env.state.webAuthn.Config.RPID, w.env.state.webAuthn.Config.RPOrigin, ch)
		} else {
			body = w.key(owner, wa).waSign(u2fAppID, w.env.state.webAuthn.Config.RPOrigin, ch) // a U2F key signs over the AppID hash
		}
		req = httptest.NewRequest("POST", "https://keymaster.example"+webAuthnAuthFinishPath, bytes.NewReader(body))
	}
	req.Header.Set("Content-Type", "application/json")
	req.Host = "keymaster.example"
	req.RemoteAddr = "10.1.2.3:34567"
	su, _ := w.attach(req, cs)
	// the environment's positive answer: owner's key signed the challenge pending for owner, in owner's session
	// — a challenge that is within its (original) lifetime and was not answered before
	if known && owner == su && w.chalOwner[chal] == owner && w.curChal[owner] == chal && ((wa && w.devs[owner].wa) || (!wa && w.devs[owner].u2f)) &&
		w.nowM < w.chalAt[chal]+int64(maxAgeU2FVerifySeconds) && !w.accepted[fmt.Sprintf("challenge:%d", chal)] {
		w.prove(owner, c05U2F)
		if kind == "WaFinish" && wa {
			w.prove(owner, c05FIDO2)
		}
	}
	rr := w.serve(req)
	em := w.emitted(rr)
	if kind == "WaFinish" {
		// webauthnAuthFinish saves the profile from a goroutine: let it land before anything else happens
		w.dirty = true
		time.Sleep(15 * time.Millisecond)
	}
	w.record(kind, fmt.Sprintf("%s %s (A %d %d %s)", kind, c05CoqList(cs), owner, chal, coqBool(wa)),
		fmt.Sprintf("%s%v(key of %s, wa=%v, challenge %d)", kind, cs, w.names[owner], wa, chal), su, rr.Code < 400, em)
	w.acceptOnce(kind, fmt.Sprintf("challenge:%d", chal), known && w.nowM >= w.chalAt[chal]+int64(maxAgeU2FVerifySeconds), em)
}

// ---- the Okta second factor
func (w *c05World) oktaExpiredOracle(kind string, su int, em []c05Cookie) {
	if at, ok := w.oktaAt[su]; len(em) > 0 && su != 0 && (!ok || w.nowM >= at+c05OktaLife) {
		w.res.hit(verifHit{Key: "C05:expired:" + kind, Oracle: "an expired value never works", Kind: "history",
			What: fmt.Sprintf("%s raised the level of %s although the Okta authentication it relies on is past its expiry (or never happened)", kind, w.names[su]), Case: append([]string{}, w.human...)})
	}
}

func (w *c05World) oktaOtp(cs []int, owner int, good bool) {
	f := url.Values{}
	f.Set("OTP", fmt.Sprintf("%06d", c05OktaCode(owner, good)))
	req := verifNewRequest("POST", okta2FAauthPath, f)
	su, _ := w.attach(req, cs)
	if good && su == owner && w.oktaValid(su) {
		w.prove(owner, c05OKTA)
	}
	rr := w.serve(req)
	em := w.emitted(rr)
	code := "VBad"
	if good {
		code = fmt.Sprintf("(VGood %d)", owner)
	}
	w.record("OktaOtp", fmt.Sprintf("OktaOtp %s %s", c05CoqList(cs), code), fmt.Sprintf("OktaOtp%v(code of %s, good=%v)", cs, w.names[owner], good), su, rr.Code < 400, em)
	w.oktaExpiredOracle("OktaOtp", su, em)
}

func (w *c05World) oktaPushStart(cs []int) {
	req := verifNewRequest("POST", oktaPushStartPath, url.Values{})
	su, _ := w.attach(req, cs)
	rr := w.serve(req)
	w.record("OktaPushStart", "OktaPushStart "+c05CoqList(cs), fmt.Sprintf("OktaPushStart%v", cs), su, rr.Code == 200, w.emitted(rr))
}

func (w *c05World) oktaApprove(u int) {
	if w.okta.approve(w.names[u]) {
		w.prove(u, c05OKTA) // the owner of the phone approves: that user has proved the factor
	}
	w.ops = append(w.ops, fmt.Sprintf("OktaApprove %d", u))
	w.outs = append(w.outs, "(true, None, None)")
	w.human = append(w.human, fmt.Sprintf("OktaApprove(%s)", w.names[u]))
	w.res.bump("op:OktaApprove")
}

func (w *c05World) oktaPoll(cs []int) {
	req := verifNewRequest("POST", oktaPollCheckPath, url.Values{})
	su, _ := w.attach(req, cs)
	// the service confirms now that the authenticated user approved the push for her current state token
	if su != 0 && w.oktaValid(su) && w.okta.pushState(w.names[su]) == 2 {
		w.prove(su, c05OKTA)
	}
	rr := w.serve(req)
	em := w.emitted(rr)
	w.record("OktaPoll", "OktaPoll "+c05CoqList(cs), fmt.Sprintf("OktaPoll%v", cs), su, rr.Code < 400, em)
	w.oktaExpiredOracle("OktaPoll", su, em)
}

func (w *c05World) issueOtp(target int, dur int64) {
	f := url.Values{}
	f.Set("username", w.names[target])
	f.Set("duration", fmt.Sprintf("%ds", dur))
	req := verifNewRequest("POST", generateBoostrapOTPPath, f)
	req.AddCookie(w.admin)
	rr := w.serve(req)
	ok := rr.Code == 200
	w.dirty = true
	if ok {
		var d newBootstrapOTPPPageTemplateData
		if err := json.Unmarshal(rr.Body.Bytes(), &d); err != nil || d.BootstrapOTPValue == "" {
			w.t.Fatalf("bootstrap otp response: %v %s", err, rr.Body.String())
		}
		id, isNew := w.valueID("IssueOtp", []byte("bootstrap-otp:"+d.BootstrapOTPValue))
		eff := dur
		if eff < 60 {
			eff = 60
		}
		if isNew {
			w.otpVal[id], w.otpOwner[id], w.otpExp[id] = d.BootstrapOTPValue, target, w.nowM+eff
		}
		w.curOtp[target] = id
	}
	if w.cachedWrote {
		w.res.hit(verifHit{Key: "C05:cached-write:IssueOtp", Oracle: "a request served from the cache writes no profile back", Kind: "history",
			What: "IssueOtp was served from the cache database and the primary's user_profile table changed", Case: append([]string{}, w.human...)})
		w.cachedWrote = false
	}
	coq, human := w.wrap(fmt.Sprintf("IssueOtp %d %d", target, dur), fmt.Sprintf("IssueOtp(%s,%ds)", w.names[target], dur))
	w.ops = append(w.ops, coq)
	w.outs = append(w.outs, fmt.Sprintf("(%s, None, %s)", coqBool(ok), w.handedCoq()))
	w.human = append(w.human, human)
	w.res.bump("op:IssueOtp")
}

// serial < 0: garbage
func (w *c05World) bootstrap(cs []int, serial int) {
	val, coq, human := "no-such-otp-value", "BBad", "garbage"
	owner := 0
	if v, ok := w.otpVal[serial]; ok {
		val, owner = v, w.otpOwner[serial]
		coq = fmt.Sprintf("(BCode %d %d)", owner, serial)
		human = fmt.Sprintf("otp %d of %s", serial, w.names[owner])
	}
	f := url.Values{}
	f.Set("OTP", val)
	req := verifNewRequest("POST", bootstrapOtpAuthPath, f)
	su, _ := w.attach(req, cs)
	if owner != 0 && owner == su && w.curOtp[owner] == serial && w.nowM < w.otpExp[serial] && !w.accepted[fmt.Sprintf("boot:%d", serial)] {
		w.prove(owner, c05BOOT)
	}
	rr := w.serve(req)
	em := w.emitted(rr)
	w.dirty = true
	w.record("Bootstrap", fmt.Sprintf("Bootstrap %s %s", c05CoqList(cs), coq), fmt.Sprintf("Bootstrap%v(%s)", cs, human), su, rr.Code < 400, em)
	if owner != 0 {
		w.acceptOnce("Bootstrap", fmt.Sprintf("boot:%d", serial), w.nowM >= w.otpExp[serial], em)
	}
}

func (w *c05World) showTok(cs []int, life int64) {
	st := w.env.state
	old := st.Config.Base.WebauthTokenForCliLifetime
	st.Config.Base.WebauthTokenForCliLifetime = time.Duration(life) * time.Second
	req := verifNewRequest("GET", paths.ShowAuthToken, nil)
	su, _ := w.attachMask(req, cs, false)
	rr := w.serve(req)
	st.Config.Base.WebauthTokenForCliLifetime = old
	ok := rr.Code == 200
	if ok {
		tok := c05ReJWT.FindString(rr.Body.String())
		if tok == "" {
			w.t.Fatalf("no token on the page: %s", rr.Body.String())
		}
		w.tokens = append(w.tokens, c05Tok{val: tok, owner: su, expM: w.nowM + life})
	}
	w.record("ShowTok", fmt.Sprintf("ShowTok %s %d", c05CoqList(cs), life), fmt.Sprintf("ShowTok%v(life %ds)", cs, life), su, ok, w.emitted(rr))
}

func (w *c05World) sendDoc(cs []int, tk int) {
	val := "eyJhbGciOiJub25lIn0.e30.x"
	owner := 0
	if tk >= 0 && tk < len(w.tokens) {
		val, owner = w.tokens[tk].val, w.tokens[tk].owner
	}
	f := url.Values{}
	f.Set("port", "12345")
	f.Set("token", val)
	req := verifNewRequest("GET", paths.SendAuthDocument, f)
	su, sl := w.attachMask(req, cs, false)
	if owner != 0 && owner == su && sl&w.webui != 0 && w.nowM < w.tokens[tk].expM {
		w.prove(owner, c05CLI)
	}
	rr := w.serve(req)
	em := w.emitted(rr)
	if len(em) > 0 && owner != 0 && w.nowM >= w.tokens[tk].expM {
		w.res.hit(verifHit{Key: "C05:expired:SendDoc", Oracle: "an expired one-time value never works", Kind: "history", What: "an expired CLI token was accepted", Case: append([]string{}, w.human...)})
	}
	w.record("SendDoc", fmt.Sprintf("SendDoc %s %d%%nat", c05CoqList(cs), tk), fmt.Sprintf("SendDoc%v(token %d)", cs, tk), su, rr.Code < 400, em)
}

// a code that is no user's code for any step near now
func c05Garbage(secrets ...string) int {
	valid := map[string]bool{}
	for _, s := range secrets {
		for d := -3; d <= 3; d++ {
			code, _ := totp.GenerateCode(s, time.Now().Add(time.Duration(d*30)*time.Second))
			valid[code] = true
		}
	}
	for g := 314159; ; g++ {
		if !valid[fmt.Sprintf("%06d", g)] {
			return g
		}
	}
}

// ---------------------------------------------------------------- generators

// the reduced alphabet of the exhaustive part; indices 0/1 are alice's/bob's password cookies
func (w *c05World) alphabet() []func() {
	last := func() int { return len(w.cookies) - 1 }
	cur := func(u int) int {
		if id, ok := w.curChal[u]; ok {
			return id
		}
		return 9999
	}
	otp := func(u int) int {
		if id, ok := w.curOtp[u]; ok {
			return id
		}
		return -1
	}
	first := func(u int) int {
		if id, ok := w.firstChal[u]; ok {
			return id
		}
		return 9999
	}
	return []func(){
		func() { w.totp([]int{0}, 1, w.modelStep()) },
		func() { w.totp([]int{1, 0}, 1, w.modelStep()) },
		func() { w.totp([]int{last()}, 1, w.modelStep()-1) },
		func() { w.tick(30) },
		func() { w.pushStart([]int{0}, 0) },
		func() { w.approve(w.vcTx[0]) },
		func() { w.poll([]int{1}, 0) },
		func() { w.poll([]int{0, last()}, 0) },
		func() { w.u2fBegin([]int{0}) },
		func() { w.finish("U2fFinish", []int{last()}, 1, false, cur(1)) },
		func() { w.finish("U2fFinish", []int{1}, 1, false, cur(1)) },
		func() { w.issueOtp(2, 45) },
		func() { w.bootstrap([]int{1}, otp(2)) },
		func() { w.bootstrap([]int{0, 1}, otp(2)) },
		// requests authenticated by a client certificate while another user's cookie is attached
		func() { w.with(2, false, func() { w.bootstrap([]int{0}, otp(2)) }) },
		func() { w.with(1, false, func() { w.totp([]int{1}, 1, w.modelStep()) }) },
		// the profile cannot be written while the OTP is presented
		func() { w.with(0, true, func() { w.bootstrap([]int{1}, otp(2)) }) },
		func() { w.with(1, false, func() { w.poll([]int{1}, 0) }) },
		func() { w.with(1, false, func() { w.vipOtp([]int{1}, 1, true) }) },
		// several sessions of one user, attached together in both orders; junk next to a valid cookie
		func() { w.tick(3600); w.login(1, true) }, // an hour later alice logs in again
		func() { w.vipOtp([]int{last(), 2}, 1, true) },
		func() { w.vipOtp([]int{2, last()}, 1, true) },
		func() { w.totp([]int{99, 0}, 1, w.modelStep()) },
		func() { w.totp([]int{0, 99}, 1, w.modelStep()) },
		// a second sign request after the lifetime of the first; an assertion over the FIRST challenge alice was
		// ever handed; the other user's code in one's own session
		func() { w.tick(31); w.u2fBegin([]int{0}) },
		func() { w.finish("U2fFinish", []int{0}, 1, false, first(1)) },
		func() { w.totp([]int{1}, 1, w.modelStep()) },
		// the primary database is slow: profiles come from the cache
		func() { w.cached(func() { w.totp([]int{0}, 1, w.modelStep()) }) },
		func() { w.cached(func() { w.bootstrap([]int{1}, otp(2)) }) },
		// the client address: the cached TOTP request from another host; a TOTP request from the same host and
		// another port; the assertion from an IPv6 address (whatever address asked for the challenge)
		func() { w.from(1, func() { w.cached(func() { w.totp([]int{0}, 1, w.modelStep()) }) }) },
		func() { w.from(2, func() { w.totp([]int{0}, 1, w.modelStep()) }) },
		func() { w.from(3, func() { w.finish("U2fFinish", []int{0}, 1, false, cur(1)) }) },
		// a password login that carries the newest session cookie of the history (whatever it holds by then): a
		// minute later, and after every session so far has expired
		func() { w.tick(60); w.loginWith(1, true, []int{last()}) },
		func() { w.tick(57600); w.loginWith(1, true, []int{last()}) },
	}
}

// the letters of the depth-3 enumeration of the quick tier (the others appear at depth 2, in the targeted
// scenarios and in the random histories)
var c05Core = []int{0, 1, 2, 3, 4, 5, 7, 8, 9, 11, 12, 14, 16}

func (w *c05World) prefix() {
	w.reset()
	w.login(1, true)
	w.login(2, true)
}

func (w *c05World) randomOp(rng *mrand.Rand) {
	if w.addr == 0 && rng.Intn(4) == 0 { // one request in four comes from somewhere else
		w.from(1+rng.Intn(len(c05Addrs)-1), func() { w.randomOp(rng) })
		return
	}
	cert, fault := 0, false
	if rng.Intn(5) == 0 {
		cert = 1 + rng.Intn(2)
	}
	if rng.Intn(12) == 0 {
		fault = true
	}
	if rng.Intn(10) == 0 {
		w.cached(func() { w.randomOpPlain(rng) })
		return
	}
	w.with(cert, fault, func() { w.randomOpPlain(rng) })
}

func (w *c05World) randomOpPlain(rng *mrand.Rand) {
	n := len(w.cookies)
	pickCs := func() []int {
		switch rng.Intn(6) {
		case 0:
			return []int{rng.Intn(n + 1)}
		case 1:
			return []int{rng.Intn(n + 1), rng.Intn(n + 1)}
		case 2:
			return []int{n - 1}
		default:
			return []int{rng.Intn(n + 1)}
		}
	}
	user := func() int { return 1 + rng.Intn(2) }
	cur := func(u int) int {
		if id, ok := w.curChal[u]; ok && rng.Intn(5) != 0 {
			return id
		}
		return rng.Intn(w.fresh + 2)
	}
	// half of the time continue something that is under way, in the right or in the wrong session
	if rng.Intn(2) == 0 {
		u := user()
		ses := func() []int {
			var own, other []int
			for i, c := range w.cookies {
				if c.sub == u {
					own = append(own, i)
				} else {
					other = append(other, i)
				}
			}
			switch x := rng.Intn(8); {
			case x == 0 && len(other) > 0:
				return []int{other[rng.Intn(len(other))]}
			case x == 1 && len(other) > 0 && len(own) > 0:
				return []int{other[rng.Intn(len(other))], own[rng.Intn(len(own))]}
			case x == 2 && len(other) > 0 && len(own) > 0:
				return []int{own[rng.Intn(len(own))], other[rng.Intn(len(other))]}
			case x == 3 && len(own) > 1: // two sessions of the same user
				return []int{own[rng.Intn(len(own))], own[rng.Intn(len(own))]}
			case x == 4 && len(own) > 0 && rng.Intn(2) == 0: // junk next to an own cookie, either order
				if rng.Intn(2) == 0 {
					return []int{n + 5, own[rng.Intn(len(own))]}
				}
				return []int{own[rng.Intn(len(own))], n + 5}
			case len(own) > 0:
				return []int{own[len(own)-1-rng.Intn(1+len(own)/2)]}
			}
			return pickCs()
		}
		other := 3 - u
		if w.cfg.okta && rng.Intn(2) == 0 {
			// continue the user's Okta push where it stands, or present a pass code
			switch st := w.okta.pushState(w.names[u]); {
			case rng.Intn(4) == 0:
				w.oktaOtp(ses(), u, true)
			case st == 0:
				w.oktaPushStart(ses())
			case st == 1 && rng.Intn(3) != 0:
				w.oktaApprove(u)
			default:
				w.oktaPoll(ses())
			}
			return
		}
		switch rng.Intn(10) {
		case 9: // a value of the other user, presented in a session of u
			own := []int{}
			for i, c := range w.cookies {
				if c.sub == u {
					own = append(own, i)
				}
			}
			if len(own) == 0 {
				break
			}
			cs := []int{own[len(own)-1]}
			switch rng.Intn(4) {
			case 0:
				w.totp(cs, other, w.modelStep()+int64(rng.Intn(2)))
			case 1:
				if id, ok := w.curChal[u]; ok {
					w.finish([]string{"U2fFinish", "WaFinish"}[rng.Intn(2)], cs, other, rng.Intn(2) == 0, id)
				} else {
					w.u2fBegin(cs)
				}
			case 2:
				if id, ok := w.curOtp[other]; ok {
					w.bootstrap(cs, id)
				} else {
					w.issueOtp(other, 3600)
				}
			default:
				if w.cfg.okta {
					w.oktaOtp(cs, other, true)
				} else {
					w.vipOtp(cs, other, true)
				}
			}
			return
		case 0:
			if id, ok := w.curChal[u]; ok && rng.Intn(4) != 0 {
				if rng.Intn(4) == 0 {
					id = w.firstChal[u] // an assertion over the first challenge the user was ever handed
				}
				w.finish("U2fFinish", ses(), u, w.devs[u].wa && (!w.devs[u].u2f || rng.Intn(2) == 0), id)
				return
			}
			w.u2fBegin(ses()) // possibly while a challenge is pending
			return
		case 1:
			if id, ok := w.curChal[u]; ok && rng.Intn(4) != 0 {
				if rng.Intn(4) == 0 {
					id = w.firstChal[u]
				}
				w.finish("WaFinish", ses(), u, w.devs[u].wa && (!w.devs[u].u2f || rng.Intn(2) == 0), id)
				return
			}
			w.waBegin(ses())
			return
		case 2:
			if tx, ok := w.vcTx[u-1]; ok {
				if rng.Intn(2) == 0 {
					w.approve(tx)
				} else {
					w.poll(ses(), u-1)
				}
				return
			}
			w.pushStart(ses(), u-1)
			return
		case 3:
			if id, ok := w.curOtp[u]; ok && rng.Intn(4) != 0 {
				w.bootstrap(ses(), id)
				return
			}
			w.issueOtp(u, []int64{60, 3600}[rng.Intn(2)])
			return
		case 4:
			w.totp(ses(), u, w.modelStep()+int64(rng.Intn(3))-1)
			return
		case 5:
			if w.cfg.okta {
				// continue the user's Okta push where it stands, or present a pass code
				switch st := w.okta.pushState(w.names[u]); {
				case rng.Intn(3) == 0:
					w.oktaOtp(ses(), u, true)
				case st == 0:
					w.oktaPushStart(ses())
				case st == 1 && rng.Intn(3) != 0:
					w.oktaApprove(u)
				default:
					w.oktaPoll(ses())
				}
				return
			}
			w.vipOtp(ses(), u, true)
			return
		case 6:
			w.showTok(ses(), c05TokenLife)
			return
		case 7:
			if len(w.tokens) > 0 {
				w.sendDoc(ses(), rng.Intn(len(w.tokens)))
				return
			}
		}
	}
	switch rng.Intn(20) {
	case 0, 19:
		if rng.Intn(3) == 0 { // a login that carries session cookies
			w.loginWith(user(), rng.Intn(5) != 0, pickCs())
		} else {
			w.login(user(), rng.Intn(5) != 0)
		}
	case 1:
		w.logout(pickCs())
	case 2:
		w.vipOtp(pickCs(), user(), rng.Intn(4) != 0)
	case 3:
		w.pushStart(pickCs(), rng.Intn(2))
	case 4:
		w.approve(rng.Intn(w.fresh + 1))
	case 5, 6:
		w.poll(pickCs(), rng.Intn(2))
	case 7, 8, 9:
		if rng.Intn(6) == 0 {
			w.totp(pickCs(), 0, 0)
		} else {
			w.totp(pickCs(), user(), w.modelStep()+int64(rng.Intn(5))-2)
		}
	case 10:
		w.u2fBegin(pickCs())
	case 11:
		w.waBegin(pickCs())
	case 12, 13:
		u := user()
		w.finish("U2fFinish", pickCs(), u, rng.Intn(2) == 0, cur(u))
	case 14:
		u := user()
		w.finish("WaFinish", pickCs(), u, rng.Intn(2) == 0, cur(u))
	case 15:
		w.issueOtp(user(), []int64{45, 60, 3600, 90000}[rng.Intn(4)])
	case 16:
		if id, ok := w.curOtp[user()]; ok && rng.Intn(4) != 0 {
			w.bootstrap(pickCs(), id)
		} else {
			w.bootstrap(pickCs(), rng.Intn(w.fresh+1)-1)
		}
	case 17:
		if w.cfg.okta || rng.Intn(4) == 0 {
			switch rng.Intn(5) {
			case 0:
				w.oktaOtp(pickCs(), user(), rng.Intn(4) != 0)
			case 1:
				w.oktaPushStart(pickCs())
			case 2:
				w.oktaApprove(user())
			default:
				w.oktaPoll(pickCs())
			}
			return
		}
		w.showTok(pickCs(), []int64{0, c05TokenLife}[rng.Intn(2)])
	case 18:
		w.sendDoc(pickCs(), rng.Intn(len(w.tokens)+1))
	default:
		w.tick([]int64{30, 31, 45, 60, 150, 3600, 3600, 6 * 3600}[rng.Intn(8)])
	}
}

// hand-written scenarios: the shapes the property text names
func (w *c05World) targeted() []func() {
	return []func(){
		func() { // another user's approved push
			w.pushStart([]int{0}, 0)
			w.approve(w.vcTx[0])
			w.poll([]int{1}, 0)
			w.poll([]int{0}, 0)
			w.poll([]int{0}, 0)
			w.poll([]int{1}, 0) // again, now that the owner has polled successfully
			w.poll([]int{0, 1}, 0)
		},
		func() { // authenticated by client certificate: whose cookie is upgraded, and to which level
			w.issueOtp(2, 3600)
			w.with(2, false, func() { w.bootstrap([]int{0}, w.curOtp[2]) }) // bob's certificate and OTP, alice's cookie
			w.bootstrap([]int{1}, w.curOtp[2])
			w.issueOtp(2, 3600)
			w.with(2, false, func() { w.bootstrap([]int{1}, w.curOtp[2]) })
			w.with(1, false, func() { w.totp([]int{1}, 1, w.modelStep()) })
			w.with(1, false, func() { w.totp([]int{0}, 1, w.modelStep()+1) })
			w.with(1, false, func() { w.vipOtp([]int{1}, 1, true) })
			w.with(1, false, func() { w.vipOtp([]int{0}, 1, true) })
			w.with(1, false, func() { w.pushStart([]int{1}, 0) })
			w.approve(w.vcTx[0])
			w.with(1, false, func() { w.poll([]int{1}, 0) })
			w.poll([]int{1}, 0)
			w.with(1, false, func() { w.poll([]int{0}, 0) })
			w.with(1, false, func() { w.u2fBegin([]int{1}) })
			w.with(1, false, func() { w.finish("U2fFinish", []int{1}, 1, false, w.curChal[1]) })
			w.with(1, false, func() { w.u2fBegin(nil) })
			w.with(1, false, func() { w.finish("U2fFinish", nil, 1, false, w.curChal[1]) })
			w.with(1, false, func() { w.waBegin([]int{0}) })
			w.with(1, false, func() { w.finish("WaFinish", []int{0}, 1, false, w.curChal[1]) })
			w.with(1, false, func() { w.showTok([]int{1}, c05TokenLife) })
		},
		func() { // profile writes fail: nothing is accepted, the value stays usable exactly once
			w.with(0, true, func() { w.issueOtp(2, 3600) })
			w.issueOtp(2, 3600)
			w.with(0, true, func() { w.bootstrap([]int{1}, w.curOtp[2]) })
			w.bootstrap([]int{1}, w.curOtp[2])
			w.bootstrap([]int{1}, w.curOtp[2])
			w.with(0, true, func() { w.totp([]int{0}, 1, w.modelStep()) })
			w.totp([]int{0}, 1, w.modelStep())
			w.totp([]int{0}, 1, w.modelStep())
			w.u2fBegin([]int{0})
			w.with(0, true, func() { w.finish("U2fFinish", []int{0}, 1, false, w.curChal[1]) })
		},
		func() { // TOTP: accepted once, not again in the same or the next step; older code after a newer one
			w.totp([]int{0}, 1, w.modelStep())
			w.totp([]int{0}, 1, w.modelStep())
			w.tick(30)
			w.totp([]int{0}, 1, w.modelStep()-1)
			w.totp([]int{0}, 1, w.modelStep()+1)
			w.totp([]int{0}, 1, w.modelStep())
			w.tick(60)
			w.totp([]int{0}, 1, w.modelStep()-2)
			w.totp([]int{0}, 1, w.modelStep())
		},
		func() { // two cookies, victim first
			w.totp([]int{1, 0}, 1, w.modelStep())
			w.vipOtp([]int{0, 1}, 2, true)
			w.vipOtp([]int{0, 1}, 1, true)
		},
		func() { // hardware token: wrong session, expiry, re-use; a WebAuthn-registered key through the U2F handler
			w.u2fBegin([]int{0})
			w.finish("U2fFinish", []int{1}, 1, false, w.curChal[1])
			w.finish("U2fFinish", []int{0}, 1, false, w.curChal[1])
			w.finish("U2fFinish", []int{0}, 1, false, w.curChal[1])
			w.u2fBegin([]int{0})
			w.tick(30)
			w.finish("U2fFinish", []int{0}, 1, false, w.curChal[1])
			w.u2fBegin([]int{1})
			w.finish("U2fFinish", []int{1}, 2, true, w.curChal[2])
			w.finish("U2fFinish", []int{1}, 2, true, w.curChal[2])
		},
		func() { // WebAuthn begin/finish with both kinds of key, and a U2F-only challenge answered through WebAuthn
			w.waBegin([]int{1})
			w.finish("WaFinish", []int{0}, 2, true, w.curChal[2])
			w.finish("WaFinish", []int{1}, 2, true, w.curChal[2])
			w.finish("WaFinish", []int{1}, 2, true, w.curChal[2])
			w.waBegin([]int{0})
			w.finish("WaFinish", []int{0}, 1, false, w.curChal[1])
			w.u2fBegin([]int{0})
			w.finish("WaFinish", []int{0}, 1, false, w.curChal[1])
			w.waBegin([]int{0})
			w.tick(30)
			w.finish("WaFinish", []int{0}, 1, false, w.curChal[1])
		},
		func() { // bootstrap OTP: other user's session, accepted once, superseded, expired
			w.issueOtp(2, 3600)
			w.bootstrap([]int{0}, w.curOtp[2])
			w.bootstrap([]int{1}, w.curOtp[2])
			w.bootstrap([]int{1}, w.curOtp[2])
			w.issueOtp(2, 3600)
			first := w.curOtp[2]
			w.issueOtp(2, 45)
			w.bootstrap([]int{1}, first)
			w.tick(60)
			w.bootstrap([]int{1}, w.curOtp[2])
			w.issueOtp(1, 3600)
			w.issueOtp(2, 90000)
		},
		func() { // a push transaction lives two minutes: polled before and after, started again afterwards
			w.pushStart([]int{0}, 0)
			w.approve(w.vcTx[0])
			w.tick(90)
			w.poll([]int{0}, 0)
			w.tick(30)
			w.poll([]int{0}, 0)
			w.tick(180)
			w.poll([]int{0}, 0)
			w.pushStart([]int{0}, 0) // the cookie value is free again
			w.poll([]int{0}, 0)
			w.approve(w.vcTx[0])
			w.poll([]int{0}, 0)
		},
		func() { // two sessions of one user attached together: which one comes back, with which factors
			w.totp([]int{0}, 1, w.modelStep()) // cookie 2: alice, password+TOTP, old session
			w.tick(3600)
			w.login(1, true) // cookie 3: alice, password, new session
			w.u2fBegin([]int{3, 2})
			w.finish("U2fFinish", []int{3, 2}, 1, false, w.curChal[1])
			w.u2fBegin([]int{2, 3})
			w.finish("U2fFinish", []int{2, 3}, 1, false, w.curChal[1])
			w.vipOtp([]int{3, 2}, 1, true)
			w.vipOtp([]int{2, 3}, 1, true)
			w.pushStart([]int{3, 2}, 0)
			w.approve(w.vcTx[0])
			w.poll([]int{3, 2}, 0)
			w.poll([]int{2, 3}, 0)
			w.totp([]int{3, 2}, 1, w.modelStep()+1)
		},
		func() { // the same for the bootstrap OTP of a user without devices, and with junk next to the cookie
			w.issueOtp(2, 3600)
			w.bootstrap([]int{1}, w.curOtp[2]) // cookie 2: bob, password+bootstrap
			w.tick(3600)
			w.login(2, true) // cookie 3: bob, password
			w.vipOtp([]int{3, 2}, 2, true)
			w.vipOtp([]int{2, 3}, 2, true)
			w.vipOtp([]int{99, 3}, 2, true)
			w.vipOtp([]int{3, 99}, 2, true)
			w.totp([]int{99, 0}, 1, w.modelStep())
			w.totp([]int{0, 99}, 1, w.modelStep())
			w.totp([]int{1, 99, 0}, 1, w.modelStep()+1)
		},
		func() { // session cookies expire (16 h): alone, before and after a fresh one
			w.tick(15 * 3600)
			w.tick(3570)
			w.totp([]int{0}, 1, w.modelStep()) // 30 s to go: works; the re-signed cookie keeps exp
			w.tick(30)
			w.totp([]int{0}, 1, w.modelStep())
			w.vipOtp([]int{2}, 1, true)
			w.u2fBegin([]int{0})
			w.login(1, true) // cookie 3
			w.vipOtp([]int{0, 3}, 1, true)
			w.vipOtp([]int{3, 0}, 1, true)
			w.vipOtp([]int{2, 3}, 1, true)
			w.with(1, false, func() { w.vipOtp([]int{0}, 1, true) }) // certificate + expired own cookie
			w.showTok([]int{len(w.cookies) - 1}, c05TokenLife)
			w.sendDoc([]int{len(w.cookies) - 1}, 0)
		},
		func() { // CLI token: needs a second factor session; other user's token; expired token
			w.showTok([]int{0}, c05TokenLife)
			w.totp([]int{0}, 1, w.modelStep())
			w.showTok([]int{len(w.cookies) - 1}, c05TokenLife)
			w.sendDoc([]int{1}, 0)
			w.vipOtp([]int{1}, 2, true)
			w.sendDoc([]int{len(w.cookies) - 1}, 0)
			w.sendDoc([]int{2}, 0)
			w.showTok([]int{2}, 0)
			w.sendDoc([]int{2}, 1)
			w.totp([]int{len(w.cookies) - 1}, 1, w.modelStep()+1)
		},
		func() { // a second sign request: a NEW value every time; the first one stays dead after its lifetime
			w.u2fBegin([]int{0})
			first := w.curChal[1]
			w.tick(31)           // past the 30 s of the challenge, before any cleanup sweep
			w.u2fBegin([]int{0}) // same session
			w.finish("U2fFinish", []int{0}, 1, false, first)
			w.finish("U2fFinish", []int{0}, 1, false, w.curChal[1])
			w.u2fBegin([]int{0})
			first = w.curChal[1]
			w.tick(45)
			w.login(1, true) // another session of the same user asks
			last := len(w.cookies) - 1
			w.u2fBegin([]int{last})
			w.finish("U2fFinish", []int{0}, 1, false, first)
			w.finish("U2fFinish", []int{last}, 1, false, first)
			w.finish("U2fFinish", []int{last}, 1, false, w.curChal[1])
			// within the lifetime: the second request REPLACES the pending challenge
			w.u2fBegin([]int{0})
			first = w.curChal[1]
			w.u2fBegin([]int{last})
			w.finish("U2fFinish", []int{0}, 1, false, first)
			w.finish("U2fFinish", []int{0}, 1, false, w.curChal[1])
			// the WebAuthn begin, and one handler's challenge revived through the other
			w.waBegin([]int{0})
			first = w.curChal[1]
			w.tick(31)
			w.waBegin([]int{0})
			w.finish("WaFinish", []int{0}, 1, false, first)
			w.finish("WaFinish", []int{0}, 1, false, w.curChal[1])
			w.u2fBegin([]int{0})
			first = w.curChal[1]
			w.tick(31)
			w.waBegin([]int{0})
			w.finish("U2fFinish", []int{0}, 1, false, first)
			w.waBegin([]int{0})
			first = w.curChal[1]
			w.tick(31)
			w.u2fBegin([]int{0})
			w.finish("WaFinish", []int{0}, 1, false, first)
			w.finish("U2fFinish", []int{0}, 1, false, first)
		},
		func() { // the same for a bootstrap OTP and a push: issuing / starting again never revives the old value
			w.issueOtp(2, 60)
			first := w.curOtp[2]
			w.tick(61)
			w.issueOtp(2, 3600)
			w.bootstrap([]int{1}, first)
			w.bootstrap([]int{1}, w.curOtp[2])
			w.issueOtp(2, 60)
			first = w.curOtp[2]
			w.issueOtp(2, 60) // superseded within its lifetime
			w.bootstrap([]int{1}, first)
			w.tick(61)
			w.bootstrap([]int{1}, w.curOtp[2])
			w.pushStart([]int{0}, 0)
			w.approve(w.vcTx[0])
			w.tick(121)
			w.pushStart([]int{0}, 0) // a new transaction, not approved
			w.poll([]int{0}, 0)
			w.pushStart([]int{0}, 0) // refused: one is pending
			w.poll([]int{0}, 0)
		},
		func() { // WHOSE value: every factor of the other account presented in one's own session, both directions,
			// before and after one's own profile row was rewritten; then everything that is enrolled, by its owner
			cur := func(u int) int {
				if id, ok := w.curChal[u]; ok {
					return id
				}
				return 9999
			}
			otp := func(u int) int {
				if id, ok := w.curOtp[u]; ok {
					return id
				}
				return -1
			}
			cross := func(b, a int, dstep int64) { // in the session of b: the values of a
				sb := []int{b - 1}
				w.totp(sb, a, w.modelStep()+dstep)
				w.vipOtp(sb, a, true)
				w.u2fBegin(sb)
				w.finish("U2fFinish", sb, a, false, cur(b))
				w.finish("U2fFinish", sb, a, true, cur(b))
				w.waBegin(sb)
				w.finish("WaFinish", sb, a, true, cur(b))
				w.finish("WaFinish", sb, a, false, cur(b))
				w.issueOtp(a, 3600)
				w.bootstrap(sb, otp(a))
			}
			own := func(u int, dstep int64) {
				su := []int{u - 1}
				w.totp(su, u, w.modelStep()+dstep)
				w.u2fBegin(su)
				w.finish("U2fFinish", su, u, !w.devs[u].u2f, cur(u))
				w.waBegin(su)
				w.finish("WaFinish", su, u, w.devs[u].wa, cur(u))
				w.bootstrap(su, otp(u))
			}
			cross(2, 1, 0)
			cross(1, 2, 0)
			own(2, 0) // rewrites the row of 2: it is now the newest
			cross(2, 1, 1)
			own(1, 1) // ... and now the row of 1 is
			cross(2, 1, 1)
			cross(1, 2, 1)
		},
		func() { // the Okta second factor: whose pass code, whose push, and for how long after the password check
			w.oktaOtp([]int{1}, 1, true) // alice's code in bob's session
			w.oktaOtp([]int{0}, 1, false)
			w.oktaOtp([]int{0}, 1, true)
			w.oktaOtp([]int{1, 0}, 1, true)
			w.oktaPoll([]int{1}) // nothing started: the poll itself sends bob's push
			w.oktaPushStart([]int{1})
			w.oktaPoll([]int{1})
			w.oktaApprove(1) // alice has no push waiting
			w.oktaPoll([]int{1})
			w.oktaApprove(2)
			w.oktaPoll([]int{0}) // alice polls: starts her own
			w.oktaPoll([]int{1})
			w.oktaPoll([]int{1}) // finished: once only
			w.oktaPushStart([]int{0})
			w.oktaApprove(1)
			w.oktaPushStart([]int{0}) // the start handler swallows the approval
			w.oktaPoll([]int{0})
			w.login(1, true) // a new password check: a new state token
			last := len(w.cookies) - 1
			w.oktaPushStart([]int{last})
			w.oktaApprove(1)
			w.with(1, false, func() { w.oktaPoll([]int{1}) }) // alice's certificate, bob's cookie
			w.oktaPoll([]int{0, last})
			w.tick(150)
			w.oktaOtp([]int{1}, 2, true) // bob, 150 s after his password check
			w.tick(150)
			w.oktaOtp([]int{1}, 2, true) // 300 s: the Okta authentication has expired
			w.oktaPushStart([]int{1})
			w.oktaPoll([]int{1})
			w.oktaOtp([]int{last}, 1, true) // alice logged in 300 s ago too
			w.login(2, true)
			w.oktaOtp([]int{1}, 2, true) // the OLD cookie of bob, the new Okta authentication
			w.oktaOtp([]int{len(w.cookies) - 1}, 2, true)
		},
		w.cachedScenario,
		w.addressScenario,
		w.loginAttachedScenario,
		w.pushAcrossSessionsScenario,
	}
}

// An approval is given for ONE push transaction: a second session of the same user (a later login, another
// vip_push_cookie) that asks for a push while the first transaction is still within its lifetime - approved and
// polled, approved and not yet polled, or pending - gets a transaction of its own, and polling it before the
// owner approved THAT one raises nothing.
func (w *c05World) pushAcrossSessionsScenario() {
	second := func() int {
		w.tick(5)
		w.login(1, true)
		return len(w.cookies) - 1
	}
	// approved and consumed by the first session's poll
	w.pushStart([]int{0}, 0)
	w.approve(w.vcTx[0])
	w.poll([]int{0}, 0)
	n := second()
	w.pushStart([]int{n}, 1)
	w.poll([]int{n}, 1)
	w.poll([]int{n}, 0) // the first transaction's cookie value in the second session
	w.approve(w.vcTx[1])
	w.poll([]int{n}, 1)
	// approved, not yet polled by the session that asked
	w.tick(121)
	w.pushStart([]int{0}, 0)
	w.approve(w.vcTx[0])
	n = second()
	w.pushStart([]int{n}, 1)
	w.poll([]int{n}, 1)
	w.poll([]int{0}, 0)
	// pending, and the other user's session in between
	w.tick(121)
	w.pushStart([]int{0}, 0)
	n = second()
	w.pushStart([]int{1}, 1) // bob
	w.poll([]int{n}, 1)
	w.approve(w.vcTx[0])
	w.poll([]int{n}, 1)
	w.poll([]int{1}, 1)
}

// A login request may carry auth_cookie values: the product (whose cookie: own / another user's / junk) x (valid /
// expired) x (level: password only, +TOTP, +TOTP+U2F, +VIP ...), singly and in pairs, with the right and the wrong
// password, with a client certificate.  The new session is the password's: nothing attached counts.
func (w *c05World) loginAttachedScenario() {
	cur := func(u int) int {
		if id, ok := w.curChal[u]; ok {
			return id
		}
		return 9999
	}
	const junk = 9999
	// sessions at several levels (0: alice password, 1: bob password)
	w.totp([]int{0}, 1, w.modelStep()) // alice password+TOTP
	w.u2fBegin([]int{len(w.cookies) - 1})
	w.finish("U2fFinish", []int{len(w.cookies) - 1}, 1, !w.devs[1].u2f, cur(1)) // ... +hardware token
	w.vipOtp([]int{0}, 1, true)                                                   // alice password+VIP
	w.vipOtp([]int{1}, 2, true)                                                   // bob password+VIP
	old := len(w.cookies)
	lastOf := func(u int) int { // the richest old session of u
		best := -1
		for i := 0; i < old; i++ {
			if w.cookies[i].sub == u && (best < 0 || w.cookies[i].level >= w.cookies[best].level) {
				best = i
			}
		}
		return best
	}
	a2, b2 := lastOf(1), lastOf(2)
	round := func() {
		for i := 0; i < old; i++ { // every level, own and the other user's
			w.loginWith(1, true, []int{i})
		}
		w.loginWith(2, true, []int{b2})
		w.loginWith(2, true, []int{a2})
		w.loginWith(1, true, []int{junk})
		w.loginWith(1, true, []int{a2, b2})
		w.loginWith(1, true, []int{b2, a2})
		w.loginWith(1, true, []int{a2, junk})
		w.loginWith(1, true, []int{junk, a2})
		w.loginWith(1, true, []int{0, a2})
		w.loginWith(1, false, []int{a2}) // the wrong password: the cookie is no credential of the login
		w.with(1, false, func() { w.loginWith(1, true, []int{a2}) })
		w.with(2, false, func() { w.loginWith(1, true, []int{a2}) })
		w.cached(func() { w.loginWith(1, true, []int{a2}) })
	}
	w.tick(60)
	round() // the attached sessions are still valid
	// what the new session is good for: a second factor is still to be verified
	w.showTok([]int{len(w.cookies) - 1}, c05TokenLife)
	w.tick(57600)
	round() // ... and now every one of them has expired (the logins of the first round too)
	fresh := len(w.cookies) - 1
	w.loginWith(1, true, []int{fresh, a2}) // a valid password session and the expired two-factor one, both orders
	w.loginWith(1, true, []int{a2, fresh})
	w.showTok([]int{len(w.cookies) - 1}, c05TokenLife)
	w.vipOtp([]int{a2}, 1, true) // the expired session itself authenticates nothing
}

// Where a request comes from decides nothing: one-time values are spent for every address once they were accepted
// from one, a challenge handed to one address is answered from another, sessions and values belong to users.
func (w *c05World) addressScenario() {
	const X, P, Y, F, R, Fw, L = 1, 2, 3, 4, 5, 6, 7 // another host, same host / another port, IPv6, the forwarding headers, via a local proxy
	cur := func(u int) int {
		if id, ok := w.curChal[u]; ok {
			return id
		}
		return 9999
	}
	otp := func(u int) int {
		if id, ok := w.curOtp[u]; ok {
			return id
		}
		return -1
	}
	last := func() int { return len(w.cookies) - 1 }
	w.from(Y, func() { w.login(1, true) }) // cookie 2: a fresh session of alice, opened from Y
	step := w.modelStep()
	// a code accepted from X while profiles come from the cache is spent for every address ...
	w.from(X, func() { w.cached(func() { w.totp([]int{0}, 1, step) }) })
	w.from(Y, func() { w.cached(func() { w.totp([]int{2}, 1, step) }) }) // the fresh session, another host
	w.from(P, func() { w.cached(func() { w.totp([]int{2}, 1, step) }) })
	w.from(F, func() { w.cached(func() { w.totp([]int{2}, 1, step) }) })
	w.from(L, func() { w.cached(func() { w.totp([]int{0}, 1, step) }) })
	w.from(Y, func() { w.totp([]int{2}, 1, step) }) // ... also once the primary answers again
	w.from(X, func() { w.totp([]int{2}, 1, step) })
	w.totp([]int{2}, 1, step)
	// the addresses swapped, the next step
	w.from(Y, func() { w.cached(func() { w.totp([]int{2}, 1, step+1) }) })
	w.from(X, func() { w.cached(func() { w.totp([]int{0}, 1, step+1) }) })
	w.from(R, func() { w.cached(func() { w.totp([]int{0}, 1, step+1) }) })
	w.cached(func() { w.totp([]int{0}, 1, step+1) })
	w.tick(30)
	// accepted with the primary up from X: spent from Y, cached or not
	w.from(X, func() { w.with(0, true, func() { w.totp([]int{0}, 1, step+2) }) })  // the counter cannot be saved: nothing accepted
	w.from(Y, func() { w.with(1, false, func() { w.totp([]int{1}, 1, step+2) }) }) // alice's certificate, bob's cookie: spent, no cookie
	w.from(X, func() { w.cached(func() { w.totp([]int{0}, 1, step+2) }) })
	w.from(Fw, func() { w.totp([]int{2}, 1, step+2) })
	// hardware token: the challenge is the user's, whoever asked for it from wherever
	w.from(X, func() { w.u2fBegin([]int{0}) })
	w.from(Y, func() { w.finish("U2fFinish", []int{1}, 1, false, cur(1)) }) // bob's session
	w.from(Y, func() { w.finish("U2fFinish", []int{2}, 1, false, cur(1)) }) // alice's other session, another address
	w.from(X, func() { w.finish("U2fFinish", []int{0}, 1, false, cur(1)) }) // answered already
	w.from(F, func() { w.cached(func() { w.waBegin([]int{0}) }) })
	w.from(R, func() { w.cached(func() { w.finish("WaFinish", []int{0}, 1, false, cur(1)) }) })
	w.from(F, func() { w.finish("WaFinish", []int{0}, 1, false, cur(1)) })
	w.from(L, func() { w.with(1, false, func() { w.u2fBegin(nil) }) }) // certificate only, through the proxy
	w.from(P, func() { w.with(1, false, func() { w.finish("U2fFinish", []int{0}, 1, false, cur(1)) }) })
	w.from(P, func() { w.waBegin([]int{1}) })
	w.from(X, func() { w.finish("WaFinish", []int{1}, 2, true, cur(2)) })
	// bootstrap OTP: issued from X, used from Y, again from X
	w.from(X, func() { w.issueOtp(2, 3600) })
	w.from(Y, func() { w.with(0, true, func() { w.bootstrap([]int{1}, otp(2)) }) })
	w.from(Y, func() { w.bootstrap([]int{1}, otp(2)) })
	w.from(X, func() { w.bootstrap([]int{1}, otp(2)) })
	w.from(L, func() { w.bootstrap([]int{1}, otp(2)) })
	// push: started from X, polled from elsewhere by the other user and by its owner
	w.from(X, func() { w.pushStart([]int{0}, 0) })
	w.approve(w.vcTx[0])
	w.from(Y, func() { w.poll([]int{1}, 0) })
	w.from(Fw, func() { w.poll([]int{0}, 0) })
	w.from(Y, func() { w.vipOtp([]int{1}, 1, true) })
	w.from(Y, func() { w.vipOtp([]int{1}, 2, true) })
	// CLI token: shown to X, sent from Y in another user's and in the own session
	w.from(X, func() { w.showTok([]int{last()}, c05TokenLife) })
	w.from(Y, func() { w.sendDoc([]int{0}, 0) })
	w.from(Y, func() { w.sendDoc([]int{last()}, 0) })
	w.from(R, func() { w.logout([]int{0}) })
}

// the primary database is slow for some requests: they are served from the cache copy
func (w *c05World) cachedScenario() {
	cur := func(u int) int {
		if id, ok := w.curChal[u]; ok {
			return id
		}
		return 9999
	}
	w.cached(func() { w.totp([]int{0}, 1, w.modelStep()) }) // accepted; nothing can be persisted
	w.cached(func() { w.totp([]int{0}, 1, w.modelStep()) }) // the same code again, still from the cache
	w.totp([]int{0}, 1, w.modelStep())                      // ... and with the primary back
	w.cached(func() { w.totp([]int{0}, 1, w.modelStep()-1) })
	w.cached(func() { w.totp([]int{1}, 1, w.modelStep()+1) }) // alice's code in bob's session
	w.cached(func() { w.totp([]int{0}, 1, w.modelStep()+1) })
	w.tick(30)
	w.totp([]int{0}, 1, w.modelStep()) // the step accepted from the cache, one step later
	w.totp([]int{0}, 1, w.modelStep()+1)
	w.cached(func() { w.u2fBegin([]int{0}) })
	w.cached(func() { w.finish("U2fFinish", []int{1}, 1, false, cur(1)) })
	w.cached(func() { w.finish("U2fFinish", []int{0}, 1, false, cur(1)) })
	w.cached(func() { w.finish("U2fFinish", []int{0}, 1, false, cur(1)) })
	w.cached(func() { w.waBegin([]int{1}) })
	w.cached(func() { w.finish("WaFinish", []int{1}, 2, true, cur(2)) })
	w.cached(func() { w.waBegin([]int{0}) })
	w.tick(30)
	w.cached(func() { w.finish("WaFinish", []int{0}, 1, false, cur(1)) }) // expired, cache or not
	w.cached(func() { w.issueOtp(2, 3600) })                              // an administrator cannot issue an OTP now
	w.issueOtp(2, 3600)
	w.cached(func() { w.bootstrap([]int{1}, w.curOtp[2]) }) // ... nor can it be used: it could not be cleared
	w.bootstrap([]int{1}, w.curOtp[2])
	w.cached(func() { w.bootstrap([]int{1}, w.curOtp[2]) })
	w.cached(func() { w.vipOtp([]int{1}, 2, true) })
	w.cached(func() { w.pushStart([]int{0}, 0) })
	w.approve(w.vcTx[0])
	w.cached(func() { w.poll([]int{1}, 0) })
	w.cached(func() { w.poll([]int{0}, 0) })
	w.cached(func() { w.login(1, true) })
	w.cached(func() { w.showTok([]int{len(w.cookies) - 2}, c05TokenLife) })
}

// the Okta second factor in small scope (runs under the Okta configuration)
func (w *c05World) oktaAlphabet() []func() {
	last := func() int { return len(w.cookies) - 1 }
	return []func(){
		func() { w.oktaOtp([]int{0}, 1, true) },
		func() { w.oktaOtp([]int{1}, 1, true) },
		func() { w.oktaPushStart([]int{0}) },
		func() { w.oktaApprove(1) },
		func() { w.oktaPoll([]int{last()}) },
		func() { w.oktaPoll([]int{1}) },
		func() { w.tick(150) },
		func() { w.login(1, true) },
	}
}

// the scenarios from this index on are about WHOSE value is presented: they are the ones run under every
// configuration of the name family
const c05FamilyTargetedFrom = 15

// ... and this one is the Okta scenario
const c05OktaTargeted = 16

func TestVerif_C05(t *testing.T) {
	verifWriteConsts(t)
	res := newVerifResult("exhaustive depth-3 histories over 13 core letters and depth-2 over all 34 letters of the alphabet (two of them password logins that carry the newest session cookie, valid or expired), depth 3 over the 8 letters of the Okta alphabet under the Okta configuration (thorough: depth 3 over 20 letters, depth 4 over the first eight and over the Okta letters); requests optionally authenticated by a verified client certificate, with failing profile writes, or served from the cache database, and coming from eight client addresses (RemoteAddr: hosts, ports, IPv6; X-Forwarded-For / X-Real-IP / Forwarded; a local proxy — one random request in four, three letters, one scenario), after the prefix [login user 1; login user 2] + seeded random histories of length <= 12 (thorough <= 20) over all operations + 21 targeted scenarios (one of them a second session of the same user asking for a push within the lifetime of an approved / pending transaction of the first, one of them the product of password logins with attached auth_cookie values: own / another user's / junk x valid / expired x levels, singly and in pairs), under 32 configurations (two plain, a family of user-name pairs in which one name matches the other as a pattern x row orders, two with the Okta authenticator); cookies attached singly and in pairs in both orders; non-trivial = the history contains at least one level upgrade; distinct by (operations, outputs, addresses)")
	vip := &c05Vip{}
	vip.reset()
	// lib/vip builds a new http.Transport for every call and never closes its idle connection: without
	// this the test binary runs out of file descriptors after a few thousand VIP calls
	vip.srv = httptest.NewUnstartedServer(http.HandlerFunc(vip.handle))
	vip.srv.Config.SetKeepAlivesEnabled(false)
	vip.srv.StartTLS()
	defer vip.srv.Close()
	env := verifSetup(t, func(c *AppConfigFile, dir string) {
		c.Base.AllowedAuthBackendsForWebUI = []string{"U2F", "SymantecVIP", "TOTP", "BootstrapOTP", "Okta2FA"}
		c.Base.AllowedAuthBackendsForCerts = []string{"U2F", "SymantecVIP", "TOTP"}
		c.Base.AdminUsers = []string{"admin"}
		c.Base.EnableLocalTOTP = true
		c.Base.EnableBootstrapOTP = true
		c.Base.WebauthTokenForCliLifetime = time.Hour
		// thousands of logins per second: keep C14's limiter out of the way
		c.Base.PasswordAttemptGlobalBurstLimit = 10000000
		c.Base.PasswordAttemptGlobalRateLimit = 1000000
		// any key pair will do for the client side of the VIP connection
		k, _ := ecdsa.GenerateKey(elliptic.P256(), rand.Reader)
		tmpl := &x509.Certificate{SerialNumber: big.NewInt(7), Subject: pkix.Name{CommonName: "verif vip client"}, NotBefore: time.Now().Add(-time.Hour), NotAfter: time.Now().Add(48 * time.Hour)}
		der, _ := x509.CreateCertificate(rand.Reader, tmpl, tmpl, &k.PublicKey, k)
		kb, _ := x509.MarshalECPrivateKey(k)
		ioutil.WriteFile(filepath.Join(dir, "vip-cert.pem"), pem.EncodeToMemory(&pem.Block{Type: "CERTIFICATE", Bytes: der}), 0600)
		ioutil.WriteFile(filepath.Join(dir, "vip-key.pem"), pem.EncodeToMemory(&pem.Block{Type: "EC PRIVATE KEY", Bytes: kb}), 0600)
		// the users of the name family log in through the same htpasswd backend
		if f, err := os.OpenFile(c.Base.HtpasswdFilename, os.O_APPEND|os.O_WRONLY, 0644); err == nil {
			for _, n := range c05FamilyNames() {
				h, err := bcrypt.GenerateFromPassword([]byte(n+"pw"), 4)
				if err != nil {
					t.Fatal(err)
				}
				hs := string(h)
				if strings.HasPrefix(hs, "$2a$") {
					hs = "$2y$" + hs[4:]
				}
				f.WriteString(n + ":" + hs + "\n")
			}
			f.Close()
		} else {
			t.Fatal(err)
		}
		c.SymantecVIP.Enabled = true
		c.SymantecVIP.CertFile = filepath.Join(dir, "vip-cert.pem")
		c.SymantecVIP.KeyFile = filepath.Join(dir, "vip-key.pem")
	})
	oktaSvc := &c05Okta{passwords: map[string]string{"alice": "alicepw", "bob": "bobpw", "admin": "adminpw"}}
	for _, n := range c05FamilyNames() {
		oktaSvc.passwords[n] = n + "pw"
	}
	oktaSvc.reset()
	oktaSvc.srv = httptest.NewServer(http.HandlerFunc(oktaSvc.handle))
	defer oktaSvc.srv.Close()
	oktaAuth, err := okta.NewPublicTesting(oktaSvc.srv.URL+"/api/v1/authn", nulllogger.New())
	if err != nil {
		t.Fatal(err)
	}
	// main() registers the Okta second-factor routes when an Okta domain is configured
	env.state.Config.Okta.Domain = "verif"
	env.state.Config.Okta.Enable2FA = true
	client := env.state.Config.SymantecVIP.Client
	if client == nil {
		t.Fatal("VIP client not configured")
	}
	client.VipUserServicesURL = vip.srv.URL + "/query"
	client.VipUserServiceAuthenticationURL = vip.srv.URL + "/auth"
	client.RootCAs = x509.NewCertPool()
	client.RootCAs.AddCert(vip.srv.Certificate())
	env.handler = env.buildHandler()
	// tens of thousands of requests: the debug loggers format every request structure
	env.state.logger = nulllogger.New()
	logger = nulllogger.New()
	webui := env.state.getRequiredWebUIAuthLevel()
	w := &c05World{t: t, env: env, vip: vip, res: res, names: []string{"", "alice", "bob", "admin"}, webui: webui,
		okta: oktaSvc, oktaAuth: oktaAuth, htpasswd: env.state.passwordChecker,
		secret: map[int]string{}, u2fKey: map[int]*c05Key{}, waKey: map[int]*c05Key{}}
	for u := 1; u <= 2; u++ {
		key, err := totp.Generate(totp.GenerateOpts{Issuer: "verif", AccountName: w.names[u]})
		if err != nil {
			t.Fatal(err)
		}
		w.secret[u] = key.Secret()
		w.u2fKey[u] = c05NewKey(fmt.Sprintf("u2f-%d", u))
		w.waKey[u] = c05NewKey(fmt.Sprintf("wa-%d", u))
	}
	w.admin = env.cookie("admin", AuthTypeU2F)
	w.savedFor = -1
	configs := c05Configs()
	rng := verifRand()
	thorough := verifThorough()
	type hist struct {
		cfg       int
		ops, outs []string
		human     []string
		tag       string
		addrs     map[int]int // position -> client address of the request (absent: 0)
	}
	var all []hist
	finishHistory := func(cfg int, tag string) {
		upgrades := 0
		for _, o := range w.outs {
			if strings.Contains(o, "Some") {
				upgrades++
			}
		}
		res.eval(strings.Join(w.ops, ";")+"|"+strings.Join(w.outs, ";")+"|"+fmt.Sprint(w.addrAt), upgrades > 2)
		all = append(all, hist{cfg, w.ops, w.outs, w.human, tag, w.addrAt})
		if len(res.Samples) < 3 && upgrades > 3 {
			res.sample(map[string]interface{}{"history": w.human, "outputs": w.outs})
		}
	}
	// targeted scenarios, under both configurations
	for ci := range configs {
		w.use(configs, ci)
		n := len(w.targeted())
		for i := 0; i < n; i++ {
			switch configs[ci].class() {
			case "family": // the name families run the scenario that is about WHOSE value is presented
				if i != c05FamilyTargetedFrom {
					continue
				}
			case "okta":
				if i != c05FamilyTargetedFrom && i != c05OktaTargeted {
					continue
				}
			default:
				if i == c05OktaTargeted && ci != 0 {
					continue // without the Okta backend every Okta operation is refused: seen once
				}
			}
			w.prefix()
			w.targeted()[i]()
			finishHistory(ci, fmt.Sprintf("targeted-%d", i))
			res.bump("history:targeted")
			res.bump("config:" + configs[ci].tag)
		}
	}
	// exhaustive small scope: depth 3 over the whole alphabet; thorough adds depth 4 over its first eight letters
	w.use(configs, 0)
	alphabetOf := w.alphabet
	enumCfg := 0
	enumerate := func(letters []int, depth int, tag string) {
		nAlpha := len(letters)
		total := 1
		for i := 0; i < depth; i++ {
			total *= nAlpha
		}
		for h := 0; h < total; h++ {
			w.prefix()
			x := h
			for i := 0; i < depth; i++ {
				alphabetOf()[letters[x%nAlpha]]()
				x /= nAlpha
			}
			finishHistory(enumCfg, tag)
			res.bump("history:" + tag)
		}
	}
	allLetters := make([]int, len(w.alphabet()))
	for i := range allLetters {
		allLetters[i] = i
	}
	if thorough {
		// depth 3 over the 13 core letters plus the six letters of rounds 3 and 4 (another session of the same
		// user an hour later; a second sign request after 31 s; an assertion over the first challenge; the other
		// user's code; TOTP and bootstrap OTP served from the cache): 19^3 = 6859; all 29 at depth 2
		enumerate(append(append([]int{}, c05Core...), 19, 24, 25, 26, 27, 28, 29), 3, "exhaustive")
		enumerate(allLetters, 2, "exhaustive-depth2")
		enumerate(allLetters[:8], 4, "exhaustive-depth4")
	} else {
		enumerate(c05Core, 3, "exhaustive")
		enumerate(allLetters, 2, "exhaustive-depth2")
	}
	// the Okta second factor: depth 3 (thorough 4) over its own alphabet under the Okta configuration
	for ci := range configs {
		if configs[ci].tag == "okta-plain" {
			w.use(configs, ci)
			alphabetOf, enumCfg = w.oktaAlphabet, ci
			ol := make([]int, len(w.oktaAlphabet()))
			for i := range ol {
				ol[i] = i
			}
			if thorough {
				enumerate(ol, 4, "exhaustive-okta")
			} else {
				enumerate(ol, 3, "exhaustive-okta")
			}
		}
	}
	res.Exhaustive = true
	// random
	nRandom, maxLen := 300, 12
	if thorough {
		nRandom, maxLen = 2000, 20
	}
	for h := 0; h < nRandom; h++ {
		// half of the random histories under the two plain configurations, a quarter across the name family
		// ... and a quarter under the Okta configurations (the last two)
		ci := (h / 2) % 2
		switch h % 4 {
		case 1:
			ci = 2 + (h/4)%(len(configs)-4)
		case 3:
			ci = len(configs) - 2 + (h/4)%2
		}
		w.use(configs, ci)
		w.prefix()
		n := 3 + rng.Intn(maxLen-2)
		for i := 0; i < n; i++ {
			w.randomOp(rng)
		}
		finishHistory(ci, "random")
		res.bump("history:random")
	}
	// single use over interleavings: right value || wrong value under every schedule (c05conc.go)
	c05Concurrent(t, w, configs)
	for _, p := range env.panics {
		res.bump("handler-panic")
		res.Extra["panic"] = p
	}

	// ---- Coq cases
	coqName := func(n string) string {
		var parts []string
		for _, b := range []byte(n) {
			parts = append(parts, fmt.Sprintf("%d", b))
		}
		return "[" + strings.Join(parts, ";") + "]"
	}
	var sb strings.Builder
	sb.WriteString(coqCaseHeader)
	sb.WriteString("From KM Require Import Base.Cases Model.Session Model.Profiles Model.SessionObs Model.SessionAddr.\nOpen Scope N_scope.\n")
	sb.WriteString("Definition A (u ch : N) (wa : bool) : assertion := {| a_owner := u; a_wa_key := wa; a_chal := ch |}.\n")
	sb.WriteString("Definition D (t u w : bool) : devices := {| has_totp := t; has_u2f := u; has_wa := w; has_profile := true |}.\n")
	// per configuration: the names of the users (byte strings) and the profile table as the harness wrote it,
	// row by row in that order; the enrolment the session machine sees is the model's exact-name lookup
	var namesOK, cfgList []string
	for ci, c := range configs {
		sb.WriteString(fmt.Sprintf("(* configuration %d: %s *)\n", ci, c.tag))
		sb.WriteString(fmt.Sprintf("Definition names%d (u : N) : bs := if u =? 1 then %s else if u =? 2 then %s else [].\n", ci, coqName(c.names[1]), coqName(c.names[2])))
		tbl := "[]"
		for _, u := range c.order {
			if d := c.devs[u]; d.profile {
				tbl = fmt.Sprintf("save (names%d %d) (D %s %s %s) (%s)", ci, u, coqBool(d.totp), coqBool(d.u2f), coqBool(d.wa), tbl)
			}
		}
		sb.WriteString(fmt.Sprintf("Definition table%d : table := %s.\n", ci, tbl))
		sb.WriteString(fmt.Sprintf("Definition devs%d : N -> devices := devs_of names%d table%d.\n", ci, ci, ci))
		namesOK = append(namesOK, fmt.Sprintf("distinct [names%d 1; names%d 2; names%d 3]", ci, ci, ci))
		if c.okta {
			cfgList = append(cfgList, fmt.Sprintf("fixed_okta devs%d webui_mask %d", ci, c05OktaLife))
		} else {
			cfgList = append(cfgList, fmt.Sprintf("fixed devs%d webui_mask", ci))
		}
	}
	sb.WriteString(fmt.Sprintf("Definition webui_mask : N := %d.\n", webui))
	sb.WriteString("Definition all_cfgs : list config := [" + strings.Join(cfgList, "; ") + "].\n")
	sb.WriteString("Definition cfg_of (i : N) : config := nth (N.to_nat i) all_cfgs (fixed devs0 webui_mask).\n")
	sb.WriteString("(* distinct users have distinct names (the model compares user numbers, the code compares names) *)\nDefinition names_ok : bool := " + strings.Join(namesOK, " && ") + ".\n")
	sb.WriteString(fmt.Sprintf("(* maxAgeSecondsAuthCookie / maxAgeSecondsVIPCookie / maxAgeU2FVerifySeconds of the tree must be the lifetimes the theorems are stated with *)\nDefinition life_ok : bool := ((%d =? cookie_life (cfg_of 0)) && (%d =? vip_life (cfg_of 0)) && (%d =? chal_life))%%Z.\n", int64(maxAgeSecondsAuthCookie), int64(maxAgeSecondsVIPCookie), int64(maxAgeU2FVerifySeconds)))
	sb.WriteString("(* a history is a list of (client address, operation): the model is evaluated by run_obs_at (Model.SessionAddr) *)\nDefinition hist := (N * list areq * list observed)%type.\n")
	sb.WriteString("Definition bad (h : hist) : bool :=\n  let '(i, ops, obs) := h in negb (life_ok && names_ok && match obs_agree (run_obs_at (cfg_of i) init ops) obs 0 with [] => true | _ => false end).\n")
	sb.WriteString("(* the property's own predicates on the observed outputs of a mismatching history (Model.SessionObs) *)\nDefinition viol (h : hist) : nat := let '(i, ops, obs) := h in violation (cfg_of i) init (ops_of ops) obs.\n")
	sb.WriteString("Definition cases : list hist := [\n")
	var idx strings.Builder
	for i, h := range all {
		sep := ";"
		if i == len(all)-1 {
			sep = ""
		}
		areqs := make([]string, len(h.ops))
		for j, o := range h.ops {
			areqs[j] = fmt.Sprintf("(%d, %s)", h.addrs[j], o)
		}
		sb.WriteString(fmt.Sprintf(" (%d, [%s], [%s])%s\n", h.cfg, strings.Join(areqs, "; "), strings.Join(h.outs, "; "), sep))
		idx.WriteString(fmt.Sprintf("%d\t%s cfg=%d(%s: 1=%q 2=%q) %s => %s\n", i, h.tag, h.cfg, configs[h.cfg].tag, configs[h.cfg].names[1], configs[h.cfg].names[2], strings.Join(h.human, " ; "), strings.Join(h.outs, " ")))
	}
	sb.WriteString("].\nDefinition c05_mismatches := Eval vm_compute in mismatches bad cases.\nPrint c05_mismatches.\n")
	sb.WriteString("Definition c05_ncases := Eval vm_compute in length cases.\nPrint c05_ncases.\n")
	sb.WriteString("Definition c05_first := Eval vm_compute in match c05_mismatches with [] => [] | i :: _ => match nth_error cases i with Some (c, ops, obs) => obs_agree (run_obs_at (cfg_of c) init ops) obs 0 | None => [] end end.\nPrint c05_first.\n")
	sb.WriteString("Definition c05_violating := Eval vm_compute in classify bad viol cases 0.\nPrint c05_violating.\n")
	if err := ioutil.WriteFile(filepath.Join(verifOut(), "CasesC05.v"), []byte(sb.String()), 0644); err != nil {
		t.Fatal(err)
	}
	ioutil.WriteFile(filepath.Join(verifOut(), "CasesC05.idx"), []byte(idx.String()), 0644)
	_ = binary.BigEndian
	_ = tls.VersionTLS12
	res.write(t, "TestVerif_C05")
}
