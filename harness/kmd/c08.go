package main

// C08 — users manage only themselves; administration needs admin rights (+ U2F).
//
// Part 1 (matrix): actor role x credential x target x operation x parameters against the real
// handlers through the regenerated service mux, with the raw stored rows of every user compared
// before/after.  Each cell goes to Coq (Model/Authz.v `step`) with the observed response class
// and the projected store; independently the statement's own oracle is evaluated on it.
// Part 2 (traces): IsAdminUser under a controllable clock (the production Cache built by
// loadVerifyConfigFile, clock injected through the overlaid admincache/export.go) with a
// switchable group directory (gitdb on local directories, an unusable LDAP URL for "directory
// down") against Model/AdminCache.v, plus the `justified` oracle of Proofs/AdminCache.v
// re-implemented here with the statement's five minutes.

import (
	"bytes"
	"crypto/ecdsa"
	"crypto/elliptic"
	"crypto/rand"
	"crypto/sha256"
	"crypto/x509"
	"crypto/x509/pkix"
	"encoding/base64"
	"encoding/gob"
	"encoding/json"
	"fmt"
	"io/ioutil"
	"math/big"
	mrand "math/rand"
	"net"
	"net/http"
	"net/http/httptest"
	"net/url"
	"os"
	"path/filepath"
	"sort"
	"strconv"
	"strings"
	"testing"
	"time"

	"github.com/Cloud-Foundations/golib/pkg/auth/userinfo/gitdb"
	"github.com/Cloud-Foundations/keymaster/keymasterd/admincache"
	"github.com/duo-labs/webauthn/webauthn"
	"github.com/fxamacker/cbor/v2"
	"github.com/pquerna/otp/totp"
	"github.com/tstranex/u2f"
	"golang.org/x/crypto/bcrypt"
)

// ---------------------------------------------------------------- names

var c08UserID = map[string]int{"": 0, "alice": 1, "bob": 2, "carol": 3, "admin": 7, "gadmin": 8, "autoadm": 9,
	"svc-automation": 30, "svc-grp": 31, "newuser": 40, "ghost": 41, "dave": 4, "tracenew": 44,
	// other spellings of existing names: separate accounts when disable_username_normalization is set
	"Alice": 42, "ALICE": 43, "Admin": 45, "Bob": 46,
	// names that merely resemble a configured administrator / automation identity / automation admin
	"admin2": 5, "svc-automation2": 32, "autoadm2": 6}
var c08GroupID = map[string]int{"km-admins": 50, "automation-grp": 51, "staff": 52,
	// look-alikes of the configured names: none of them makes anybody administrator / automation identity
	"km-admins-ro": 53, "km-admin": 54, "KM-ADMINS": 55, "automation-grp-x": 56, "automation": 57}
var c08TokName = map[string]int{"": 0, "tok-a": 11, "tok-b": 12, "tok-c": 13, "renamed": 20}

// users that have a row in every fixture
var c08Existing = []string{"alice", "bob", "carol", "admin", "gadmin", "autoadm", "svc-automation", "admin2", "Alice", "Admin"}

// a user name as a Coq term: names are byte strings in the model, (U k) is the k-th name of the table
func c08U(name string) string {
	id, ok := c08UserID[name]
	if !ok {
		// a name outside the table (the automation identities of the identity cells): the bytes themselves
		var bs []string
		for _, c := range []byte(name) {
			bs = append(bs, strconv.Itoa(int(c)))
		}
		return "[" + strings.Join(bs, "; ") + "]"
	}
	return fmt.Sprintf("(U %d)", id)
}

// Definition U : N -> name, from the name table
func c08UTable() string {
	var ids []int
	byID := map[int]string{}
	for n, id := range c08UserID {
		ids = append(ids, id)
		byID[id] = n
	}
	sort.Ints(ids)
	var sb strings.Builder
	sb.WriteString("Definition U (k : N) : name :=\n")
	for _, id := range ids {
		var bs []string
		for _, c := range []byte(byID[id]) {
			bs = append(bs, strconv.Itoa(int(c)))
		}
		sb.WriteString(fmt.Sprintf("  if k =? %d then [%s] (* %q *) else\n", id, strings.Join(bs, "; "), byID[id]))
	}
	sb.WriteString("  [255; 255]. (* a name outside the table *)\n")
	return sb.String()
}

// the name a token carries, as a Coq term
func c08TName(n string) string {
	if strings.HasPrefix(n, "Registered by ") {
		if _, ok := c08UserID[strings.TrimPrefix(n, "Registered by ")]; ok {
			return "(TRegBy " + c08U(strings.TrimPrefix(n, "Registered by ")) + ")"
		}
	}
	return fmt.Sprintf("(TN %d)", c08NameID(n))
}

// the directory of the matrix environment (ground truth the harness wrote to groups.json)
var c08Directory = map[string][]string{"gadmin": {"km-admins"}, "svc-grp": {"automation-grp"}, "alice": {"automation", "automation-grp-x", "staff"}, "bob": {"staff"},
	"carol": {"KM-ADMINS", "km-admin", "km-admins-ro"}}

func c08IsAdminTruth(u string) bool     { return u == "admin" || u == "gadmin" }
func c08IsAutoAdminTruth(u string) bool { return u == "autoadm" }
func c08IsAutomationIdentity(u string) bool {
	return u == "svc-automation" || u == "svc-grp"
}

// the statement's "configured automation identity": literally (Go ==, byte for byte) an entry of
// automation_users, or per the directory the harness wrote a member of a configured automation group
func c08IdentityConfigured(autoUsers, autoGroups []string, id string) bool {
	for _, a := range autoUsers {
		if len(a) == len(id) && bytes.Equal([]byte(a), []byte(id)) {
			return true
		}
	}
	for _, g := range c08Directory[id] {
		for _, ag := range autoGroups {
			if g == ag {
				return true
			}
		}
	}
	return false
}

func c08NameID(n string) int {
	if v, ok := c08TokName[n]; ok {
		return v
	}
	if strings.HasPrefix(n, "Registered by ") {
		if id, ok := c08UserID[strings.TrimPrefix(n, "Registered by ")]; ok {
			return 1000 + id
		}
	}
	return 9999
}

func c08WriteGroups(t *testing.T, dir string, groups map[string][]string) {
	if err := os.MkdirAll(dir, 0755); err != nil {
		t.Fatal(err)
	}
	type g struct {
		Name        string
		UserMembers []string
	}
	var gs []g
	var names []string
	for n := range groups {
		names = append(names, n)
	}
	sort.Strings(names)
	for _, n := range names {
		m := append([]string{}, groups[n]...)
		sort.Strings(m)
		gs = append(gs, g{Name: n, UserMembers: m})
	}
	b, _ := json.Marshal(gs)
	if err := ioutil.WriteFile(filepath.Join(dir, "groups.json"), b, 0644); err != nil {
		t.Fatal(err)
	}
	if err := ioutil.WriteFile(filepath.Join(dir, "permitted-groups.json"), []byte(`["KM-.*", "automation.*", "km-.*", "staff"]`), 0644); err != nil {
		t.Fatal(err)
	}
}

// ---------------------------------------------------------------- software U2F token

type c08SoftToken struct {
	key  *ecdsa.PrivateKey
	cert []byte
}

func c08NewSoftToken() *c08SoftToken {
	k, err := ecdsa.GenerateKey(elliptic.P256(), rand.Reader)
	if err != nil {
		panic(err)
	}
	tmpl := x509.Certificate{SerialNumber: big.NewInt(4711), Subject: pkix.Name{CommonName: "verif soft token"},
		NotBefore: time.Now().Add(-time.Hour), NotAfter: time.Now().Add(24 * time.Hour)}
	der, err := x509.CreateCertificate(rand.Reader, &tmpl, &tmpl, &k.PublicKey, k)
	if err != nil {
		panic(err)
	}
	return &c08SoftToken{key: k, cert: der}
}

func c08b64(b []byte) string { return strings.TrimRight(base64.URLEncoding.EncodeToString(b), "=") }

// a registration response a real token would give for this challenge
func (s *c08SoftToken) register(c *u2f.Challenge, origin string) u2f.RegisterResponse {
	clientData, _ := json.Marshal(map[string]string{"typ": "navigator.id.finishEnrollment", "challenge": c08b64(c.Challenge), "origin": origin})
	kh := make([]byte, 32)
	rand.Read(kh)
	pub := elliptic.Marshal(elliptic.P256(), s.key.PublicKey.X, s.key.PublicKey.Y)
	app := sha256.Sum256([]byte(c.AppID))
	chal := sha256.Sum256(clientData)
	msg := []byte{0}
	msg = append(msg, app[:]...)
	msg = append(msg, chal[:]...)
	msg = append(msg, kh...)
	msg = append(msg, pub...)
	h := sha256.Sum256(msg)
	sig, err := ecdsa.SignASN1(rand.Reader, s.key, h[:])
	if err != nil {
		panic(err)
	}
	reg := []byte{5}
	reg = append(reg, pub...)
	reg = append(reg, byte(len(kh)))
	reg = append(reg, kh...)
	reg = append(reg, s.cert...)
	reg = append(reg, sig...)
	return u2f.RegisterResponse{Version: "U2F_V2", RegistrationData: c08b64(reg), ClientData: c08b64(clientData)}
}

// a WebAuthn registration ("none" attestation) a real authenticator would give for this session
const c08WAChallenge = "dmVyaWYtd2ViYXV0aG4tY2hhbGxlbmdlLTAxMjM0NTY3"

func (s *c08SoftToken) webauthnCreate(challenge, rpID, origin string) []byte {
	clientData, _ := json.Marshal(map[string]string{"type": "webauthn.create", "challenge": challenge, "origin": origin})
	credID := make([]byte, 16)
	rand.Read(credID)
	x := s.key.PublicKey.X.FillBytes(make([]byte, 32))
	y := s.key.PublicKey.Y.FillBytes(make([]byte, 32))
	cose, err := cbor.Marshal(map[int]interface{}{1: 2, 3: -7, -1: 1, -2: x, -3: y})
	if err != nil {
		panic(err)
	}
	rp := sha256.Sum256([]byte(rpID))
	ad := append([]byte{}, rp[:]...)
	ad = append(ad, 0x41)       // user present + attested credential data
	ad = append(ad, 0, 0, 0, 0) // signature counter
	ad = append(ad, make([]byte, 16)...)
	ad = append(ad, byte(len(credID)>>8), byte(len(credID)))
	ad = append(ad, credID...)
	ad = append(ad, cose...)
	att, err := cbor.Marshal(map[string]interface{}{"fmt": "none", "attStmt": map[string]interface{}{}, "authData": ad})
	if err != nil {
		panic(err)
	}
	id := base64.RawURLEncoding.EncodeToString(credID)
	body, _ := json.Marshal(map[string]interface{}{"id": id, "rawId": id, "type": "public-key",
		"response": map[string]string{"attestationObject": base64.RawURLEncoding.EncodeToString(att), "clientDataJSON": base64.RawURLEncoding.EncodeToString(clientData)}})
	return body
}

// ---------------------------------------------------------------- fixtures

type c08Fix struct {
	env        *verifEnv
	soft       *c08SoftToken
	reg        *u2f.Registration
	challenge  *u2f.Challenge
	totpSecret string
	encSecret  [][]byte
	blobs      [3][]byte // gob of the profile of each variant
	builtAt    time.Time
}

const (
	c08VarTokens = 0 // tokens, nothing pending
	c08VarFull   = 1 // tokens + registration challenge + pending TOTP secret + webauthn session
	c08VarBare   = 2 // a row without tokens
)

func (f *c08Fix) profile(variant int) *userProfile {
	p := &userProfile{U2fAuthData: map[int64]*u2fAuthData{}, TOTPAuthData: map[int64]*totpAuthData{}, WebauthnData: map[int64]*webauthAuthData{}}
	if variant == c08VarBare {
		return p
	}
	created := time.Date(2026, 1, 2, 3, 4, 5, 0, time.UTC)
	p.U2fAuthData[1] = &u2fAuthData{Enabled: true, CreatedAt: created, Name: "tok-a", Registration: f.reg}
	p.U2fAuthData[3] = &u2fAuthData{Enabled: false, CreatedAt: created, Name: "tok-b", Registration: f.reg}
	cred := webauthn.Credential{ID: []byte("verif-credential-id"), PublicKey: []byte{1, 2, 3}, AttestationType: "none"}
	p.WebauthnData[3] = &webauthAuthData{Enabled: true, CreatedAt: created, Name: "tok-c", Credential: cred}
	p.WebauthnData[5] = &webauthAuthData{Enabled: true, CreatedAt: created, Name: "tok-c", Credential: cred}
	p.TOTPAuthData[0] = &totpAuthData{Enabled: true, CreatedAt: created, Name: "tok-a", EncryptedSecret: f.encSecret}
	p.TOTPAuthData[7] = &totpAuthData{Enabled: false, CreatedAt: created, Name: "tok-b", EncryptedSecret: f.encSecret}
	p.UserHasRegistered2ndFactor = true
	if variant == c08VarFull {
		p.RegistrationChallenge = f.challenge
		enc := f.encSecret
		p.PendingTOTPSecret = &enc
		p.WebauthnID = 4711
		p.DisplayName, p.Username = "verif", "verif"
		p.WebauthnSessionData = &webauthn.SessionData{Challenge: c08WAChallenge, UserID: p.WebAuthnID()}
	}
	return p
}

func c08NewFix(t *testing.T, env *verifEnv) *c08Fix {
	f := &c08Fix{env: env, soft: c08NewSoftToken()}
	if len(u2fTrustedFacets) == 0 {
		t.Fatal("no trusted facet configured")
	}
	c, err := u2f.NewChallenge(u2fAppID, u2fTrustedFacets)
	if err != nil {
		t.Fatal(err)
	}
	f.reg, err = u2f.Register(f.soft.register(c, u2fTrustedFacets[0]), *c, &u2f.Config{SkipAttestationVerify: true})
	if err != nil {
		t.Fatalf("software token registration refused: %v", err)
	}
	key, err := totp.Generate(totp.GenerateOpts{Issuer: "verif", AccountName: "verif"})
	if err != nil {
		t.Fatal(err)
	}
	f.totpSecret = key.Secret()
	f.encSecret, err = env.state.encryptWithPublicKeys([]byte(f.totpSecret))
	if err != nil {
		t.Fatal(err)
	}
	f.rebuild(t)
	return f
}

// (re)create the stored blobs; the registration challenge inside must stay fresh
func (f *c08Fix) rebuild(t *testing.T) {
	c, err := u2f.NewChallenge(u2fAppID, u2fTrustedFacets)
	if err != nil {
		t.Fatal(err)
	}
	f.challenge = c
	for v := 0; v < 3; v++ {
		var buf bytes.Buffer
		if err := gob.NewEncoder(&buf).Encode(f.profile(v)); err != nil {
			t.Fatal(err)
		}
		f.blobs[v] = buf.Bytes()
	}
	f.builtAt = time.Now()
}

// put every existing user's row to the variant and drop every other row (one transaction)
func (f *c08Fix) reset(t *testing.T, variant int) {
	if time.Since(f.builtAt) > 90*time.Second {
		f.rebuild(t)
	}
	db := f.env.state.db
	tx, err := db.Begin()
	if err != nil {
		t.Fatal(err)
	}
	if _, err := tx.Exec("delete from user_profile"); err != nil {
		t.Fatal(err)
	}
	for _, u := range c08Existing {
		if _, err := tx.Exec("insert or replace into user_profile(username, profile_data) values(?, ?)", u, f.blobs[variant]); err != nil {
			t.Fatal(err)
		}
	}
	if err := tx.Commit(); err != nil {
		t.Fatal(err)
	}
}

func c08Snapshot(t *testing.T, env *verifEnv) map[string][]byte {
	rows, err := env.state.db.Query("select username, profile_data from user_profile")
	if err != nil {
		t.Fatal(err)
	}
	defer rows.Close()
	m := map[string][]byte{}
	for rows.Next() {
		var u string
		var b []byte
		if err := rows.Scan(&u, &b); err != nil {
			t.Fatal(err)
		}
		m[u] = b
	}
	return m
}

var c08FixtureIndex = map[int64]bool{0: true, 1: true, 3: true, 5: true, 7: true}

func c08CanonIndex(i int64) int64 {
	if c08FixtureIndex[i] {
		return i
	}
	return 1000000
}

type c08Tok struct {
	idx     int64
	name    string
	enabled bool
}

func c08Toks(n int, get func(i int) (int64, string, bool)) string {
	var l []c08Tok
	for i := 0; i < n; i++ {
		idx, name, en := get(i)
		l = append(l, c08Tok{idx, c08TName(name), en})
	}
	sort.Slice(l, func(a, b int) bool { return l[a].idx < l[b].idx })
	var s []string
	for _, x := range l {
		s = append(s, fmt.Sprintf("T %s %s %v", coqZ(c08CanonIndex(x.idx)), x.name, x.enabled))
	}
	return "[" + strings.Join(s, "; ") + "]"
}

// the stored blob reduced to what Model/Authz.v's profile records
func c08ProjectProfile(blob []byte) (string, error) {
	var p userProfile
	if err := gob.NewDecoder(bytes.NewReader(blob)).Decode(&p); err != nil {
		return "", err
	}
	var ui, wi, ti []int64
	for i := range p.U2fAuthData {
		ui = append(ui, i)
	}
	for i := range p.WebauthnData {
		wi = append(wi, i)
	}
	for i := range p.TOTPAuthData {
		ti = append(ti, i)
	}
	u := c08Toks(len(ui), func(i int) (int64, string, bool) { d := p.U2fAuthData[ui[i]]; return ui[i], d.Name, d.Enabled })
	w := c08Toks(len(wi), func(i int) (int64, string, bool) { d := p.WebauthnData[wi[i]]; return wi[i], d.Name, d.Enabled })
	tt := c08Toks(len(ti), func(i int) (int64, string, bool) { d := p.TOTPAuthData[ti[i]]; return ti[i], d.Name, d.Enabled })
	boot := len(p.BootstrapOTP.Sha512Hash) > 0
	return fmt.Sprintf("P %s %s %s %v %v %v %v %v", u, w, tt, p.RegistrationChallenge != nil, p.PendingTOTPSecret != nil,
		p.WebauthnSessionData != nil, boot, p.UserHasRegistered2ndFactor), nil
}

func c08ProjectStore(snap map[string][]byte) (string, error) {
	var names []string
	for u := range snap {
		names = append(names, u)
	}
	sort.Strings(names)
	var s []string
	for _, u := range names {
		if _, ok := c08UserID[u]; !ok {
			return "", fmt.Errorf("unexpected row for user %q", u)
		}
		p, err := c08ProjectProfile(snap[u])
		if err != nil {
			return "", err
		}
		s = append(s, fmt.Sprintf("(%s, %s)", c08U(u), p))
	}
	return "[" + strings.Join(s, "; ") + "]", nil
}

// ---------------------------------------------------------------- cells

type c08Cred struct {
	kind  string // none | session | kmcert | ipcert | login
	user  string // login: the spelling typed into the login form
	level int
}

func (c c08Cred) coq() string {
	switch c.kind {
	case "session":
		return fmt.Sprintf("(Session %s %d)", c08U(c.user), c.level)
	case "kmcert":
		return fmt.Sprintf("(KMCert %s)", c08U(c.user))
	case "ipcert":
		return fmt.Sprintf("(IPCert %s)", c08U(c.user))
	case "login":
		return fmt.Sprintf("(Login %s %d)", c08U(c.user), c.level)
	}
	return "NoCred"
}

func (c c08Cred) levelClass() string {
	switch c.kind {
	case "session", "login":
		if c.level&AuthTypeU2F != 0 {
			return "u2f-session"
		}
		return "no-u2f-session"
	case "kmcert":
		return "client-cert"
	case "ipcert":
		return "ip-cert"
	}
	return "no-credential"
}

func (c c08Cred) hasU2F() bool {
	return (c.kind == "session" || c.kind == "login") && c.level&AuthTypeU2F != 0
}

func c08RoleClass(u string) string {
	switch {
	case u == "":
		return "nobody"
	case u == "admin":
		return "admin-by-name"
	case u == "gadmin":
		return "admin-by-group"
	case u == "autoadm":
		return "automation-admin"
	case c08IsAutomationIdentity(u):
		return "automation-user"
	}
	return "plain"
}

type c08Cell struct {
	variant  int
	cred     c08Cred
	post     bool
	op       string // Coq constructor name without argument
	action   string // manage ops: Update Disable Enable Delete Bogus
	target   string
	index    string // raw form value, "" = parameter absent
	name     string
	proof    int // 0 malformed, 1 wrong, 2 good
	paramsOK bool
	// identity cells (role certificates): Config.Base.AutomationUsers is set to this list for the request
	// (nil = the list of the environment's configuration file); cfgIdx = index of that configuration in the
	// case file; identClass = the shape the requested identity was derived by (oracle key)
	autoUsers  []string
	cfgIdx     int
	identClass string
}

func (c *c08Cell) coqOp() string {
	if c.op == "ManageU2F" || c.op == "ManageTOTP" {
		a := c.action
		if a == "Bogus" || a == "" {
			a = "OtherAction"
		}
		return "(" + c.op + " " + a + ")"
	}
	return c.op
}

func (c *c08Cell) coqIndex() string {
	v, err := strconv.ParseInt(c.index, 10, 64)
	if err != nil {
		return "None"
	}
	return "(Some " + coqZ(v) + ")"
}

func (c *c08Cell) nameID() int {
	if c.name == "renamed" {
		return c08TokName["renamed"]
	}
	return 0 // anything the pattern refuses (and the empty string)
}

var c08Proofs = []string{"PMalformed", "PWrong", "PGood"}

func (c *c08Cell) describe() string {
	s := fmt.Sprintf("variant=%d cred=%s:%s:%d post=%v op=%s/%s target=%q index=%q name=%q proof=%s params=%v", c.variant, c.cred.kind, c.cred.user,
		c.cred.level, c.post, c.op, c.action, c.target, c.index, c.name, c08Proofs[c.proof], c.paramsOK)
	if c.autoUsers != nil {
		s += fmt.Sprintf(" automation_users=%q identity-shape=%s", c.autoUsers, c.identClass)
	}
	return s
}

func (c *c08Cell) tokenOp() bool {
	switch c.op {
	case "ManageU2F", "ManageTOTP", "U2FRegBegin", "U2FRegFinish", "WARegBegin", "WARegFinish", "TOTPGenerate", "TOTPValidate":
		return true
	}
	return false
}

func (c *c08Cell) userAdminOp() bool {
	switch c.op {
	case "ListUsers", "AddUser", "DeleteUser", "NewBootstrapOTP":
		return true
	}
	return false
}

type c08Runner struct {
	t       *testing.T
	env     *verifEnv
	fix     *c08Fix
	res     *verifResult
	keys    *verifKeys
	envIdx  int
	cases   []string
	idx     []string
	// cells of the second role-certificate endpoint, /v1/refreshRoleRequestingCert (c08_refresh.go)
	rcases  []string
	ridx    []string
	curVar  int
	dirty   bool
	chains  map[string][][]*x509.Certificate
	cookies map[string]*http.Cookie
	logins  map[string]string // spelling typed at the login form -> subject of the session the server issued
	// further configurations (the environment's with another automation_users list) for the case file
	newCfg func(autoUsers []string) int
}

// the subject of the session the real login handler issues for this spelling of the name
// (password from the htpasswd file the harness wrote: <lower-case name>pw)
func (r *c08Runner) loginSubject(typed string) string {
	if s, ok := r.logins[typed]; ok {
		return s
	}
	form := url.Values{}
	form.Set("username", typed)
	form.Set("password", strings.ToLower(typed)+"pw")
	req := verifNewRequest("POST", "/api/v0/login", form)
	rr, _ := r.env.serve(req)
	subject := ""
	for _, ck := range rr.Result().Cookies() {
		if ck.Name == authCookieName {
			if info, err := r.env.state.getAuthInfoFromAuthJWT(ck.Value); err == nil {
				subject = info.Username
			}
		}
	}
	if subject == "" {
		r.res.hit(verifHit{Key: "C08:harness:login", Oracle: "harness", Kind: "harness", What: fmt.Sprintf("login as %q did not produce a session (status %d)", typed, rr.Code)})
	}
	// the statement's side: what the configuration says the subject has to be
	want := typed
	if !r.env.state.Config.Base.DisableUsernameNormalization {
		want = strings.ToLower(typed)
	}
	if subject != "" && subject != want {
		r.res.hit(verifHit{Key: "C08:login-subject:" + c08RoleClass(want), Oracle: "the session issued at login names another user than the (normalised) name that was typed",
			What: fmt.Sprintf("login as %q (disable_username_normalization=%v) issued a session for %q", typed, r.env.state.Config.Base.DisableUsernameNormalization, subject)})
	}
	r.logins[typed] = subject
	r.dirty = true
	return subject
}

// who the request is authenticated as
func (r *c08Runner) who(c c08Cred) string {
	switch c.kind {
	case "none":
		return ""
	case "login":
		return r.loginSubject(c.user)
	}
	return c.user
}

func (r *c08Runner) chain(kind, user string) [][]*x509.Certificate {
	k := kind + "|" + user
	if ch, ok := r.chains[k]; ok {
		return ch
	}
	var ch [][]*x509.Certificate
	if kind == "kmcert" {
		ch = r.env.keymasterChain(user, time.Now().Add(-time.Minute), &r.keys.ec.PublicKey)
	} else {
		ch = r.env.ipRestrictedChain(user, []net.IPNet{mustCIDR("10.0.0.0/8")}, &r.keys.ec.PublicKey)
	}
	r.chains[k] = ch
	return ch
}

func (r *c08Runner) cookie(user string, level int) *http.Cookie {
	k := fmt.Sprintf("%s|%d", user, level)
	if c, ok := r.cookies[k]; ok {
		return c
	}
	c := r.env.cookie(user, level)
	r.cookies[k] = c
	return c
}

func (r *c08Runner) request(c *c08Cell) *http.Request {
	method := "GET"
	if c.post {
		method = "POST"
	}
	form := url.Values{}
	var path string
	var req *http.Request
	switch c.op {
	case "ViewProfile":
		path = profilePath + c.target
	case "ManageU2F", "ManageTOTP":
		path = u2fTokenManagementPath
		if c.op == "ManageTOTP" {
			path = totpTokenManagementPath
		}
		if c.target != "" {
			form.Set("username", c.target)
		}
		if c.index != "" {
			form.Set("index", c.index)
		}
		form.Set("name", c.name)
		form.Set("action", c.action)
	case "U2FRegBegin":
		path = u2fRegustisterRequestPath + c.target
	case "WARegBegin":
		path = webAutnRegististerRequestPath + c.target
	case "U2FRegFinish", "WARegFinish":
		path = u2fRegisterRequesponsePath + c.target
		if c.op == "WARegFinish" {
			path = webAutnRegististerFinishPath + c.target
		}
		var body []byte
		switch c.proof {
		case 0:
			body = []byte("this is not json")
		case 1:
			body, _ = json.Marshal(u2f.RegisterResponse{Version: "U2F_V2", RegistrationData: "AAAA", ClientData: "AAAA"})
		default:
			if c.op == "WARegFinish" {
				body = r.fix.soft.webauthnCreate(c08WAChallenge, r.env.state.webAuthn.Config.RPID, r.env.state.webAuthn.Config.RPOrigin)
			} else {
				body, _ = json.Marshal(r.fix.soft.register(r.fix.challenge, u2fTrustedFacets[0]))
			}
		}
		req = httptest.NewRequest(method, "https://keymaster.example"+path, bytes.NewReader(body))
		req.Header.Set("Content-Type", "application/json")
		req.Host = "keymaster.example"
		req.RemoteAddr = "10.1.2.3:34567"
	case "TOTPGenerate":
		path = totpGeneratNewPath
		if c.target != "" {
			form.Set("username", c.target)
		}
	case "TOTPValidate":
		path = totpValidateNewPath
		if c.target != "" {
			form.Set("username", c.target)
		}
		code, err := totp.GenerateCode(r.fix.totpSecret, time.Now())
		if err != nil {
			r.t.Fatal(err)
		}
		switch c.proof {
		case 0:
			form.Set("OTP", "12x456")
		case 1:
			n, _ := strconv.Atoi(code)
			for k := 1; ; k++ {
				w := fmt.Sprintf("%06d", (n+k*7919)%1000000)
				if !totp.Validate(w, r.fix.totpSecret) {
					form.Set("OTP", w)
					break
				}
			}
		default:
			form.Set("OTP", code)
		}
	case "ListUsers":
		path = usersPath
	case "AddUser", "DeleteUser", "NewBootstrapOTP":
		path = map[string]string{"AddUser": addUserPath, "DeleteUser": deleteUserPath, "NewBootstrapOTP": generateBoostrapOTPPath}[c.op]
		if c.target != "" {
			form.Set("username", c.target)
		}
	case "RoleCert":
		path = getRoleRequestingPath
		blocks := []string{"10.0.0.0/8"}
		pub := r.keys.derPubRU
		if !c.paramsOK {
			blocks = []string{"10.0.0.0/40"}
		}
		form = roleCertForm(c.target, blocks, pub)
	default:
		r.t.Fatalf("unknown op %s", c.op)
	}
	if req == nil {
		req = verifNewRequest(method, path, form)
	}
	switch c.cred.kind {
	case "session":
		req.AddCookie(r.cookie(c.cred.user, c.cred.level))
	case "login":
		req.AddCookie(r.cookie(r.loginSubject(c.cred.user), c.cred.level))
	case "kmcert", "ipcert":
		withTLS(req, r.chain(c.cred.kind, c.cred.user), "10.1.2.3:34567")
	}
	return req
}

func c08RespClass(code int) string {
	switch {
	case code >= 200 && code < 400:
		return "ROk"
	case code == 401 || code == 403:
		return "RDenied"
	case code >= 400 && code < 500:
		return "RBad"
	}
	return "RErr"
}

func c08Changed(before, after map[string][]byte) []string {
	var ch []string
	for u, b := range before {
		if a, ok := after[u]; !ok || !bytes.Equal(a, b) {
			ch = append(ch, u)
		}
	}
	for u := range after {
		if _, ok := before[u]; !ok {
			ch = append(ch, u)
		}
	}
	sort.Strings(ch)
	return ch
}

func (r *c08Runner) run(c *c08Cell) {
	who := r.who(c.cred) // may log in first (once per spelling)
	if r.dirty || r.curVar != c.variant {
		r.fix.reset(r.t, c.variant)
		r.curVar = c.variant
		r.dirty = false
	}
	before := c08Snapshot(r.t, r.env)
	req := r.request(c)
	cfgIdx := r.envIdx
	autoUsers := r.env.state.Config.Base.AutomationUsers
	if c.autoUsers != nil {
		// the configured automation identities of this request: isAutomationUser reads the live configuration
		saved := r.env.state.Config.Base.AutomationUsers
		r.env.state.Config.Base.AutomationUsers = c.autoUsers
		defer func() { r.env.state.Config.Base.AutomationUsers = saved }()
		cfgIdx, autoUsers = c.cfgIdx, c.autoUsers
	}
	rr, panicked := r.env.serve(req)
	after := c08Snapshot(r.t, r.env)
	changed := c08Changed(before, after)
	class := c08RespClass(rr.Code)
	if len(changed) > 0 {
		r.dirty = true
	}
	desc := c.describe()
	keyTail := fmt.Sprintf("%s:%s:%s", c.op, c08RoleClass(who), c.cred.levelClass())
	caseInfo := map[string]interface{}{"cell": desc, "env": cfgIdx, "status": rr.Code, "changed": changed, "panicked": panicked}
	// ---- the statement's own oracle
	admin := c08IsAdminTruth(who) && c.cred.kind != "none" && c.cred.kind != "ipcert"
	for _, v := range changed {
		if v == who && (c.cred.kind == "session" || c.cred.kind == "login") {
			continue // own data: the row stored under exactly the authenticated name
		}
		if !r.env.state.Config.Base.DisableUsernameNormalization && v != strings.ToLower(v) {
			// with normalisation on nobody can be authenticated under this spelling: the row is no
			// user's profile (the correspondence with the model still compares it)
			r.res.bump("effect:stale-spelling-row-changed")
			continue
		}
		ok := admin && (c.userAdminOp() || (c.tokenOp() && c.cred.hasU2F()))
		if !ok {
			what := fmt.Sprintf("%s (%s, %s) changed the stored profile of %q with %s: status %d", who, c08RoleClass(who), c.cred.levelClass(), v, desc, rr.Code)
			orc := "a stored profile was changed by somebody who is neither its owner nor an administrator"
			k := "C08:foreign-change:"
			if admin && c.tokenOp() {
				orc = "an administrator whose session carries no hardware-token factor changed another user's tokens"
				k = "C08:admin-without-u2f:"
			}
			r.res.hit(verifHit{Key: k + keyTail, Oracle: orc, What: what, Case: caseInfo, Observed: changed})
		} else if v != c.target {
			r.res.hit(verifHit{Key: "C08:bystander-change:" + keyTail, Oracle: "an administrative request changed the profile of a user it did not name",
				What: fmt.Sprintf("%s: profile of %q changed", desc, v), Case: caseInfo, Observed: changed})
		}
	}
	if class == "ROk" {
		switch {
		case c.op == "ViewProfile" && c.target != "" && c.target != who && !admin:
			r.res.hit(verifHit{Key: "C08:foreign-view:" + keyTail, Oracle: "another user's profile was shown to somebody who is not an administrator",
				What: fmt.Sprintf("%s (%s) got status %d for the profile of %q", who, c08RoleClass(who), rr.Code, c.target), Case: caseInfo})
		case c.op == "ListUsers" && !admin:
			r.res.hit(verifHit{Key: "C08:user-list:" + keyTail, Oracle: "the user list was shown to somebody who is not an administrator",
				What: fmt.Sprintf("%s (%s) got status %d for the user list", who, c08RoleClass(who), rr.Code), Case: caseInfo})
		case c.op == "RoleCert":
			crt := verifParseCertBody(rr.Body.Bytes())
			minter := (admin || c08IsAutoAdminTruth(who)) && c.cred.kind != "none" && c.cred.kind != "ipcert"
			if crt == nil || crt.x509 == nil {
				r.res.hit(verifHit{Key: "C08:rolecert-unparsable:" + keyTail, Oracle: "harness", What: "role certificate endpoint answered 200 without a certificate: " + desc, Case: caseInfo})
			} else if minter && crt.cn == c.target && c.identClass != "" && !c08IdentityConfigured(autoUsers, r.env.state.Config.Base.AutomationUserGroups, crt.cn) {
				// the statement's last clause on the identity cells: the certificate names an identity that is not,
				// byte for byte, an entry of automation_users (and in no configured automation group)
				caseInfo["automation_users"] = autoUsers
				caseInfo["requested_identity"] = c.target
				r.res.hit(verifHit{Key: "C08:rolecert-unconfigured-identity:" + c.identClass, Oracle: "an automation certificate was minted for an identity that is not one of the configured automation identities (automation_users taken literally, automation_user_groups per the directory)",
					What: fmt.Sprintf("with automation_users=%q, %s (%s) obtained a role-requesting certificate for CN=%q, which is not an entry of the list (identity shape: %s)", autoUsers, who, c08RoleClass(who), crt.cn, c.identClass), Case: caseInfo, Observed: crt.cn})
			} else if !minter || !c08IdentityConfigured(autoUsers, r.env.state.Config.Base.AutomationUserGroups, crt.cn) || crt.cn != c.target {
				r.res.hit(verifHit{Key: "C08:rolecert:" + keyTail, Oracle: "an automation certificate was minted by somebody who is neither administrator nor automation administrator, or for an identity that is not a configured automation identity",
					What: fmt.Sprintf("%s (%s) obtained a role-requesting certificate for CN=%q (asked for %q)", who, c08RoleClass(who), crt.cn, c.target), Case: caseInfo})
			}
		}
	}
	// ---- counters
	nontrivial := c.cred.kind != "none" && (c.target != who || c.userAdminOp() || c.op == "RoleCert")
	r.res.eval(fmt.Sprintf("%d|%s|%s|%v", cfgIdx, desc, class, changed), nontrivial)
	r.res.bump("op:" + c.op)
	r.res.bump("role:" + c08RoleClass(who))
	r.res.bump("level:" + c.cred.levelClass())
	r.res.bump("resp:" + class)
	if c.identClass != "" {
		r.res.bump("identity-shape:" + c.identClass)
		if class == "ROk" {
			r.res.bump("identity:minted")
		} else if c08IdentityConfigured(autoUsers, nil, c.target) {
			r.res.bump("identity:configured-refused(requester-or-empty-identity)")
		} else {
			r.res.bump("identity:unconfigured-refused")
		}
	}
	switch {
	case c.target == "":
		r.res.bump("target:empty")
	case c.target == who:
		r.res.bump("target:self")
	case strings.EqualFold(c.target, who):
		r.res.bump("target:case-variant-of-actor")
	case c.target == "newuser" || c.target == "ghost":
		r.res.bump("target:absent-from-db")
	default:
		r.res.bump("target:other")
	}
	if len(changed) > 0 {
		r.res.bump("effect:store-changed")
	}
	if panicked {
		r.res.bump("handler-panic")
	}
	// ---- the cell for Coq
	// the rows that differ from the fixture: (name, new row | deleted); every other row is compared with the fixture
	var delta []string
	for _, v := range changed {
		if _, ok := c08UserID[v]; !ok {
			r.res.hit(verifHit{Key: "C08:harness:projection", Oracle: "harness", Kind: "harness", What: fmt.Sprintf("unexpected row for user %q", v), Case: caseInfo})
			continue
		}
		blob, present := after[v]
		if !present {
			delta = append(delta, fmt.Sprintf("(%s, None)", c08U(v)))
			continue
		}
		pp, err := c08ProjectProfile(blob)
		if err != nil {
			r.res.hit(verifHit{Key: "C08:harness:projection", Oracle: "harness", Kind: "harness", What: err.Error(), Case: caseInfo})
			continue
		}
		delta = append(delta, fmt.Sprintf("(%s, Some (%s))", c08U(v), pp))
	}
	obs := "[" + strings.Join(delta, "; ") + "]"
	r.cases = append(r.cases, fmt.Sprintf("(%d%%nat, %d, %s, %v, %s, %s, %s, %d, %s, %v, %s, %s)", cfgIdx, c.variant, c.cred.coq(), c.post, c.coqOp(),
		c08U(c.target), c.coqIndex(), c.nameID(), c08Proofs[c.proof], c.paramsOK, class, obs))
	r.idx = append(r.idx, fmt.Sprintf("env=%d %s -> %d %s changed=%v", cfgIdx, desc, rr.Code, class, changed))
}

// ---------------------------------------------------------------- matrix

var c08Ops = []string{"ViewProfile", "ManageU2F", "ManageTOTP", "U2FRegBegin", "U2FRegFinish", "WARegBegin", "WARegFinish", "TOTPGenerate",
	"TOTPValidate", "ListUsers", "AddUser", "DeleteUser", "NewBootstrapOTP", "RoleCert"}

func c08Canonical(op string, cred c08Cred, target string) *c08Cell {
	c := &c08Cell{variant: c08VarTokens, cred: cred, post: true, op: op, target: target, paramsOK: true, proof: 1}
	switch op {
	case "ViewProfile", "U2FRegBegin", "WARegBegin", "ListUsers":
		c.post = false
	case "ManageU2F":
		c.action, c.index = "Disable", "1"
	case "ManageTOTP":
		c.action, c.index = "Delete", "0"
	case "U2FRegFinish", "WARegFinish", "TOTPValidate":
		c.variant, c.proof = c08VarFull, 2 // genuine material from the software token / the TOTP secret
	case "NewBootstrapOTP":
		c.variant = c08VarBare
	}
	return c
}

func (r *c08Runner) matrix(levels []int, full bool) {
	actors := []string{"alice", "admin", "gadmin", "autoadm", "svc-automation"}
	var creds []c08Cred
	for _, a := range actors {
		for _, l := range levels {
			creds = append(creds, c08Cred{"session", a, l})
		}
		creds = append(creds, c08Cred{"kmcert", a, 0})
	}
	// carol is in groups whose names merely resemble the administrators' group
	creds = append(creds, c08Cred{"session", "carol", AuthTypePassword | AuthTypeU2F}, c08Cred{"kmcert", "carol", 0})
	// names resembling a configured administrator / automation administrator
	creds = append(creds, c08Cred{"session", "admin2", AuthTypePassword | AuthTypeU2F}, c08Cred{"kmcert", "admin2", 0}, c08Cred{"session", "autoadm2", AuthTypePassword | AuthTypeU2F})
	creds = append(creds, c08Cred{"ipcert", "svc-automation", 0}, c08Cred{"none", "", 0})
	for _, op := range c08Ops {
		for ci, cred := range creds {
			targets := []string{cred.user, "bob", "admin", "newuser", ""}
			if cred.user == "admin" {
				targets[2] = "gadmin"
			}
			if op == "RoleCert" {
				targets = []string{"svc-automation", "svc-grp", "alice", "svc-automation2", ""}
			}
			if cred.kind == "none" || cred.kind == "ipcert" {
				targets = []string{"bob", ""}
				if op == "RoleCert" {
					targets = []string{"svc-automation"}
				}
			}
			for ti, tg := range targets {
				if !full && (ci+ti)%3 != 0 {
					continue
				}
				r.run(c08Canonical(op, cred, tg))
			}
		}
	}
}

// spellings: the target is the actor's name in another letter case — an account of its own when
// disable_username_normalization is set, a stale row otherwise — and sessions obtained by logging
// in under another spelling.  Every operation; before/after of ALL rows as everywhere.
func (r *c08Runner) caseVariants() {
	pw, totpL, u2fL := AuthTypePassword, AuthTypePassword|AuthTypeTOTP, AuthTypePassword|AuthTypeU2F
	type pair struct {
		cred   c08Cred
		target string
	}
	var pairs []pair
	for _, l := range []int{pw, u2fL, totpL} {
		pairs = append(pairs,
			pair{c08Cred{"session", "alice", l}, "Alice"}, // another spelling of the actor: an existing row
			pair{c08Cred{"session", "alice", l}, "ALICE"}, // ... no such row
			pair{c08Cred{"login", "Alice", l}, "alice"},
			pair{c08Cred{"login", "Alice", l}, "Alice"},
			pair{c08Cred{"login", "alice", l}, "Alice"},
			pair{c08Cred{"login", "Admin", l}, "admin"}, // a spelling of the configured administrator's name
			pair{c08Cred{"login", "Admin", l}, "bob"},
			pair{c08Cred{"login", "Admin", l}, "Admin"},
			pair{c08Cred{"session", "admin", l}, "Alice"},
			pair{c08Cred{"login", "Bob", l}, "bob"})
	}
	for _, op := range c08Ops {
		if op == "RoleCert" {
			continue
		}
		for _, pr := range pairs {
			r.run(c08Canonical(op, pr.cred, pr.target))
		}
	}
	for _, pr := range pairs[:10] {
		for _, op := range []string{"ManageU2F", "ManageTOTP"} {
			for _, a := range []string{"Update", "Disable", "Enable", "Delete"} {
				ix := "1"
				if op == "ManageTOTP" {
					ix = "0"
				}
				r.run(&c08Cell{variant: c08VarTokens, cred: pr.cred, post: true, op: op, action: a, target: pr.target, index: ix, name: "renamed", paramsOK: true})
			}
		}
		// finish steps with genuine material on a fixture with pending registrations
		for _, op := range []string{"U2FRegFinish", "WARegFinish"} {
			r.run(&c08Cell{variant: c08VarFull, cred: pr.cred, post: true, op: op, target: pr.target, proof: 2, paramsOK: true})
		}
	}
	for _, cred := range []c08Cred{{"login", "Admin", pw}, {"login", "Alice", u2fL}} {
		r.run(&c08Cell{variant: c08VarTokens, cred: cred, post: true, op: "RoleCert", target: "svc-automation", paramsOK: true})
	}
}

// identity cells: what "configured automation identity" means when the configured names contain characters
// that some matcher one could put in place of == would read as operators.  Per shape: the entries put into
// automation_users, and requested identities = each entry itself (must still be served) + names that differ
// from an entry exactly where that matcher would be lenient.  The shapes name the matcher family:
//
//	regexp (. + * ? [ ] ( ) | ^ $ \ { }), like (SQL LIKE _ %), glob (* ? [ ]), ldap (filter * ( )),
//	case (letter case), space (leading / trailing blanks), affix (a prefix / a suffix / an extension of an
//	entry), separator (an entry that a splitter would cut), empty (the empty entry / the empty list)
type c08IdentShape struct {
	class      string
	configured []string
	requested  []string // besides the configured entries themselves
}

var c08IdentShapes = []c08IdentShape{
	{"regexp", []string{"deploy.bot"}, []string{"deploy-bot", "deployxbot", "deploy_bot", "deploybot", "deploy..bot"}},
	{"regexp", []string{"svc+build"}, []string{"svcbuild", "svccbuild", "svc-build", "svc build"}},
	{"regexp", []string{"img*cache"}, []string{"imcache", "imggggcache", "imgcache"}},
	{"regexp", []string{"node[0-9]"}, []string{"node0", "node7", "node[0-9", "node"}},
	{"regexp", []string{"host(a|b)"}, []string{"hosta", "hostb", "host(a", "host"}},
	{"regexp", []string{"ci|cd"}, []string{"ci", "cd", "ci|", "|cd"}},
	{"regexp", []string{"runner?"}, []string{"runne", "runner"}},
	{"regexp", []string{"^root$", "^backup", "restore$"}, []string{"root", "backup", "restore", "backup-job", "pre-restore"}},
	{"regexp", []string{"rel\\.eng", "build\\d"}, []string{"rel.eng", "releng", "build1", "buildd", "build\\\\d"}},
	{"regexp", []string{"vm{2}", "lb{1,3}"}, []string{"vmm", "lb", "lbbb", "vm"}},
	{"like", []string{"svc_db"}, []string{"svc-db", "svcxdb", "svcdb", "svc__db"}},
	{"like", []string{"batch%", "%ops"}, []string{"batch", "batch-1", "batchjobs", "ops", "devops"}},
	{"glob", []string{"web*"}, []string{"web", "web1", "web-frontend"}},
	{"glob", []string{"db?"}, []string{"db1", "dbx", "db"}},
	{"glob", []string{"cache[ab]"}, []string{"cachea", "cacheb", "cache"}},
	{"glob", []string{"*"}, []string{"alice", "anything", "**"}},
	{"glob", []string{"?"}, []string{"a", "x"}},
	{"ldap", []string{"team(ops)"}, []string{"teamops", "team(ops", "team", "ops"}},
	{"ldap", []string{"mon*", "x)(uid=*"}, []string{"monitor", "mon", "x", "xuid"}},
	{"case", []string{"Deploy", "buildbot"}, []string{"deploy", "DEPLOY", "Buildbot", "BUILDBOT", "buildBot"}},
	{"space", []string{"ops bot ", " lead", "plain"}, []string{"ops bot", "ops bot  ", "lead", "  lead", "plain ", " plain", "plain\t", "opsbot"}},
	{"affix", []string{"backup-agent-01"}, []string{"backup-agent", "backup-agent-0", "backup-agent-011", "agent-01", "0backup-agent-01", "b", "backup-agent-01/x"}},
	{"affix", []string{"svc-automation"}, []string{"svc-automatio", "svc-automation-", "svc", "automation", "xsvc-automation", "svc-automationsvc-automation"}},
	{"separator", []string{"etl,report", "sync async"}, []string{"etl", "report", "sync", "async", "etl,", ",report"}},
	{"empty", []string{""}, []string{"alice", "x", " "}},
	{"empty", []string{}, []string{"svc-automation", "alice"}},
}

func (r *c08Runner) identities(rng *mrand.Rand, nRandom int) {
	pw, u2fL := AuthTypePassword, AuthTypePassword|AuthTypeU2F
	minters := []c08Cred{{"session", "admin", pw}, {"kmcert", "autoadm", 0}}
	one := func(cfgIdx int, list []string, class, id string, creds []c08Cred) {
		for _, cred := range creds {
			r.run(&c08Cell{variant: c08VarTokens, cred: cred, post: true, op: "RoleCert", target: id, paramsOK: true, autoUsers: list, cfgIdx: cfgIdx, identClass: class})
		}
	}
	var all []string
	seen := map[string]bool{}
	type shapeCfg struct {
		k    int
		list []string
	}
	var shapeCfgs []shapeCfg
	for _, sh := range c08IdentShapes {
		// the entries of this shape next to the environment's own identity
		list := append([]string{}, sh.configured...)
		if len(sh.configured) > 0 && sh.configured[0] != "svc-automation" {
			list = append(list, "svc-automation")
		}
		k := r.newCfg(list)
		shapeCfgs = append(shapeCfgs, shapeCfg{k, list})
		for _, id := range sh.configured {
			one(k, list, sh.class, id, minters)
			// somebody who is neither administrator nor automation administrator, for a configured identity
			one(k, list, sh.class, id, []c08Cred{{"session", "alice", u2fL}})
			if !seen[id] {
				seen[id] = true
				all = append(all, id)
			}
		}
		for _, id := range sh.requested {
			one(k, list, sh.class, id, minters)
		}
	}
	// seeded: an entry with one byte replaced / dropped / inserted / its letter case flipped / a blank added
	const alphabet = "abcxyzABC019-_.*+?|()[]{}^$\\%/ ,"
	for i := 0; i < nRandom; i++ {
		si := rng.Intn(len(c08IdentShapes))
		sh := c08IdentShapes[si]
		if len(sh.configured) == 0 {
			continue
		}
		e := []byte(sh.configured[rng.Intn(len(sh.configured))])
		if len(e) == 0 {
			continue
		}
		pos := rng.Intn(len(e))
		ch := alphabet[rng.Intn(len(alphabet))]
		var id []byte
		switch rng.Intn(6) {
		case 0:
			id = append(append(append([]byte{}, e[:pos]...), ch), e[pos+1:]...)
		case 1:
			id = append(append([]byte{}, e[:pos]...), e[pos+1:]...)
		case 2:
			id = append(append(append([]byte{}, e[:pos]...), ch), e[pos:]...)
		case 3:
			id = append([]byte{}, e...)
			if c := id[pos]; c >= 'a' && c <= 'z' {
				id[pos] = c - 32
			} else if c >= 'A' && c <= 'Z' {
				id[pos] = c + 32
			} else {
				id = append(id, id[pos])
			}
		case 4:
			id = append(append([]byte{}, e...), ' ')
		default:
			id = append([]byte{}, e[:pos+1]...) // a prefix (the whole entry when pos is its last byte)
		}
		one(shapeCfgs[si].k, shapeCfgs[si].list, sh.class, string(id), minters[rng.Intn(2):][:1])
	}
	// all entries in one list (an entry must not be read as a pattern whatever stands around it), in both orders
	rev := make([]string, len(all))
	for i, a := range all {
		rev[len(all)-1-i] = a
	}
	for li, list := range [][]string{all, rev} {
		k := r.newCfg(list)
		for _, sh := range c08IdentShapes {
			for _, id := range append(append([]string{}, sh.configured...), sh.requested...) {
				one(k, list, sh.class, id, minters[li:li+1])
			}
		}
	}
}

// parameter sweeps on representative (actor, level, target) combinations
func (r *c08Runner) sweeps(rng *mrand.Rand, thorough bool) {
	pw, totpL, u2fL := AuthTypePassword, AuthTypePassword|AuthTypeTOTP, AuthTypePassword|AuthTypeU2F
	type combo struct {
		cred   c08Cred
		target string
	}
	combos := []combo{
		{c08Cred{"session", "alice", pw}, "alice"},
		{c08Cred{"session", "alice", u2fL}, "bob"},
		{c08Cred{"session", "admin", u2fL}, "bob"},
		{c08Cred{"session", "admin", totpL}, "bob"},
		{c08Cred{"session", "gadmin", totpL}, "admin"},
		{c08Cred{"session", "alice", u2fL}, "admin"},
		{c08Cred{"session", "gadmin", u2fL}, "bob"},
		{c08Cred{"session", "gadmin", pw}, "gadmin"},
		{c08Cred{"session", "admin", u2fL}, "newuser"},
		{c08Cred{"session", "admin", u2fL}, ""},
		{c08Cred{"kmcert", "admin", 0}, "bob"},
	}
	actions := []string{"Update", "Disable", "Enable", "Delete", "Bogus"}
	indexes := []string{"1", "3", "5", "0", "7", "99", "-1", "", "1x", "9223372036854775808"}
	for _, cb := range combos {
		for _, op := range []string{"ManageU2F", "ManageTOTP"} {
			for _, a := range actions {
				for _, ix := range indexes {
					for _, nm := range []string{"renamed", "bad<name>"} {
						if nm == "bad<name>" && a != "Update" {
							continue
						}
						for _, post := range []bool{true, false} {
							if !post && !(ix == "1" || ix == "0") {
								continue
							}
							r.run(&c08Cell{variant: c08VarTokens, cred: cb.cred, post: post, op: op, action: a, target: cb.target, index: ix, name: nm, paramsOK: true})
						}
					}
				}
			}
		}
		// finish steps with each verifier outcome, on fixtures with and without pending material
		for _, op := range []string{"U2FRegFinish", "WARegFinish", "TOTPValidate"} {
			for proof := 0; proof < 3; proof++ {
				for _, v := range []int{c08VarFull, c08VarTokens} {
					for _, post := range []bool{true, false} {
						r.run(&c08Cell{variant: v, cred: cb.cred, post: post, op: op, target: cb.target, proof: proof, paramsOK: true})
					}
				}
			}
		}
		for _, op := range []string{"U2FRegBegin", "WARegBegin", "TOTPGenerate", "ViewProfile", "ListUsers"} {
			for _, v := range []int{c08VarFull, c08VarTokens, c08VarBare} {
				for _, post := range []bool{true, false} {
					r.run(&c08Cell{variant: v, cred: cb.cred, post: post, op: op, target: cb.target, paramsOK: true})
				}
			}
		}
		for _, op := range []string{"AddUser", "DeleteUser", "NewBootstrapOTP"} {
			for _, tg := range []string{cb.target, "bob", "newuser", "ghost", ""} {
				for _, v := range []int{c08VarTokens, c08VarBare} {
					for _, post := range []bool{true, false} {
						r.run(&c08Cell{variant: v, cred: cb.cred, post: post, op: op, target: tg, paramsOK: true})
					}
				}
			}
		}
	}
	// role certificates: who x identity x method x parameters
	for _, cred := range []c08Cred{{"session", "alice", u2fL}, {"session", "admin", pw}, {"session", "gadmin", totpL}, {"session", "autoadm", pw},
		{"kmcert", "autoadm", 0}, {"kmcert", "alice", 0}, {"session", "svc-automation", u2fL}, {"ipcert", "svc-automation", 0}, {"none", "", 0}} {
		for _, id := range []string{"svc-automation", "svc-grp", "alice", "admin", "autoadm", "newuser", "svc-automation2", ""} {
			for _, post := range []bool{true, false} {
				for _, pok := range []bool{true, false} {
					r.run(&c08Cell{variant: c08VarTokens, cred: cred, post: post, op: "RoleCert", target: id, paramsOK: pok})
				}
			}
		}
	}
	// seeded random cells over the whole space
	n := 300
	if thorough {
		n = 2500
	}
	users := []string{"alice", "bob", "carol", "admin", "gadmin", "autoadm", "svc-automation", "svc-grp", "newuser", ""}
	bits := []int{AuthTypePassword, AuthTypeFederated, AuthTypeU2F, AuthTypeSymantecVIP, AuthTypeTOTP, AuthTypeOkta2FA, AuthTypeBootstrapOTP, AuthTypeWebauthForCLI, AuthTypeFIDO2}
	for i := 0; i < n; i++ {
		var cred c08Cred
		switch k := rng.Intn(12); {
		case k == 0:
			cred = c08Cred{"none", "", 0}
		case k == 1:
			cred = c08Cred{"kmcert", []string{"alice", "admin", "gadmin", "autoadm"}[rng.Intn(4)], 0}
		default:
			l := 0
			for _, b := range bits {
				if rng.Intn(3) == 0 {
					l |= b
				}
			}
			if l == 0 {
				l = AuthTypePassword
			}
			cred = c08Cred{"session", []string{"alice", "admin", "gadmin", "autoadm", "svc-automation"}[rng.Intn(5)], l}
		}
		c := &c08Cell{variant: rng.Intn(3), cred: cred, post: rng.Intn(4) != 0, op: c08Ops[rng.Intn(len(c08Ops))], target: users[rng.Intn(len(users))],
			action: actions[rng.Intn(len(actions))], index: indexes[rng.Intn(len(indexes))], name: []string{"renamed", "renamed", "", "bad<name>"}[rng.Intn(4)],
			proof: rng.Intn(3), paramsOK: rng.Intn(4) != 0}
		if rng.Intn(3) == 0 {
			c.target = cred.user
		}
		r.run(c)
	}
}

// ---------------------------------------------------------------- role histories (IsAdminUser / isAutomationAdmin)

type c08Query struct {
	t        time.Time
	user     string
	auto     bool     // the question was "automation administrator?"
	listed   bool     // the user is on Config.Base.AutomationAdmins
	groups   []string // directory's answer; nil with failed = true
	failed   bool
	raw      int  // ground truth of a fresh administrator evaluation: 1 admin, 0 not, -1 error
	v        bool // the answer
	admKnown bool // the administrator verdict behind the answer is observable (it is the answer itself)
}

func c08TimeZ(t time.Time) string {
	secs := big.NewInt(t.Unix() + 62135596800)
	secs.Mul(secs, big.NewInt(1000000000))
	secs.Add(secs, big.NewInt(int64(t.Nanosecond())))
	return "(" + secs.String() + ")%Z"
}

// Proofs/AdminCache.v `justified`, with the statement's five minutes, for an "administrator?"
// answer: only administrator evaluations count (those made on behalf of an "automation
// administrator?" question included; where such an evaluation's verdict is hidden behind the
// list membership it is taken as whatever helps — the oracle never alarms on a guess)
func c08Justified(hist []c08Query, q c08Query, nilCache bool) bool {
	const W = 5 * time.Minute
	rawIs := func(x c08Query, v bool) bool { return (v && x.raw == 1) || (!v && x.raw == 0) }
	if rawIs(q, q.v) {
		return true
	}
	last, lastKnown := false, true
	for i := len(hist) - 1; i >= 0; i-- {
		if hist[i].user == q.user {
			last, lastKnown = hist[i].v, hist[i].admKnown
			break
		}
	}
	if q.raw == -1 && (q.v == last || !q.v || !lastKnown) {
		return true
	}
	for _, o := range hist {
		if o.user != q.user || (o.admKnown && o.v != q.v) {
			continue
		}
		if q.t.Sub(o.t) < W && (rawIs(o, q.v) || o.raw == -1) {
			return true
		}
	}
	return false
}

func (r *c08Runner) traces(rng *mrand.Rand, thorough bool) (cases, idx []string) {
	t, env := r.t, r.env
	st := env.state
	worlds := []map[string][]string{
		{"km-admins": {"gadmin"}, "staff": {"alice", "dave", "autoadm"}},
		{"km-admins": {"alice"}, "staff": {"dave"}, "km-admins-ro": {"dave", "gadmin", "autoadm"}, "km-admin": {"dave"}, "KM-ADMINS": {"gadmin", "autoadm"}},
		{"km-admins": {"dave", "gadmin"}, "staff": {"alice", "gadmin"}},
		{"km-admins": {}, "staff": {}},
		{"km-admins": {"autoadm"}, "staff": {"alice"}},
	}
	var dbs []*gitdb.UserInfo
	for i, w := range worlds {
		dir := filepath.Join(env.dir, fmt.Sprintf("c08world%d", i))
		c08WriteGroups(t, dir, w)
		db, err := gitdb.New("", "", dir, time.Hour, st.logger)
		if err != nil {
			t.Fatal(err)
		}
		dbs = append(dbs, db)
	}
	groupsOf := func(w int, u string) []string {
		var gs []string
		for g, ms := range worlds[w] {
			for _, m := range ms {
				if m == u {
					gs = append(gs, g)
				}
			}
		}
		sort.Strings(gs)
		return gs
	}
	savedDB, savedLdap, savedCache := st.gitDB, st.Config.UserInfo.Ldap.LDAPTargetURLs, st.isAdminCache
	defer func() {
		st.gitDB, st.Config.UserInfo.Ldap.LDAPTargetURLs, st.isAdminCache = savedDB, savedLdap, savedCache
	}()
	var now time.Time
	admincache.VerifSetClock(st.isAdminCache, func() time.Time { return now })
	// plain users, administrators by name and by group, an automation administrator, a look-alike
	users := []string{"admin", "gadmin", "alice", "dave", "autoadm", "autoadm", "autoadm2"}
	listed := func(u string) bool {
		for _, a := range st.Config.Base.AutomationAdmins {
			if a == u {
				return true
			}
		}
		return false
	}
	steps := []time.Duration{0, 1, time.Second, 30 * time.Second, 5*time.Minute - 1, 5 * time.Minute, 5*time.Minute + 1, 10 * time.Minute, time.Hour, 4 * time.Minute, -time.Minute}
	nTraces := 300
	if thorough {
		nTraces = 3000
	}
	u2fCookie := map[string]*http.Cookie{}
	cookieOf := func(user string) *http.Cookie {
		ck := u2fCookie[user]
		if ck == nil {
			ck = env.cookie(user, AuthTypePassword|AuthTypeU2F)
			u2fCookie[user] = ck
		}
		return ck
	}
	for tr := 0; tr < nTraces; tr++ {
		nilCache := tr%29 == 28
		if nilCache {
			st.isAdminCache = nil
		} else {
			st.isAdminCache = savedCache
			admincache.VerifReset(st.isAdminCache)
		}
		now = time.Date(2026, 10, 1, 12, 0, 0, 0, time.UTC).Add(time.Duration(rng.Int63n(int64(time.Hour))))
		n := 3 + rng.Intn(22)
		world, failing := rng.Intn(len(worlds)), false
		user := users[rng.Intn(len(users))]
		var hist []c08Query
		var coq, human []string
		for i := 0; i < n; i++ {
			if rng.Intn(10) < 6 {
				now = now.Add(steps[rng.Intn(len(steps))])
			} else {
				now = now.Add(time.Duration(rng.Int63n(int64(7 * time.Minute))))
			}
			if rng.Intn(4) == 0 {
				world = rng.Intn(len(worlds))
			}
			if rng.Intn(4) == 0 {
				failing = !failing
			}
			if rng.Intn(3) != 0 {
				user = users[rng.Intn(len(users))]
			}
			st.gitDB = dbs[world]
			if failing {
				st.Config.UserInfo.Ldap.LDAPTargetURLs = "http://directory.down.invalid"
			} else {
				st.Config.UserInfo.Ldap.LDAPTargetURLs = ""
			}
			q := c08Query{t: now, user: user, failed: failing, auto: rng.Intn(10) < 4, listed: listed(user)}
			if !failing {
				q.groups = groupsOf(world, user)
			}
			switch {
			case user == "admin":
				q.raw = 1
			case failing:
				q.raw = -1
			default:
				q.raw = 0
				for _, g := range q.groups {
					if g == "km-admins" {
						q.raw = 1
					}
				}
			}
			via := "call"
			httpOp := ""
			if q.auto {
				// "automation administrator?": the role-certificate endpoint asks it for the requester
				if rng.Intn(2) == 0 {
					via = "GET " + getRoleRequestingPath
					httpOp = "RoleCert"
					req := verifNewRequest("GET", getRoleRequestingPath, nil)
					req.AddCookie(cookieOf(user))
					rr, _ := env.serve(req)
					switch rr.Code {
					case 405: // past the role test, refused for the method
						q.v = true
					case 403:
						q.v = false
					default:
						r.res.hit(verifHit{Key: "C08:harness:rolecert-status", Oracle: "harness", Kind: "harness", What: fmt.Sprintf("GET %s as %s: %d", getRoleRequestingPath, user, rr.Code), Case: human})
					}
				} else {
					via = "call isAutomationAdmin"
					q.v = st.isAutomationAdmin(user)
				}
				q.admKnown = !q.listed || !q.v
			} else {
				q.admKnown = true
				switch rng.Intn(4) {
				case 0:
					via = "GET " + usersPath
					httpOp = "ListUsers"
					req := verifNewRequest("GET", usersPath, nil)
					req.AddCookie(cookieOf(user))
					rr, _ := env.serve(req)
					switch rr.Code {
					case 200:
						q.v = true
					case 401, 403:
						q.v = false
					default:
						r.res.hit(verifHit{Key: "C08:harness:users-status", Oracle: "harness", Kind: "harness", What: fmt.Sprintf("GET /users/ as %s: %d", user, rr.Code), Case: human})
					}
				case 1:
					via = "POST " + addUserPath
					httpOp = "AddUser"
					form := url.Values{}
					form.Set("username", "tracenew")
					req := verifNewRequest("POST", addUserPath, form)
					req.AddCookie(cookieOf(user))
					rr, _ := env.serve(req)
					_, existed, _, _ := st.LoadUserProfile("tracenew")
					if existed {
						st.DeleteUserProfile("tracenew")
					}
					switch {
					case rr.Code == 200 && existed:
						q.v = true
					case (rr.Code == 401 || rr.Code == 403) && !existed:
						q.v = false
					default:
						r.res.hit(verifHit{Key: "C08:harness:adduser-status", Oracle: "harness", Kind: "harness", What: fmt.Sprintf("POST %s as %s: %d, row created: %v", addUserPath, user, rr.Code, existed), Case: human})
					}
				default:
					q.v = st.IsAdminUser(user)
				}
			}
			ans := "None"
			if !failing {
				var ids []string
				for _, g := range q.groups {
					ids = append(ids, strconv.Itoa(c08GroupID[g]))
				}
				ans = "(Some [" + strings.Join(ids, "; ") + "])"
			}
			kind := "KAdmin"
			if q.auto {
				kind = "KAutoAdmin"
			}
			coq = append(coq, fmt.Sprintf("(%s, %s, %s, %s, %s)", kind, c08TimeZ(now), c08TimeZ(now), c08U(user), ans))
			human = append(human, fmt.Sprintf("%s %s %s world=%d down=%v groups=%v via %s -> %v", now.Format("15:04:05.000000000"), kind, user, world, failing, q.groups, via, q.v))
			r.res.eval(fmt.Sprintf("trace|%d|%d|%s|%s|%v", tr, i, kind, user, q.v), q.v)
			r.res.bump("trace-query:" + via)
			r.res.bump("trace-kind:" + kind)
			if failing {
				r.res.bump("trace-query:directory-down")
			}
			if q.v {
				r.res.bump("trace-verdict:" + kind + ":yes")
			}
			if q.auto {
				// "automation administrator: yes" needs an administrator verdict that is justified, or the list
				if q.v && !q.listed && !c08Justified(hist, q, nilCache) {
					r.res.hit(verifHit{Key: "C08:roles:automation-admin-unjustified:" + c08RoleClass(user),
						Oracle: "somebody who is neither on the automation administrators' list nor (justifiably, within five minutes) an administrator was treated as automation administrator",
						What:   fmt.Sprintf("isAutomationAdmin(%s)=true at %s; history: %s", user, now.Format("15:04:05.000000000"), strings.Join(human, " | ")), Case: human})
				}
			} else if !c08Justified(hist, q, nilCache) {
				k := "refused"
				if q.v {
					k = "granted"
				}
				key := "C08:cache:unjustified-verdict:" + k
				oracle := "the admin verdict is neither what the directory says now, nor what an administrator evaluation less than five minutes ago said (or its failure), nor the previous verdict repeated during a failure"
				if httpOp != "" && q.v {
					// the statement's own words: a non-administrator performed an administration operation
					key = fmt.Sprintf("C08:history:non-admin-admin-op:%s:%s", httpOp, c08RoleClass(user))
					oracle = "a user whom neither the configured names nor the directory make an administrator (now or at any administrator evaluation of the last five minutes) performed a user-administration operation"
				}
				r.res.hit(verifHit{Key: key, Oracle: oracle,
					What: fmt.Sprintf("administrator verdict for %s = %v at %s (via %s); history of role lookups: %s", user, q.v, now.Format("15:04:05.000000000"), via, strings.Join(human, " | ")), Case: human})
			}
			hist = append(hist, q)
		}
		var vs []string
		for _, q := range hist {
			vs = append(vs, coqBool(q.v))
		}
		cases = append(cases, fmt.Sprintf("(%v, [%s], [%s])", nilCache, strings.Join(coq, "; "), strings.Join(vs, "; ")))
		idx = append(idx, fmt.Sprintf("nilcache=%v %s", nilCache, strings.Join(human, " | ")))
	}
	return
}

// ---------------------------------------------------------------- test

type c08Shard struct {
	name   string
	offset int
}

// write `cases` as several list definitions <name>_0, <name>_1, ... of at most `size` elements
func c08Shards(sb *strings.Builder, name, ty string, cases []string, size int) []c08Shard {
	var out []c08Shard
	for off := 0; off < len(cases) || off == 0; off += size {
		end := off + size
		if end > len(cases) {
			end = len(cases)
		}
		n := fmt.Sprintf("%s_%d", name, len(out))
		sb.WriteString(fmt.Sprintf("Definition %s : list %s := [\n %s].\n", n, ty, strings.Join(cases[off:end], ";\n ")))
		out = append(out, c08Shard{n, off})
	}
	return out
}

func c08ShardMismatches(bad string, shards []c08Shard) string {
	var parts []string
	for _, sh := range shards {
		parts = append(parts, fmt.Sprintf("mismatches_from %s %s %d", bad, sh.name, sh.offset))
	}
	return strings.Join(parts, " ++ ")
}

func c08CoqNames(names []string) string {
	var s []string
	for _, x := range names {
		s = append(s, c08U(x))
	}
	return "[" + strings.Join(s, "; ") + "]"
}

func c08CoqList(ids []string, m map[string]int) string {
	var s []string
	for _, x := range ids {
		s = append(s, strconv.Itoa(m[x]))
	}
	return "[" + strings.Join(s, "; ") + "]"
}

func TestVerif_C08(t *testing.T) {
	res := newVerifResult("every management request: response class and stored rows of all users = Model.Authz.step on the same cell; oracle: a row changes / a profile or the user list is shown / a role certificate is minted only for the owner or an administrator (with a U2F session for token operations); IsAdminUser traces = Model.AdminCache.verdicts and every verdict is justified within five minutes")
	rng := verifRand()
	thorough := verifThorough()
	verifWriteConsts(t)
	backendSets := [][]string{
		{"password", "TOTP", "U2F", "SymantecVIP", "Okta2FA", "BootstrapOTP", "federated"},
		{"U2F"},
		{"TOTP", "U2F"},
		// the same as the first, with disable_username_normalization: names differing in letter case are different users
		{"password", "TOTP", "U2F", "SymantecVIP", "Okta2FA", "BootstrapOTP", "federated"},
	}
	caseSensitiveEnv := 3
	keys := verifNewKeys()
	var cfgCoq, extraCfgCoq, fixtureCoq []string
	var allCases, allIdx []string
	var allRCases, allRIdx []string
	var traceCases, traceIdx []string
	var maxDur time.Duration
	for ei, backends := range backendSets {
		backends := backends
		env := verifSetup(t, func(c *AppConfigFile, dir string) {
			c.Base.AllowedAuthBackendsForWebUI = backends
			c.Base.AllowedAuthBackendsForCerts = []string{"U2F"}
			c.Base.AdminUsers = []string{"admin"}
			c.Base.AdminGroups = []string{"km-admins"}
			c.Base.AutomationUsers = []string{"svc-automation"}
			c.Base.AutomationUserGroups = []string{"automation-grp"}
			c.Base.AutomationAdmins = []string{"autoadm"}
			c.Base.EnableLocalTOTP = true
			c.Base.DisableUsernameNormalization = ei == caseSensitiveEnv
			// accounts whose names differ from existing ones in letter case only (password: <lower case name>pw)
			if f, err := os.OpenFile(c.Base.HtpasswdFilename, os.O_APPEND|os.O_WRONLY, 0644); err == nil {
				for _, u := range []string{"Alice", "Admin", "Bob"} {
					h, _ := bcrypt.GenerateFromPassword([]byte(strings.ToLower(u)+"pw"), 4)
					f.WriteString("\n" + u + ":" + strings.Replace(string(h), "$2a$", "$2y$", 1) + "\n")
				}
				f.Close()
			}
			gdir := filepath.Join(dir, "userinfo")
			groups := map[string][]string{}
			for u, gs := range c08Directory {
				for _, g := range gs {
					groups[g] = append(groups[g], u)
				}
			}
			c08WriteGroups(t, gdir, groups)
			c.UserInfo.GitDB.LocalRepositoryDirectory = gdir
			c.UserInfo.GitDB.CheckInterval = time.Hour
		})
		st := env.state
		if st.gitDB == nil || st.isAdminCache == nil {
			t.Fatal("configuration path did not build the group directory / the admin cache")
		}
		fix := c08NewFix(t, env)
		r := &c08Runner{t: t, env: env, fix: fix, res: res, keys: keys, envIdx: ei, curVar: -1, chains: map[string][][]*x509.Certificate{}, cookies: map[string]*http.Cookie{}, logins: map[string]string{}}
		// the configuration the model is evaluated with: read back from the loaded state
		cb := st.Config.Base
		cfgOf := func(autoUsers []string) string {
			return fmt.Sprintf("{| admin_users := %s; admin_groups := %s; automation_users := %s; automation_user_groups := %s; automation_admins := %s; webui_required := %d; disable_normalisation := %v |}",
				c08CoqNames(cb.AdminUsers), c08CoqList(cb.AdminGroups, c08GroupID), c08CoqNames(autoUsers),
				c08CoqList(cb.AutomationUserGroups, c08GroupID), c08CoqNames(cb.AutomationAdmins), st.getRequiredWebUIAuthLevel(), cb.DisableUsernameNormalization)
		}
		cfgCoq = append(cfgCoq, cfgOf(cb.AutomationUsers))
		// configurations that differ from this one in automation_users only (identity cells): numbered after the environments'
		r.newCfg = func(autoUsers []string) int {
			extraCfgCoq = append(extraCfgCoq, cfgOf(autoUsers))
			return len(backendSets) + len(extraCfgCoq) - 1
		}
		if ei == 0 {
			for v := 0; v < 3; v++ {
				fix.reset(t, v)
				s, err := c08ProjectStore(c08Snapshot(t, env))
				if err != nil {
					t.Fatal(err)
				}
				fixtureCoq = append(fixtureCoq, s)
			}
			maxDur = admincache.VerifMaxDuration(st.isAdminCache)
		}
		quickLevels := []int{AuthTypePassword, AuthTypePassword | AuthTypeTOTP, AuthTypePassword | AuthTypeU2F, AuthTypeTOTP, AuthTypeU2F, AuthTypePassword | AuthTypeSymantecVIP}
		moreLevels := []int{AuthTypePassword | AuthTypeOkta2FA, AuthTypePassword | AuthTypeBootstrapOTP, AuthTypeFederated, AuthTypePassword | AuthTypeFIDO2,
			AuthTypeWebauthForCLI, AuthTypePassword | AuthTypeTOTP | AuthTypeU2F, AuthTypeAny, AuthTypePassword | AuthTypeFederated}
		levels := quickLevels
		if thorough && ei == 0 {
			levels = append(levels, moreLevels...)
		}
		r.matrix(levels, ei == 0 || thorough)
		if ei == 0 || ei == caseSensitiveEnv {
			r.caseVariants()
		}
		if ei == 0 || (thorough && ei == caseSensitiveEnv) {
			nRandom := 60
			if thorough {
				nRandom = 1500
			}
			// a stream of its own: the cells and histories below keep theirs
			r.identities(mrand.New(mrand.NewSource(verifSeed()*7919+int64(ei)+8)), nRandom)
		}
		// the second role-certificate endpoint (renewal by the holder): no random stream is consumed
		if ei == 0 || (thorough && ei == caseSensitiveEnv) {
			r.refresh(true)
		} else if ei == 1 {
			r.refresh(false)
		}
		allRCases = append(allRCases, r.rcases...)
		allRIdx = append(allRIdx, r.ridx...)
		if ei == 0 {
			r.sweeps(rng, thorough)
			traceCases, traceIdx = r.traces(rng, thorough)
		} else if thorough {
			r.sweeps(rng, false)
		}
		allCases = append(allCases, r.cases...)
		allIdx = append(allIdx, r.idx...)
		if len(env.panics) > 0 {
			first := env.panics
			if len(first) > 3 {
				first = first[:3]
			}
			res.Extra[fmt.Sprintf("panics_env%d", ei)] = map[string]interface{}{"count": len(env.panics), "first": first}
		}
	}
	// ---- constants for the regenerated obligations
	{
		p := filepath.Join(verifOut(), "gen", "ConstsC08.v")
		src := fmt.Sprintf("(* generated by the C08 harness from the state loadVerifyConfigFile built *)\nFrom Coq Require Import ZArith.\nDefinition adminCacheMaxDuration_ns : Z := (%d)%%Z.\n", int64(maxDur))
		if err := ioutil.WriteFile(p, []byte(src), 0644); err != nil {
			t.Fatal(err)
		}
	}
	// ---- Coq
	var sb strings.Builder
	sb.WriteString(coqCaseHeader)
	sb.WriteString("From KM Require Import Base.Cases Model.Auth Model.Authz Model.AdminCache Proofs.AuthzObs Proofs.AuthzRefresh.\nOpen Scope N_scope.\n")
	sb.WriteString(c08UTable())
	sb.WriteString("Definition T (i : Z) (n : tname) (e : bool) : Z * tok := (i, {| tk_name := n; tk_enabled := e |}).\n")
	sb.WriteString("Definition P (u w t : tokens) (a b c d e : bool) : profile := {| p_u2f := u; p_wa := w; p_totp := t; p_regchal := a; p_pending_totp := b; p_wa_session := c; p_bootstrap := d; p_registered := e |}.\n")
	sb.WriteString("Definition cfgs : list cfg := [\n " + strings.Join(append(cfgCoq, extraCfgCoq...), ";\n ") + "].\n")
	sb.WriteString("Definition cfg_of (i : nat) : cfg := nth i cfgs {| admin_users := []; admin_groups := []; automation_users := []; automation_user_groups := []; automation_admins := []; webui_required := 0; disable_normalisation := false |}.\n")
	// the directory the harness wrote
	var dirLines []string
	var dn []string
	for u := range c08Directory {
		dn = append(dn, u)
	}
	sort.Strings(dn)
	for _, u := range dn {
		dirLines = append(dirLines, fmt.Sprintf("if bs_eqb u %s then Some %s else", c08U(u), c08CoqList(c08Directory[u], c08GroupID)))
	}
	sb.WriteString("Definition dir_of (u : name) : answer := " + strings.Join(dirLines, " ") + " Some [].\n")
	sb.WriteString("Definition fixtures : list store := [\n " + strings.Join(fixtureCoq, ";\n ") + "].\n")
	sb.WriteString("Definition fixture (v : N) : store := nth (N.to_nat v) fixtures [].\n")
	var uni []string
	var ids []int
	for _, id := range c08UserID {
		ids = append(ids, id)
	}
	sort.Ints(ids)
	for _, id := range ids {
		uni = append(uni, fmt.Sprintf("U %d", id))
	}
	sb.WriteString("Definition universe : list name := [" + strings.Join(uni, "; ") + "].\n")
	sb.WriteString("Definition cred_user (cr : cred) : name := match cr with NoCred => [] | Session u _ => u | KMCert u => u | IPCert u => u | Login u _ => u end.\n")
	sb.WriteString("Definition adm_of (c : cfg) (u : name) : bool := match raw_is_admin c u (dir_of u) with Some b => b | None => false end.\n")
	sb.WriteString("Definition cell := (nat * N * cred * bool * op * name * option Z * N * proof * bool * resp * list (name * option profile))%type.\n")
	sb.WriteString("Definition apply_delta (s : store) (d : list (name * option profile)) : store := fold_left (fun a (x : name * option profile) => match snd x with Some p => save a (fst x) p | None => remove a (fst x) end) d s.\n")
	// shards: a single list literal of tens of thousands of cells overflows coqc's stack
	cellShards := c08Shards(&sb, "cells", "cell", allCases, 3000)
	sb.WriteString(`Definition bad_cell (x : cell) : bool :=
  let '(e, v, cr, post, o, tg, ix, nm, pr, pok, obs_resp, obs_store) := x in
  let c := cfg_of e in
  let r := {| r_cred := cr; r_post := post; r_op := o; r_target := tg; r_index := ix; r_name := nm; r_proof := pr;
              r_adm := adm_of c (cred_user (resolve c cr)); r_dir_target := dir_of tg; r_params_ok := pok |} in
  let '(s', x') := step c (fixture v) r in
  negb (resp_eqb x' obs_resp && stores_agree universe s' (apply_delta (fixture v) obs_store)).
`)
	sb.WriteString(fmt.Sprintf("Definition c08_ncases := %d%%N.\nPrint c08_ncases.\n", len(allCases)))
	sb.WriteString("Definition c08_mismatches := Eval vm_compute in (" + c08ShardMismatches("bad_cell", cellShards) + ").\nPrint c08_mismatches.\n")
	// round 2: the property's own predicate on the OBSERVATION of each mismatching cell (Proofs/AuthzObs.v
	// cell_violating: a changed row that neither its owner nor an administrator who may act accounts for, or a
	// success given to somebody who may not act on the effective target)
	sb.WriteString(`Definition viol_cell (x : cell) : bool :=
  let '(e, v, cr, post, o, tg, ix, nm, pr, pok, obs_resp, obs_store) := x in
  let c := cfg_of e in
  let r := {| r_cred := cr; r_post := post; r_op := o; r_target := tg; r_index := ix; r_name := nm; r_proof := pr;
              r_adm := adm_of c (cred_user (resolve c cr)); r_dir_target := dir_of tg; r_params_ok := pok |} in
  cell_violating c universe (fixture v) r obs_resp (apply_delta (fixture v) obs_store).
`)
	{
		expr := "None"
		// the shard with the largest offset <= i: its test must be the outermost one
		for i := 0; i < len(cellShards); i++ {
			sh := cellShards[i]
			expr = fmt.Sprintf("if %d <=? i then nth_error %s (i - %d) else %s", sh.offset, sh.name, sh.offset, expr)
		}
		sb.WriteString("Definition cell_at (i : nat) : option cell := (" + expr + ")%nat.\n")
	}
	sb.WriteString("Definition c08_violating := Eval vm_compute in filter (fun i => match cell_at i with Some x => viol_cell x | None => false end) c08_mismatches.\nPrint c08_violating.\n")
	// ---- the second role-certificate endpoint: (configuration, fixture, credential, POST, the form's identity ([] = absent
	// or empty), public key well formed, response class, CN of the returned certificate, changed rows); the model is
	// refresh_step; the directory answer the handler asks for is the one about the certificate's CN
	sb.WriteString("Definition rcell := (nat * N * cred * bool * name * bool * resp * option name * list (name * option profile))%type.\n")
	sb.WriteString("Definition rcells : list rcell := [\n " + strings.Join(allRCases, ";\n ") + "].\n")
	sb.WriteString(`Definition rreq (c : cfg) (cr : cred) (post : bool) (tg : name) (pok : bool) : request :=
  {| r_cred := cr; r_post := post; r_op := RoleCert; r_target := tg; r_index := None; r_name := 0; r_proof := PWrong;
     r_adm := adm_of c (cred_user (resolve c cr)); r_dir_target := dir_of (cred_user (resolve c cr)); r_params_ok := pok |}.
Definition bad_rcell (x : rcell) : bool :=
  let '(e, v, cr, post, tg, pok, obs_resp, obs_issued, obs_store) := x in
  let c := cfg_of e in
  let '(s', x', i') := refresh_step c (fixture v) (rreq c cr post tg pok) in
  negb (resp_eqb x' obs_resp && oname_eqb i' obs_issued && stores_agree universe s' (apply_delta (fixture v) obs_store)).
Definition viol_rcell (x : rcell) : bool :=
  let '(e, v, cr, post, tg, pok, obs_resp, obs_issued, obs_store) := x in
  let c := cfg_of e in
  refresh_cell_violating c universe (fixture v) (rreq c cr post tg pok) obs_resp obs_issued (apply_delta (fixture v) obs_store).
`)
	sb.WriteString(fmt.Sprintf("Definition c08_refresh_ncases := %d%%N.\nPrint c08_refresh_ncases.\n", len(allRCases)))
	sb.WriteString("Definition c08_refresh_mismatches := Eval vm_compute in mismatches bad_rcell rcells.\nPrint c08_refresh_mismatches.\n")
	sb.WriteString("Definition c08_refresh_violating := Eval vm_compute in filter (fun i => match nth_error rcells i with Some x => viol_rcell x | None => false end) c08_refresh_mismatches.\nPrint c08_refresh_violating.\n")
	// of the cells that passed authentication, how many the model allows / denies (printed for the evidence)
	traceShards := c08Shards(&sb, "trace_cases", "(bool * list (rkind * Z * Z * name * answer) * list bool)", traceCases, 400)
	sb.WriteString(fmt.Sprintf("Definition c08_ntraces := %d%%N.\nPrint c08_ntraces.\n", len(traceCases)))
	sb.WriteString("Definition bad_trace (x : bool * list (rkind * Z * Z * name * answer) * list bool) : bool := let '(isnil, qs, obs) := x in negb (bools_eqb (ranswers five_minutes (if isnil then None else Some []) (map (fun q => let '(k, t, tp, u, a) := q in {| rq_kind := k; rq_q := {| q_t := t; q_tp := tp; q_user := u; q_raw := raw_is_admin (cfg_of 0) u a |}; rq_listed := memn u (automation_admins (cfg_of 0)) |}) qs)) obs).\n")
	sb.WriteString("Definition c08_trace_mismatches := Eval vm_compute in (" + c08ShardMismatches("bad_trace", traceShards) + ").\nPrint c08_trace_mismatches.\n")
	if err := ioutil.WriteFile(filepath.Join(verifOut(), "CasesC08.v"), []byte(sb.String()), 0644); err != nil {
		t.Fatal(err)
	}
	ioutil.WriteFile(filepath.Join(verifOut(), "CasesC08.idx"), []byte(strings.Join(allIdx, "\n")), 0644)
	ioutil.WriteFile(filepath.Join(verifOut(), "CasesC08Trace.idx"), []byte(strings.Join(traceIdx, "\n")), 0644)
	ioutil.WriteFile(filepath.Join(verifOut(), "CasesC08Refresh.idx"), []byte(strings.Join(allRIdx, "\n")), 0644)
	res.Extra["refresh_cells"] = len(allRCases)
	if len(allRIdx) > 2 {
		res.sample(allRIdx[len(allRIdx)/2])
	}
	res.Extra["admin_cache_max_duration"] = maxDur.String()
	res.Extra["cells"] = len(allCases)
	res.Extra["traces"] = len(traceCases)
	if len(allIdx) > 4 {
		res.sample(allIdx[0])
		res.sample(allIdx[len(allIdx)/3])
		res.sample(allIdx[2*len(allIdx)/3])
	}
	if len(traceIdx) > 0 {
		res.sample(traceIdx[0])
	}
	res.write(t, "TestVerif_C08")
}
