package main

// C07 — the directory's verdict on passwords is final; the offline cache only fills outages.
//
// An in-process LDAPS directory (two replicas of github.com/vjeantet/ldapserver sharing one
// password table; a replica can be up, down = connections dropped before the TLS handshake, or
// erroring = every bind answered with Busy / Unavailable / OperationsError), the real
// lib/pwauth/ldap authenticator wired to the real RuntimeState storage on the SQLite pair of
// storeenv.go, logins through the real login handler.  Random histories of login (current /
// old / wrong / empty password, spelled in mixed case), replica status changes, password
// changes, clock advances, primary outages, copies and tampering by SQL run on both the code
// and the Coq model (Model/PwCache.v); verdicts and both stores are compared after every op.
//
// The clock cannot be moved under the real code.  "96 hours later" is simulated by re-issuing
// every record that exists, with the state's own signing function, with an expiry that much
// earlier (and shifting the expiration columns): model time = real time + offset.

import (
	"bytes"
	"crypto/ecdsa"
	"crypto/elliptic"
	"crypto/rand"
	"crypto/rsa"
	"crypto/tls"
	"crypto/x509"
	"crypto/x509/pkix"
	"database/sql"
	"encoding/base64"
	"encoding/json"
	"fmt"
	"io/ioutil"
	"math/big"
	mrand "math/rand"
	"net"
	"net/url"
	"os"
	"path/filepath"
	"sort"
	"strconv"
	"strings"
	"sync"
	"testing"
	"time"

	"github.com/Cloud-Foundations/keymaster/lib/authutil"
	"github.com/Cloud-Foundations/keymaster/lib/pwauth/command"
	pwldap "github.com/Cloud-Foundations/keymaster/lib/pwauth/ldap"
	"github.com/Cloud-Foundations/keymaster/lib/simplestorage"
	"github.com/Cloud-Foundations/keymaster/lib/webapi/v0/proto"
	"github.com/vjeantet/ldapserver"
	"golang.org/x/time/rate"
)

const (
	c07SUp = iota
	c07SDown
	c07SErroring
	c07SMisleading // erroring, and every diagnostic text contains the words "Invalid Credentials"
)

var c07StatusNames = []string{"SUp", "SDown", "SErroring", "SMisleading"}

// diagnostics of a replica that is NOT refusing the credentials (its result code is another one) but
// whose text mentions the words go-ldap prints for result code 49
var c07MisleadingTexts = []string{"Invalid Credentials", "upstream directory said: Invalid Credentials (retry later)",
	`LDAP Result Code 49 "Invalid Credentials": relayed`, "backend busy; last error was Invalid Credentials for cn=proxy"}

// ---------------------------------------------------------------- the directory

// the diagnostic texts a refusal can carry: none, a plain sentence, Active Directory's sub status
type c07Diag struct {
	coq  string
	text string
}

func c07ADDiag(sub int) c07Diag {
	return c07Diag{fmt.Sprintf("(DAD %d%%N)", sub),
		fmt.Sprintf("80090308: LdapErr: DSID-0C090447, comment: AcceptSecurityContext error, data %x, v3839", sub)}
}

var c07Diags = []c07Diag{
	{"DNone", ""},
	{"DPlain", "wrong name or password"},
	c07ADDiag(0x52e), // bad password
	c07ADDiag(0x525), // no such user
	c07ADDiag(0x530), // not permitted to log on at this time
	c07ADDiag(0x531), // not permitted to log on from this workstation
	c07ADDiag(0x532), // password expired
	c07ADDiag(0x533), // account disabled
	c07ADDiag(0x701), // account expired
	c07ADDiag(0x773), // must reset password
	c07ADDiag(0x775), // locked out
	c07ADDiag(0x57),  // something no table lists
}

const c07FirstAccountDiag = 4 // c07Diags[4:] describe the state of an account

type c07Directory struct {
	mu        sync.Mutex
	passwords map[string]string // bind DN -> password
	acct      map[string]int    // bind DN -> index into c07Diags: every bind of this account is refused with it
	style     int               // index into c07Diags: the diagnostic of ordinary refusals
	status    []int
	binds     int
	answered  int // binds that got a verdict (success / invalid credentials)
	conns     []int // per replica: TCP connections that arrived (whatever became of them)
	urls      []string
}

func (d *c07Directory) handler(idx int) func(w ldapserver.ResponseWriter, m *ldapserver.Message) {
	return func(w ldapserver.ResponseWriter, m *ldapserver.Message) {
		r := m.GetBindRequest()
		d.mu.Lock()
		d.binds++
		n := d.binds
		st := d.status[idx]
		expected, known := d.passwords[string(r.Name())]
		acct, outOfOrder := d.acct[string(r.Name())]
		style := d.style
		d.mu.Unlock()
		if st == c07SMisleading {
			codes := []int{ldapserver.LDAPResultBusy, ldapserver.LDAPResultUnavailable, ldapserver.LDAPResultOperationsError, ldapserver.LDAPResultOther,
				ldapserver.LDAPResultUnwillingToPerform}
			res := ldapserver.NewBindResponse(codes[n%len(codes)])
			res.SetDiagnosticMessage(c07MisleadingTexts[(n/len(codes))%len(c07MisleadingTexts)])
			w.Write(res)
			return
		}
		if st == c07SErroring {
			// any result code but success / invalidCredentials, with any diagnostic (also ones
			// that look like a refusal's)
			codes := []int{ldapserver.LDAPResultBusy, ldapserver.LDAPResultUnavailable, ldapserver.LDAPResultOperationsError, ldapserver.LDAPResultOther,
				ldapserver.LDAPResultUnwillingToPerform, ldapserver.LDAPResultInsufficientAccessRights, ldapserver.LDAPResultInappropriateAuthentication}
			texts := []string{"replica is sick", "", c07Diags[style].text, c07Diags[2+n%10].text}
			res := ldapserver.NewBindResponse(codes[n%len(codes)])
			res.SetDiagnosticMessage(texts[(n/len(codes))%len(texts)])
			w.Write(res)
			return
		}
		d.mu.Lock()
		d.answered++
		d.mu.Unlock()
		pw := string(r.AuthenticationSimple())
		if known && pw != "" && expected == pw && !outOfOrder {
			w.Write(ldapserver.NewBindResponse(ldapserver.LDAPResultSuccess))
			return
		}
		res := ldapserver.NewBindResponse(ldapserver.LDAPResultInvalidCredentials)
		if outOfOrder {
			res.SetDiagnosticMessage(c07Diags[acct].text)
		} else {
			res.SetDiagnosticMessage(c07Diags[style].text)
		}
		w.Write(res)
	}
}

type c07Listener struct {
	net.Listener
	d   *c07Directory
	idx int
}

func (l *c07Listener) Accept() (net.Conn, error) {
	for {
		conn, err := l.Listener.Accept()
		if err != nil {
			return conn, err
		}
		l.d.mu.Lock()
		l.d.conns[l.idx]++
		down := l.d.status[l.idx] == c07SDown
		l.d.mu.Unlock()
		if down {
			conn.Close()
			continue
		}
		return conn, nil
	}
}

func c07ServerCert(t *testing.T) (tls.Certificate, *x509.CertPool) {
	key, err := ecdsa.GenerateKey(elliptic.P256(), rand.Reader)
	if err != nil {
		t.Fatal(err)
	}
	tmpl := x509.Certificate{SerialNumber: big.NewInt(time.Now().UnixNano()), Subject: pkix.Name{CommonName: "verif directory"},
		NotBefore: time.Now().Add(-time.Hour), NotAfter: time.Now().Add(48 * time.Hour),
		KeyUsage: x509.KeyUsageDigitalSignature | x509.KeyUsageCertSign, ExtKeyUsage: []x509.ExtKeyUsage{x509.ExtKeyUsageServerAuth},
		BasicConstraintsValid: true, IsCA: true, DNSNames: []string{"localhost"}, IPAddresses: []net.IP{net.ParseIP("127.0.0.1")}}
	der, err := x509.CreateCertificate(rand.Reader, &tmpl, &tmpl, &key.PublicKey, key)
	if err != nil {
		t.Fatal(err)
	}
	cert, _ := x509.ParseCertificate(der)
	pool := x509.NewCertPool()
	pool.AddCert(cert)
	return tls.Certificate{Certificate: [][]byte{der}, PrivateKey: key}, pool
}

func c07StartDirectory(t *testing.T, replicas int) (*c07Directory, *x509.CertPool) {
	ldapserver.Logger = ldapserver.DiscardingLogger
	cert, pool := c07ServerCert(t)
	d := &c07Directory{passwords: map[string]string{}, acct: map[string]int{}, style: 1, status: make([]int, replicas), conns: make([]int, replicas)}
	for i := 0; i < replicas; i++ {
		idx := i
		server := ldapserver.NewServer()
		routes := ldapserver.NewRouteMux()
		routes.Bind(d.handler(idx))
		server.Handle(routes)
		addrCh := make(chan string, 1)
		secure := func(s *ldapserver.Server) {
			addrCh <- s.Listener.Addr().String()
			s.Listener = tls.NewListener(&c07Listener{Listener: s.Listener, d: d, idx: idx},
				&tls.Config{MinVersion: tls.VersionTLS12, Certificates: []tls.Certificate{cert}})
		}
		errCh := make(chan error, 1)
		go func() { errCh <- server.ListenAndServe("127.0.0.1:0", secure) }()
		select {
		case addr := <-addrCh:
			d.urls = append(d.urls, "ldaps://"+addr)
		case err := <-errCh:
			t.Fatalf("directory: %v", err)
		case <-time.After(5 * time.Second):
			t.Fatal("directory did not start")
		}
		t.Cleanup(server.Stop)
	}
	return d, pool
}

var c07Patterns = []string{"uid=%s,ou=people,dc=example,dc=org", "uid=%s,ou=service,dc=example,dc=org"}

func c07PwString(n int) string {
	if n == 0 {
		return ""
	}
	return "password-" + strconv.Itoa(n)
}

// ---------------------------------------------------------------- records

type c07Rec struct {
	genuine bool
	kind    string // genuine | attacker-key | payload-edited | alg-none
	sub     string
	data    string // Argon2 hash
	pw      int
	expM    int64 // signed exp claim, model time
	nbfM    int64 // not-before, model time (forged records; genuine ones: expM - 96 h)
}

type c07Hist struct {
	e        *c15Env
	d        *c07Directory
	rng      *mrand.Rand
	attacker *rsa.PrivateKey
	offset   int64
	now      int64 // model time
	recs     []c07Rec
	jwsID    map[string]int
	ops      []string
	outs     []string
	snaps    []string
	human    []string
	dirPw    map[int]int
	oldPw    map[int][]int
	tampered map[int]bool
	acct     map[int]int // user -> index into c07Diags while the account is out of order
	// oracle bookkeeping, model time
	confirmedAt map[string]int64 // "u|pw" -> last directory-confirmed login that was stored
	rejectedAt  map[string]int64 // "u|pw" -> last answered rejection
	confSeq     map[string]int   // the same two, as positions in the history
	rejSeq      map[string]int
	peer        *c07Peer        // another keymaster instance on the same primary database
	void        bool            // the directory did not behave as scripted (a bind timed out under load)
	rejOutage   map[string]bool // ... and whether the primary was not fully up then
	rejPeer     map[string]bool // ... and whether it was the OTHER instance that got the rejection (it evicts in the shared primary only)
	lastCopySeq int             // position of the last copy into this instance's cache that completed (returned nil)
	// the password the directory confirmed LAST for a user at a login HERE that could be stored (primary
	// writable); absent = not known (never confirmed, confirmed while the primary could not be written, or
	// the other instance handled a login of the user since: it writes the shared primary only)
	lastConf map[int]c07Conf
}

type c07Conf struct {
	pw    int
	at    int64 // model time
	seq   int   // position in the history
	reSeq int   // position of the previous stored confirmation of this user (-1: none): was a hash stored before?
	rePw  int   // ... and the password it was for
	reAt  int64
}

var c07Users = []string{"", "alice", "bob", "carol"}

func (h *c07Hist) record(op, out string) {
	h.ops = append(h.ops, op)
	h.outs = append(h.outs, out)
	h.human = append(h.human, op+"->"+out)
	h.snapshot()
}

func (h *c07Hist) modelNow() int64 { return time.Now().Unix() + h.offset }

func (h *c07Hist) tick() {
	n := h.modelNow()
	if n > h.now {
		h.record(fmt.Sprintf("(PTick (%d)%%Z)", n-h.now), "None")
		h.now = n
	}
}

func (h *c07Hist) coqDB(s c15Snap) string {
	var ss []string
	keys := keysOfSRow(s.signed)
	sort.Strings(keys)
	for _, k := range keys {
		parts := strings.SplitN(k, "|", 2)
		id, ok := h.jwsID[s.signed[k].jws]
		if !ok {
			id = 9999
		}
		ss = append(ss, fmt.Sprintf("((%d%%N, %s%%N), mk_srow %d%%N (%d)%%Z 0%%Z)", c15UserNo(parts[0]), parts[1], id, s.signed[k].exp+h.offset))
	}
	return "(mk_db [] [" + strings.Join(ss, "; ") + "])"
}

func (h *c07Hist) snapshot() {
	h.e.settle()
	h.snaps = append(h.snaps, fmt.Sprintf("(%d%%nat, %s, %s)", len(h.ops)-1, h.coqDB(h.e.snapP()), h.coqDB(h.e.snapC())))
}

func c07DecodeClaims(jws string) (storageStringDataJWT, error) {
	var c storageStringDataJWT
	parts := strings.Split(jws, ".")
	if len(parts) != 3 {
		return c, fmt.Errorf("not a compact JWS")
	}
	b, err := base64.RawURLEncoding.DecodeString(parts[1])
	if err != nil {
		return c, err
	}
	return c, json.Unmarshal(b, &c)
}

// the compact JWS for record id as it has to look now (real time)
func (h *c07Hist) mint(id int) string {
	r := h.recs[id]
	st := h.e.st
	expReal := r.expM - h.offset
	if r.kind == "genuine" {
		s, err := st.genNewSerializedStorageStringDataJWT(r.sub, 1, r.data, expReal)
		if err != nil {
			h.e.t.Fatal(err)
		}
		h.jwsID[s] = id
		return s
	}
	issuer := st.idpGetIssuer()
	claims := storageStringDataJWT{Issuer: issuer, Subject: r.sub, Audience: []string{issuer}, NotBefore: time.Now().Unix() - 5,
		IssuedAt: time.Now().Unix() - 5, Expiration: expReal, TokenType: "storage_data", DataType: 1, Data: r.data}
	var s string
	switch r.kind {
	case "attacker-key":
		s = verifSignClaims(h.attacker, claims)
	case "alg-none":
		hdr := base64.RawURLEncoding.EncodeToString([]byte(`{"alg":"none","typ":"JWT"}`))
		body, _ := json.Marshal(claims)
		s = hdr + "." + base64.RawURLEncoding.EncodeToString(body) + "."
	default: // payload-edited: a genuine record for somebody else whose payload was rewritten
		g, err := st.genNewSerializedStorageStringDataJWT("mallory", 1, r.data, expReal)
		if err != nil {
			h.e.t.Fatal(err)
		}
		parts := strings.Split(g, ".")
		body, _ := json.Marshal(claims)
		s = parts[0] + "." + base64.RawURLEncoding.EncodeToString(body) + "." + parts[2]
	}
	h.jwsID[s] = id
	return s
}

func (h *c07Hist) execOn(which string, q string, args ...interface{}) {
	db := h.e.admP
	if which == "WCache" {
		db = h.e.admC
	}
	if _, err := db.Exec(q, args...); err != nil {
		h.e.t.Fatalf("tamper sql: %v", err)
	}
}

// move the clock of the model forward by dt: re-issue every stored record dt earlier
func (h *c07Hist) age(dt int64) {
	h.e.settle()
	h.tick()
	h.offset += dt
	for _, which := range []string{"WPrimary", "WCache"} {
		snap := h.e.snapP()
		if which == "WCache" {
			snap = h.e.snapC()
		}
		for k, row := range snap.signed {
			parts := strings.SplitN(k, "|", 2)
			newJws := row.jws
			if id, ok := h.jwsID[row.jws]; ok {
				newJws = h.mint(id)
			}
			h.execOn(which, "UPDATE expiring_signed_user_data SET jws_data=?, expiration_epoch=? WHERE username=? AND type=?", newJws, row.exp-dt, parts[0], parts[1])
		}
	}
	h.record(fmt.Sprintf("(PTick (%d)%%Z)", dt), "None")
	h.now += dt
	h.e.res.bump("op:tick-" + strconv.FormatInt(dt/3600, 10) + "h")
}

// did a replica that is up receive a connection since the counters [before] were read?  (A login
// that stops at an earlier replica never contacts it: that is keymaster's decision, not a directory
// that failed to answer in time.)
func (h *c07Hist) upContacted(before []int) bool {
	h.d.mu.Lock()
	defer h.d.mu.Unlock()
	for i, s := range h.d.status {
		if s == c07SUp && h.d.conns[i] > before[i] {
			return true
		}
	}
	return false
}

func (h *c07Hist) connCounts() []int {
	h.d.mu.Lock()
	defer h.d.mu.Unlock()
	return append([]int(nil), h.d.conns...)
}

func (h *c07Hist) anyUp() bool {
	h.d.mu.Lock()
	defer h.d.mu.Unlock()
	for _, s := range h.d.status {
		if s == c07SUp {
			return true
		}
	}
	return false
}

func (h *c07Hist) login(u, pw int) {
	e := h.e
	e.settle()
	h.tick()
	raw := c07Users[u]
	switch h.rng.Intn(4) {
	case 0:
		raw = strings.ToUpper(raw)
	case 1:
		raw = strings.Title(raw)
	}
	before := e.snapP()
	beforeC := e.snapC()
	answered := h.anyUp()
	acctDiag, outOfOrder := h.acct[u]
	dirOK := u != 3 && h.dirPw[u] == pw && pw != 0 && !outOfOrder
	req := verifNewRequest("POST", proto.LoginPath, url.Values{"username": {raw}, "password": {c07PwString(pw)}})
	h.d.mu.Lock()
	a0 := h.d.answered
	h.d.mu.Unlock()
	c0 := h.connCounts()
	tBefore := time.Now().Unix()
	rr, _ := e.env.serve(req)
	tAfter := time.Now().Unix()
	h.d.mu.Lock()
	reallyAnswered := h.d.answered > a0
	h.d.mu.Unlock()
	if reallyAnswered != answered && pw != 0 && h.upContacted(c0) {
		// the environment's answer is an input of the case: a replica that is up but did not
		// get to answer within the bind timeout (machine under load) voids the history
		h.void = true
		e.res.bump("void:directory-did-not-answer-as-scripted")
	}
	e.touched()
	e.settle()
	verdict := rr.Code == 200
	out := "(Some " + coqBool(verdict) + ")"
	if rr.Code != 200 && rr.Code != 401 {
		out = fmt.Sprintf("(Some false) (* status %d *)", rr.Code)
		e.res.bump("login-status-" + strconv.Itoa(rr.Code))
	}
	after := e.snapP()
	afterC := e.snapC()
	key := fmt.Sprintf("%d|%d", u, pw)
	kase := map[string]interface{}{"history": h.human, "login": raw, "password_no": pw, "mode": c15ModeNames[e.mode], "replicas": fmt.Sprint(h.d.status)}
	obs := map[string]interface{}{"status": rr.Code, "answered": answered, "directory_accepts": dirOK}
	// how the directory words its refusal of this bind (part of the key: which KIND of answer was overruled)
	refusal := "plain-refusal"
	if outOfOrder {
		refusal = "account-state-refusal"
		kase["account_diagnostic"] = c07Diags[acctDiag].text
	} else if h.d.style != 1 {
		refusal = "refusal-with-" + map[bool]string{true: "empty", false: "ad"}[h.d.style == 0] + "-diagnostic"
	}
	kase["refusal_diagnostic"] = c07Diags[h.d.style].text
	// a new record written by this login?
	slot := c07Users[u] + "|1"
	newRow, wrote := after.signed[slot]
	if wrote {
		if old, had := before.signed[slot]; had && old.jws == newRow.jws {
			wrote = false
		}
	}
	if wrote {
		if _, known := h.jwsID[newRow.jws]; known {
			wrote = false
		}
	}
	if wrote {
		c, err := c07DecodeClaims(newRow.jws)
		if err != nil {
			e.t.Fatalf("stored record does not decode: %v", err)
		}
		id := len(h.recs)
		h.recs = append(h.recs, c07Rec{genuine: true, kind: "genuine", sub: c.Subject, data: c.Data, pw: pw, expM: c.Expiration + h.offset})
		h.jwsID[newRow.jws] = id
		// the clock reading the code used
		codeNow := c.Expiration + h.offset - 96*3600
		if codeNow > h.now {
			h.ops = append(h.ops, fmt.Sprintf("(PTick (%d)%%Z)", codeNow-h.now))
			h.outs = append(h.outs, "None")
			h.snaps = append(h.snaps, fmt.Sprintf("(%d%%nat, %s, %s)", len(h.ops)-1, h.coqDB(before), h.coqDB(beforeC)))
			h.now = codeNow
		}
		if issued := newRow.exp - 96*3600; issued < tBefore-1 || issued > tAfter+1 || c.Expiration != newRow.exp {
			e.res.hit(verifHit{Key: "C07:refresh:lifetime", Oracle: "a refreshed hash expires 96 hours after the confirmed login (signed claim = column)",
				What: fmt.Sprintf("record written for %s during [%d, %d]: column expires %d s after the request, signed claim %d vs column %d", raw, tBefore, tAfter, newRow.exp-tAfter, c.Expiration, newRow.exp), Case: kase, Observed: obs})
		}
	}
	h.ops = append(h.ops, fmt.Sprintf("(Login %d%%N %d%%N)", u, pw))
	h.outs = append(h.outs, out)
	h.human = append(h.human, fmt.Sprintf("Login %s pw%d [%s %v]->%d", raw, pw, c15ModeNames[e.mode], h.d.status, rr.Code))
	h.snaps = append(h.snaps, fmt.Sprintf("(%d%%nat, %s, %s)", len(h.ops)-1, h.coqDB(after), h.coqDB(afterC)))
	e.res.bump(fmt.Sprintf("login:%s:answered=%v:%v", c15ModeNames[e.mode], answered, verdict))

	// ---- the property's own oracles
	if h.void {
		return
	}
	if answered && verdict != dirOK {
		k := "accepted-against-directory"
		if dirOK {
			k = "rejected-against-directory"
		} else if refusal != "plain-refusal" {
			k += ":" + refusal
		}
		e.res.hit(verifHit{Key: "C07:final:" + k, Oracle: "when a directory server answers, its verdict is final",
			What: fmt.Sprintf("login %s with password #%d: a replica answered, the directory says %v, keymaster said %v (status %d)", raw, pw, dirOK, verdict, rr.Code), Case: kase, Observed: obs})
	}
	if !answered && (after.signed[slot] != before.signed[slot] || afterC.signed[slot] != beforeC.signed[slot]) {
		// c07_outage_login_pure: the record in the store is the one a directory-confirmed login wrote
		e.res.hit(verifHit{Key: "C07:outage-login:record-changed", Oracle: "a cached hash is one written by a directory-confirmed login: a login that no directory server answered writes nothing",
			What: fmt.Sprintf("no replica answered the login of %s with password #%d (verdict %v), yet the user's stored record changed (primary: %v, cache: %v; new expiry column %d s from now)", raw, pw, verdict,
				after.signed[slot] != before.signed[slot], afterC.signed[slot] != beforeC.signed[slot], after.signed[slot].exp-tAfter), Case: kase, Observed: obs})
	}
	if !answered && verdict && e.mode == c15Up {
		// the primary answers: its CURRENT row decides, the local cache database has no say
		why := ""
		if row, has := before.signed[slot]; !has {
			why = "holds no record of the user"
		} else if id, known := h.jwsID[row.jws]; !known {
			why = "holds an unknown record"
		} else if r := h.recs[id]; !r.genuine || r.sub != c07Users[u] || r.pw != pw {
			why = fmt.Sprintf("holds a record (%s, subject %q) of password #%d", r.kind, r.sub, r.pw)
		} else if r.expM <= h.now || row.exp+h.offset <= h.now {
			why = "holds an expired record"
		}
		if why != "" {
			e.res.hit(verifHit{Key: "C07:cache-accept:primary-row-disagrees", Oracle: "the local cache only fills outages: while the primary store answers, the verdict follows the primary's current row",
				What: fmt.Sprintf("no replica answered, the primary database answers and %s, yet login %s with password #%d was accepted", why, raw, pw), Case: kase, Observed: obs})
		}
	}
	if !answered && verdict {
		t0, ok := h.confirmedAt[key]
		switch {
		case !ok:
			e.res.hit(verifHit{Key: "C07:cache-accept:never-confirmed", Oracle: "a cached hash decides only if it was written by an earlier directory-confirmed login of the same user",
				What: fmt.Sprintf("no replica answered and login %s with password #%d was accepted, but the directory never confirmed that password for that user in this history", raw, pw), Case: kase, Observed: obs})
		case h.now-t0 >= 96*3600:
			e.res.hit(verifHit{Key: "C07:cache-accept:older-than-96h", Oracle: "a cached hash decides only while younger than its expiry (96 hours)",
				What: fmt.Sprintf("no replica answered and login %s with password #%d was accepted %d s after the last directory-confirmed login", raw, pw, h.now-t0), Case: kase, Observed: obs})
		}
		if tr, rejected := h.rejectedAt[key]; rejected && ok && h.rejSeq[key] > h.confSeq[key] && !h.tampered[u] && h.rejPeer[key] && e.mode != c15Up && h.lastCopySeq < h.rejSeq[key] {
			// rejected at the OTHER instance: that evicts in the shared primary; THIS instance's cache follows at its
			// next completed copy.  None has completed since and the primary does not answer this login: the stale
			// row of the own cache decides (the copy interval is the architecture's bound; a theorem-level fact:
			// the peer's rejection touches the primary only).  With a completed copy since, or a primary that
			// answers, the acceptance is a violation (below).
			e.res.bump("peer-eviction-not-yet-copied")
		} else if rejected && ok && h.rejSeq[key] > h.confSeq[key] && !h.tampered[u] {
			circumstance := "primary-up"
			if h.rejOutage[key] {
				circumstance = "primary-outage-at-eviction"
			}
			e.res.hit(verifHit{Key: "C07:evicted-password-accepted:" + circumstance, Oracle: "rejection of the cached password evicts the user's cached hash",
				What: fmt.Sprintf("password #%d of %s was rejected by the directory %d s ago (after its last confirmation) and is accepted from the cache now (%s)", pw, raw, h.now-tr, circumstance), Case: kase, Observed: obs})
		}
	}
	if lc, known := h.lastConf[u]; !answered && known && pw != 0 && !h.tampered[u] && h.now-lc.at < 96*3600-5 {
		// c07_refresh_whatever_was_stored: the hash that fills an outage is the hash of the password the
		// directory confirmed LAST for the user (stored then in both stores), unless the directory has
		// rejected that very password since (evicted).  Shape: was another hash of the user stored shortly /
		// long before that confirmation, or none; and which store answers now.
		rk := fmt.Sprintf("%d|%d", u, lc.pw)
		rejectedSince := false
		if rs, ok := h.rejSeq[rk]; ok && rs > lc.seq {
			rejectedSince = true
		}
		shape := "first-stored-hash"
		if lc.reSeq >= 0 {
			shape = "same-password-stored-before"
			if lc.rePw != lc.pw {
				shape = "replaced-password-stored"
			}
			if lc.at-lc.reAt < 15*60 {
				shape += "-minutes-before"
			} else {
				shape += "-long-before"
			}
		}
		if e.mode == c15Up {
			shape += ":primary-answers"
		} else {
			shape += ":primary-silent"
		}
		kase["last_confirmed_password_no"] = lc.pw
		if !rejectedSince {
			if verdict && pw != lc.pw {
				e.res.hit(verifHit{Key: "C07:outage-accepts-replaced-password:" + shape, Oracle: "acceptance by the directory refreshes the user's cached hash: during an outage the password accepted is the one the directory confirmed last",
					What: fmt.Sprintf("no replica answered; the directory last confirmed password #%d for %s (%d s ago, stored then), yet password #%d was accepted from the cache", lc.pw, raw, h.now-lc.at, pw), Case: kase, Observed: obs})
			}
			if !verdict && pw == lc.pw {
				e.res.hit(verifHit{Key: "C07:outage-refuses-last-confirmed-password:" + shape, Oracle: "acceptance by the directory refreshes the user's cached hash: during an outage the password accepted is the one the directory confirmed last",
					What: fmt.Sprintf("no replica answered; the directory last confirmed password #%d for %s (%d s ago, stored then, not rejected since), yet that password was refused", lc.pw, raw, h.now-lc.at), Case: kase, Observed: obs})
			}
			e.res.bump("outage-login-vs-last-confirmed:" + shape)
		}
	}
	if answered && dirOK && verdict && !c15Writable(e.mode) {
		delete(h.lastConf, u) // confirmed but could not be stored: what the stores hold is an older state
	}
	if answered && dirOK && verdict && c15Writable(e.mode) {
		h.confirmedAt[key] = h.now
		h.confSeq[key] = len(h.ops)
		nc := c07Conf{pw: pw, at: h.now, seq: len(h.ops), reSeq: -1}
		if lc, known := h.lastConf[u]; known {
			nc.reSeq, nc.rePw, nc.reAt = lc.seq, lc.pw, lc.at
		}
		h.lastConf[u] = nc
		if !wrote {
			e.res.hit(verifHit{Key: "C07:refresh:no-record", Oracle: "acceptance by the directory refreshes the user's cached hash",
				What: fmt.Sprintf("login %s accepted by the directory wrote no new record into the primary", raw), Case: kase, Observed: obs})
		} else if c, ok := afterC.signed[slot]; !ok || c.jws != newRow.jws {
			e.res.hit(verifHit{Key: "C07:refresh:cache-not-updated", Oracle: "acceptance by the directory refreshes the user's cached hash",
				What: fmt.Sprintf("login %s accepted by the directory: the new record is not in the cache database", raw), Case: kase, Observed: obs})
		}
	}
	if answered && !dirOK {
		h.rejectedAt[key] = h.now
		h.rejSeq[key] = len(h.ops)
		h.rejOutage[key] = e.mode != c15Up
		h.rejPeer[key] = false
		// eviction: the row the primary held was the hash of this very password
		if e.mode == c15Up && !h.tampered[u] {
			if old, had := before.signed[slot]; had && old.exp > time.Now().Unix() {
				if id, ok := h.jwsID[old.jws]; ok && h.recs[id].genuine && h.recs[id].pw == pw && h.recs[id].sub == c07Users[u] && h.recs[id].expM > h.now {
					for name, s := range map[string]c15Snap{"primary": after, "cache": afterC} {
						if _, still := s.signed[slot]; still {
							keyName := name
							if refusal != "plain-refusal" {
								keyName += ":" + refusal
							}
							e.res.hit(verifHit{Key: "C07:evict:row-still-present:" + keyName, Oracle: "rejection of the cached password evicts the user's cached hash",
								What: fmt.Sprintf("the directory rejected password #%d of %s, whose hash was cached; the row is still in the %s", pw, raw, name), Case: kase, Observed: obs})
						}
					}
				}
			}
		}
	}
	e.res.eval(fmt.Sprintf("login|%d|%v|%v|%v|%s", u, answered, dirOK, verdict, c15ModeNames[e.mode]), true)
}

// ---------------------------------------------------------------- the other instance
//
// The normal HA set-up: a second keymasterd with the same signing key and the same directory, the
// SAME primary database (a connection of its own, not touched by this instance's outage modes) and
// a local cache database of its own.  Its logins go through the real lib/pwauth/ldap authenticator
// with the real storage functions of a second RuntimeState.
type c07Peer struct {
	st      *RuntimeState
	pa      *pwldap.PasswordAuthenticator // the authenticator in use (same bind patterns as this instance's)
	paTwo   *pwldap.PasswordAuthenticator
	paOne   *pwldap.PasswordAuthenticator
	cacheDB *sql.DB
}

func c07NewPeer(t *testing.T, e *c15Env, urls []string, pool *x509.CertPool) *c07Peer {
	st := e.st
	peer := &RuntimeState{Config: st.Config, HostIdentity: st.HostIdentity, Signer: st.Signer, KeymasterPublicKeys: st.KeymasterPublicKeys,
		dbType: "sqlite", remoteDBQueryTimeout: 20 * time.Second, logger: st.logger}
	var err error
	if peer.db, err = sql.Open("sqlite3", e.primFile); err != nil {
		t.Fatal(err)
	}
	peer.db.SetMaxIdleConns(0)
	if peer.cacheDB, err = initFileDBSQLite(filepath.Join(st.Config.Base.DataDirectory, "peer_"+cachedDBFilename), nil); err != nil {
		t.Fatal(err)
	}
	p := &c07Peer{st: peer, cacheDB: peer.cacheDB}
	if p.paTwo, err = pwldap.New(urls, c07Patterns, 3, pool, peer, st.logger); err != nil {
		t.Fatal(err)
	}
	if p.paOne, err = pwldap.New(urls, c07Patterns[:1], 3, pool, peer, st.logger); err != nil {
		t.Fatal(err)
	}
	p.pa = p.paTwo
	t.Cleanup(func() { peer.db.Close(); peer.cacheDB.Close() })
	return p
}

// a login of (u, pw) at the other instance
func (h *c07Hist) peerLogin(u, pw int) {
	e := h.e
	e.settle()
	h.tick()
	before := e.snapP()
	beforeC := e.snapC()
	answered := h.anyUp()
	_, outOfOrder := h.acct[u]
	dirOK := u != 3 && h.dirPw[u] == pw && pw != 0 && !outOfOrder
	h.d.mu.Lock()
	a0 := h.d.answered
	h.d.mu.Unlock()
	c0 := h.connCounts()
	verdict, err := h.peer.pa.PasswordAuthenticate(c07Users[u], []byte(c07PwString(pw)))
	if err != nil {
		e.t.Fatalf("peer login: %v", err)
	}
	h.d.mu.Lock()
	reallyAnswered := h.d.answered > a0
	h.d.mu.Unlock()
	if reallyAnswered != answered && pw != 0 && h.upContacted(c0) {
		h.void = true
		e.res.bump("void:directory-did-not-answer-as-scripted")
	}
	after := e.snapP()
	afterC := e.snapC()
	slot := c07Users[u] + "|1"
	key := fmt.Sprintf("%d|%d", u, pw)
	if newRow, has := after.signed[slot]; has {
		if _, known := h.jwsID[newRow.jws]; !known {
			c, err := c07DecodeClaims(newRow.jws)
			if err != nil {
				e.t.Fatalf("record stored by the other instance does not decode: %v", err)
			}
			h.recs = append(h.recs, c07Rec{genuine: true, kind: "genuine", sub: c.Subject, data: c.Data, pw: pw, expM: c.Expiration + h.offset})
			h.jwsID[newRow.jws] = len(h.recs) - 1
			if codeNow := c.Expiration + h.offset - 96*3600; codeNow > h.now {
				h.ops = append(h.ops, fmt.Sprintf("(PTick (%d)%%Z)", codeNow-h.now))
				h.outs = append(h.outs, "None")
				h.snaps = append(h.snaps, fmt.Sprintf("(%d%%nat, %s, %s)", len(h.ops)-1, h.coqDB(before), h.coqDB(beforeC)))
				h.now = codeNow
			}
		}
	}
	h.ops = append(h.ops, fmt.Sprintf("(PeerLogin %d%%N %d%%N)", u, pw))
	h.outs = append(h.outs, "None")
	h.human = append(h.human, fmt.Sprintf("PeerLogin %s pw%d [%v]->%v", c07Users[u], pw, h.d.status, verdict))
	h.snaps = append(h.snaps, fmt.Sprintf("(%d%%nat, %s, %s)", len(h.ops)-1, h.coqDB(after), h.coqDB(afterC)))
	e.res.bump(fmt.Sprintf("peer-login:answered=%v:%v", answered, verdict))
	if h.void {
		return
	}
	if answered && verdict != dirOK {
		e.res.hit(verifHit{Key: "C07:final:peer-against-directory", Oracle: "when a directory server answers, its verdict is final",
			What: fmt.Sprintf("other instance: login %s with password #%d: directory says %v, keymaster said %v", c07Users[u], pw, dirOK, verdict),
			Case: map[string]interface{}{"history": h.human}})
	}
	if answered && dirOK && verdict {
		h.confirmedAt[key] = h.now
		h.confSeq[key] = len(h.ops)
	}
	if answered {
		delete(h.lastConf, u) // the other instance writes the shared primary only: this instance's stores may differ
	}
	if answered && !dirOK {
		h.rejectedAt[key] = h.now
		h.rejSeq[key] = len(h.ops)
		h.rejOutage[key] = false
		h.rejPeer[key] = true
	}
	e.res.eval(fmt.Sprintf("peer-login|%d|%v|%v|%v", u, answered, dirOK, verdict), true)
}

func (h *c07Hist) setServer(i, st int) {
	h.d.mu.Lock()
	h.d.status[i] = st
	h.d.mu.Unlock()
	h.record(fmt.Sprintf("(SetServer %d%%nat %s)", i, c07StatusNames[st]), "None")
	h.e.res.bump("op:server-" + c07StatusNames[st])
}

func (h *c07Hist) changePw(u, pw int) {
	h.d.mu.Lock()
	h.d.passwords[fmt.Sprintf(c07Patterns[0], c07Users[u])] = c07PwString(pw)
	h.d.mu.Unlock()
	if cur, ok := h.dirPw[u]; ok {
		h.oldPw[u] = append(h.oldPw[u], cur)
	}
	h.dirPw[u] = pw
	h.record(fmt.Sprintf("(ChangePw %d%%N %d%%N)", u, pw), "None")
	h.e.res.bump("op:changepw")
}

// the directory puts the account out of order (every bind refused with diagnostic di) / back in order (di < 0)
func (h *c07Hist) setAcct(u, di int) {
	dn := fmt.Sprintf(c07Patterns[0], c07Users[u])
	h.d.mu.Lock()
	if di < 0 {
		delete(h.d.acct, dn)
	} else {
		h.d.acct[dn] = di
	}
	h.d.mu.Unlock()
	if di < 0 {
		delete(h.acct, u)
		h.record(fmt.Sprintf("(SetAcct %d%%N None)", u), "None")
		h.e.res.bump("op:account-in-order")
		return
	}
	h.acct[u] = di
	h.record(fmt.Sprintf("(SetAcct %d%%N (Some %s))", u, c07Diags[di].coq), "None")
	h.e.res.bump("op:account-refused:" + c07Diags[di].coq)
}

func (h *c07Hist) setStyle(di int) {
	h.d.mu.Lock()
	h.d.style = di
	h.d.mu.Unlock()
	h.record("(SetStyle "+c07Diags[di].coq+")", "None")
	h.e.res.bump("op:style:" + c07Diags[di].coq)
}

func (h *c07Hist) setMode(m int) {
	h.e.setMode(m)
	h.record("(PMode "+c15ModeNames[m]+")", "None")
	h.e.res.bump("op:mode-" + c15ModeNames[m])
}

func (h *c07Hist) sync() {
	h.e.settle()
	h.tick()
	if err := copyDBIntoSQLite(h.e.st.db, h.e.st.cacheDB, "sqlite"); err == nil {
		h.lastCopySeq = len(h.ops)
	}
	h.record("PSync", "None")
	h.e.res.bump("op:sync")
}

func (h *c07Hist) tamper() {
	rng := h.rng
	which := []string{"WPrimary", "WCache"}[rng.Intn(2)]
	slot := 1 + rng.Intn(2)
	h.e.settle()
	h.tick()
	col := h.now + []int64{-500, 3600, 400 * 3600, 100000000}[rng.Intn(4)]
	h.tampered[slot] = true
	put := func(jws string) {
		h.execOn(which, "INSERT OR REPLACE INTO expiring_signed_user_data(username, type, jws_data, expiration_epoch, update_epoch) VALUES(?,?,?,?,?)",
			c07Users[slot], 1, jws, col-h.offset, time.Now().Unix())
	}
	switch k := rng.Intn(10); {
	case k < 4 && len(h.recs) > 0: // a record that exists (anyone's, any age) into this slot
		id := rng.Intn(len(h.recs))
		put(h.mint(id))
		h.record(fmt.Sprintf("(Tamper %s %d%%N (RExisting %d%%N) (%d)%%Z)", which, slot, id, col), "None")
		h.e.res.bump("op:tamper-existing-" + h.recs[id].kind)
	case k < 5: // only the expiration column
		snap := h.e.snapP()
		if which == "WCache" {
			snap = h.e.snapC()
		}
		row, ok := snap.signed[c07Users[slot]+"|1"]
		id, known := h.jwsID[row.jws]
		if !ok || !known {
			return
		}
		put(row.jws)
		h.record(fmt.Sprintf("(Tamper %s %d%%N (RExisting %d%%N) (%d)%%Z)", which, slot, id, col), "None")
		h.e.res.bump("op:tamper-column")
	case k < 9: // a forged record: the hash of a password of the attacker's choice
		kind := []string{"attacker-key", "payload-edited", "alg-none"}[rng.Intn(3)]
		pw := 1 + rng.Intn(4)
		hash, err := authutil.Argon2MakeNewHash([]byte(c07PwString(pw)))
		if err != nil {
			h.e.t.Fatal(err)
		}
		expM := h.now + []int64{-100, 96 * 3600, 10000000}[rng.Intn(3)]
		id := len(h.recs)
		h.recs = append(h.recs, c07Rec{genuine: false, kind: kind, sub: c07Users[slot], data: hash, pw: pw, expM: expM, nbfM: h.now - 5})
		put(h.mint(id))
		h.record(fmt.Sprintf("(Tamper %s %d%%N (RForged %d%%N %d%%N (%d)%%Z (%d)%%Z) (%d)%%Z)", which, slot, slot, pw, h.now-5, expM, col), "None")
		h.e.res.bump("op:tamper-forged-" + kind)
	default:
		h.execOn(which, "DELETE FROM expiring_signed_user_data WHERE username=? AND type=1", c07Users[slot])
		h.record(fmt.Sprintf("(Tamper %s %d%%N RDelete 0%%Z)", which, slot), "None")
		h.e.res.bump("op:tamper-delete")
	}
}

func (h *c07Hist) somePw(u int) int {
	rng := h.rng
	switch k := rng.Intn(10); {
	case k < 5:
		return h.dirPw[u]
	case k < 8 && len(h.oldPw[u]) > 0:
		return h.oldPw[u][rng.Intn(len(h.oldPw[u]))]
	case k < 9:
		return 1 + rng.Intn(5)
	default:
		return 0
	}
}

func (h *c07Hist) randomOp(allowTamper bool) {
	rng := h.rng
	u := 1 + rng.Intn(2)
	switch w := rng.Intn(100); {
	case w < 38:
		if rng.Intn(12) == 0 {
			u = 3
		}
		h.login(u, h.somePw(u))
	case w < 42:
		h.peerLogin(u, h.somePw(u))
	case w < 56:
		h.setServer(rng.Intn(len(h.d.status)), []int{c07SUp, c07SUp, c07SDown, c07SDown, c07SErroring, c07SErroring, c07SMisleading}[rng.Intn(7)])
	case w < 60:
		if _, out := h.acct[u]; out && rng.Intn(2) == 0 {
			h.setAcct(u, -1)
		} else {
			h.setAcct(u, c07FirstAccountDiag+rng.Intn(len(c07Diags)-c07FirstAccountDiag))
		}
	case w < 66:
		h.changePw(u, 1+rng.Intn(5))
	case w < 73:
		h.age([]int64{3601, 180007, 340003, 349201, 720011}[rng.Intn(5)])
	case w < 82:
		h.setMode(c15RandomMode(rng, true))
	case w < 87:
		h.sync()
	default:
		if allowTamper {
			h.tamper()
		} else {
			h.sync()
		}
	}
}

// the records as numbered here (the numbers the snapshots carry), for the observation predicates
func (h *c07Hist) emitRecs() string {
	var l []string
	for _, r := range h.recs {
		nbf := r.nbfM
		if r.genuine {
			nbf = r.expM - 96*3600
		}
		l = append(l, fmt.Sprintf("mk_jws %s %d%%N %d%%N (%d)%%Z (%d)%%Z", coqBool(r.genuine), c15UserNo(r.sub), r.pw, nbf, r.expM))
	}
	return "[" + strings.Join(l, "; ") + "]"
}

func (h *c07Hist) emit(n, extraPatterns int) string {
	return fmt.Sprintf("((((%d%%nat, %d%%nat), [%s]),\n  [%s]),\n  [%s])", n, extraPatterns, strings.Join(h.ops, "; "), strings.Join(h.outs, "; "), strings.Join(h.snaps, ";\n   "))
}

// ---------------------------------------------------------------- test

func TestVerif_C07(t *testing.T) {
	res := newVerifResult("random histories (<= 10 ops, then a forced full outage with logins) of login {current, old, wrong, empty password; mixed-case user names} / replica {up, down, erroring} / password change / clock advance {1h..200h, by re-issuing the stored records earlier} / primary {up, slow, dead} / copy / tampering by SQL {any existing record into any slot with any expiration column, column only, forged records (attacker key, edited payload, alg none), delete} for two users (+ one user living under the second bind pattern) against an in-process LDAPS directory with two replicas, the real lib/pwauth/ldap authenticator and the real RuntimeState storage on SQLite, through the real login handler; the Coq model runs the same histories (verdict of every login, both stores after every op); htpassword and command backends on mixed-case names, and over histories in which the backend's file (htpasswd file, the command's data file, the command script itself) is edited between logins {password change, user removed, user added} x {in place, temp + rename} x {same size, other size} x {mtime restored, later, earlier} with ONE backend object per history behind the real login handler; non-trivial = a login (for the backend histories: a login after at least one edit); distinct by (user, answered, directory verdict, verdict, mode)")
	e := c15Setup(t, res)
	st := e.st
	rng := verifRand()
	dirSrv, pool := c07StartDirectory(t, 2)
	pa, err := pwldap.New(dirSrv.urls, c07Patterns, 3, pool, st, st.logger)
	if err != nil {
		t.Fatal(err)
	}
	// the same with the one bind pattern keymasterd's own configuration passes: with two patterns
	// an attempt that "did not answer" is followed by the second pattern's (final) refusal
	paOne, err := pwldap.New(dirSrv.urls, c07Patterns[:1], 3, pool, st, st.logger)
	if err != nil {
		t.Fatal(err)
	}
	peer := c07NewPeer(t, e, dirSrv.urls, pool)
	newPA := func(patterns []string, storage simplestorage.SimpleStore) *pwldap.PasswordAuthenticator {
		a, err := pwldap.New(dirSrv.urls, patterns, 3, pool, storage, st.logger)
		if err != nil {
			t.Fatal(err)
		}
		return a
	}
	htChecker := st.passwordChecker
	st.passwordChecker = pa
	st.Config.Ldap.LDAPTargetURLs = strings.Join(dirSrv.urls, ",")
	st.Config.Ldap.BindPattern = c07Patterns[0]
	st.passwordAttemptGlobalLimiter = rate.NewLimiter(rate.Inf, 1)
	attacker, err := rsa.GenerateKey(rand.Reader, 2048)
	if err != nil {
		t.Fatal(err)
	}
	nHist := 250
	maxOps := 10
	if verifThorough() {
		nHist, maxOps = 1500, 14
	}
	var cases, idx, recTables []string
	voided := 0
	run := func(i int, body func(h *c07Hist)) {
		e.wipe()
		dirSrv.mu.Lock()
		dirSrv.passwords = map[string]string{fmt.Sprintf(c07Patterns[1], "carol"): c07PwString(3)}
		dirSrv.acct = map[string]int{}
		dirSrv.style = 1
		for k := range dirSrv.status {
			dirSrv.status[k] = c07SUp
		}
		dirSrv.mu.Unlock()
		h := &c07Hist{e: e, d: dirSrv, rng: rng, attacker: attacker, jwsID: map[string]int{}, dirPw: map[int]int{}, oldPw: map[int][]int{},
			tampered: map[int]bool{}, acct: map[int]int{}, confirmedAt: map[string]int64{}, rejectedAt: map[string]int64{}, rejOutage: map[string]bool{}, rejPeer: map[string]bool{}, lastCopySeq: -1,
			confSeq: map[string]int{}, rejSeq: map[string]int{}, peer: peer, lastConf: map[int]c07Conf{}}
		peer.cacheDB.Exec("DELETE FROM expiring_signed_user_data")
		// the stores start empty: whatever an authenticator keeps in memory belongs to ONE history
		// (a new deployment), so every history gets authenticator objects of its own
		pa, paOne = newPA(c07Patterns, st), newPA(c07Patterns[:1], st)
		peer.paTwo, peer.paOne = newPA(c07Patterns, peer.st), newPA(c07Patterns[:1], peer.st)
		peer.pa = peer.paTwo
		extraPatterns := 1
		if i%2 == 1 {
			st.passwordChecker = paOne
			peer.pa = peer.paOne
			extraPatterns = 0
			h.human = append(h.human, "[one bind pattern]")
		} else {
			st.passwordChecker = pa
		}
		// carol's entry (password #3) lives under the second bind pattern
		h.record("(SetHome 3%N 1%nat)", "None")
		h.record("(ChangePw 3%N 3%N)", "None")
		body(h)
		e.setMode(c15Up)
		if h.void {
			voided++
			return
		}
		cases = append(cases, h.emit(len(dirSrv.status), extraPatterns))
		recTables = append(recTables, h.emitRecs())
		idx = append(idx, strings.Join(h.human, " "))
		if i < 3 {
			res.sample(map[string]interface{}{"history": h.human})
		}
	}
	// scripted histories first: the shapes on which the code before the repairs failed, and the
	// shapes the statement names explicitly
	allDown := func(h *c07Hist) {
		for k := range h.d.status {
			h.setServer(k, c07SDown)
		}
	}
	putExisting := func(h *c07Hist, which string, slot, id int, colDelta int64) {
		if id >= len(h.recs) {
			// the login that should have written this record wrote none (its oracle has spoken): the step cannot be taken
			h.e.res.bump("scripted-step-skipped:no-such-record")
			return
		}
		h.e.settle()
		h.tick()
		h.tampered[slot] = true
		col := h.now + colDelta
		h.execOn(which, "INSERT OR REPLACE INTO expiring_signed_user_data(username, type, jws_data, expiration_epoch, update_epoch) VALUES(?,?,?,?,?)",
			c07Users[slot], 1, h.mint(id), col-h.offset, time.Now().Unix())
		h.record(fmt.Sprintf("(Tamper %s %d%%N (RExisting %d%%N) (%d)%%Z)", which, slot, id, col), "None")
	}
	scripted := []func(h *c07Hist){
		func(h *c07Hist) { // the cache fills an outage; wrong and other users' passwords do not
			h.changePw(1, 1)
			h.changePw(2, 2)
			h.login(1, 1)
			h.login(2, 2)
			h.sync()
			allDown(h)
			h.login(1, 1)
			h.login(1, 2)
			h.login(2, 1)
			h.login(2, 2)
			h.setMode(c15Dead)
			h.login(1, 1)
			h.login(2, 1)
		},
		func(h *c07Hist) { // a record older than 96 h whose expiration column was rewritten
			h.changePw(1, 1)
			h.login(1, 1)
			h.sync()
			h.age(349201)
			putExisting(h, "WCache", 1, 0, 100000000)
			putExisting(h, "WPrimary", 1, 0, 100000000)
			allDown(h)
			h.login(1, 1)
			h.setMode(c15Dead)
			h.login(1, 1)
		},
		func(h *c07Hist) { // the first replica answers with a rejection, the second is down / sick
			h.changePw(1, 1)
			h.login(1, 1)
			h.sync()
			h.changePw(1, 2)
			h.setServer(1, c07SDown)
			h.login(1, 1)
			allDown(h)
			h.login(1, 1)
			h.setServer(0, c07SUp)
			h.login(1, 2)
			h.changePw(1, 3)
			h.setServer(1, c07SErroring)
			h.login(1, 2)
			h.setServer(0, c07SErroring)
			h.login(1, 2)
			h.login(1, 3)
		},
		func(h *c07Hist) { // rejected and evicted, a copy, then an outage
			h.changePw(1, 1)
			h.login(1, 1)
			h.sync()
			h.changePw(1, 2)
			h.login(1, 1)
			h.sync()
			allDown(h)
			h.setMode(c15Dead)
			h.login(1, 1)
		},
		func(h *c07Hist) { // rejected and evicted, NO copy, then an outage
			h.changePw(1, 1)
			h.login(1, 1)
			h.sync()
			h.changePw(1, 2)
			h.login(1, 1)
			allDown(h)
			h.setMode(c15Slow)
			h.login(1, 1)
			h.setMode(c15Dead)
			h.login(1, 1)
		},
		func(h *c07Hist) { // a new password confirmed while the cache still holds the old one
			h.changePw(1, 1)
			h.login(1, 1)
			h.sync()
			h.changePw(1, 2)
			h.login(1, 2)
			allDown(h)
			h.setMode(c15Dead)
			h.login(1, 1)
			h.login(1, 2)
		},
		func(h *c07Hist) { // somebody else's genuine record in the victim's slot of either store
			h.changePw(1, 1)
			h.changePw(2, 2)
			h.login(1, 1)
			h.sync()
			putExisting(h, "WCache", 2, 0, 3600)
			putExisting(h, "WPrimary", 2, 0, 3600)
			allDown(h)
			h.login(2, 1)
			h.setMode(c15Slow)
			h.login(2, 1)
			h.setMode(c15Dead)
			h.login(2, 1)
			h.login(1, 1)
		},
		func(h *c07Hist) { // the directory refuses an account whose password is cached, for every reason it can give
			h.changePw(1, 1)
			h.changePw(2, 2)
			for di := 0; di < len(c07Diags); di++ {
				h.login(1, 1) // confirmed: the hash is cached
				h.setAcct(1, di)
				h.login(1, 1) // refused although the password is right; evicted
				h.setServer(0, c07SDown)
				h.setServer(1, c07SErroring)
				h.login(1, 1) // nobody answers: the evicted hash must not decide
				h.setServer(0, c07SUp)
				h.setServer(1, c07SUp)
				h.setAcct(1, -1)
			}
			h.login(2, 2)
			h.setStyle(0)
			h.login(2, 1)
			h.setStyle(2)
			h.login(2, 2)
			h.login(2, 3)
		},
		func(h *c07Hist) { // a sick replica whose diagnostic TEXT mentions "Invalid Credentials" under another result code
			h.changePw(1, 1)
			h.changePw(2, 2)
			h.login(1, 1)
			h.login(2, 2)
			h.setServer(0, c07SMisleading)
			for k := 0; k < 6; k++ { // every result code / text of the rotation, the healthy second replica decides
				h.login(1, 1)
			}
			h.login(1, 2)
			h.setServer(1, c07SMisleading)
			for k := 0; k < 5; k++ { // nobody answers: the cache fills the outage, nothing is evicted
				h.login(2, 2)
			}
			h.login(2, 1)
			h.setServer(1, c07SDown)
			h.login(1, 1)
			h.setMode(c15Dead)
			h.login(2, 2)
		},
		func(h *c07Hist) { // a long directory outage: the hash is USED inside its 96 h, then again after its original expiry
			h.changePw(1, 1)
			h.changePw(2, 2)
			h.login(1, 1)
			h.login(2, 2)
			h.sync()
			h.age(180007)
			allDown(h)
			h.login(1, 1) // 50 h after the confirmation: the cache fills the outage
			h.age(180007) // 100 h after the confirmation, 50 h after the offline login
			h.login(1, 1)
			h.login(2, 2) // never used meanwhile: expired too
			h.setMode(c15Dead)
			h.login(1, 1)
		},
		func(h *c07Hist) { // the same at the boundary: 61 s before / after the expiry of the CONFIRMED record
			h.changePw(1, 1)
			h.login(1, 1)
			h.age(340003)
			allDown(h)
			h.login(1, 1)
			if t0, ok := h.confirmedAt["1|1"]; ok {
				h.age(t0 + 96*3600 - h.modelNow() - 61)
				h.login(1, 1)
				h.age(122)
				h.login(1, 1)
				h.setMode(c15Slow)
				h.login(1, 1)
			}
		},
		func(h *c07Hist) { // one read of the primary times out; then the OTHER instance evicts in the shared primary; outage
			h.changePw(1, 1)
			h.changePw(2, 2)
			h.login(1, 1)
			h.login(2, 2)
			h.setMode(c15Slow)
			h.login(2, 5) // bob mistypes while the primary hangs: GetSigned times out once
			h.setMode(c15Up)
			h.changePw(1, 3)
			h.peerLogin(1, 1) // the directory rejects the old password there: evicted from the primary
			allDown(h)
			h.login(1, 1) // the primary answers and has no row: refused
			h.login(2, 2)
			h.login(1, 3)
		},
		func(h *c07Hist) { // ... then the other instance REFRESHES in the shared primary; outage
			h.changePw(1, 1)
			h.changePw(2, 2)
			h.login(1, 1)
			h.login(2, 2)
			h.setMode(c15Slow)
			h.login(1, 5)
			h.setMode(c15Up)
			h.changePw(1, 3)
			h.peerLogin(1, 3) // confirmed there: the primary's row is now the hash of #3
			allDown(h)
			h.login(1, 3) // the primary's current row decides: accepted
			h.login(1, 1) // ... and the old one refused
			h.setMode(c15Slow)
			h.login(1, 1) // now the primary does NOT answer: our own cache still holds #1 (known limit: the cache mirrors at the next copy)
			h.setMode(c15Up)
			h.sync()
			h.setMode(c15Slow)
			h.login(1, 1)
			h.login(1, 3)
		},
		func(h *c07Hist) { // rejected at the OTHER instance (evicted from the shared primary), a completed copy HERE, then a full outage
			h.changePw(1, 1)
			h.changePw(2, 2)
			h.login(1, 1)
			h.login(2, 2)
			h.changePw(1, 3)
			h.peerLogin(1, 1) // the directory rejects the old password there: the row leaves the primary
			h.sync()          // ... and with this copy it leaves this instance's cache
			allDown(h)
			h.setMode(c15Dead)
			h.login(1, 1) // nothing answers: the evicted hash must not decide
			h.login(2, 2) // bob's hash still fills the outage
			h.login(1, 3)
		},
		func(h *c07Hist) { // known finding: the primary is unreachable when the directory rejects
			h.changePw(1, 1)
			h.login(1, 1)
			h.sync()
			h.changePw(1, 2)
			h.setMode(c15Dead)
			h.login(1, 1)
			h.setMode(c15Up)
			h.sync()
			allDown(h)
			h.login(1, 1)
		},
	}
	for i, sc := range scripted {
		run(2*i, sc) // two bind patterns
		if i == 0 || i == 2 || i == 7 || i >= len(scripted)-7 && i < len(scripted)-1 {
			run(2*i+1, sc) // one bind pattern: the cache/outage basics, mixed replica answers, account-state refusals
		}
	}
	// A KIND of history (not one script): the user's password CHANGES in the directory between two
	// directory-confirmed logins, then the directory goes away.  login P1 (stored); ChangePw P2;
	// [a wrong password while the directory answers]; the clock advances by {nothing, minutes, more
	// than a quarter of an hour, hours}; login P2 (confirmed: c07_refresh_whatever_was_stored - the
	// stored hash is now P2's, however recently P1's was stored); no replica answers; P2 and P1 are
	// tried in either order (P2 accepted, P1 refused), with the primary up / dead / slow.
	kk := 0
	for _, gap := range []int64{0, 240, 1000, 3*3600 + 7} {
		for _, oldFirst := range []bool{false, true} {
			for _, wrongBetween := range []bool{false, true} {
				k, gap, oldFirst, wrongBetween := kk, gap, oldFirst, wrongBetween
				kk++
				run(k+k/2, func(h *c07Hist) {
					u := 1 + k%2
					other := 3 - u
					p1, p2 := 1+k%3, 1+(k+1)%3
					h.changePw(u, p1)
					h.changePw(other, 4)
					h.login(u, p1)
					h.login(other, 4)
					h.changePw(u, p2)
					if wrongBetween {
						h.login(u, 5) // rejected by the directory; not the cached password: nothing changes
					}
					if gap > 0 {
						h.age(gap)
					}
					h.login(u, p2)
					for r := range h.d.status {
						h.setServer(r, []int{c07SDown, c07SErroring, c07SMisleading}[(k+r)%3])
					}
					if m := []int{c15Up, c15Dead, c15Up, c15Slow}[(k/4+k)%4]; m != c15Up {
						h.setMode(m)
					}
					if oldFirst {
						h.login(u, p1)
						h.login(u, p2)
					} else {
						h.login(u, p2)
						h.login(u, p1)
					}
					h.login(other, 4)
					h.login(u, 5)
					h.e.res.bump("kind:password-changed-between-confirmed-logins")
				})
			}
		}
	}
	for i := 0; i < nHist; i++ {
		run(i, func(h *c07Hist) {
			tamper := i%3 != 0 // a third of the histories without tampering (eviction / resurrection oracles)
			if i%2 == 1 {
				h.setStyle([]int{0, 2, 3, 2 + rng.Intn(len(c07Diags)-2)}[rng.Intn(4)])
			}
			h.changePw(1, 1+rng.Intn(3))
			h.changePw(2, 1+rng.Intn(3))
			if rng.Intn(4) > 0 {
				h.login(1+rng.Intn(2), h.dirPw[1+rng.Intn(2)])
			}
			n := 2 + rng.Intn(maxOps-2)
			for j := 0; j < n; j++ {
				h.randomOp(tamper)
			}
			shape := rng.Intn(5)
			if shape == 0 {
				// one read of the primary times out, the primary answers again, and the other instance
				// evicts / refreshes a hash in the shared primary
				v := 1 + rng.Intn(2)
				h.setMode(c15Slow)
				h.login(1+rng.Intn(2), 5)
				h.setMode(c15Up)
				old := h.dirPw[v]
				h.changePw(v, 1+old%4)
				if rng.Intn(2) == 0 {
					h.peerLogin(v, old)
				} else {
					h.peerLogin(v, h.dirPw[v])
				}
			}
			// whatever happened: take the whole directory away and try the passwords
			for k := range h.d.status {
				if h.d.status[k] == c07SUp {
					h.setServer(k, 1+rng.Intn(3))
				}
			}
			if shape != 0 && rng.Intn(2) == 0 {
				h.setMode(c15RandomMode(rng, true))
			}
			for u := 1; u <= 2; u++ {
				h.login(u, h.dirPw[u])
				if len(h.oldPw[u]) > 0 {
					h.login(u, h.oldPw[u][len(h.oldPw[u])-1])
				}
			}
			h.login(1+rng.Intn(2), 1+rng.Intn(5))
			if shape == 1 || shape == 2 {
				// the outage goes on: the clock passes the expiry of a hash the directory confirmed, which may
				// have been used meanwhile (61 s before and after the ORIGINAL expiry)
				u := 1 + rng.Intn(2)
				if t0, ok := h.confirmedAt[fmt.Sprintf("%d|%d", u, h.dirPw[u])]; ok {
					if left := t0 + 96*3600 - h.modelNow(); left > 200 {
						h.age(left - 61)
						h.login(u, h.dirPw[u])
						h.age(122)
						h.login(u, h.dirPw[u])
					}
				}
			}
		})
	}
	res.Extra["histories"] = len(cases)
	res.Extra["voided_histories"] = voided
	if voided*10 > nHist {
		t.Fatalf("%d of %d histories void: the in-process directory does not answer binds in time", voided, nHist)
	}

	// ---------------- the other backends: htpassword file and external command
	var bcases []string
	script := filepath.Join(e.env.dir, "verif_auth_cmd.sh")
	ioutil.WriteFile(script, []byte("#!/bin/sh\nIFS= read -r pw\ncase \"$1:$pw\" in\n  alice:alicepw|bob:bobpw|admin:adminpw) exit 0;;\nesac\nexit 1\n"), 0755)
	cmdChecker, err := command.New(script, nil, st.logger)
	if err != nil {
		t.Fatal(err)
	}
	defer os.Remove(script)
	st.Config.Ldap.LDAPTargetURLs = ""
	names := []string{"alice", "Alice", "ALICE", "aLiCe", "bob", "BOB", "admin", "nosuch", "alice ", "älice"}
	pws := []string{"alicepw", "bobpw", "adminpw", "wrong", "ALICEPW"}
	for bi, backend := range []string{"htpassword", "command"} {
		if bi == 0 {
			st.passwordChecker = htChecker
		} else {
			st.passwordChecker = cmdChecker
		}
		for _, name := range names {
			for pi, pw := range pws {
				rr, _ := e.env.serve(verifNewRequest("POST", proto.LoginPath, url.Values{"username": {name}, "password": {pw}}))
				verdict := rr.Code == 200
				want := false
				for _, u := range verifUsers {
					if u.name == strings.ToLower(name) && u.password == pw && u.name != "svc-automation" {
						want = true
					}
				}
				if verdict != want {
					res.hit(verifHit{Key: "C07:backend:" + backend, Oracle: "a password is accepted only if the configured backend accepts it for the normalised user",
						What: fmt.Sprintf("%s backend: login %q / %q answered %d, the backend's verdict on the normalised name is %v", backend, name, pw, rr.Code, want),
						Case: map[string]interface{}{"backend": backend, "user": name, "password": pw}})
				}
				bcases = append(bcases, fmt.Sprintf("(%s, %d%%N, %s)", coqPacked([]byte(name)), pi, coqBool(verdict)))
				res.eval("backend|"+backend+"|"+name+"|"+pw, true)
				res.bump("backend:" + backend)
			}
		}
	}
	st.passwordChecker = htChecker
	// ---------------- the same backends over time: the file is edited between logins (c07b.go)
	fcases, fidx := c07BackendHistories(t, e, res, rng)
	// ---------------- logins that overlap in time against a slow, scripted, counting backend (c07conc.go; its own case file CasesC07c.v)
	c07ConcurrentLogins(t, e, res, rng)

	var sb strings.Builder
	sb.WriteString(coqCaseHeader)
	sb.WriteString("From KM Require Import Base.Cases Model.Storage Model.PwCache.\n")
	sb.WriteString("Definition cases : list pw_case := [\n" + strings.Join(cases, ";\n") + "\n].\n")
	sb.WriteString("Definition c07_ncases := Eval vm_compute in length cases.\nPrint c07_ncases.\n")
	sb.WriteString("Definition c07_mismatches := Eval vm_compute in mismatches (fun c => negb (pw_case_ok c)) cases.\nPrint c07_mismatches.\n")
	// the property's predicates on the OBSERVATION of the mismatching cases (a failing input when they hold)
	sb.WriteString("Definition c07_renewed_violating := Eval vm_compute in filter (fun i => match nth_error cases i with Some c => outage_login_renewed c | None => false end) c07_mismatches.\nPrint c07_renewed_violating.\n")
	sb.WriteString("Definition rec_tables : list (list jws) := [\n" + strings.Join(recTables, ";\n") + "\n].\n")
	sb.WriteString("Definition c07_norefresh_violating := Eval vm_compute in filter (fun i => match nth_error cases i, nth_error rec_tables i with Some c, Some tb => accepted_login_not_refreshed tb c | _, _ => false end) c07_mismatches.\nPrint c07_norefresh_violating.\n")
	sb.WriteString("Definition c07_stale_violating := Eval vm_compute in filter (fun i => match nth_error cases i, nth_error rec_tables i with Some c, Some tb => stale_cache_decided tb c | _, _ => false end) c07_mismatches.\nPrint c07_stale_violating.\n")
	// the backend table: (lower-case name, index of its password in the list above)
	sb.WriteString("Definition btable : list (bs * N) := [(" + coqPacked([]byte("alice")) + ", 0%N); (" + coqPacked([]byte("bob")) + ", 1%N); (" + coqPacked([]byte("admin")) + ", 2%N)].\n")
	sb.WriteString("Definition bfile (u : bs) (p : bs) : bool := existsb (fun e => bs_eqb (fst e) u && bs_eqb [snd e] p) btable.\n")
	sb.WriteString("Definition bcases : list (bs * N * bool) := [\n" + strings.Join(bcases, ";\n") + "\n].\n")
	sb.WriteString("Definition c07_backend_mismatches := Eval vm_compute in mismatches (fun c => let '(u, p, v) := c in negb (Bool.eqb (backend_login bfile u [p]) v)) bcases.\nPrint c07_backend_mismatches.\n")
	// the backends over time: per-login verdicts of the real code = the model's run of the same history;
	// on a mismatching history, the property's predicate on the observation (a login answered otherwise
	// than the content of the file at that moment says), by direction
	sb.WriteString("From KM Require Import Model.PwBackend.\n")
	sb.WriteString("Definition fcases : list bcase := [\n" + strings.Join(fcases, ";\n") + "\n].\n")
	sb.WriteString("Definition c07_backend_fresh_ncases := Eval vm_compute in length fcases.\nPrint c07_backend_fresh_ncases.\n")
	sb.WriteString("Definition c07_backend_fresh_mismatches := Eval vm_compute in mismatches (fun c => negb (bcase_ok c)) fcases.\nPrint c07_backend_fresh_mismatches.\n")
	sb.WriteString("Definition c07_backend_accepts_violating := Eval vm_compute in filter (fun i => match nth_error fcases i with Some c => bcase_violates true c | None => false end) c07_backend_fresh_mismatches.\nPrint c07_backend_accepts_violating.\n")
	sb.WriteString("Definition c07_backend_refuses_violating := Eval vm_compute in filter (fun i => match nth_error fcases i with Some c => bcase_violates false c | None => false end) c07_backend_fresh_mismatches.\nPrint c07_backend_refuses_violating.\n")
	ioutil.WriteFile(filepath.Join(verifOut(), "CasesC07b.idx"), []byte(strings.Join(fidx, "\n")+"\n"), 0644)
	if err := ioutil.WriteFile(filepath.Join(verifOut(), "CasesC07.v"), []byte(sb.String()), 0644); err != nil {
		t.Fatal(err)
	}
	ioutil.WriteFile(filepath.Join(verifOut(), "CasesC07.idx"), []byte(strings.Join(idx, "\n")+"\n"), 0644)
	res.write(t, "TestVerif_C07")
}

var _ = bytes.Equal
