package main

// C11 — SEQUENCES of requests on ONE server state, with the connection state of each request:
// full and RESUMED TLS handshakes (tls.ConnectionState.DidResume), connections with and without a
// verified chain.  The verdict on an IP-restricted certificate is a function of (the certificate's
// extension, the TCP peer of THIS connection); it takes neither the resumption flag nor anything the
// server remembers from earlier requests (Model/IPExtConn.v auth_ip, Props/C11.v c11_iff_conn,
// c11_resumed_history_independent, c11_sequence_sound).  Every request of every sequence is compared
// with the model (c11_resume_mismatches) and judged by a Go oracle.

import (
	"crypto/tls"
	"crypto/x509"
	"fmt"
	"io/ioutil"
	"net"
	"net/http"
	"net/http/httptest"
	"net/url"
	"strings"
	"time"
)

type c11Step struct {
	inside     bool
	resumed    bool
	unverified bool // the certificate only in PeerCertificates, VerifiedChains empty
}

func (s c11Step) name() string {
	n := "outside"
	if s.inside {
		n = "inside"
	}
	if s.resumed {
		n += "-resumed"
	} else {
		n += "-full"
	}
	if s.unverified {
		n += "-unverified"
	}
	return n
}

func c11ShapeName(steps []c11Step) string {
	var s []string
	for _, st := range steps {
		s = append(s, st.name())
	}
	return strings.Join(s, ",")
}

func c11Shapes() [][]c11Step {
	in := func(r bool) c11Step { return c11Step{inside: true, resumed: r} }
	out := func(r bool) c11Step { return c11Step{inside: false, resumed: r} }
	var shapes [][]c11Step
	for _, a := range []bool{false, true} {
		for _, b := range []bool{false, true} {
			shapes = append(shapes, []c11Step{in(a), out(b)})
		}
	}
	for _, a := range []bool{false, true} {
		for _, b := range []bool{false, true} {
			shapes = append(shapes, []c11Step{out(a), in(b)})
		}
	}
	shapes = append(shapes,
		[]c11Step{in(false), in(true), out(true)},
		[]c11Step{in(true), in(true), out(false)},
		[]c11Step{in(false), out(false), out(true)},
		[]c11Step{in(false), out(true), out(true), in(true), out(false)},
		[]c11Step{out(true)},
		[]c11Step{in(true)},
		[]c11Step{in(false), {inside: false, resumed: true, unverified: true}},
		[]c11Step{in(false), {inside: true, resumed: true, unverified: true}, out(true)},
	)
	return shapes
}

func c11ConnState(cert, roleCA *x509.Certificate, st c11Step) *tls.ConnectionState {
	cs := &tls.ConnectionState{HandshakeComplete: true, DidResume: st.resumed, Version: tls.VersionTLS13,
		PeerCertificates: []*x509.Certificate{cert}}
	if !st.unverified {
		cs.VerifiedChains = [][]*x509.Certificate{{cert, roleCA}}
	}
	return cs
}

type c11Route struct {
	name  string
	build func(identity string) *http.Request
}

func c11ResumeStage(env *verifEnv, res *verifResult, keys *verifKeys, roleCA *x509.Certificate, mint func([]c11Block) *x509.Certificate) (cases, idx []string) {
	routes := []c11Route{
		{"refresh", func(string) *http.Request {
			return verifNewRequest("POST", refreshRoleRequestingCertPath, url.Values{"pubkey": {keys.derPubRU}})
		}},
		{"certgen", func(identity string) *http.Request {
			return verifCertgenRequest("POST", identity, "x509", keys.pemPub, nil, nil)
		}},
	}
	certBlocks := [][]c11Block{
		{{ip: [4]byte{10, 0, 0, 0}, p: 24}},
		{{ip: [4]byte{127, 0, 16, 0}, p: 20}}, // ends inside an octet
		{{ip: [4]byte{10, 9, 8, 7}, p: 32}},   // one host
		{{ip: [4]byte{10, 1, 4, 0}, p: 22}, {ip: [4]byte{192, 168, 1, 0}, p: 25}, {ip: [4]byte{172, 16, 0, 0}, p: 12}},
		{{ip: [4]byte{0, 0, 0, 0}, p: 0}}, // every IPv4 peer is inside; IPv6 peers are not
		{{ip: [4]byte{172, 16, 0, 0}, p: 12}},
		{{ip: [4]byte{128, 0, 0, 0}, p: 1}},
		{{ip: [4]byte{192, 168, 255, 254}, p: 31}, {ip: [4]byte{10, 0, 0, 0}, p: 8}},
	}
	if !verifThorough() {
		certBlocks = certBlocks[:5]
	}
	shapes := c11Shapes()
	for ci, raw := range certBlocks {
		var insidePeers, outsidePeers []c11Peer
		seen := map[string]bool{}
		add := func(p c11Peer) {
			if seen[p.addr] {
				return
			}
			seen[p.addr] = true
			if c11InsideAny(raw, p) {
				insidePeers = append(insidePeers, p)
			} else {
				outsidePeers = append(outsidePeers, p)
			}
		}
		for _, b := range raw {
			for _, p := range c11Peers(b, 0x9e3779b9+uint32(ci)) {
				add(p)
			}
		}
		for _, q := range []c11Peer{c11PeerV4([4]byte{203, 0, 113, 9}), c11PeerV4([4]byte{127, 0, 40, 7}), c11PeerMapped([4]byte{198, 51, 100, 77})} {
			add(q)
		}
		if len(insidePeers) == 0 || len(outsidePeers) == 0 {
			res.hit(verifHit{Key: "C11:harness:resume-peers", Oracle: "harness", What: "no inside or no outside peer", Case: fmt.Sprint(raw)})
			continue
		}
		var shared *x509.Certificate
		for oi, outside := range outsidePeers {
			for si, shape := range shapes {
				if !verifThorough() && (si+oi)%2 == 1 && len(shape) != 2 {
					continue // quick: the longer shapes with every other outside peer
				}
				routeSel := []c11Route{routes[(si+oi+ci)%2]}
				if verifThorough() {
					routeSel = routes
				}
				for _, route := range routeSel {
					// a fresh certificate per sequence (the shape of the failing sequence is then exact), and every third
					// sequence one certificate shared by all of them (its history holds every earlier use)
					var cert *x509.Certificate
					earlier := "" // the certificate has been used before this sequence
					if (si+oi)%3 == 2 && shared != nil {
						cert = shared
						earlier = "earlier-uses,"
					} else {
						cert = mint(raw)
						if cert == nil {
							res.hit(verifHit{Key: "C11:harness:mint", Oracle: "harness", What: "minting failed", Case: fmt.Sprint(raw)})
							continue
						}
						if shared == nil {
							shared = cert
						}
					}
					identity := cert.Subject.CommonName
					inside := insidePeers[(si+oi)%len(insidePeers)]
					var steps, notes []string
					anyResumed := false
					for ti, st := range shape {
						peer := outside
						if st.inside {
							peer = inside
						}
						req := route.build(identity)
						req.TLS = c11ConnState(cert, roleCA, st)
						req.RemoteAddr = peer.addr
						rr, pan := env.serve(req) // immediately after the previous step
						admitted := rr.Code == 200
						anyResumed = anyResumed || st.resumed
						prefix := earlier + c11ShapeName(shape[:ti+1])
						should := st.inside && !st.unverified
						res.eval(fmt.Sprintf("seq|%s|%v|%s|%s|%v", route.name, raw, prefix, peer.addr, admitted), should || st.resumed)
						res.bump("sequence-step")
						if st.resumed {
							res.bump("sequence-step-resumed")
						}
						cs := map[string]interface{}{"route": route.name, "blocks": fmt.Sprint(raw), "identity": identity, "sequence": earlier + c11ShapeName(shape), "failing_step": ti,
							"inside_peer": inside.addr, "outside_peer": outside.addr, "peer": peer.addr, "did_resume": st.resumed, "verified_chain": !st.unverified, "status": rr.Code}
						kind := "sequence"
						if anyResumed {
							kind = "resumed"
						}
						if pan {
							res.hit(verifHit{Key: "C11:panic:sequence:" + route.name, Oracle: "panic", What: "handler panicked in sequence " + prefix, Case: cs})
						}
						if admitted && !should {
							res.hit(verifHit{Key: "C11:" + kind + "-accept-outside:" + prefix, Oracle: "in a sequence of requests on one server an IP-restricted certificate is admitted from a peer outside its netblocks (or without a verified chain)",
								What: fmt.Sprintf("certificate for %v on %s: sequence %s, step %d from %s (DidResume=%v) answered %d", raw, route.name, prefix, ti, peer.addr, st.resumed, rr.Code), Case: cs, Observed: rr.Code})
						}
						if !admitted && should {
							res.hit(verifHit{Key: "C11:" + kind + "-refuse-inside:" + prefix, Oracle: "in a sequence of requests on one server an IP-restricted certificate is refused from a peer inside its netblocks",
								What: fmt.Sprintf("certificate for %v on %s: sequence %s, step %d from %s (DidResume=%v) answered %d", raw, route.name, prefix, ti, peer.addr, st.resumed, rr.Code), Case: cs, Observed: rr.Code})
						}
						steps = append(steps, fmt.Sprintf("(%s, %s, %s, %s, %s)", c11CoqBlocks(raw), coqBool(!st.unverified), coqBool(st.resumed), peer.coq(), coqBool(admitted)))
						notes = append(notes, fmt.Sprintf("%s peer=%s status=%d", st.name(), peer.addr, rr.Code))
					}
					cases = append(cases, "["+strings.Join(steps, "; ")+"]")
					idx = append(idx, fmt.Sprintf("shape=%s route=%s blocks=%v steps=[%s]", earlier+c11ShapeName(shape), route.name, raw, strings.Join(notes, " | ")))
				}
			}
		}
	}
	return cases, idx
}

// thorough tier: a real crypto/tls server in front of the real handlers, a real client with a session
// cache; the first connection comes from a socket bound inside the block (full handshake), the second
// one RESUMES the session from a socket bound outside it (any 127/8 address is local).
func c11RealTLSResume(env *verifEnv, res *verifResult, keys *verifKeys, mint func([]c11Block) *x509.Certificate) {
	st := env.state
	srv := httptest.NewUnstartedServer(env.handler)
	srv.TLS = &tls.Config{ClientCAs: st.ClientCAPool, ClientAuth: tls.VerifyClientCertIfGiven, MinVersion: tls.VersionTLS12}
	srv.StartTLS()
	defer srv.Close()
	type conn struct {
		from   string
		inside bool
	}
	type tc struct {
		block c11Block
		seq   []conn
		maxV  uint16
	}
	part := c11Block{ip: [4]byte{127, 0, 16, 0}, p: 20}
	host := c11Block{ip: [4]byte{127, 0, 17, 5}, p: 32}
	var tcs []tc
	for _, maxV := range []uint16{tls.VersionTLS13, tls.VersionTLS12} {
		tcs = append(tcs,
			tc{part, []conn{{"127.0.17.5", true}, {"127.0.40.7", false}}, maxV},
			tc{part, []conn{{"127.0.31.255", true}, {"127.0.32.0", false}, {"127.0.15.255", false}, {"127.0.16.0", true}}, maxV},
			tc{part, []conn{{"127.0.40.7", false}, {"127.0.17.5", true}, {"127.0.0.1", false}}, maxV},
			tc{host, []conn{{"127.0.17.5", true}, {"127.0.17.4", false}, {"127.0.17.6", false}}, maxV})
	}
	for _, c := range tcs {
		cert := mint([]c11Block{c.block})
		if cert == nil {
			continue
		}
		cache := tls.NewLRUClientSessionCache(8)
		var names []string
		anyResumed := false
		for _, cn := range c.seq {
			dialer := &net.Dialer{Timeout: 5 * time.Second, LocalAddr: &net.TCPAddr{IP: net.ParseIP(cn.from)}}
			didResume := false
			cfg := &tls.Config{InsecureSkipVerify: true, ClientSessionCache: cache, MaxVersion: c.maxV, ServerName: "keymaster.example",
				Certificates:     []tls.Certificate{{Certificate: [][]byte{cert.Raw}, PrivateKey: keys.ec}},
				VerifyConnection: func(s tls.ConnectionState) error { didResume = s.DidResume; return nil }}
			client := &http.Client{Transport: &http.Transport{DialContext: dialer.DialContext, TLSClientConfig: cfg, DisableKeepAlives: true},
				CheckRedirect: func(*http.Request, []*http.Request) error { return http.ErrUseLastResponse }}
			req := verifNewRequest("POST", refreshRoleRequestingCertPath, url.Values{"pubkey": {keys.derPubRU}})
			u, _ := url.Parse(srv.URL + req.URL.RequestURI())
			req.URL = u
			req.RequestURI = ""
			req.Host = "keymaster.example"
			resp, err := client.Do(req)
			status := -1
			if err == nil {
				ioutil.ReadAll(resp.Body) // reading to the end lets the client store a TLS 1.3 session ticket
				resp.Body.Close()
				status = resp.StatusCode
			}
			client.CloseIdleConnections()
			n := "outside"
			if cn.inside {
				n = "inside"
			}
			if didResume {
				n += "-resumed"
				anyResumed = true
				res.bump("real-tls-resumed-handshake")
			} else {
				n += "-full"
			}
			names = append(names, n)
			prefix := strings.Join(names, ",")
			res.eval(fmt.Sprintf("real-tls-seq|%v|%s|%s|%d", c.block, prefix, cn.from, status), cn.inside || didResume)
			res.bump("real-tls-sequence-step")
			cs := map[string]interface{}{"block": c.block.cidr(), "sequence": prefix, "client_socket": cn.from, "did_resume": didResume, "tls_max_version": c.maxV, "status": status}
			kind := "sequence"
			if anyResumed {
				kind = "resumed"
			}
			if status == 200 && !cn.inside {
				res.hit(verifHit{Key: "C11:real-tls:" + kind + "-accept-outside:" + prefix, Oracle: "over real TLS connections an IP-restricted certificate is admitted from a socket address outside its netblock",
					What: fmt.Sprintf("certificate for %s: connections %s, the last one from %s (resumed=%v) answered 200", c.block.cidr(), prefix, cn.from, didResume), Case: cs})
			}
			if status != 200 && cn.inside {
				res.hit(verifHit{Key: "C11:real-tls:" + kind + "-refuse-inside:" + prefix, Oracle: "over real TLS connections an IP-restricted certificate is refused from a socket address inside its netblock",
					What: fmt.Sprintf("certificate for %s: connections %s, the last one from %s (resumed=%v) answered %d (%v)", c.block.cidr(), prefix, cn.from, didResume, status, err), Case: cs})
			}
		}
	}
	if res.counts["real-tls-resumed-handshake"] == 0 {
		res.hit(verifHit{Key: "C11:harness:real-tls-no-resumption", Oracle: "harness", What: "no real TLS connection resumed a session: the stage did not reach what it is about", Case: "real-tls"})
	}
}
