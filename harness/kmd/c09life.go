package main

// C09 — life cycles ACROSS RESTARTS on one data directory.  A daemon run ends, the operator possibly rotates the CA
// key files (a new key of the same kind, or of another kind) and possibly empties the data directory, and a new
// process starts from the same configuration file: a second RuntimeState through the production loader
// (loadVerifyConfigFile), unsealed through the real handler.  Model: Model/SealLife.v `life` — the state of the
// present run is a function of the key files decrypted NOW (c09_published_across_restarts, for every earlier history
// and every prior on-disk state).  After every run the three public endpoints are read and an X.509 certificate is
// requested: every key of /public/sshca has a CA certificate in /public/x509ca, and the issued certificate verifies
// under those.

import (
	"crypto"
	"crypto/ecdsa"
	"crypto/ed25519"
	"crypto/elliptic"
	"crypto/rand"
	"crypto/rsa"
	"crypto/x509"
	"encoding/pem"
	"fmt"
	"io/ioutil"
	"net/http"
	"net/url"
	"os"
	"path/filepath"
	"strings"
	"testing"
	"time"

	"github.com/Cloud-Foundations/golib/pkg/log/testlogger"
	"golang.org/x/crypto/ssh"
)

type c09Run struct {
	rotate string // "same-key" | "rotated-same-kind" | "rotated-other-kind"
	fresh  bool   // the data directory is emptied before this start
}

func (r c09Run) shape() string {
	d := "directory-kept"
	if r.fresh {
		d = "directory-fresh"
	}
	return r.rotate + "," + d
}

type c09Life struct {
	variant int // 0 rsa, 1 rsa+ed
	runs    []c09Run
}

func c09LifeCases() []c09Life {
	ls := []c09Life{
		{0, []c09Run{{"same-key", false}}},
		{0, []c09Run{{"rotated-same-kind", false}}},
		{0, []c09Run{{"rotated-same-kind", true}}},
		{0, []c09Run{{"rotated-other-kind", false}}},
		{1, []c09Run{{"rotated-same-kind", false}}},
		{1, []c09Run{{"same-key", true}, {"rotated-other-kind", false}, {"rotated-other-kind", false}, {"rotated-same-kind", false}}},
	}
	if verifThorough() {
		for _, v := range []int{0, 1} {
			for _, rot := range []string{"same-key", "rotated-same-kind", "rotated-other-kind"} {
				for _, fresh := range []bool{false, true} {
					ls = append(ls, c09Life{v, []c09Run{{rot, fresh}, {"rotated-same-kind", false}}})
					ls = append(ls, c09Life{v, []c09Run{{"rotated-same-kind", false}, {rot, fresh}}})
				}
			}
		}
	}
	return ls
}

func c09PKCS8(k interface{}) []byte {
	der, err := x509.MarshalPKCS8PrivateKey(k)
	if err != nil {
		panic(err)
	}
	return pem.EncodeToMemory(&pem.Block{Type: "PRIVATE KEY", Bytes: der})
}

func c09PubFingerprint(pub crypto.PublicKey) string {
	sp, err := ssh.NewPublicKey(pub)
	if err != nil {
		return fmt.Sprintf("?%T", pub)
	}
	return ssh.FingerprintSHA256(sp)
}

// the daemon process ends; a new one starts from the same configuration file
func (env *verifEnv) c09Restart(t *testing.T) {
	old := env.state
	select {
	case old.dbDone <- struct{}{}:
	case <-time.After(90 * time.Second):
		t.Fatal("restart: background copier did not stop")
	}
	if old.db != nil {
		old.db.Close()
	}
	if old.cacheDB != nil {
		old.cacheDB.Close()
	}
}

func c09Lives(t *testing.T, res *verifResult) (string, string) {
	var sb, idx strings.Builder
	alpha := c09Alphabet()
	sb.WriteString("Definition life_pass : bs := " + coqPacked([]byte(verifPassphrase)) + ".\n")
	sb.WriteString("Definition life_cfg (m : N) (e : option N) : cfg := {| right_pass := life_pass; main_key := m; main_res := FGood; role_ok := true;\n  ed_file := match e with Some k => Some (life_pass, k, FGood) | None => None end; extra_pubkeys := [] |}.\n")
	sb.WriteString("Definition life_run (m : N) (e : option N) (fresh : bool) : cycle := {| cy_cfg := life_cfg m e; cy_fresh := fresh; cy_ops := [" + alpha[0].coq() + "] |}.\n")
	sb.WriteString("(* life cycles: (the runs before, the present run, observed after its injection (signer set, names of the keys of /public/sshca, names of the keys of the certificates of /public/x509ca, an X.509 certificate was issued and verifies under them)) *)\n")
	sb.WriteString("Definition life_cases : list (list cycle * cycle * (bool * list N * list N * bool)) := [\n")
	n := 0
	keys := verifNewKeys()
	for li, lc := range c09LifeCases() {
		v := c09Variants[lc.variant]
		env := c09Sealed(t, v, c09Edit)
		names := map[string]int{}
		mainKind := "rsa"
		var cycles []string
		var shapes []string
		var prevCookie *http.Cookie
		observe := func(ri int, shape string, fresh bool) {
			total := 0
			ob := env.c09Inject(alpha[0], &total)
			st := env.state
			mainName, edName := 10*ri+1, 0
			if ob.code == 200 && st.Signer != nil {
				names[c09PubFingerprint(st.Signer.Public())] = mainName
				if st.Ed25519Signer != nil {
					edName = 10*ri + 2
					names[c09PubFingerprint(st.Ed25519Signer.Public())] = edName
				}
			}
			env.finishStartup()
			env.handler = env.buildHandler()
			edCoq := "None"
			if v.edPass != "" {
				edCoq = fmt.Sprintf("(Some %d)", 10*ri+2)
			}
			cyc := fmt.Sprintf("life_run %d %s %s", mainName, edCoq, coqBool(fresh))
			cs := map[string]interface{}{"life": li, "key_files": v.shape(), "runs": strings.Join(append(append([]string{}, shapes...), shape), " ; "), "present_run": shape}
			var sshNames, caNames []string
			issued := false
			signerSet := !ob.sealed
			if pub, ok := env.c09Published(t); ok {
				caSet := map[string]bool{}
				for _, ca := range pub.cas {
					fp := c09PubFingerprint(ca.PublicKey)
					caSet[fp] = true
					caNames = append(caNames, fmt.Sprint(names[fp]))
				}
				for _, k := range pub.sshKeys {
					fp := "?"
					if pk, err := ssh.ParsePublicKey(k); err == nil {
						fp = ssh.FingerprintSHA256(pk)
					}
					sshNames = append(sshNames, fmt.Sprint(names[fp]))
					if signerSet && !caSet[fp] {
						res.hit(verifHit{Key: "C09:published-ca-not-for-signing-key:" + shape, Oracle: "after unsealing, every key the server publishes as its SSH CA / signs with has a CA certificate in /public/x509ca made for THAT key: the published CA material is a function of the keys decrypted now, whatever earlier runs left in the data directory",
							What: fmt.Sprintf("run %d of the life [%s] (key files {%s}): /public/sshca lists key %s (the model's name %d), /public/x509ca carries certificates for keys %v only", ri, strings.Join(append(append([]string{}, shapes...), shape), " ; "), v.shape(), fp, names[fp], caNames),
							Case: cs, Observed: map[string]interface{}{"sshca": sshNames, "x509ca": caNames}})
					}
				}
				// an X.509 certificate for a user, verified under what is published
				r := verifCertgenRequest("POST", "alice", "x509", keys.pemPub, nil, nil)
				r.AddCookie(env.cookie("alice", AuthTypePassword|AuthTypeU2F))
				rr, _ := env.serve(r)
				why := fmt.Sprintf("status %d", rr.Code)
				if rr.Code == 200 {
					if blk, _ := pem.Decode(rr.Body.Bytes()); blk != nil {
						if c, err := x509.ParseCertificate(blk.Bytes); err == nil {
							roots := x509.NewCertPool()
							for _, ca := range pub.cas {
								roots.AddCert(ca)
							}
							if _, err := c.Verify(x509.VerifyOptions{Roots: roots, KeyUsages: []x509.ExtKeyUsage{x509.ExtKeyUsageClientAuth}}); err == nil {
								issued = true
							} else {
								why = "issued, but " + err.Error()
							}
						} else {
							why = "undecodable certificate: " + err.Error()
						}
					} else {
						why = "no PEM in the answer"
					}
				}
				if signerSet && !issued {
					res.hit(verifHit{Key: "C09:published-ca-not-for-signing-key:" + shape, Oracle: "after unsealing, an X.509 certificate a user asks for is issued and verifies under the certificates of /public/x509ca",
						What: fmt.Sprintf("run %d of the life [%s] (key files {%s}): POST /certgen/alice type=x509 with a valid session: %s; /public/x509ca carries certificates for keys %v, the signer is key %d", ri, strings.Join(append(append([]string{}, shapes...), shape), " ; "), v.shape(), why, caNames, mainName),
						Case: cs, Observed: map[string]interface{}{"sshca": sshNames, "x509ca": caNames, "certgen": why}})
				}
				// whatever else the run signs verifies against what it publishes: an SSH certificate, a login cookie
				if signerSet {
					for _, pr := range []struct {
						name string
						req  *http.Request
					}{
						{"certgen-ssh", func() *http.Request {
							r := verifCertgenRequest("POST", "alice", "ssh", keys.sshPub, nil, nil)
							r.AddCookie(env.cookie("alice", AuthTypePassword|AuthTypeU2F))
							return r
						}()},
						{"login-password", func() *http.Request {
							f := url.Values{}
							f.Set("username", "alice")
							f.Set("password", "alicepw")
							return verifNewRequest("POST", "/api/v0/login", f)
						}()},
					} {
						prr, _ := env.serve(pr.req)
						arts := c09Artefacts(prr, nil)
						if len(arts) == 0 {
							res.hit(verifHit{Key: "C09:nothing-signed-after-restart:" + pr.name, Oracle: "an unsealed server issues what it is asked for", What: fmt.Sprintf("%s after run %s answered %d without a signed artefact", pr.name, shape, prr.Code), Case: cs})
						}
						for _, a := range arts {
							if pub.identify(a) == 0 {
								res.hit(verifHit{Key: fmt.Sprintf("C09:signed-by-unpublished-key:kind%d:restart", a.kind), Oracle: "after unsealing the published CA / ssh / JWKS keys include the key that signs",
									What: fmt.Sprintf("%s after run %d of the life [%s]: artefact of kind %d does not verify against any published key", pr.name, ri, strings.Join(append(append([]string{}, shapes...), shape), " ; "), a.kind), Case: cs, Observed: a.raw})
							}
							res.bump(fmt.Sprintf("life_artefact_kind%d", a.kind))
						}
					}
				}
			} else if signerSet {
				res.hit(verifHit{Key: "C09:published-unavailable", Oracle: "after unsealing /public/x509ca, /public/sshca and the JWKS are served", What: "one of the three endpoints failed after run " + shape, Case: cs})
			}
			sep := ";"
			if n == 0 {
				sep = " "
			}
			sb.WriteString(fmt.Sprintf(" %s([%s], %s, (%s, [%s], [%s], %s))\n", sep, strings.Join(cycles, "; "), cyc, coqBool(signerSet), strings.Join(sshNames, "; "), strings.Join(caNames, "; "), coqBool(issued)))
			idx.WriteString(fmt.Sprintf("life %d\tkey_files={%s} runs=[%s] observed after the present run's injection: status=%d signer_set=%v sshca=%v x509ca=%v x509-issued-and-verifies=%v (names: run*10+1 main key, run*10+2 Ed25519 key, 0 unknown)\n",
				n, v.shape(), strings.Join(append(append([]string{}, shapes...), shape), " ; "), ob.code, signerSet, sshNames, caNames, issued))
			n++
			res.eval(fmt.Sprintf("life|%s|%s|%v", v.name, shape, issued), ri > 0)
			res.bump("life_run:" + shape)
			cycles = append(cycles, cyc)
			shapes = append(shapes, shape)
			if signerSet {
				prevCookie = env.cookie("alice", AuthTypePassword|AuthTypeU2F)
			}
		}
		observe(0, "first-run", false)
		for ri, run := range lc.runs {
			env.c09Restart(t)
			cfg := env.state.Config.Base
			switch run.rotate {
			case "rotated-same-kind", "rotated-other-kind":
				if run.rotate == "rotated-other-kind" {
					if mainKind == "rsa" {
						mainKind = "ecdsa"
					} else {
						mainKind = "rsa"
					}
				}
				var plain []byte
				if mainKind == "rsa" {
					k, err := rsa.GenerateKey(rand.Reader, 2048)
					if err != nil {
						t.Fatal(err)
					}
					plain = pem.EncodeToMemory(&pem.Block{Type: "RSA PRIVATE KEY", Bytes: x509.MarshalPKCS1PrivateKey(k)})
				} else {
					k, err := ecdsa.GenerateKey(elliptic.P256(), rand.Reader)
					if err != nil {
						t.Fatal(err)
					}
					plain = c09PKCS8(k)
				}
				if err := ioutil.WriteFile(cfg.SSHCAFilename, c09Armor(plain, verifPassphrase), 0600); err != nil {
					t.Fatal(err)
				}
				if cfg.Ed25519CAFilename != "" {
					_, priv, _ := ed25519.GenerateKey(rand.Reader)
					if err := ioutil.WriteFile(cfg.Ed25519CAFilename, c09Armor(c09PKCS8(priv), verifPassphrase), 0600); err != nil {
						t.Fatal(err)
					}
				}
			}
			if run.fresh && cfg.DataDirectory != "" {
				if ents, err := ioutil.ReadDir(cfg.DataDirectory); err == nil {
					for _, e := range ents {
						os.RemoveAll(filepath.Join(cfg.DataDirectory, e.Name()))
					}
				}
			}
			st, err := loadVerifyConfigFile(env.configFile, testlogger.New(t))
			if err != nil {
				t.Fatalf("restart: loadVerifyConfigFile: %v", err)
			}
			t.Cleanup(func() {
				defer func() { recover() }()
				close(st.dbDone)
			})
			env.state = st
			env.handler = nil
			if st.Signer != nil {
				res.hit(verifHit{Key: "C09:not-sealed-at-start:restart", Oracle: "a daemon whose key file is passphrase-protected starts sealed", What: "state after the restart is already unsealed", Case: run.shape()})
			}
			// the new process is sealed, whatever the previous run left behind: the previous run's session, a fresh
			// login and the readiness probe get errors and nothing signed
			env.handler = env.buildHandler()
			for _, pr := range []struct {
				name string
				req  *http.Request
			}{
				{"certgen-ssh", func() *http.Request {
					r := verifCertgenRequest("POST", "alice", "ssh", keys.sshPub, nil, nil)
					if prevCookie != nil {
						r.AddCookie(prevCookie)
					}
					return r
				}()},
				{"certgen-x509", func() *http.Request {
					r := verifCertgenRequest("POST", "alice", "x509", keys.pemPub, nil, nil)
					if prevCookie != nil {
						r.AddCookie(prevCookie)
					}
					return r
				}()},
				{"login-password", func() *http.Request {
					f := url.Values{}
					f.Set("username", "alice")
					f.Set("password", "alicepw")
					return verifNewRequest("POST", "/api/v0/login", f)
				}()},
			} {
				var sent []string
				if prevCookie != nil {
					sent = []string{prevCookie.Value}
				}
				prr, ppan := env.serve(pr.req)
				arts := c09Artefacts(prr, sent)
				cs := map[string]interface{}{"life": li, "key_files": v.shape(), "present_run": run.shape(), "probe": pr.name}
				if len(arts) > 0 {
					res.hit(verifHit{Key: fmt.Sprintf("C09:sealed-emits:kind%d:restart", arts[0].kind), Oracle: "while sealed no certificate, cookie or token leaves any endpoint - also in a process restarted on a used data directory",
						What: fmt.Sprintf("%s on the sealed server restarted as {%s} answered %d with a signed artefact (kind %d)", pr.name, run.shape(), prr.Code, arts[0].kind), Case: cs, Observed: arts[0].raw})
				}
				if cls := c09Class(prr, ppan); cls == "2xx" || cls == "3xx" {
					res.hit(verifHit{Key: "C09:sealed-not-an-error:restart:" + pr.name, Oracle: "a request that is answered with something signed when unsealed is an error while sealed",
						What: fmt.Sprintf("%s on the sealed server restarted as {%s} answered %d", pr.name, run.shape(), prr.Code), Case: cs})
				}
				res.eval(fmt.Sprintf("life-sealed|%s|%s|%d", run.shape(), pr.name, prr.Code), true)
			}
			if rc := env.c09Readyz(); rc != 503 {
				res.hit(verifHit{Key: "C09:readyz", Oracle: "/readyz reports not ready while sealed", What: fmt.Sprintf("readyz=%d on the sealed server restarted as {%s}", rc, run.shape()), Case: run.shape()})
			}
			observe(ri+1, run.shape(), run.fresh)
		}
	}
	sb.WriteString("].\n")
	sb.WriteString("Definition c09_life_mismatches := Eval vm_compute in mismatches (fun c : list cycle * cycle * (bool * list N * list N * bool) =>\n  let '(before, last, ob) := c in negb (life_case_ok before last ob)) life_cases.\nPrint c09_life_mismatches.\n")
	sb.WriteString("Definition c09_life_violating := Eval vm_compute in mismatches (fun c : list cycle * cycle * (bool * list N * list N * bool) =>\n  let '(before, last, ob) := c in life_case_violates ob) life_cases.\nPrint c09_life_violating.\n")
	res.Extra["life_runs"] = n
	return sb.String(), idx.String()
}
