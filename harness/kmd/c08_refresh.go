// C08 — the second endpoint that issues role-requesting certificates: POST /v1/refreshRoleRequestingCert
// (renewal by the holder of an IP-restricted certificate).  Cells through the real handler with an `identity`
// form value of every shape (absent, own, another configured automation identity by name / by group, an
// administrator's name, the automation administrator's name, unknown, empty), in the body and in the query
// string, for the certificates of several automation identities (own / other swap), from inside the
// certificate's netblock, and a few from outside / with a keymaster user certificate / a session / nothing.
// Observed per cell: response class, CN of the returned certificate, raw rows of all users before and after.
// Compared in Coq with Model.Authz.refresh_step; Go oracle: a certificate whose CN is B went to an actor that
// is neither B (renewal by the holder) nor an administrator nor an automation administrator.
package main

import (
	"fmt"
	"net/url"
	"strings"
)

type c08RefreshCell struct {
	actor     string // CN of the presented certificate / subject of the session
	credKind  string // ipcert | ipcert-outside | kmcert | session | none
	level     int
	post      bool
	shape     string // the form shape (last component of the oracle key)
	identity  string
	hasIdent  bool   // the form has an `identity` value at all
	where     string // body | query
	paramsOK  bool
	autoUsers []string // nil = the environment's list
	cfgIdx    int
}

func (c *c08RefreshCell) describe() string {
	s := fmt.Sprintf("op=RoleCertRefresh actor=%q cred=%s:%d post=%v form=%s", c.actor, c.credKind, c.level, c.post, c.shape)
	if c.hasIdent {
		s += fmt.Sprintf(" identity=%q in=%s", c.identity, c.where)
	}
	s += fmt.Sprintf(" params=%v", c.paramsOK)
	if c.autoUsers != nil {
		s += fmt.Sprintf(" automation_users=%q", c.autoUsers)
	}
	return s
}

// the credential as the model sees it: from outside its netblocks an IP-restricted certificate is no
// credential at all (that test is C11's subject)
func (c *c08RefreshCell) coqCred() string {
	switch c.credKind {
	case "ipcert":
		return fmt.Sprintf("(IPCert %s)", c08U(c.actor))
	case "kmcert":
		return fmt.Sprintf("(KMCert %s)", c08U(c.actor))
	case "session":
		return fmt.Sprintf("(Session %s %d)", c08U(c.actor), c.level)
	}
	return "NoCred"
}

func (r *c08Runner) runRefresh(c *c08RefreshCell) {
	const variant = c08VarTokens
	if r.dirty || r.curVar != variant {
		r.fix.reset(r.t, variant)
		r.curVar = variant
		r.dirty = false
	}
	before := c08Snapshot(r.t, r.env)
	body := url.Values{}
	if c.paramsOK {
		body.Set("pubkey", r.keys.derPubRU)
	} else {
		body.Set("pubkey", "AAAA") // base64url of three zero bytes: not a PKIX public key
	}
	target := refreshRoleRequestingCertPath
	if c.hasIdent {
		if c.where == "query" {
			target += "?" + url.Values{"identity": {c.identity}}.Encode()
		} else {
			body.Set("identity", c.identity)
		}
	}
	method := "POST"
	if !c.post {
		method = "GET"
	}
	req := verifNewRequest(method, target, body)
	switch c.credKind {
	case "ipcert":
		withTLS(req, r.chain("ipcert", c.actor), "10.1.2.3:34567")
	case "ipcert-outside":
		withTLS(req, r.chain("ipcert", c.actor), "192.168.7.9:34567")
	case "kmcert":
		withTLS(req, r.chain("kmcert", c.actor), "10.1.2.3:34567")
	case "session":
		req.AddCookie(r.cookie(c.actor, c.level))
	}
	cfgIdx := r.envIdx
	autoUsers := r.env.state.Config.Base.AutomationUsers
	if c.autoUsers != nil {
		saved := r.env.state.Config.Base.AutomationUsers
		r.env.state.Config.Base.AutomationUsers = c.autoUsers
		defer func() { r.env.state.Config.Base.AutomationUsers = saved }()
		cfgIdx, autoUsers = c.cfgIdx, c.autoUsers
	}
	rr, panicked := r.env.serve(req)
	after := c08Snapshot(r.t, r.env)
	changed := c08Changed(before, after)
	if len(changed) > 0 {
		r.dirty = true
	}
	class := c08RespClass(rr.Code)
	desc := c.describe()
	issued, haveCert := "", false
	if class == "ROk" {
		if crt := verifParseCertBody(rr.Body.Bytes()); crt != nil && crt.x509 != nil {
			issued, haveCert = crt.cn, true
		}
	}
	caseInfo := map[string]interface{}{"cell": desc, "env": cfgIdx, "status": rr.Code, "changed": changed, "panicked": panicked,
		"actor_cn": c.actor, "credential": c.credKind, "form_identity": c.identity, "form_has_identity": c.hasIdent, "form_in": c.where,
		"automation_users": autoUsers, "issued_cn": issued}
	// ---- the statement's own oracle
	roleTail := c08RoleClass(c.actor)
	if class == "ROk" {
		switch {
		case !haveCert:
			r.res.hit(verifHit{Key: "C08:rolecert-unparsable:RoleCertRefresh:" + roleTail, Oracle: "harness", What: "the refresh endpoint answered 2xx without a certificate: " + desc, Case: caseInfo})
		case issued != c.actor && !c08IsAdminTruth(c.actor) && !c08IsAutoAdminTruth(c.actor):
			r.res.hit(verifHit{Key: "C08:rolecert-minted-by-role-identity:" + c.shape,
				Oracle: "a role-requesting certificate for identity B was issued to an actor that is neither B itself (renewal by the holder) nor an administrator nor an automation administrator (admin_users / admin_groups / automation_admins in force)",
				What: fmt.Sprintf("%s (%s), authenticated by %s, sent the refresh form %s (identity=%q in the %s) and obtained a role-requesting certificate for CN=%q; automation_users=%q",
					c.actor, roleTail, c.credKind, c.shape, c.identity, c.where, issued, autoUsers),
				Case: caseInfo, Observed: issued})
		case issued != c.actor:
			r.res.hit(verifHit{Key: "C08:refresh-issued-other-identity:" + c.shape,
				Oracle: "the refresh endpoint (renewal by the holder) issued a certificate for another identity than the presented certificate's",
				What:   fmt.Sprintf("%s (%s) refreshed with form %s and obtained CN=%q", c.actor, roleTail, c.shape, issued), Case: caseInfo, Observed: issued})
		}
		if c.credKind != "ipcert" {
			r.res.hit(verifHit{Key: "C08:refresh-without-ip-certificate:" + c.credKind,
				Oracle: "the refresh endpoint issued a certificate to a request that presented no valid IP-restricted certificate from inside its netblocks",
				What:   fmt.Sprintf("%s: status %d, CN=%q", desc, rr.Code, issued), Case: caseInfo, Observed: issued})
		}
	}
	for _, v := range changed {
		r.res.hit(verifHit{Key: "C08:foreign-change:RoleCertRefresh:" + roleTail + ":" + c.credKind,
			Oracle: "a stored profile was changed by a certificate refresh request",
			What:   fmt.Sprintf("%s changed the stored profile of %q: status %d", desc, v, rr.Code), Case: caseInfo, Observed: changed})
	}
	// ---- counters
	r.res.eval(fmt.Sprintf("%d|%s|%s|%s|%v", cfgIdx, desc, class, issued, changed), c.credKind == "ipcert" && c.hasIdent && c.identity != c.actor)
	r.res.bump("op:RoleCertRefresh")
	r.res.bump("refresh-form:" + c.shape)
	r.res.bump("refresh-cred:" + c.credKind)
	r.res.bump("refresh-resp:" + class)
	if panicked {
		r.res.bump("handler-panic")
	}
	// ---- the cell for Coq
	var delta []string
	for _, v := range changed {
		if _, ok := c08UserID[v]; !ok {
			r.res.hit(verifHit{Key: "C08:harness:projection", Oracle: "harness", Kind: "harness", What: fmt.Sprintf("unexpected row for user %q", v), Case: caseInfo})
			continue
		}
		blob, present := after[v]
		if !present {
			delta = append(delta, fmt.Sprintf("(%s, None)", c08U(v)))
			continue
		}
		pp, err := c08ProjectProfile(blob)
		if err != nil {
			r.res.hit(verifHit{Key: "C08:harness:projection", Oracle: "harness", Kind: "harness", What: err.Error(), Case: caseInfo})
			continue
		}
		delta = append(delta, fmt.Sprintf("(%s, Some (%s))", c08U(v), pp))
	}
	obsIssued := "None"
	if haveCert {
		obsIssued = "(Some " + c08U(issued) + ")"
	}
	formID := ""
	if c.hasIdent {
		formID = c.identity
	}
	r.rcases = append(r.rcases, fmt.Sprintf("(%d%%nat, %d, %s, %v, %s, %v, %s, %s, [%s])", cfgIdx, variant, c.coqCred(), c.post, c08U(formID), c.paramsOK,
		class, obsIssued, strings.Join(delta, "; ")))
	r.ridx = append(r.ridx, fmt.Sprintf("env=%d %s -> %d %s issued=%q changed=%v", cfgIdx, desc, rr.Code, class, issued, changed))
}

type c08RefreshForm struct {
	shape, identity string
	has             bool
}

// the form shapes for an actor, given the automation identities configured by name
func c08RefreshForms(actor string, byName []string) []c08RefreshForm {
	fs := []c08RefreshForm{{"identity-absent", "", false}, {"identity-empty", "", true}, {"identity-own", actor, true}}
	for _, n := range byName {
		if n != actor {
			fs = append(fs, c08RefreshForm{"identity-other-configured", n, true})
		}
	}
	if actor != "svc-grp" {
		fs = append(fs, c08RefreshForm{"identity-other-group", "svc-grp", true})
	}
	if actor != "admin" {
		fs = append(fs, c08RefreshForm{"identity-admin", "admin", true})
	}
	if actor != "gadmin" {
		fs = append(fs, c08RefreshForm{"identity-admin-by-group", "gadmin", true})
	}
	if actor != "autoadm" {
		fs = append(fs, c08RefreshForm{"identity-automation-admin", "autoadm", true})
	}
	fs = append(fs, c08RefreshForm{"identity-unknown", "ghost", true})
	look := actor + "2" // a name that merely resembles the holder's
	configured := false
	for _, n := range byName {
		configured = configured || n == look
	}
	if !configured {
		fs = append(fs, c08RefreshForm{"identity-unconfigured-lookalike", look, true})
	}
	return fs
}

// the refresh cells of one environment
func (r *c08Runner) refresh(full bool) {
	lists := [][]string{nil}
	if full {
		// two identities configured by name (so that "own" and "other configured" swap between two certificates)
		lists = append(lists, []string{"svc-automation", "svc-automation2"}, []string{"svc-automation2", "svc-automation", "autoadm"})
	}
	for li, list := range lists {
		cfgIdx := r.envIdx
		byName := r.env.state.Config.Base.AutomationUsers
		if list != nil {
			cfgIdx = r.newCfg(list)
			byName = list
		}
		actors := []string{"svc-automation", "svc-automation2", "svc-grp", "alice", "admin", "autoadm"}
		if li == 2 {
			actors = []string{"svc-automation2", "autoadm", "svc-grp"}
		}
		for _, a := range actors {
			for _, f := range c08RefreshForms(a, byName) {
				for _, where := range []string{"body", "query"} {
					if !f.has && where == "query" {
						continue
					}
					r.runRefresh(&c08RefreshCell{actor: a, credKind: "ipcert", post: true, shape: f.shape, identity: f.identity, hasIdent: f.has, where: where,
						paramsOK: true, autoUsers: list, cfgIdx: cfgIdx})
				}
			}
		}
		if li > 1 {
			continue
		}
		// requests that must be refused whatever the form says
		for _, a := range []string{"svc-automation", "svc-grp", "admin", "autoadm"} {
			other := "svc-grp"
			if a == "svc-grp" {
				other = "svc-automation"
			}
			for _, f := range []c08RefreshForm{{"identity-absent", "", false}, {"identity-own", a, true}, {"identity-other-configured", other, true}} {
				if f.identity == "svc-grp" {
					f.shape = "identity-other-group"
				}
				for _, k := range []struct {
					kind  string
					level int
					post  bool
					ok    bool
				}{{"ipcert-outside", 0, true, true}, {"kmcert", 0, true, true}, {"session", AuthTypePassword | AuthTypeU2F, true, true},
					{"session", AuthTypeU2F, true, true}, {"none", 0, true, true}, {"ipcert", 0, false, true}, {"ipcert", 0, true, false}} {
					if (a == "admin" || a == "autoadm") && (k.kind == "ipcert" || k.kind == "ipcert-outside") {
						continue
					}
					r.runRefresh(&c08RefreshCell{actor: a, credKind: k.kind, level: k.level, post: k.post, shape: f.shape, identity: f.identity, hasIdent: f.has,
						where: "body", paramsOK: k.ok, autoUsers: list, cfgIdx: cfgIdx})
				}
			}
		}
	}
}
