package sshagent

// C19 (agent part): random sequences of foreign additions and client upserts on a real
// x/crypto keyring served over a pipe, through the client's real
// WithAddedKeyUpsertCertIntoAgentConnection; the listing after every operation is compared with
// Model/Client.v (upsert, agent_add) inside Coq and checked against the property directly.

import (
	"crypto"
	"crypto/ecdsa"
	"crypto/ed25519"
	"crypto/elliptic"
	"crypto/rand"
	"crypto/rsa"
	"crypto/sha256"
	"fmt"
	"io/ioutil"
	"net"
	"path/filepath"
	"sort"
	"strings"
	"testing"
	"time"

	"github.com/Cloud-Foundations/golib/pkg/log/testlogger"
	"golang.org/x/crypto/ssh"
	"golang.org/x/crypto/ssh/agent"
)

type c19aKey struct {
	kind   string
	signer crypto.Signer
	raw    interface{} // what agent.AddedKey wants
}

type c19aEntry struct {
	comment string
	blob    string // first 8 bytes of sha256 of the public blob
	cert    bool
}

func (e c19aEntry) coq() string {
	return fmt.Sprintf("mkEntry %s %s %s", coqPacked([]byte(e.comment)), coqPacked([]byte(e.blob)), coqBool(e.cert))
}

func c19aListing(t *testing.T, kr agent.Agent) []c19aEntry {
	keys, err := kr.List()
	if err != nil {
		t.Fatal(err)
	}
	var out []c19aEntry
	for _, k := range keys {
		h := sha256.Sum256(k.Blob)
		pk, err := ssh.ParsePublicKey(k.Blob)
		isCert := false
		if err == nil {
			_, isCert = pk.(*ssh.Certificate)
		}
		out = append(out, c19aEntry{k.Comment, string(h[:8]), isCert})
	}
	sort.Slice(out, func(i, j int) bool { return out[i].blob < out[j].blob })
	return out
}

func c19aCoqListing(l []c19aEntry) string {
	var parts []string
	for _, e := range l {
		parts = append(parts, "("+e.coq()+")")
	}
	return "[" + strings.Join(parts, "; ") + "]"
}

// an agent that refuses chosen calls: the List call, the k-th Remove call, the Add call (counted
// from the moment arm() is called).  A refused call has no effect on the keyring behind it.
type c19aFaulty struct {
	agent.Agent
	failList   bool
	failRemove int // index of the Remove call to refuse, -1: none
	failAdd    bool
	removes    int
	fired      string
	snapshot   []c19aEntry // the listing handed to the client, in the agent's order
}

var errC19aInjected = fmt.Errorf("verif: injected agent failure")

func (f *c19aFaulty) List() ([]*agent.Key, error) {
	if f.failList {
		f.fired = "list"
		return nil, errC19aInjected
	}
	keys, err := f.Agent.List()
	for _, k := range keys {
		h := sha256.Sum256(k.Blob)
		pk, perr := ssh.ParsePublicKey(k.Blob)
		isCert := false
		if perr == nil {
			_, isCert = pk.(*ssh.Certificate)
		}
		f.snapshot = append(f.snapshot, c19aEntry{k.Comment, string(h[:8]), isCert})
	}
	return keys, err
}

func (f *c19aFaulty) Remove(key ssh.PublicKey) error {
	k := f.removes
	f.removes++
	if k == f.failRemove {
		f.fired = "remove"
		return errC19aInjected
	}
	return f.Agent.Remove(key)
}

func (f *c19aFaulty) Add(key agent.AddedKey) error {
	if f.failAdd {
		f.fired = "add"
		return errC19aInjected
	}
	return f.Agent.Add(key)
}

func TestVerif_C19A(t *testing.T) {
	res := newVerifResult("agent histories: identities added by somebody else (plain keys and certificates of every key type, under the client's labels and others, re-adding an existing blob under a new label) interleaved with the client's upsert of RSA / P-256 / P-384 / Ed25519 certificates under 3 labels, on a real keyring over a pipe; listing after every operation vs the model; non-trivial = an upsert that found something under its label; distinct by (operation, key type, label, agent size)")
	rng := verifRand()
	logger := testlogger.New(t)
	caKey, _ := ecdsa.GenerateKey(elliptic.P256(), rand.Reader)
	caSigner, _ := ssh.NewSignerFromKey(caKey)
	var pool []c19aKey
	for i := 0; i < 2; i++ {
		k, err := rsa.GenerateKey(rand.Reader, 2048)
		if err != nil {
			t.Fatal(err)
		}
		pool = append(pool, c19aKey{"rsa", k, k})
	}
	for i := 0; i < 4; i++ {
		k, _ := ecdsa.GenerateKey(elliptic.P256(), rand.Reader)
		pool = append(pool, c19aKey{"p256", k, k})
		k3, _ := ecdsa.GenerateKey(elliptic.P384(), rand.Reader)
		pool = append(pool, c19aKey{"p384", k3, k3})
		_, ke, _ := ed25519.GenerateKey(rand.Reader)
		pool = append(pool, c19aKey{"ed25519", ke, ke})
	}
	serial := uint64(1)
	mkCert := func(k c19aKey) *ssh.Certificate {
		pub, err := ssh.NewPublicKey(k.signer.Public())
		if err != nil {
			t.Fatal(err)
		}
		serial++
		c := &ssh.Certificate{Key: pub, Serial: serial, CertType: ssh.UserCert, KeyId: "verif", ValidPrincipals: []string{"alice"},
			ValidAfter: uint64(time.Now().Unix() - 60), ValidBefore: uint64(time.Now().Unix() + 3600)}
		if err := c.SignCert(rand.Reader, caSigner); err != nil {
			t.Fatal(err)
		}
		return c
	}
	labels := []string{"keymaster-p256-alice", "keymaster-ed25519-alice", "somebody-else"}
	nHist, nOps := 60, 14
	if verifThorough() {
		nHist, nOps = 600, 24
	}
	var cases, idx []string
	// histories 4..7: three certificates of different keys under one label, then the client's
	// installation against an agent that refuses the List call, the k-th Remove call for every k, the
	// Add call; after each a fault-free installation
	type faultPlan struct {
		list   bool
		remove int
		add    bool
	}
	systematic := []faultPlan{{false, 0, false}, {false, 1, false}, {false, 2, false}, {true, -1, false}, {false, -1, true}, {false, 3, false}}
	for hi := 0; hi < nHist; hi++ {
		kr := agent.NewKeyring()
		var steps, descs []string
		for k := 0; k < nOps; k++ {
			key := pool[rng.Intn(len(pool))]
			label := labels[rng.Intn(len(labels))]
			before := c19aListing(t, kr)
			c := rng.Intn(100)
			fault := faultPlan{remove: -1}
			faulty := false
			if hi < 4 {
				// every key type: install twice under one label, with a plain key of that label around
				key = pool[[]int{0, 2, 3, 4}[hi]]
				label = labels[0]
				c = []int{10, 60, 60, 30, 60}[k%5]
			} else if hi < 8 {
				label = labels[(hi-4)%2]
				key = pool[(2+hi+k)%len(pool)]
				switch {
				case k%4 < 3 && k < 3:
					c = 30
				case k%2 == 1:
					c = 90
					faulty = true
					fault = systematic[((k-3)/2+(hi-4))%len(systematic)]
				default:
					c = []int{30, 60}[(k/2)%2]
				}
			} else if c >= 40 && rng.Intn(3) == 0 {
				faulty = true
				switch rng.Intn(4) {
				case 0:
					fault.list = true
				case 1:
					fault.add = true
				default:
					fault.remove = rng.Intn(3)
				}
			}
			var opName string
			var added c19aEntry
			switch {
			case c >= 40 && faulty: // the client installs a certificate into an agent that refuses a call
				cert := mkCert(key)
				c1, c2 := net.Pipe()
				fa := &c19aFaulty{Agent: kr, failList: fault.list, failRemove: fault.remove, failAdd: fault.add}
				go agent.ServeAgent(fa, c2)
				err := WithAddedKeyUpsertCertIntoAgentConnection(agent.AddedKey{PrivateKey: key.raw, Certificate: cert, Comment: label, LifetimeSecs: 3600}, c1, logger)
				c1.Close()
				h := sha256.Sum256(cert.Marshal())
				added = c19aEntry{label, string(h[:8]), true}
				after := c19aListing(t, kr)
				fr := 0
				if fault.remove >= 0 {
					fr = fault.remove + 1
				}
				steps = append(steps, fmt.Sprintf("(AUpsertF %s %d %s (%s) %s %s, %s)", coqBool(fault.list), fr, coqBool(fault.add), added.coq(), c19aCoqListing(fa.snapshot), coqBool(err == nil), c19aCoqListing(after)))
				descs = append(descs, fmt.Sprintf("AUpsertF list=%v remove=%d add=%v %s %s fired=%q err=%v -> %d entries", fault.list, fault.remove, fault.add, key.kind, label, fa.fired, err != nil, len(after)))
				res.bump("AUpsertF:" + map[string]string{"": "none-fired", "list": "list", "remove": "remove", "add": "add"}[fa.fired])
				n, had, present := 0, 0, false
				for _, e := range after {
					if e.cert && e.comment == label {
						n++
					}
					if e == added {
						present = true
					}
				}
				for _, e := range before {
					if e.cert && e.comment == label {
						had++
					}
				}
				cs := map[string]interface{}{"history": hi, "ops": append([]string(nil), descs...)}
				shape := fa.fired
				if shape == "" {
					shape = "none"
				}
				if err == nil && n != 1 {
					res.hit(verifHit{Key: "C19:agent-stale-after-fault:" + shape, Oracle: "an installation that reports success leaves exactly one certificate with the label, also when the agent refused a call", Kind: "history",
						What: fmt.Sprintf("the agent refused the %s call; the installation reported success and %d certificates carry the label %q (%d before)", shape, n, label, had), Case: cs, Observed: n})
				}
				if err != nil && present {
					res.hit(verifHit{Key: "C19:agent-added-despite-error:" + shape, Oracle: "an installation that reports an error has added nothing", Kind: "history",
						What: fmt.Sprintf("the agent refused the %s call; the installation reported an error and the new certificate is in the agent", shape), Case: cs})
				}
				if err != nil {
					for _, e := range before {
						if !e.cert || e.comment != label {
							found := false
							for _, a := range after {
								if a == e {
									found = true
								}
							}
							if !found {
								res.hit(verifHit{Key: "C19:agent-collateral", Oracle: "installing a certificate removed an identity that is not a certificate with that label", Kind: "history",
									What: fmt.Sprintf("entry %q cert=%v disappeared in a failed installation", e.comment, e.cert), Case: cs})
							}
						}
					}
				}
				res.eval(fmt.Sprintf("upsert-fault|%s|%s|%d|%s|%v", key.kind, label, had, shape, err == nil), fa.fired != "")
				continue
			case c < 20: // foreign plain key
				if err := kr.Add(agent.AddedKey{PrivateKey: key.raw, Comment: label}); err != nil {
					t.Fatal(err)
				}
				pub, _ := ssh.NewPublicKey(key.signer.Public())
				h := sha256.Sum256(pub.Marshal())
				added = c19aEntry{label, string(h[:8]), false}
				opName = "AForeign"
			case c < 40: // foreign certificate
				cert := mkCert(key)
				if err := kr.Add(agent.AddedKey{PrivateKey: key.raw, Certificate: cert, Comment: label}); err != nil {
					t.Fatal(err)
				}
				h := sha256.Sum256(cert.Marshal())
				added = c19aEntry{label, string(h[:8]), true}
				opName = "AForeign"
			default: // the client installs a certificate
				cert := mkCert(key)
				c1, c2 := net.Pipe()
				go agent.ServeAgent(kr, c2)
				err := WithAddedKeyUpsertCertIntoAgentConnection(agent.AddedKey{PrivateKey: key.raw, Certificate: cert, Comment: label, LifetimeSecs: 3600}, c1, logger)
				c1.Close()
				if err != nil {
					t.Errorf("upsert failed: %v", err)
					res.hit(verifHit{Key: "C19:harness:upsert", Oracle: "harness", What: "upsert into the keyring failed: " + err.Error(), Case: descs})
				}
				h := sha256.Sum256(cert.Marshal())
				added = c19aEntry{label, string(h[:8]), true}
				opName = "AUpsert"
			}
			after := c19aListing(t, kr)
			steps = append(steps, fmt.Sprintf("(%s (%s), %s)", opName, added.coq(), c19aCoqListing(after)))
			descs = append(descs, fmt.Sprintf("%s %s %s cert=%v -> %d entries", opName, key.kind, label, added.cert, len(after)))
			res.bump(opName + ":" + key.kind)
			if opName == "AUpsert" {
				// the property itself
				n, had := 0, 0
				for _, e := range after {
					if e.cert && e.comment == label {
						n++
					}
				}
				for _, e := range before {
					if e.cert && e.comment == label {
						had++
					}
				}
				cs := map[string]interface{}{"history": hi, "ops": append([]string(nil), descs...)}
				if n != 1 {
					res.hit(verifHit{Key: "C19:agent-duplicates:" + key.kind, Oracle: "after installing a certificate the agent holds more (or fewer) than one certificate with that label", Kind: "history",
						What: fmt.Sprintf("%d certificates labelled %q after installing a %s certificate (%d before)", n, label, key.kind, had), Case: cs, Observed: n})
				}
				for _, e := range before {
					if (!e.cert || e.comment != label) && e.blob != added.blob {
						found := false
						for _, a := range after {
							if a == e {
								found = true
							}
						}
						if !found {
							res.hit(verifHit{Key: "C19:agent-collateral", Oracle: "installing a certificate removed an identity that is not a certificate with that label", Kind: "history",
								What: fmt.Sprintf("entry %q cert=%v disappeared", e.comment, e.cert), Case: cs})
						}
					}
				}
				res.eval(fmt.Sprintf("upsert|%s|%s|%d|%d", key.kind, label, had, len(before)), had > 0)
			} else {
				res.eval(fmt.Sprintf("foreign|%s|%s|%v|%d", key.kind, label, added.cert, len(before)), false)
			}
		}
		cases = append(cases, " ["+strings.Join(steps, ";\n  ")+"]")
		idx = append(idx, fmt.Sprintf("%d\t%s", hi, strings.Join(descs, " | ")))
	}
	// WHICH agent: the exported entry points that use the default agent location, in every agent environment
	// situation, with decoy agents listening where agents conventionally live
	wcases, widx := c19aEnvCases(t, res, rng, pool, mkCert, labels, logger)
	// LABELS: every class of label byte string x repeated installations into one agent
	lcases, lidx := c19aLabelCases(t, res, rng, pool, mkCert, logger)
	var sb strings.Builder
	sb.WriteString(coqCaseHeader)
	sb.WriteString("From KM Require Import Base.Cases Model.Client Model.ClientEnv Model.ClientLabel.\n")
	sb.WriteString("Definition histories : list (list (aop * agent)) := [\n" + strings.Join(cases, ";\n") + "\n].\n")
	sb.WriteString("Definition c19a_bad (h : list (aop * agent)) : bool := negb (acheck [] h).\n")
	sb.WriteString("Definition c19a_mismatches := Eval vm_compute in mismatches c19a_bad histories.\nPrint c19a_mismatches.\n")
	// the property predicate on the observation: a mismatching history in which an observed listing itself breaks
	// 'exactly one certificate under the label after a successful installation, nothing else removed, nothing added on error'
	sb.WriteString("Definition c19a_violating := Eval vm_compute in mismatches (fun h => c19a_bad h && aviolates [] h) histories.\nPrint c19a_violating.\n")
	sb.WriteString("Definition wcases : list wcase := [\n" + strings.Join(wcases, ";\n") + "\n].\n")
	sb.WriteString("Definition c19ae_bad (c : wcase) : bool := negb (wcheck c).\n")
	sb.WriteString("Definition c19ae_mismatches := Eval vm_compute in mismatches c19ae_bad wcases.\nPrint c19ae_mismatches.\n")
	// observed: the identity is in an agent that SSH_AUTH_SOCK does not name
	sb.WriteString("Definition c19ae_violating := Eval vm_compute in mismatches (fun c => c19ae_bad c && wviolates c) wcases.\nPrint c19ae_violating.\n")
	sb.WriteString("Definition c19ae_ncases := Eval vm_compute in length wcases.\nPrint c19ae_ncases.\n")
	sb.WriteString("Definition lcases : list lcase := [\n" + strings.Join(lcases, ";\n") + "\n].\n")
	sb.WriteString("Definition c19al_bad (c : lcase) : bool := negb (lcheck c).\n")
	sb.WriteString("Definition c19al_mismatches := Eval vm_compute in mismatches c19al_bad lcases.\nPrint c19al_mismatches.\n")
	// observed: more or fewer than one certificate under the label, an earlier certificate of the label still listed, or collateral
	sb.WriteString("Definition c19al_violating := Eval vm_compute in mismatches (fun c => c19al_bad c && lviolates c) lcases.\nPrint c19al_violating.\n")
	sb.WriteString("Definition c19al_ncases := Eval vm_compute in fold_left (fun n (c : lcase) => (n + N.of_nat (length (snd c)))%N) lcases 0%N.\nPrint c19al_ncases.\n")
	sb.WriteString("Definition c19a_ncases := Eval vm_compute in fold_left (fun n (h : list (aop * agent)) => (n + N.of_nat (length h))%N) histories 0%N.\nPrint c19a_ncases.\n")
	if err := ioutil.WriteFile(filepath.Join(verifOut(), "CasesC19A.v"), []byte(sb.String()), 0644); err != nil {
		t.Fatal(err)
	}
	ioutil.WriteFile(filepath.Join(verifOut(), "CasesC19A.idx"), []byte(strings.Join(idx, "\n")+"\n"), 0644)
	ioutil.WriteFile(filepath.Join(verifOut(), "CasesC19AE.idx"), []byte(strings.Join(widx, "\n")+"\n"), 0644)
	ioutil.WriteFile(filepath.Join(verifOut(), "CasesC19AL.idx"), []byte(strings.Join(lidx, "\n")+"\n"), 0644)
	if len(idx) > 0 {
		res.sample(idx[0])
	}
	res.write(t, "TestVerif_C19A")
}

// ---------------------------------------------------------------- which agent

// every agent environment situation x both exported entry points that connect to the DEFAULT agent location,
// with decoys at every conventional place (then random subsets of the places).  Observed: the success flag and
// the listing of every agent of the scene; Coq: Model/ClientEnv.v world_upsert.
func c19aEnvCases(t *testing.T, res *verifResult, rng interface{ Intn(int) int }, pool []c19aKey, mkCert func(c19aKey) *ssh.Certificate, labels []string, logger *testlogger.Logger) (cases, idx []string) {
	root, cleanup, err := c19eRoot()
	if err != nil {
		t.Fatal(err)
	}
	defer cleanup()
	type plan struct {
		situation string
		entry     int
		all       bool
	}
	var plans []plan
	for _, s := range c19eSituations {
		for entry := 0; entry < 2; entry++ {
			plans = append(plans, plan{s, entry, true})
		}
	}
	extra := 20
	if verifThorough() {
		extra = 300
	}
	for i := 0; i < extra; i++ {
		plans = append(plans, plan{c19eSituations[rng.Intn(len(c19eSituations))], rng.Intn(2), false})
	}
	entryNames := []string{"WithAddedKeyUpsertCertIntoAgent", "UpsertCertIntoAgent"}
	for id, pl := range plans {
		key := pool[rng.Intn(len(pool))]
		label := labels[rng.Intn(len(labels))]
		mask := rng.Intn(1 << 11)
		if pl.all {
			mask = 1<<11 - 1
		}
		preload := func(kr agent.Agent, designated bool) {
			// an older certificate and a plain key under the label the client uses, and somebody else's certificate
			k1 := pool[rng.Intn(len(pool))]
			kr.Add(agent.AddedKey{PrivateKey: k1.raw, Certificate: mkCert(k1), Comment: label})
			if designated || rng.Intn(2) == 0 {
				k2 := pool[rng.Intn(len(pool))]
				kr.Add(agent.AddedKey{PrivateKey: k2.raw, Comment: label})
				k3 := pool[rng.Intn(len(pool))]
				kr.Add(agent.AddedKey{PrivateKey: k3.raw, Certificate: mkCert(k3), Comment: "somebody-else"})
			}
		}
		sc, err := newC19eScene(root, id, pl.situation, func(i int) bool { return mask&(1<<uint(i)) != 0 }, preload)
		if err != nil {
			t.Errorf("scene %d: %v", id, err)
			res.hit(verifHit{Key: "C19:harness:scene", Oracle: "harness", What: "could not build the agent scene: " + err.Error(), Case: pl.situation})
			continue
		}
		cert := mkCert(key)
		world, env, desc := sc.coqWorld(), sc.coqEnv(), sc.describe()
		var callErr error
		if pl.entry == 0 {
			callErr = WithAddedKeyUpsertCertIntoAgent(agent.AddedKey{PrivateKey: key.raw, Certificate: cert, Comment: label, LifetimeSecs: 3600}, logger)
		} else {
			callErr = UpsertCertIntoAgent(ssh.MarshalAuthorizedKey(cert), key.raw, label, 3600, logger)
		}
		n := c19eEntry{label, c19eBlobID(cert.Marshal()), true}
		ndecoys := 0
		for _, nd := range sc.nodes {
			if nd.kind == "agent" && !nd.designated {
				ndecoys++
			}
		}
		cs := map[string]interface{}{"situation": pl.situation, "entry_point": entryNames[pl.entry], "key_type": key.kind, "label": label, "scene": desc, "reported_error": fmt.Sprint(callErr)}
		sc.oracle(res, "library "+entryNames[pl.entry], n.blob, cs)
		des := sc.designatedAgent()
		if callErr == nil {
			holds := false
			if des != nil {
				for _, e := range c19eListing(des.rec.Agent) {
					if e == n {
						holds = true
					}
				}
			}
			if !holds {
				res.hit(verifHit{Key: "C19:agent-success-without-designated-agent:" + pl.situation, Oracle: "an installation reports success only when the agent SSH_AUTH_SOCK names holds the new identity", Kind: "input",
					What: fmt.Sprintf("%s reported success but the agent SSH_AUTH_SOCK names does not hold the identity (working designated agent: %v); %s", entryNames[pl.entry], des != nil, desc), Case: cs})
			}
		}
		cases = append(cases, fmt.Sprintf(" (%s,\n   %s,\n   %s, %s,\n   %s)", env, world, n.coq(), coqBool(callErr == nil), sc.coqObserved()))
		idx = append(idx, fmt.Sprintf("%d\t%s key=%s label=%s %s -> error=%v", len(idx), entryNames[pl.entry], key.kind, label, desc, callErr))
		res.bump("which-agent:" + pl.situation)
		res.eval(fmt.Sprintf("which-agent|%s|%d|%s|%d", pl.situation, pl.entry, key.kind, ndecoys), des == nil && ndecoys > 0)
		sc.close()
	}
	if len(idx) > 0 {
		res.sample(idx[len(idx)-1])
	}
	return cases, idx
}

// ---------------------------------------------------------------- labels

// for every label class: identities of somebody else under the labels of the family, then the client's real
// WithAddedKeyUpsertCertIntoAgentConnection again and again (fresh certificates of changing key types; the same key
// twice in a row too) under the first label, interleaved with installations under the neighbouring labels.
// Observed: the listing after every installation; Coq: Model/ClientLabel.v install_cert (lcheck).
// Oracle (independent of the model, it tracks what the agent reports): a certificate that an earlier installation
// under the label put into the agent is still there after a later one.
func c19aLabelCases(t *testing.T, res *verifResult, rng interface{ Intn(int) int }, pool []c19aKey, mkCert func(c19aKey) *ssh.Certificate, logger *testlogger.Logger) (cases, idx []string) {
	rounds := 1
	if verifThorough() {
		rounds = 12
	}
	show := func(l string) string {
		if len(l) > 60 {
			return fmt.Sprintf("%q...(%d bytes)", l[:40], len(l))
		}
		return fmt.Sprintf("%q", l)
	}
	for round := 0; round < rounds; round++ {
		for fi, fam := range c19eLabelFamilies(rng) {
			if fam.class == "long" && round >= 2 {
				continue // kilobyte labels are repeated in every listing: two rounds of them are enough
			}
			kr := agent.NewKeyring()
			// somebody else's identities: a plain key under the label itself, certificates under the neighbours
			fk := pool[rng.Intn(len(pool))]
			kr.Add(agent.AddedKey{PrivateKey: fk.raw, Comment: fam.labels[0]})
			for _, nb := range fam.labels[1:] {
				k := pool[rng.Intn(len(pool))]
				kr.Add(agent.AddedKey{PrivateKey: k.raw, Certificate: mkCert(k), Comment: nb})
			}
			start := c19aListing(t, kr)
			// which label each installation uses: mostly the first, the neighbours in between
			plan := []int{0, 0, 1, 0, 0}
			if len(fam.labels) > 2 {
				plan = append(plan, 2, 0)
			}
			for extra := rng.Intn(3); extra > 0; extra-- {
				plan = append(plan, rng.Intn(len(fam.labels)))
			}
			plan = append(plan, 0)
			type installed struct {
				label int
				blob  string
			}
			var earlier []installed
			var steps, descs []string
			prevKey := -1
			for si, li := range plan {
				ki := (fi + si + round) % len(pool)
				if si == 4 && prevKey >= 0 {
					ki = prevKey // the same key again: a renewed certificate for it
				}
				prevKey = ki
				key, label := pool[ki], fam.labels[li]
				before := c19aListing(t, kr)
				cert := mkCert(key)
				c1, c2 := net.Pipe()
				go agent.ServeAgent(kr, c2)
				err := WithAddedKeyUpsertCertIntoAgentConnection(agent.AddedKey{PrivateKey: key.raw, Certificate: cert, Comment: label, LifetimeSecs: 3600}, c1, logger)
				c1.Close()
				h := sha256.Sum256(cert.Marshal())
				blob := string(h[:8])
				after := c19aListing(t, kr)
				descs = append(descs, fmt.Sprintf("install %s under %s -> %d entries", key.kind, show(label), len(after)))
				cs := map[string]interface{}{"label_class": fam.class, "label_bytes": fmt.Sprintf("%x", label), "family": fmt.Sprintf("%q", fam.labels), "ops": append([]string(nil), descs...)}
				if len(label) > 80 {
					cs["label_bytes"] = fmt.Sprintf("%x...(%d bytes)", label[:40], len(label))
					cs["family"] = "the label, the label without its last byte, the label + \"x\""
				}
				if err != nil {
					t.Errorf("install under %s failed: %v", show(label), err)
					res.hit(verifHit{Key: "C19:harness:upsert", Oracle: "harness", What: "installation into the keyring failed: " + err.Error(), Case: cs})
				}
				// (1) what the agent holds of the EARLIER installations under this label, whatever it calls them
				stale := 0
				for _, old := range earlier {
					if old.label != li || old.blob == blob {
						continue
					}
					for _, e := range after {
						if e.blob == old.blob {
							stale++
						}
					}
				}
				// (2) what the agent reports under the label
				under, reported := 0, "(not listed)"
				for _, e := range after {
					if e.cert && e.comment == label {
						under++
					}
					if e.blob == blob {
						reported = e.comment
					}
				}
				if stale > 0 || under > 1 {
					res.hit(verifHit{Key: "C19:agent-label-accumulates:" + fam.class, Oracle: "a certificate installed under a label replaces the ones installed under that label before", Kind: "history",
						What: fmt.Sprintf("after installation %d under the label %s (class %s) the agent still holds %d certificate(s) that earlier installations under the same label put there; it reports %d certificate(s) under the label and calls the new one %s",
							si+1, show(label), fam.class, stale, under, show(reported)), Case: cs, Observed: stale})
				} else if err == nil && (under != 1 || reported != label) {
					res.hit(verifHit{Key: "C19:agent-label-not-kept:" + fam.class, Oracle: "the certificate is in the agent under the label the client was given", Kind: "history",
						What: fmt.Sprintf("after installing under the label %s (class %s) the agent reports %d certificate(s) under it and calls the new one %s", show(label), fam.class, under, show(reported)), Case: cs, Observed: reported})
				}
				// (3) nothing else went away: plain keys, the neighbours' certificates
				for _, e := range before {
					if (e.cert && e.comment == label) || e.blob == blob {
						continue
					}
					mine := false
					for _, old := range earlier {
						if old.label == li && old.blob == e.blob {
							mine = true
						}
					}
					if mine {
						continue
					}
					found := false
					for _, a := range after {
						if a == e {
							found = true
						}
					}
					if !found {
						res.hit(verifHit{Key: "C19:agent-label-collateral:" + fam.class, Oracle: "installing a certificate under a label leaves identities under other labels (however close) alone", Kind: "history",
							What: fmt.Sprintf("installing under %s removed or renamed the identity %s (certificate: %v)", show(label), show(e.comment), e.cert), Case: cs})
					}
				}
				earlier = append(earlier, installed{li, blob})
				steps = append(steps, fmt.Sprintf("(%s, %s, %s)", coqPacked([]byte(label)), coqPacked([]byte(blob)), c19aCoqListing(after)))
				res.bump("label:" + fam.class)
				res.eval(fmt.Sprintf("label|%s|%d|%s|%d|%d", fam.class, li, key.kind, si, len(before)), si > 0)
			}
			cases = append(cases, fmt.Sprintf(" (%s,\n  [%s])", c19aCoqListing(start), strings.Join(steps, ";\n   ")))
			idx = append(idx, fmt.Sprintf("%d\tlabel class %s, label bytes %s (%d bytes); %s", len(idx), fam.class, func() string {
				if len(fam.labels[0]) > 60 {
					return fmt.Sprintf("%x...", fam.labels[0][:40])
				}
				return fmt.Sprintf("%x", fam.labels[0])
			}(), len(fam.labels[0]), strings.Join(descs, " | ")))
		}
	}
	if len(idx) > 0 {
		res.sample(idx[1])
	}
	return cases, idx
}
