package eventrecorder

// C20 (monitoring daemon side): random recorder histories against the real eventrecorder code
// (recordAuthEvent / recordCertEvent / recordSPLoginEvent / recordWebLoginEvent, expireOldEvents,
// getEventsList + saveEvents, loadEvents) with save -> reload at arbitrary points, plus one run
// through New(), the event loop, its save timer and a restart.
//
// Time.  The code stamps and compares with time.Now() directly.  The harness keeps a virtual clock
// V = real clock + offset; "time passes by d" = every stored CreateTime is moved back by d (the
// code's comparisons only involve now - CreateTime).  The model sees virtual times.
// The clock of the recorder and the stamps of its entries are independent: "the clock is stepped
// back by d" (or: the history comes from a host whose clock is d ahead) = every stored CreateTime is
// moved FORWARD by d, so that entries lie ahead of the clock that the next reload / expiry reads
// (seconds, minutes, hours, days, more than the retention; an entry exactly at clock-1 / clock /
// clock+1).  Events recorded after such a step are stamped earlier than older entries of the same
// list: lists out of creation order are part of the space.

import (
	"crypto/x509"
	"crypto/x509/pkix"
	"fmt"
	"io/ioutil"
	"os"
	"path/filepath"
	"sort"
	"strings"
	"sync"
	"testing"
	"time"

	"github.com/Cloud-Foundations/golib/pkg/log/testlogger"
	"golang.org/x/crypto/ssh"
)

const c20Retention = int64(31 * 24 * 3600)

type c20rHist struct {
	sr      *EventRecorder
	file    string
	offset  int64 // virtual - real, seconds
	steps   []string
	descs   []string
	discard bool
}

func (h *c20rHist) shiftAll(d int64) {
	for _, l := range h.sr.eventsMap {
		for e := l.newest; e != nil; e = e.older {
			e.CreateTime -= uint64(d)
		}
	}
	h.offset += d
}

func c20rCoqEv(e EventType, offset int64) string {
	return fmt.Sprintf("mkEv %s %d %d %s %s %s %s %d", coqZ(int64(e.CreateTime)+offset), e.AuthType, e.LifetimeSeconds,
		coqPacked([]byte(e.ServiceProviderUrl)), coqBool(e.Ssh), coqBool(e.WebLogin), coqBool(e.X509), e.VIPAuthType)
}

func (h *c20rHist) dump() (EventsMap, string) {
	var last *Events
	m := h.sr.getEventsList(&last).Events
	var users []string
	for u := range m {
		users = append(users, u)
	}
	sort.Strings(users)
	var parts []string
	for _, u := range users {
		var evs []string
		for _, e := range m[u] {
			evs = append(evs, "("+c20rCoqEv(e, h.offset)+")")
		}
		parts = append(parts, fmt.Sprintf("(%s, [%s])", coqPacked([]byte(u)), strings.Join(evs, "; ")))
	}
	return m, "[" + strings.Join(parts, "; ") + "]"
}

func c20rFresh(l []EventType, min uint64) []EventType {
	out := []EventType{}
	for _, e := range l {
		if e.CreateTime >= min {
			out = append(out, e)
		}
	}
	return out
}

func c20rSame(a, b []EventType) bool {
	if len(a) != len(b) {
		return false
	}
	for i := range a {
		if a[i] != b[i] {
			return false
		}
	}
	return true
}

// creation time and kind of each entry, for messages
func c20rTimes(l []EventType, offset int64) []string {
	var out []string
	for _, e := range l {
		k := fmt.Sprintf("auth%d", e.AuthType)
		switch {
		case e.Ssh:
			k = fmt.Sprintf("ssh%d", e.LifetimeSeconds)
		case e.X509:
			k = fmt.Sprintf("x509-%d", e.LifetimeSeconds)
		case e.WebLogin:
			k = "web"
		case e.ServiceProviderUrl != "":
			k = "sp"
		}
		out = append(out, fmt.Sprintf("%d:%s", int64(e.CreateTime)+offset, k))
	}
	return out
}

func c20rKind(e EventType) string {
	switch {
	case e.Ssh:
		return fmt.Sprintf("ssh%d", e.LifetimeSeconds)
	case e.X509:
		return fmt.Sprintf("x509-%d", e.LifetimeSeconds)
	case e.WebLogin:
		return "web"
	case e.ServiceProviderUrl != "":
		return "sp"
	}
	return fmt.Sprintf("auth%d", e.AuthType)
}

// entries as offsets to the clock reading `now` (real seconds) of the step that looks at them: +n = stamped n s ahead
func c20rOffsets(l []EventType, now int64) []string {
	out := []string{}
	for _, e := range l {
		out = append(out, fmt.Sprintf("%+ds:%s", int64(e.CreateTime)-now, c20rKind(e)))
	}
	return out
}

func c20rCount(l []EventType, e EventType) int {
	n := 0
	for _, x := range l {
		if x == e {
			n++
		}
	}
	return n
}

// the entries of `before` stamped later than the clock reading `now` that `after` no longer has
func c20rFutureLost(before, after []EventType, now int64) (lost []EventType, future int) {
	for i, e := range before {
		if int64(e.CreateTime) <= now {
			continue
		}
		future++
		seen := false
		for _, x := range before[:i] {
			if x == e {
				seen = true
			}
		}
		if !seen && c20rCount(before, e) > c20rCount(after, e) {
			lost = append(lost, e)
		}
	}
	return lost, future
}

// what the hourly expiry may do to one user's list (newest first), whatever its order: it takes
// entries away from the OLD end only, every entry taken is older than the retention, and it does
// not stop in front of an entry that is older than the retention.  On a list in creation order this
// is "exactly the entries older than the retention go".
func c20rExpiryOK(before, after []EventType, min uint64) (bool, string) {
	if len(after) > len(before) || !c20rSame(before[:len(after)], after) {
		return false, "the survivors are not the newest entries of the list in their order"
	}
	for _, e := range before[len(after):] {
		if e.CreateTime >= min {
			return false, "an entry within the retention was dropped"
		}
	}
	if len(after) > 0 && after[len(after)-1].CreateTime < min {
		return false, "the oldest entry left is older than the retention"
	}
	return true, ""
}

// one step of a scripted history: kind 0 record, 1 the clock moves by d (negative: stepped back), 2 expiry, 3 save+restart, 4 read-out
type c20rForced struct {
	kind int
	d    int64
}

const c20rDay = int64(86400)

// entries ahead of the clock at a reload and at an expiry, alone and mixed with recent and expired
// ones, in the orders that recordings and clock steps produce
var c20rScripted = [][]c20rForced{
	{{0, 0}, {0, 0}, {1, -5}, {3, 0}, {2, 0}, {4, 0}},
	{{0, 0}, {0, 0}, {1, -90}, {2, 0}, {3, 0}},
	{{0, 0}, {1, 32 * c20rDay}, {0, 0}, {1, -7200}, {0, 0}, {3, 0}, {2, 0}},
	{{0, 0}, {0, 0}, {1, -3 * c20rDay}, {0, 0}, {2, 0}, {3, 0}},
	{{0, 0}, {1, -40 * c20rDay}, {0, 0}, {2, 0}, {3, 0}},
	{{0, 0}, {1, 32 * c20rDay}, {0, 0}, {0, 0}, {1, -3600}, {2, 0}, {3, 0}},
	{{0, 0}, {1, -10}, {0, 0}, {1, c20Retention + 3}, {2, 0}, {3, 0}},
	{{0, 0}, {1, -600}, {0, 0}, {1, 300}, {0, 0}, {1, -2 * c20rDay}, {0, 0}, {2, 0}, {4, 0}, {3, 0}, {1, 33 * c20rDay}, {2, 0}, {3, 0}},
	{{0, 0}, {0, 0}, {0, 0}, {1, -1}, {2, 0}, {3, 0}},
	{{0, 0}, {1, 40 * c20rDay}, {0, 0}, {1, -20 * c20rDay}, {0, 0}, {1, 5 * c20rDay}, {3, 0}, {2, 0}},
}

var c20rLifetimesMs = []int64{0, 1, 499, 500, 59499, 59500, 60000, 61000, 119499, 3539000, 3540000, 3599000, 3599499, 3600000,
	3601000, 7140000, 7199000, 57600000, 86340000, 86400000, 3888000000}

func TestVerif_C20R(t *testing.T) {
	res := newVerifResult("random recorder histories (record auth / certificate / service-provider login / web login for 3 users, time passing by seconds .. 40 days incl. steps that put an entry exactly at retention-1/retention/retention+1, the clock stepped BACK by seconds .. more than the retention so that entries are stamped ahead of the clock and lists leave creation order, an entry at clock-1/clock/clock+1, hourly expiry, save -> reload, read-out) against the real eventrecorder functions; event-loop scenarios through New(), the six channels, history requests, the 5 s save timer and restarts (E=event R=request S=save X=restart); New() on saved history files whose stamps are ahead of the clock; non-trivial = a reload or expiry that had something to drop or at least two entries to keep in order; distinct by (operation kinds, ages)")
	dir, err := ioutil.TempDir("", "verif_c20r")
	if err != nil {
		t.Fatal(err)
	}
	defer os.RemoveAll(dir)
	rng := verifRand()
	nHist, maxOps := 500, 26
	if verifThorough() {
		nHist, maxOps = 6000, 34
	}
	users := []string{"alice", "bob", "carol-with-a-longer-name"}
	urls := []string{"https://app.example.com/cb", "https://other.example.org/", ""}
	var cases, idx []string
	for hi := 0; hi < nHist; hi++ {
		h := &c20rHist{sr: &EventRecorder{filename: filepath.Join(dir, fmt.Sprintf("events_%d.gob", hi%8)), eventsMap: make(map[string]*eventsListType)}}
		h.file = h.sr.filename
		os.Remove(h.file)
		nOps := 6 + rng.Intn(maxOps-5)
		reloads := 0
		var script []c20rForced
		if hi >= 3 && hi-3 < len(c20rScripted) {
			script = c20rScripted[hi-3]
			nOps = len(script)
		}
		for k := 0; k < nOps && !h.discard; k++ {
			c := rng.Intn(100)
			if hi < 3 {
				// the design-phase reproduction: three events, then save and reload
				c = []int{0, 0, 0, 85, 95, 75, 95}[k%7]
			}
			forcedD, forced := int64(0), false
			if script != nil {
				c = []int{0, 50, 75, 85, 95}[script[k].kind]
				forcedD, forced = script[k].d, true
			}
			switch {
			case c < 45: // record
				u := users[rng.Intn(len(users))]
				if forced {
					u = users[int(forcedD)%len(users)]
				}
				var coq, desc string
				switch rng.Intn(4) {
				case 0:
					a, v := uint(rng.Intn(5)), uint8(rng.Intn(2))
					h.sr.recordAuthEvent(u, a, v)
					coq = fmt.Sprintf("RAuth @T@ %s %d %d", coqPacked([]byte(u)), a, v)
					desc = fmt.Sprintf("auth %s %d/%d", u, a, v)
				case 1:
					ms := c20rLifetimesMs[rng.Intn(len(c20rLifetimesMs))]
					if rng.Intn(3) == 0 {
						ms = rng.Int63n(90000000)
					}
					isSSH := rng.Intn(2) == 0
					h.sr.recordCertEvent(u, time.Duration(ms)*time.Millisecond, isSSH, !isSSH)
					coq = fmt.Sprintf("RCert @T@ %s %d %s %s", coqPacked([]byte(u)), ms, coqBool(isSSH), coqBool(!isSSH))
					desc = fmt.Sprintf("cert %s %dms ssh=%v", u, ms, isSSH)
				case 2:
					sp := urls[rng.Intn(len(urls))]
					h.sr.recordSPLoginEvent(u, sp)
					coq = fmt.Sprintf("RSP @T@ %s %s", coqPacked([]byte(u)), coqPacked([]byte(sp)))
					desc = fmt.Sprintf("sp %s %q", u, sp)
				default:
					h.sr.recordWebLoginEvent(u)
					coq = fmt.Sprintf("RWeb @T@ %s", coqPacked([]byte(u)))
					desc = "web " + u
				}
				stamp := int64(h.sr.eventsMap[u].newest.CreateTime) + h.offset
				h.steps = append(h.steps, "("+strings.Replace(coq, "@T@", coqZ(stamp), 1)+", ONone)")
				h.descs = append(h.descs, fmt.Sprintf("%s @%d", desc, stamp))
				res.bump("record")
			case c < 70: // time passes
				var d int64
				pick := rng.Intn(10)
				if forced {
					pick, d = -1, forcedD
				}
				switch pick {
				case -1:
				case 0:
					d = rng.Int63n(120)
				case 1:
					d = rng.Int63n(3 * 86400)
				case 2:
					d = rng.Int63n(40 * 86400)
				case 3:
					d = c20Retention/2 + rng.Int63n(86400)
				case 4, 5, 6:
					// the clock is stepped back (the history is from a clock that is ahead): a few
					// seconds, minutes, hours, days, more than the retention
					switch rng.Intn(5) {
					case 0:
						d = -(1 + rng.Int63n(30))
					case 1:
						d = -(60 + rng.Int63n(3600))
					case 2:
						d = -(3600 + rng.Int63n(48*3600))
					case 3:
						d = -(2*c20rDay + rng.Int63n(28*c20rDay))
					default:
						d = -(c20Retention + 1 + rng.Int63n(9*c20rDay))
					}
					res.bump("clock_back_step")
				case 7:
					// put some stored entry at clock-1 / clock / clock+1
					var all []uint64
					for _, l := range h.sr.eventsMap {
						for e := l.newest; e != nil; e = e.older {
							all = append(all, e.CreateTime)
						}
					}
					if len(all) > 0 {
						ct := int64(all[rng.Intn(len(all))])
						d = ct - time.Now().Unix() - int64(rng.Intn(3)-1)
						res.bump("clock_boundary_step")
					}
				default:
					// put some stored entry at retention-1 / retention / retention+1
					var all []uint64
					for _, l := range h.sr.eventsMap {
						for e := l.newest; e != nil; e = e.older {
							all = append(all, e.CreateTime)
						}
					}
					if len(all) > 0 {
						ct := int64(all[rng.Intn(len(all))])
						d = c20Retention + int64(rng.Intn(3)-1) - (time.Now().Unix() - ct)
						res.bump("boundary_step")
					}
				}
				if d != 0 {
					h.shiftAll(d)
					if d > 0 {
						h.descs = append(h.descs, fmt.Sprintf("+%ds", d))
					} else {
						h.descs = append(h.descs, fmt.Sprintf("clock stepped back %ds", -d))
					}
				}
			case c < 82: // hourly expiry
				var last *Events
				before := h.sr.getEventsList(&last).Events
				t0 := time.Now().Unix()
				changed := h.sr.expireOldEvents()
				t1 := time.Now().Unix()
				if t0 != t1 {
					h.discard = true
					break
				}
				last = nil
				after := h.sr.getEventsList(&last).Events
				nontrivial := false
				futureSeen := 0
				for u, l := range before {
					want := c20rFresh(l, uint64(t0-c20Retention))
					if len(want) != len(l) || len(l) > 1 {
						nontrivial = true
					}
					inOrder := sort.SliceIsSorted(l, func(i, j int) bool { return l[i].CreateTime > l[j].CreateTime })
					ok, why := c20rExpiryOK(l, after[u], uint64(t0-c20Retention))
					if inOrder && !c20rSame(want, after[u]) {
						ok, why = false, "history in creation order: the survivors are not exactly the entries within the retention"
					}
					if !ok {
						res.hit(verifHit{Key: "C20:expire", Oracle: "expiry does not drop exactly the entries older than the retention", Kind: "history",
							What:     fmt.Sprintf("user %s: %s; before %v (creation times, newest first), after %v, now-retention=%d", u, why, c20rTimes(l, h.offset), c20rTimes(after[u], h.offset), t0+h.offset-c20Retention),
							Case:     map[string]interface{}{"history": hi, "ops": append([]string(nil), h.descs...)},
							Observed: c20rTimes(after[u], h.offset)})
					}
					lost, nf := c20rFutureLost(l, after[u], t0)
					futureSeen += nf
					if len(lost) > 0 {
						res.hit(verifHit{Key: "C20:history-lost:event-from-future:expiry", Kind: "history",
							Oracle: "an entry stamped later than the recorder's clock (so not older than the retention) is gone after the hourly expiry",
							What: fmt.Sprintf("step: hourly expiry (expireOldEvents); user %s: entries before it as offsets to the recorder's clock, newest first %v; after it %v; lost %v",
								u, c20rOffsets(l, t0), c20rOffsets(after[u], t0), c20rOffsets(lost, t0)),
							Case:     map[string]interface{}{"history": hi, "step": "expiry", "user": u, "offsets_before": c20rOffsets(l, t0), "ops": append([]string(nil), h.descs...)},
							Observed: c20rOffsets(after[u], t0)})
					}
				}
				h.steps = append(h.steps, fmt.Sprintf("(RExpire %s, OChanged %s)", coqZ(t0+h.offset), coqBool(changed)))
				h.descs = append(h.descs, fmt.Sprintf("expire @%d changed=%v", t0+h.offset, changed))
				res.bump("expire")
				if futureSeen > 0 {
					// entries ahead of the clock: take the read-out right away so that the model is compared
					// (and the property evaluated in Coq) on the state this expiry left
					_, coq := h.dump()
					h.steps = append(h.steps, fmt.Sprintf("(RGet, ODump %s)", coq))
					h.descs = append(h.descs, "get")
					res.bump("expire_with_entries_from_future")
				}
				res.eval(fmt.Sprintf("expire|%v|%v|future=%v", changed, nontrivial, futureSeen > 0), nontrivial)
			case c < 93: // save, restart
				var last *Events
				before := h.sr.getEventsList(&last).Events
				if err := saveEvents(h.file, before); err != nil {
					t.Fatal(err)
				}
				t0 := time.Now().Unix()
				m, err := loadEvents(h.file)
				t1 := time.Now().Unix()
				if err != nil {
					t.Fatalf("loadEvents: %v", err)
				}
				if t0 != t1 {
					h.discard = true
					break
				}
				h.sr = &EventRecorder{filename: h.file, eventsMap: m}
				after, coq := h.dump()
				nontrivial := false
				futureSeen := 0
				for u, l := range before {
					want := c20rFresh(l, uint64(t0-c20Retention))
					if len(want) != len(l) || len(want) > 1 {
						nontrivial = true
					}
					lost, nf := c20rFutureLost(l, after[u], t0)
					futureSeen += nf
					if len(lost) > 0 {
						res.hit(verifHit{Key: "C20:history-lost:event-from-future:reload", Kind: "history",
							Oracle: "an entry stamped later than the recorder's clock (so not older than the retention) is gone after a save and restart",
							What: fmt.Sprintf("step: save and restart (saveEvents, loadEvents); user %s: entries before it as offsets to the recorder's clock, newest first %v; after it %v; lost %v",
								u, c20rOffsets(l, t0), c20rOffsets(after[u], t0), c20rOffsets(lost, t0)),
							Case:     map[string]interface{}{"history": hi, "step": "reload", "user": u, "offsets_before": c20rOffsets(l, t0), "ops": append([]string(nil), h.descs...)},
							Observed: c20rOffsets(after[u], t0)})
					}
					if !c20rSame(want, after[u]) {
						key, what := "C20:reload-lost", "a save and restart loses young entries or keeps old ones"
						if len(want) == len(after[u]) {
							key, what = "C20:reload-order", "a save and restart changes the order of a user's history"
						}
						res.hit(verifHit{Key: key, Oracle: what, Kind: "history",
							What:     fmt.Sprintf("user %s: creation times before save %v (newest first), after restart %v, cut-off %d", u, c20rTimes(l, h.offset), c20rTimes(after[u], h.offset), t0+h.offset-c20Retention),
							Case:     map[string]interface{}{"history": hi, "ops": append([]string(nil), h.descs...)},
							Observed: c20rTimes(after[u], h.offset)})
					}
				}
				if len(after) != len(before) {
					res.hit(verifHit{Key: "C20:reload-users", Oracle: "a save and restart changes the set of users", Kind: "history",
						What: fmt.Sprintf("%d users before, %d after", len(before), len(after)), Case: map[string]interface{}{"history": hi, "ops": append([]string(nil), h.descs...)}})
				}
				h.steps = append(h.steps, fmt.Sprintf("(RReload %s, ODump %s)", coqZ(t0+h.offset), coq))
				h.descs = append(h.descs, fmt.Sprintf("reload @%d", t0+h.offset))
				reloads++
				res.bump("reload")
				if futureSeen > 0 {
					res.bump("reload_with_entries_from_future")
				}
				res.eval(fmt.Sprintf("reload|%d|%v|future=%v", len(before), nontrivial, futureSeen > 0), nontrivial)
			default: // read-out
				_, coq := h.dump()
				h.steps = append(h.steps, fmt.Sprintf("(RGet, ODump %s)", coq))
				h.descs = append(h.descs, "get")
				res.bump("get")
			}
		}
		if h.discard {
			res.bump("discarded_clock_tick")
			continue
		}
		_, coq := h.dump()
		h.steps = append(h.steps, fmt.Sprintf("(RGet, ODump %s)", coq))
		cases = append(cases, " ["+strings.Join(h.steps, ";\n  ")+"]")
		idx = append(idx, fmt.Sprintf("%d\th%d: %s", len(idx), hi, strings.Join(h.descs, " | ")))
		res.bump("histories")
	}
	// through New(): channels -> event loop -> save timer -> restart
	// crash points and failing file operations in the save path, start-up next to leftovers
	c20rFaults(t, res, dir)
	c20rFutureStarts(t, res, dir)
	c20rLoops(t, res, dir)

	shards := 1
	if verifThorough() {
		shards = 6
	}
	per := (len(cases) + shards - 1) / shards
	for s := 0; s < shards; s++ {
		lo, hiX := s*per, (s+1)*per
		if hiX > len(cases) {
			hiX = len(cases)
		}
		if lo > hiX {
			lo = hiX
		}
		var sb strings.Builder
		sb.WriteString(coqCaseHeader)
		sb.WriteString("From KM Require Import Base.Cases Model.Events Model.EventsClock.\n")
		sb.WriteString("Definition histories : list (list (rop * robs)) := [\n")
		sb.WriteString(strings.Join(cases[lo:hiX], ";\n"))
		sb.WriteString("\n].\n")
		sb.WriteString("Definition c20r_mismatches := Eval vm_compute in map (fun i => (i + " + fmt.Sprint(lo) + ")%nat) (mismatches (fun h => negb (rcheck [] h)) histories).\nPrint c20r_mismatches.\n")
		sb.WriteString("(* mismatching histories in which an OBSERVED save-and-restart lost, kept too much of, or reordered the state observed before it *)\n")
		sb.WriteString("Definition c20r_violating := Eval vm_compute in map (fun i => (i + " + fmt.Sprint(lo) + ")%nat) (mismatches (fun h => negb (rcheck [] h) && robs_violation [] h) histories).\nPrint c20r_violating.\n")
		sb.WriteString("(* ... in which an entry stamped later than the clock of a reload / an expiry is missing from the dump observed right after it *)\n")
		sb.WriteString("Definition c20r_future_lost := Eval vm_compute in map (fun i => (i + " + fmt.Sprint(lo) + ")%nat) (mismatches (fun h => negb (rcheck [] h) && robs_future_lost [] None h) histories).\nPrint c20r_future_lost.\n")
		sb.WriteString("Definition c20r_ncases := Eval vm_compute in fold_left (fun n (h : list (rop * robs)) => (n + N.of_nat (length h))%N) histories 0%N.\nPrint c20r_ncases.\n")
		name := "CasesC20R.v"
		if s > 0 {
			name = fmt.Sprintf("CasesC20R_%d.v", s)
		}
		if err := ioutil.WriteFile(filepath.Join(verifOut(), name), []byte(sb.String()), 0644); err != nil {
			t.Fatal(err)
		}
	}
	res.Extra["shards"] = shards
	ioutil.WriteFile(filepath.Join(verifOut(), "CasesC20R.idx"), []byte(strings.Join(idx, "\n")+"\n"), 0644)
	if len(idx) > 0 {
		res.sample(idx[0])
		res.sample(idx[len(idx)/2])
	}
	res.write(t, "TestVerif_C20R")
}

func c20rRequest(sr *EventRecorder) (EventsMap, bool) {
	reply := make(chan Events, 1)
	sr.RequestEventsChannel <- reply
	select {
	case ev := <-reply:
		return ev.Events, true
	case <-time.After(3 * time.Second):
		return nil, false
	}
}

// ---------------------------------------------------------------- the event loop (New, channels, cache, save timer, restart)
//
// A scenario is a string over  E (send the next event and wait until the loop has taken it)
//                              R (history request)   S (wait for the save timer to write the file)
//                              X (restart: a second New() on the same file; only right after S)
// Events are told apart by their payload (k = sequence number): k%5 -> SP login with URL .../k,
// auth with AuthType 1000+k, ssh / x509 certificate valid k hours; the single web login is k = 0.
// Creation times are projected to k (stamps of the real clock are not compared).

type c20rLoop struct {
	name   string
	script string
	segs   []string // Coq: one list of (lop, lobs) per process life
	cur    []string
	hits   []verifHit
	desc   []string
}

func c20rLoopEvent(sr *EventRecorder, k int, now time.Time) (coq string, user string, wait func() int) {
	user = []string{"alice", "bob"}[k%2]
	u := coqPacked([]byte(user))
	switch {
	case k == 0:
		sr.WebLoginChannel <- user
		return fmt.Sprintf("LRec (RWeb %s %s)", coqZ(0), u), user, func() int { return len(sr.WebLoginChannel) }
	case k%5 == 1:
		sr.AuthChannel <- &AuthInfo{AuthType: uint(1000 + k), Username: user, VIPAuthType: uint8(k % 2)}
		return fmt.Sprintf("LRec (RAuth %s %s %d %d)", coqZ(int64(k)), u, 1000+k, k%2), user, func() int { return len(sr.AuthChannel) }
	case k%5 == 2:
		sr.SshCertChannel <- &ssh.Certificate{ValidPrincipals: []string{user}, ValidBefore: uint64(now.Add(time.Duration(k) * time.Hour).Unix())}
		return fmt.Sprintf("LRec (RCert %s %s %d true false)", coqZ(int64(k)), u, k*3600*1000), user, func() int { return len(sr.SshCertChannel) }
	case k%5 == 3:
		sr.X509CertChannel <- &x509.Certificate{Subject: pkix.Name{CommonName: user}, NotAfter: now.Add(time.Duration(k) * time.Hour)}
		return fmt.Sprintf("LRec (RCert %s %s %d false true)", coqZ(int64(k)), u, k*3600*1000), user, func() int { return len(sr.X509CertChannel) }
	default:
		url := fmt.Sprintf("https://sp.example/%d", k)
		sr.ServiceProviderLoginChannel <- &SPLoginInfo{URL: url, Username: user}
		return fmt.Sprintf("LRec (RSP %s %s %s)", coqZ(int64(k)), u, coqPacked([]byte(url))), user, func() int { return len(sr.ServiceProviderLoginChannel) }
	}
}

// which event is this?  (-1: none of ours)
func c20rLoopIdentity(e EventType) int {
	switch {
	case e.WebLogin:
		return 0
	case e.AuthType >= 1000:
		return int(e.AuthType) - 1000
	case e.Ssh || e.X509:
		if e.LifetimeSeconds%3600 == 0 {
			return int(e.LifetimeSeconds / 3600)
		}
		return -1
	case strings.HasPrefix(e.ServiceProviderUrl, "https://sp.example/"):
		var k int
		fmt.Sscanf(e.ServiceProviderUrl, "https://sp.example/%d", &k)
		return k
	}
	return -1
}

func c20rLoopDump(m EventsMap) (string, map[string][]int) {
	var users []string
	for u := range m {
		users = append(users, u)
	}
	sort.Strings(users)
	ids := map[string][]int{}
	var parts []string
	for _, u := range users {
		var evs []string
		for _, e := range m[u] {
			k := c20rLoopIdentity(e)
			ids[u] = append(ids[u], k)
			e.CreateTime = uint64(int64(k))
			evs = append(evs, "("+c20rCoqEv(e, 0)+")")
		}
		parts = append(parts, fmt.Sprintf("(%s, [%s])", coqPacked([]byte(u)), strings.Join(evs, "; ")))
	}
	return "[" + strings.Join(parts, "; ") + "]", ids
}

func c20rSameIDs(a, b map[string][]int) bool {
	for _, u := range []string{"alice", "bob"} {
		if fmt.Sprint(a[u]) != fmt.Sprint(b[u]) {
			return false
		}
	}
	return true
}

func (sc *c20rLoop) run(t *testing.T, file string) {
	os.Remove(file)
	logger := testlogger.New(t)
	sr, err := New(file, logger)
	if err != nil {
		t.Error(err)
		return
	}
	now := time.Now()
	k := 0
	sent := map[string][]int{}  // newest first, everything sent so far
	saved := map[string][]int{} // what had been sent when the last save window closed
	lastEvent := time.Now()
	cs := map[string]interface{}{"scenario": sc.name, "script": sc.script}
	fail := func(key, oracle, what string, obs interface{}) {
		sc.hits = append(sc.hits, verifHit{Key: key, Oracle: oracle, Kind: "history", What: sc.name + " (" + sc.script + "): " + what, Case: cs, Observed: obs})
	}
	for _, op := range sc.script {
		switch op {
		case 'E':
			coq, user, pending := c20rLoopEvent(sr, k, now)
			for w := 0; w < 1000 && pending() > 0; w++ {
				time.Sleep(2 * time.Millisecond)
			}
			sent[user] = append([]int{k}, sent[user]...)
			sc.cur = append(sc.cur, "("+coq+", LNone)")
			lastEvent = time.Now()
			k++
		case 'R':
			m, ok := c20rRequest(sr)
			if !ok {
				fail("C20:harness:eventloop", "harness", "the recorder does not answer a history request", nil)
				return
			}
			coq, ids := c20rLoopDump(m)
			sc.cur = append(sc.cur, "(LRequest, LAnswer "+coq+")")
			if !c20rSameIDs(ids, sent) {
				fail("C20:loop-request-stale", "a history request is not answered with the events recorded so far", fmt.Sprintf("recorded %v (newest first), answered %v", sent, ids), ids)
			}
		case 'S':
			deadline := lastEvent.Add(12 * time.Second)
			var mod time.Time
			if st, err := os.Stat(file); err == nil {
				mod = st.ModTime()
			}
			written := false
			for time.Now().Before(deadline) && !written {
				if st, err := os.Stat(file); err == nil && st.Size() > 0 && st.ModTime().After(mod) && time.Since(lastEvent) > 4*time.Second {
					written = true
				} else {
					time.Sleep(50 * time.Millisecond)
				}
			}
			if !written {
				fail("C20:not-saved", "the recorder does not save its history after events", "no save within 12 s of the last event", nil)
				return
			}
			time.Sleep(150 * time.Millisecond)
			saved = map[string][]int{}
			for u, l := range sent {
				saved[u] = append([]int(nil), l...)
			}
			// what is in the file now (decoded by the package's own loader)
			lm, err := loadEvents(file)
			if err != nil {
				t.Error(err)
				return
			}
			tmp := &EventRecorder{eventsMap: lm}
			var last *Events
			coq, ids := c20rLoopDump(tmp.getEventsList(&last).Events)
			sc.cur = append(sc.cur, "(LSave, LFile "+coq+")")
			if !c20rSameIDs(ids, sent) {
				fail("C20:loop-save-stale", "the saved history lacks events recorded before the save", fmt.Sprintf("recorded %v (newest first), file holds %v", sent, ids), ids)
			}
		case 'X':
			sc.segs = append(sc.segs, "["+strings.Join(sc.cur, ";\n    ")+"]")
			sc.cur = nil
			sr, err = New(file, logger)
			if err != nil {
				t.Error(err)
				return
			}
			m, ok := c20rRequest(sr)
			if !ok {
				fail("C20:harness:eventloop", "harness", "the restarted recorder does not answer", nil)
				return
			}
			coq, ids := c20rLoopDump(m)
			sc.cur = append(sc.cur, "(LRequest, LAnswer "+coq+")")
			if !c20rSameIDs(ids, saved) {
				fail("C20:loop-restart-lost", "a restart after a completed save does not come back with the events recorded before the save, in order", fmt.Sprintf("recorded before the save %v (newest first), after restart %v", saved, ids), ids)
			}
			sent = map[string][]int{}
			for u, l := range ids {
				sent[u] = append([]int(nil), l...)
			}
		}
	}
	sc.segs = append(sc.segs, "["+strings.Join(sc.cur, ";\n    ")+"]")
}

func c20rLoops(t *testing.T, res *verifResult, dir string) {
	scripts := []string{"EREESX", "EERSXRESXR", "ERERSXR", "ESERESXR", "ERSRERESXR", "EEEEEERSXEREESXR"}
	if verifThorough() {
		rng := verifRand()
		for i := 0; i < 14; i++ {
			var sb strings.Builder
			sb.WriteString("E")
			n := 4 + rng.Intn(8)
			for j := 0; j < n; j++ {
				sb.WriteByte("EEERR"[rng.Intn(5)])
			}
			sb.WriteString("ESXR")
			if rng.Intn(2) == 0 {
				sb.WriteString("EREESXR")
			}
			scripts = append(scripts, sb.String())
		}
	}
	var wg sync.WaitGroup
	scs := make([]*c20rLoop, len(scripts))
	for i, s := range scripts {
		scs[i] = &c20rLoop{name: fmt.Sprintf("loop%d", i), script: s}
		wg.Add(1)
		go func(sc *c20rLoop, file string) {
			defer wg.Done()
			sc.run(t, file)
		}(scs[i], filepath.Join(dir, fmt.Sprintf("loop_%d.gob", i)))
	}
	wg.Wait()
	var cases, idx []string
	for i, sc := range scs {
		for _, h := range sc.hits {
			res.hit(h)
		}
		res.bump("loop_scenarios")
		res.eval("loop|"+sc.script, true)
		cases = append(cases, " ["+strings.Join(sc.segs, ";\n   ")+"]")
		idx = append(idx, fmt.Sprintf("%d\t%s %s", i, sc.name, sc.script))
	}
	var sb strings.Builder
	sb.WriteString(coqCaseHeader)
	sb.WriteString("From KM Require Import Base.Cases Model.Events.\n")
	sb.WriteString("Definition scenarios : list (list (list (lop * lobs))) := [\n" + strings.Join(cases, ";\n") + "\n].\n")
	sb.WriteString("Definition c20l_mismatches := Eval vm_compute in mismatches (fun segs => negb (lcheck_segs None 0%Z segs)) scenarios.\nPrint c20l_mismatches.\n")
	sb.WriteString("Definition c20l_ncases := Eval vm_compute in length scenarios.\nPrint c20l_ncases.\n")
	ioutil.WriteFile(filepath.Join(verifOut(), "CasesC20L.v"), []byte(sb.String()), 0644)
	ioutil.WriteFile(filepath.Join(verifOut(), "CasesC20L.idx"), []byte(strings.Join(idx, "\n")+"\n"), 0644)
}

// ---------------------------------------------------------------- New() on a history file whose stamps are ahead of the clock
//
// The production start-up path (New -> loadEvents -> eventLoop -> history request) on a history file
// written by saveEvents whose entries are stamped relative to the clock of the starting process:
// ahead of it by seconds .. more than the retention (a file from a host whose clock is ahead, or the
// clock was stepped back before the restart), mixed with recent entries and entries older than the
// retention, in and out of creation order.  Offsets keep 60 s away from the retention boundary and
// 5 s away from the clock so that the second that may pass during New() decides nothing.

var c20rFutureFiles = [][][]int64{ // per file: per user: offsets to the clock, newest first
	{{5, -10}},
	{{90, 30, -3600}},
	{{-100, 7200, -32 * c20rDay}},
	{{2 * c20rDay, -c20rDay, -40 * c20rDay}, {-5, -6}},
	{{40 * c20rDay, 32 * c20rDay, -60}},
	{{-3600, -7200}, {3600, 600, 7}},
	{{-33 * c20rDay, 12 * 3600, -35 * c20rDay, -30 * c20rDay, 8}},
	{{-60, -30 * c20rDay}, {-32 * c20rDay}},
}

func c20rFutureStarts(t *testing.T, res *verifResult, dir string) {
	files := append([][][]int64(nil), c20rFutureFiles...)
	if verifThorough() {
		rng := verifRand()
		pool := []int64{5, 61, 3600, 86400, 3 * c20rDay, 30 * c20rDay, 32 * c20rDay, 45 * c20rDay}
		for i := 0; i < 60; i++ {
			var f [][]int64
			for u := 0; u < 1+rng.Intn(3); u++ {
				var l []int64
				for j := 0; j < 1+rng.Intn(6); j++ {
					o := pool[rng.Intn(len(pool))] + rng.Int63n(50)
					if rng.Intn(2) == 0 {
						o = -o
					}
					l = append(l, o)
				}
				f = append(f, l)
			}
			files = append(files, f)
		}
	}
	users := []string{"alice", "bob", "carol-with-a-longer-name"}
	var cases, idx []string
	for fi, offs := range files {
		file := filepath.Join(dir, fmt.Sprintf("future_%d.gob", fi))
		var t0 int64
		var m, got EventsMap
		done := false
		for try := 0; try < 4 && !done; try++ {
			t0 = time.Now().Unix()
			m = EventsMap{}
			k := 0
			for ui, l := range offs {
				evs := []EventType{}
				for _, o := range l {
					e := EventType{CreateTime: uint64(t0 + o), AuthType: uint(2000 + k)}
					if k%3 == 1 {
						e = EventType{CreateTime: uint64(t0 + o), WebLogin: true}
					}
					evs = append(evs, e)
					k++
				}
				m[users[ui]] = evs
			}
			if err := saveEvents(file, m); err != nil {
				t.Fatal(err)
			}
			sr, err := New(file, testlogger.New(t))
			if err != nil {
				res.hit(verifHit{Key: "C20:harness:eventloop", Oracle: "harness", Kind: "history", What: fmt.Sprintf("New() on a history file just saved: %v", err)})
				return
			}
			var ok bool
			got, ok = c20rRequest(sr)
			if !ok {
				res.hit(verifHit{Key: "C20:harness:eventloop", Oracle: "harness", Kind: "history", What: "the started recorder does not answer a history request"})
				return
			}
			done = time.Now().Unix() == t0
		}
		if !done {
			res.bump("discarded_clock_tick")
			continue
		}
		desc := []string{}
		future := 0
		for ui := range offs {
			u := users[ui]
			desc = append(desc, fmt.Sprintf("%s %v", u, c20rOffsets(m[u], t0)))
			want := c20rFresh(m[u], uint64(t0-c20Retention))
			lost, nf := c20rFutureLost(m[u], got[u], t0)
			future += nf
			if len(lost) > 0 {
				res.hit(verifHit{Key: "C20:history-lost:event-from-future:reload", Kind: "history",
					Oracle: "an entry stamped later than the recorder's clock (so not older than the retention) is gone after a save and restart",
					What: fmt.Sprintf("step: start through New() on a saved history file; user %s: entries in the file as offsets to the clock of the starting process, newest first %v; history after the start %v; lost %v",
						u, c20rOffsets(m[u], t0), c20rOffsets(got[u], t0), c20rOffsets(lost, t0)),
					Case:     map[string]interface{}{"file": fi, "step": "restart through New()", "user": u, "offsets_in_file": c20rOffsets(m[u], t0)},
					Observed: c20rOffsets(got[u], t0)})
			}
			if !c20rSame(want, got[u]) {
				key, what := "C20:reload-lost", "a save and restart loses young entries or keeps old ones"
				if len(want) == len(got[u]) {
					key, what = "C20:reload-order", "a save and restart changes the order of a user's history"
				}
				res.hit(verifHit{Key: key, Oracle: what, Kind: "history",
					What:     fmt.Sprintf("start through New(); user %s: entries in the file as offsets to the clock %v, history after the start %v", u, c20rOffsets(m[u], t0), c20rOffsets(got[u], t0)),
					Case:     map[string]interface{}{"file": fi, "step": "restart through New()", "user": u, "offsets_in_file": c20rOffsets(m[u], t0)},
					Observed: c20rOffsets(got[u], t0)})
			}
		}
		if len(got) != len(m) {
			res.hit(verifHit{Key: "C20:reload-users", Oracle: "a save and restart changes the set of users", Kind: "history",
				What: fmt.Sprintf("start through New(): %d users in the file, %d after", len(m), len(got)), Case: map[string]interface{}{"file": fi}})
		}
		coqMap := func(em EventsMap) string {
			var us []string
			for u := range em {
				us = append(us, u)
			}
			sort.Strings(us)
			var parts []string
			for _, u := range us {
				var evs []string
				for _, e := range em[u] {
					evs = append(evs, "("+c20rCoqEv(e, -t0)+")")
				}
				parts = append(parts, fmt.Sprintf("(%s, [%s])", coqPacked([]byte(u)), strings.Join(evs, "; ")))
			}
			return "[" + strings.Join(parts, "; ") + "]"
		}
		// virtual time: the clock of the starting process reads 0
		cases = append(cases, fmt.Sprintf(" (%s,\n  %s)", coqMap(m), coqMap(got)))
		idx = append(idx, fmt.Sprintf("%d\tstart through New() on a saved file, offsets to the clock (newest first): %s", len(idx), strings.Join(desc, "; ")))
		res.bump("starts_on_file_with_entries_from_future")
		res.eval(fmt.Sprintf("start|%d|future=%v", len(offs), future > 0), true)
	}
	var sb strings.Builder
	sb.WriteString(coqCaseHeader)
	sb.WriteString("From KM Require Import Base.Cases Model.Events Model.EventsClock.\n")
	sb.WriteString("(* (history file, history answered after New()); creation times relative to the clock of the starting process *)\n")
	sb.WriteString("Definition starts : list (rstate * list (bs * list ev)) := [\n" + strings.Join(cases, ";\n") + "\n].\n")
	sb.WriteString("Definition start_ok (c : rstate * list (bs * list ev)) : bool := dump_matches (snd c) (snd (l_get (l_start 0%Z (Some (fst c))))).\n")
	sb.WriteString("Definition c20t_mismatches := Eval vm_compute in mismatches (fun c => negb (start_ok c)) starts.\nPrint c20t_mismatches.\n")
	sb.WriteString("Definition c20t_violating := Eval vm_compute in mismatches (fun c => negb (start_ok c) && future_lost 0%Z (fst c) (snd c)) starts.\nPrint c20t_violating.\n")
	sb.WriteString("Definition c20t_ncases := Eval vm_compute in length starts.\nPrint c20t_ncases.\n")
	ioutil.WriteFile(filepath.Join(verifOut(), "CasesC20T.v"), []byte(sb.String()), 0644)
	ioutil.WriteFile(filepath.Join(verifOut(), "CasesC20T.idx"), []byte(strings.Join(idx, "\n")+"\n"), 0644)
}
