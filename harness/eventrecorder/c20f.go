package eventrecorder

// C20 (history persists — crash points and failed saves): the save path of the recorder
// (saveEvents over fsutil.CreateRenamingWriter: open "<file>~", gob through bufio, flush, fsync,
// close, rename onto <file>, remove "<file>~") is run for real with a fault injected into one file
// operation, or paced through a FIFO so that the directory can be captured at the observable steps
// of a save ("crash images"); then the recorder is restarted through the public New() on what is
// on disk.  Oracle: with a previous generation on disk the restarted recorder answers with the
// previous generation or with the new one — never with an empty or other history, never refusing
// to start.  The same cases go to Coq, where the model's save with the same crash / fault index
// predicts what the restart loads.
//
// Start-up (second part): New() on a directory with leftovers next to a good history file (a
// "<file>~" that is empty / a prefix / a complete other generation / other bytes, files with other
// suffixes), and on a history file that is itself empty / truncated / other bytes.
//
// Fault injection needs no hook in the code: the temporary name is pre-planted as a symlink to
// /dev/full (write errors) or /dev/null (fsync fails with EINVAL), as a directory (open fails), as
// a FIFO (the harness is the reader: it decides how far the writer gets); a 255-byte file name
// makes the temporary name too long.  A read-only directory does not bind root: skipped and counted.

import (
	"bytes"
	"crypto/sha1"
	"fmt"
	"io"
	"io/ioutil"
	"os"
	"path/filepath"
	"sort"
	"strings"
	"sync"
	"syscall"
	"testing"
	"time"

	"github.com/Cloud-Foundations/golib/pkg/log/testlogger"
)

// one generation of the history, recognisable by its tag; big ones do not fit bufio's buffer nor a
// pipe's (so that writes really happen before the flush, and a FIFO writer really waits)
func c20fGen(tag int, big bool) EventsMap {
	now := uint64(time.Now().Unix())
	n := 3
	if big {
		n = 1500
	}
	m := EventsMap{}
	for _, u := range []string{"alice", "bob"} {
		var l []EventType
		for i := n; i > 0; i-- { // newest first
			l = append(l, EventType{AuthType: uint(tag*100000 + i), CreateTime: now - uint64(n-i), ServiceProviderUrl: fmt.Sprintf("https://sp%d.example/callback/%s/%06d", tag, u, i)})
		}
		m[u] = l
	}
	return m
}

func c20fSameMap(a, b EventsMap) bool {
	if len(a) != len(b) {
		return false
	}
	for u, l := range a {
		if !c20rSame(l, b[u]) {
			return false
		}
	}
	return true
}

func c20fDescribe(m EventsMap) string {
	var users []string
	for u := range m {
		users = append(users, u)
	}
	sort.Strings(users)
	var parts []string
	for _, u := range users {
		first := ""
		if len(m[u]) > 0 {
			first = fmt.Sprintf(" newest AuthType=%d", m[u][0].AuthType)
		}
		parts = append(parts, fmt.Sprintf("%s:%d events%s", u, len(m[u]), first))
	}
	return "{" + strings.Join(parts, ", ") + "}"
}

var c20fClassNames = []string{"previous generation", "new generation", "empty history (started as on a first start)", "New() refused to start", "some other history"}

// restart on `file` through New(): 0 previous generation, 1 new generation, 2 empty, 3 refused, 4 other; -1 = not a case
func c20fRestart(t *testing.T, file string, prev, next EventsMap) (int, string) {
	if st, err := os.Lstat(file); err == nil && !st.Mode().IsRegular() {
		return -1, "the history name is not a regular file"
	}
	sr, err := New(file, testlogger.New(t))
	if err != nil {
		return 3, err.Error()
	}
	m, ok := c20rRequest(sr)
	if !ok {
		return -1, "the restarted recorder does not answer"
	}
	switch {
	case len(m) == 0:
		return 2, "{}"
	case prev != nil && c20fSameMap(m, prev):
		return 0, c20fDescribe(m)
	case next != nil && c20fSameMap(m, next):
		return 1, c20fDescribe(m)
	}
	return 4, c20fDescribe(m)
}

type c20fCases struct {
	t     *testing.T
	res   *verifResult
	root  string
	n     int
	cases []string
	idx   []string
}

func (c *c20fCases) newDir() string {
	c.n++
	d := filepath.Join(c.root, fmt.Sprintf("f%d", c.n))
	if err := os.MkdirAll(d, 0755); err != nil {
		c.t.Fatal(err)
	}
	return d
}

// record one restart observation: Go oracle, Coq case
func (c *c20fCases) observe(point string, had bool, stop string, class int, detail string, prev, next EventsMap) {
	if class < 0 {
		c.res.bump("discarded:" + point + ":" + detail)
		return
	}
	cs := map[string]interface{}{"point": point, "previous_generation_on_disk": had, "observed": c20fClassNames[class], "detail": detail}
	if prev != nil {
		cs["previous_generation"] = c20fDescribe(prev)
	}
	if next != nil {
		cs["generation_being_saved"] = c20fDescribe(next)
	}
	ok := class == 1 || (had && class == 0) || (!had && class == 2)
	if !ok {
		key, oracle := "C20:history-lost:"+point, "after a save that was interrupted or failed at any step a restart comes back with the previous generation of the history or with the new one"
		if !had {
			key, oracle = "C20:start-refused:"+point, "after a first save that was interrupted or failed a restart starts empty or with the saved generation"
		}
		c.res.hit(verifHit{Key: key, Oracle: oracle, Kind: "history",
			What: fmt.Sprintf("%s: a previous generation was on disk: %v; after the restart the recorder has: %s (%s)", point, had, c20fClassNames[class], detail), Case: cs, Observed: c20fClassNames[class]})
	}
	c.res.bump("save_point:" + point)
	c.res.eval(fmt.Sprintf("save|%s|%v|%d", point, had, class), true)
	c.cases = append(c.cases, fmt.Sprintf(" (%s, %s, %d%%N)", coqBool(had), stop, class))
	c.idx = append(c.idx, fmt.Sprintf("%d\t%s (previous generation on disk: %v; model stop: %s): restart -> %s", len(c.idx), point, had, stop, c20fClassNames[class]))
}

// a directory with (optionally) the previous generation saved normally
func (c *c20fCases) prepare(name string, prev EventsMap) string {
	file := filepath.Join(c.newDir(), name)
	if prev != nil {
		if err := saveEvents(file, prev); err != nil {
			c.t.Fatal(err)
		}
		// RenamingWriter's fsync is skipped while another one is "recent": let it settle so that
		// the injected fsync fault is really reached
		time.Sleep(30 * time.Millisecond)
	}
	return file
}

func c20fCopyImage(t *testing.T, dst string, live []byte, haveLive bool, temp []byte, haveTemp bool, name string) string {
	file := filepath.Join(dst, name)
	if haveLive {
		if err := ioutil.WriteFile(file, live, 0644); err != nil {
			t.Fatal(err)
		}
	}
	if haveTemp {
		if err := ioutil.WriteFile(file+"~", temp, 0644); err != nil {
			t.Fatal(err)
		}
	}
	return file
}

func c20rFaults(t *testing.T, res *verifResult, root string) {
	c := &c20fCases{t: t, res: res, root: filepath.Join(root, "faults")}
	const name = "events.gob"
	gens := func(big bool) (EventsMap, EventsMap) { return c20fGen(1, big), c20fGen(2, big) }

	for _, had := range []bool{true, false} {
		prevOf := func(p EventsMap) EventsMap {
			if had {
				return p
			}
			return nil
		}
		// ---- a save that completes
		{
			prev, next := gens(false)
			file := c.prepare(name, prevOf(prev))
			if err := saveEvents(file, next); err != nil {
				t.Fatal(err)
			}
			class, detail := c20fRestart(t, file, prevOf(prev), next)
			c.observe("completed", had, "Some Completes", class, detail, prevOf(prev), next)
		}
		// ---- open fails: the temporary name is a directory
		{
			prev, next := gens(false)
			file := c.prepare(name, prevOf(prev))
			os.Mkdir(file+"~", 0755)
			err := saveEvents(file, next)
			os.Remove(file + "~")
			if err == nil {
				res.bump("discarded:open-dir:no-error")
			} else {
				class, detail := c20fRestart(t, file, prevOf(prev), next)
				c.observe("after-failed-save:open", had, "Some (FaultAt 0)", class, detail, prevOf(prev), next)
			}
		}
		// ---- open fails: the temporary name is too long
		{
			prev, next := gens(false)
			long := strings.Repeat("e", 255-len(".gob")) + ".gob"
			d := c.newDir()
			file := filepath.Join(d, long)
			usable := true
			if had {
				// the renaming writer cannot create this file either: write it through a short name
				if err := saveEvents(filepath.Join(d, "short"), prev); err != nil {
					t.Fatal(err)
				}
				if err := os.Rename(filepath.Join(d, "short"), file); err != nil {
					usable = false
					res.bump("skipped:long-name")
				}
			}
			if usable {
				if err := saveEvents(file, next); err == nil {
					res.bump("discarded:open-long-name:no-error")
				} else {
					class, detail := c20fRestart(t, file, prevOf(prev), next)
					c.observe("after-failed-save:open-long-name", had, "Some (FaultAt 0)", class, detail, prevOf(prev), next)
				}
			}
		}
		// ---- open fails: read-only directory (does not bind root)
		if os.Geteuid() == 0 {
			res.bump("skipped:readonly-directory:running-as-root")
		} else {
			prev, next := gens(false)
			file := c.prepare(name, prevOf(prev))
			os.Chmod(filepath.Dir(file), 0555)
			err := saveEvents(file, next)
			os.Chmod(filepath.Dir(file), 0755)
			if err == nil {
				res.bump("discarded:open-readonly-dir:no-error")
			} else {
				class, detail := c20fRestart(t, file, prevOf(prev), next)
				c.observe("after-failed-save:open-readonly-dir", had, "Some (FaultAt 0)", class, detail, prevOf(prev), next)
			}
		}
		// ---- write errors: the temporary name leads to /dev/full
		if st, err := os.Stat("/dev/full"); err != nil || st.Mode()&os.ModeCharDevice == 0 {
			res.bump("skipped:dev-full-not-available")
		} else {
			for _, big := range []bool{true, false} {
				prev, next := gens(big)
				file := c.prepare(name, prevOf(prev))
				if err := os.Symlink("/dev/full", file+"~"); err != nil {
					t.Fatal(err)
				}
				saveEvents(file, next) // the error surfaces in Encode (big) or only in the deferred Flush (small)
				point, stop := "after-failed-save:write", "Some (FaultAt 1)"
				if !big {
					point, stop = "after-failed-save:flush", "Some (FaultAt 2)"
				}
				class, detail := c20fRestart(t, file, prevOf(prev), next)
				os.Remove(file + "~")
				c.observe(point, had, stop, class, detail, prevOf(prev), next)
			}
		}
		// ---- fsync fails: the temporary name leads to /dev/null (EINVAL).  fsutil skips the fsync
		// while another one is "recent" (then nothing fails and the planted link is renamed into
		// place: not a case) — wait longer and try again
		for attempt, wait := range []time.Duration{30, 120, 400, 1200} {
			prev, next := gens(false)
			file := c.prepare(name, prevOf(prev))
			time.Sleep(wait * time.Millisecond)
			if err := os.Symlink("/dev/null", file+"~"); err != nil {
				t.Fatal(err)
			}
			saveEvents(file, next)
			if st, err := os.Lstat(file); err == nil && st.Mode()&os.ModeSymlink != 0 {
				res.bump("discarded:fsync-skipped")
				_ = attempt
				continue
			}
			class, detail := c20fRestart(t, file, prevOf(prev), next)
			c.observe("after-failed-save:fsync", had, "Some (FaultAt 3)", class, detail, prevOf(prev), next)
			// the next save works again
			os.Remove(file + "~")
			if err := saveEvents(file, next); err != nil {
				t.Fatal(err)
			}
			class, detail = c20fRestart(t, file, prevOf(prev), next)
			c.observe("completed-after-failed-save", had, "Some Completes", class, detail, prevOf(prev), next)
			break
		}
		// ---- the writer paced through a FIFO: crash images at the observable steps, a reader that
		// goes away, and the fsync failing on the FIFO at the end
		for _, readerGoesAway := range []bool{false, true} {
			prev, next := gens(true)
			file := c.prepare(name, prevOf(prev))
			scratch := filepath.Join(c.newDir(), "size")
			if err := saveEvents(scratch, next); err != nil {
				t.Fatal(err)
			}
			st, err := os.Stat(scratch)
			if err != nil {
				t.Fatal(err)
			}
			size := int(st.Size())
			if err := syscall.Mkfifo(file+"~", 0600); err != nil {
				res.bump("skipped:fifo-not-available")
				break
			}
			done := make(chan error, 1)
			go func() { done <- saveEvents(file, next) }()
			time.Sleep(50 * time.Millisecond) // the writer is waiting in open()
			live, liveErr := ioutil.ReadFile(file)
			image := func(point, stop string, temp []byte) {
				f := c20fCopyImage(t, c.newDir(), live, liveErr == nil, temp, true, name)
				class, detail := c20fRestart(t, f, prevOf(prev), next)
				c.observe(point, had, stop, class, detail, prevOf(prev), next)
			}
			if !readerGoesAway {
				image("crash:temp-created", "Some (CrashAt 1)", nil)
			}
			rd, err := os.OpenFile(file+"~", os.O_RDONLY, 0)
			if err != nil {
				t.Fatal(err)
			}
			half := make([]byte, size/2)
			if _, err := io.ReadFull(rd, half); err != nil {
				res.bump("discarded:fifo-short-read")
				rd.Close()
				<-done
				continue
			}
			// the live file while the writer is in the middle of the document
			live, liveErr = ioutil.ReadFile(file)
			if readerGoesAway {
				rd.Close()
			} else {
				image("crash:temp-partial", "Some (CrashAt 2)", half)
				// exactly the rest of the document, not "until end of file": when the fsync fails
				// RenamingWriter.close returns without closing its descriptor, so the end of file
				// arrives only when the garbage collector finalises it (minutes)
				rest := make([]byte, size-len(half))
				rd.SetReadDeadline(time.Now().Add(5 * time.Second))
				nRest, _ := io.ReadFull(rd, rest)
				rd.Close()
				whole := append(append([]byte(nil), half...), rest[:nRest]...)
				if len(whole) == size {
					image("crash:temp-complete", "Some (CrashAt 3)", whole)
				} else {
					res.bump("discarded:fifo-incomplete-document")
				}
			}
			select {
			case <-done:
			case <-time.After(10 * time.Second):
				res.hit(verifHit{Key: "C20:harness:save-stuck", Oracle: "harness", What: "saveEvents does not return after its FIFO reader has finished"})
				return
			}
			class, detail := c20fRestart(t, file, prevOf(prev), next)
			if class == -1 {
				os.Remove(file)
			}
			if readerGoesAway {
				c.observe("after-failed-save:write-reader-gone", had, "Some (FaultAt 1)", class, detail, prevOf(prev), next)
			} else {
				c.observe("after-failed-save:fsync-fifo", had, "Some (FaultAt 3)", class, detail, prevOf(prev), next)
			}
		}
	}

	// ---- some instant of a complete save: the live name is read over and over while generations
	// are saved one after the other; every read must be one whole generation
	{
		rounds := 24
		if verifThorough() {
			rounds = 300
		}
		prev, next := c20fGen(1, true), c20fGen(2, true)
		file := c.prepare(name, prev)
		var mu sync.Mutex
		seen := map[[20]byte][]byte{}
		missing, reads := 0, 0
		stop := make(chan struct{})
		var wg sync.WaitGroup
		for p := 0; p < 3; p++ {
			wg.Add(1)
			go func() {
				defer wg.Done()
				for {
					select {
					case <-stop:
						return
					default:
					}
					b, err := ioutil.ReadFile(file)
					mu.Lock()
					reads++
					if err != nil {
						if os.IsNotExist(err) {
							missing++
						}
					} else {
						h := sha1.Sum(b)
						if _, ok := seen[h]; !ok && len(seen) < 40 {
							seen[h] = b
						}
					}
					mu.Unlock()
				}
			}()
		}
		for r := 0; r < rounds; r++ {
			g := next
			if r%2 == 1 {
				g = prev
			}
			if err := saveEvents(file, g); err != nil {
				t.Fatal(err)
			}
		}
		close(stop)
		wg.Wait()
		res.Extra["polled_reads_of_the_live_file"] = reads
		res.Extra["polled_distinct_contents"] = len(seen)
		if missing > 0 {
			f := c20fCopyImage(t, c.newDir(), nil, false, nil, false, name)
			class, detail := c20fRestart(t, f, prev, next)
			c.observe("crash:polled", true, "None", class, fmt.Sprintf("%d of %d reads during %d saves found no history file; %s", missing, reads, rounds, detail), prev, next)
		}
		var hs []string
		for h := range seen {
			hs = append(hs, string(h[:]))
		}
		sort.Strings(hs)
		for _, h := range hs {
			var k [20]byte
			copy(k[:], h)
			f := c20fCopyImage(t, c.newDir(), seen[k], true, nil, false, name)
			class, detail := c20fRestart(t, f, prev, next)
			c.observe("crash:polled", true, "None", class, detail, prev, next)
		}
	}

	ucases, uidx := c20rStartups(t, res, c)

	var sb strings.Builder
	sb.WriteString(coqCaseHeader)
	sb.WriteString("From KM Require Import Base.Cases Model.Events.\n")
	sb.WriteString("(* (a previous generation was on disk, how the save ended (None: some instant of a save that completes), what the restart came back with: 0 previous generation, 1 new generation, 2 empty, 3 refused, 4 other) *)\n")
	sb.WriteString("Definition save_cases : list (bool * option stop * N) := [\n" + strings.Join(c.cases, ";\n") + "\n].\n")
	sb.WriteString("Definition c20f_mismatches := Eval vm_compute in mismatches (fun c => negb (save_case_ok c)) save_cases.\nPrint c20f_mismatches.\n")
	sb.WriteString("(* mismatching cases whose OBSERVATION violates the property: the restart did not come back with the previous or the new generation *)\n")
	sb.WriteString("Definition c20f_violating := Eval vm_compute in mismatches (fun c => negb (save_case_ok c) && save_obs_violates c) save_cases.\nPrint c20f_violating.\n")
	sb.WriteString("Definition c20f_ncases := Eval vm_compute in length save_cases.\nPrint c20f_ncases.\n")
	sb.WriteString("(* start-up: the files in the directory as (name: 0 the history file, 1 its temporary name, k another suffix; content: 0 the good generation, 1 another complete generation, 2 something the decoder rejects), what New() came back with *)\n")
	sb.WriteString("Definition startup_cases : list (list (N * N) * N) := [\n" + strings.Join(ucases, ";\n") + "\n].\n")
	sb.WriteString("Definition c20u_mismatches := Eval vm_compute in mismatches (fun c => negb (startup_case_ok c)) startup_cases.\nPrint c20u_mismatches.\n")
	sb.WriteString("Definition c20u_violating := Eval vm_compute in mismatches (fun c => negb (startup_case_ok c) && startup_obs_violates c) startup_cases.\nPrint c20u_violating.\n")
	sb.WriteString("Definition c20u_ncases := Eval vm_compute in length startup_cases.\nPrint c20u_ncases.\n")
	ioutil.WriteFile(filepath.Join(verifOut(), "CasesC20U.idx"), []byte(strings.Join(uidx, "\n")+"\n"), 0644)
	ioutil.WriteFile(filepath.Join(verifOut(), "CasesC20F.v"), []byte(sb.String()), 0644)
	ioutil.WriteFile(filepath.Join(verifOut(), "CasesC20F.idx"), []byte(strings.Join(c.idx, "\n")+"\n"), 0644)
}

// ---------------------------------------------------------------- start-up next to leftovers, and on a damaged file

type c20uFile struct {
	name    int    // 0 the history file, 1 "<file>~", k>=2 another suffix
	content int    // 0 good generation, 1 another complete generation, 2 rejected by the decoder
	variant string // for content 2: empty / prefix / bytes
}

var c20uSuffix = map[int]string{0: "", 1: "~", 2: ".old", 3: ".tmp", 4: ".new", 5: ".gob~", 6: "~~"}

func c20rStartups(t *testing.T, res *verifResult, c *c20fCases) (cases, idx []string) {
	good, other := c20fGen(1, false), c20fGen(2, false)
	bytesOf := func(m EventsMap) []byte {
		f := filepath.Join(c.newDir(), "g")
		if err := saveEvents(f, m); err != nil {
			t.Fatal(err)
		}
		b, err := ioutil.ReadFile(f)
		if err != nil {
			t.Fatal(err)
		}
		return b
	}
	goodBytes, otherBytes := bytesOf(good), bytesOf(other)
	content := func(f c20uFile) []byte {
		switch {
		case f.content == 0:
			return goodBytes
		case f.content == 1:
			return otherBytes
		case f.variant == "empty":
			return nil
		case f.variant == "prefix":
			src := otherBytes
			if f.name == 0 {
				src = goodBytes
			}
			return src[:len(src)/2]
		case f.variant == "all-but-last-byte":
			return goodBytes[:len(goodBytes)-1]
		}
		return []byte("this is not a history file\n\x00\x01\x02 but somebody left it here")
	}
	scenarios := [][]c20uFile{
		// leftovers next to a good file
		{{0, 0, ""}, {1, 2, "empty"}},
		{{0, 0, ""}, {1, 2, "prefix"}},
		{{0, 0, ""}, {1, 2, "bytes"}},
		{{0, 0, ""}, {1, 1, ""}},
		{{0, 0, ""}, {2, 1, ""}},
		{{0, 0, ""}, {3, 1, ""}},
		{{0, 0, ""}, {4, 2, "prefix"}},
		{{0, 0, ""}, {5, 1, ""}},
		{{0, 0, ""}, {6, 2, "empty"}},
		{{0, 0, ""}, {1, 1, ""}, {2, 1, ""}, {3, 2, "bytes"}},
		{{0, 0, ""}},
		// no history file: nothing else may be picked up
		{},
		{{1, 1, ""}},
		{{1, 2, "prefix"}, {2, 1, ""}},
		// a damaged history file (outside the statement; recorded)
		{{0, 2, "empty"}},
		{{0, 2, "prefix"}},
		{{0, 2, "all-but-last-byte"}},
		{{0, 2, "bytes"}},
		{{0, 2, "prefix"}, {1, 0, ""}},
	}
	for _, sc := range scenarios {
		d := c.newDir()
		file := filepath.Join(d, "events.gob")
		hasGood, onlyTemp := false, true
		var coq, desc []string
		for _, f := range sc {
			if err := ioutil.WriteFile(file+c20uSuffix[f.name], content(f), 0644); err != nil {
				t.Fatal(err)
			}
			if f.name == 0 && f.content == 0 {
				hasGood = true
			}
			if f.name > 1 {
				onlyTemp = false
			}
			coq = append(coq, fmt.Sprintf("(%d%%N, %d%%N)", f.name, f.content))
			what := []string{"good generation", "another complete generation", "rejected by the decoder: " + f.variant}[f.content]
			desc = append(desc, fmt.Sprintf("events.gob%s = %s", c20uSuffix[f.name], what))
		}
		class, detail := c20fRestart(t, file, good, other)
		if class < 0 {
			res.bump("discarded:startup:" + detail)
			continue
		}
		if hasGood && class != 0 {
			key := "C20:history-lost:leftover-other"
			if onlyTemp {
				key = "C20:history-lost:leftover-temp"
			}
			res.hit(verifHit{Key: key, Oracle: "a start on a good history file comes back with that history whatever else lies next to it", Kind: "history",
				What: fmt.Sprintf("directory: %s; New() came back with: %s (%s)", strings.Join(desc, "; "), c20fClassNames[class], detail),
				Case: map[string]interface{}{"directory": desc}, Observed: c20fClassNames[class]})
		}
		res.bump(fmt.Sprintf("startup_class_%d", class))
		res.eval(fmt.Sprintf("startup|%s|%d", strings.Join(coq, ""), class), len(sc) > 1)
		cases = append(cases, fmt.Sprintf(" ([%s], %d%%N)", strings.Join(coq, "; "), class))
		idx = append(idx, fmt.Sprintf("%d\tdirectory {%s}: New() -> %s", len(idx), strings.Join(desc, "; "), c20fClassNames[class]))
	}
	return cases, idx
}

var _ = bytes.Equal
