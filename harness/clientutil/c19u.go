package util

// C19 (key files): the library's key-pair writer (GenKeyPair -> writeSSHKeyPairToFile) run
// repeatedly into one directory, over nothing / an existing file of mode 0600, 0644, 0400 / a symlink
// to such a file / its own earlier output, under umask 022 and 077.  After EVERY generation the
// private-key file is stat'ed: it must not be readable or writable by group or others.  The mode is
// also compared with Model/Client.v (write_private).

import (
	"crypto"
	"crypto/ecdsa"
	"crypto/ed25519"
	"crypto/elliptic"
	"crypto/rand"
	"fmt"
	"io/ioutil"
	"os"
	"path/filepath"
	"strings"
	"syscall"
	"testing"

	"github.com/Cloud-Foundations/golib/pkg/log/testlogger"
)

type c19uSituation struct {
	name     string
	existing int // mode of the file that is already there, -1: none
	symlink  bool
}

func TestVerif_C19U(t *testing.T) {
	res := newVerifResult("key pairs written by the client library (writeSSHKeyPairToFile with P-256 / Ed25519 keys, GenKeyPair itself once per umask) into one directory: no file yet / an existing file of mode 0600, 0644, 0640, 0400, 0666 / a symlink to such a file / regenerated twice over its own output, under umask 022, 077 and 000; the private-key file is stat'ed after every generation; non-trivial = a file was already there")
	logger := testlogger.New(t)
	dir, err := ioutil.TempDir("", "verif_c19u")
	if err != nil {
		t.Fatal(err)
	}
	defer os.RemoveAll(dir)
	oldMask := syscall.Umask(0)
	defer syscall.Umask(oldMask)
	situations := []c19uSituation{{"fresh", -1, false}}
	for _, m := range []int{0600, 0644, 0640, 0400, 0666} {
		situations = append(situations, c19uSituation{fmt.Sprintf("existing-%04o", m), m, false})
	}
	situations = append(situations, c19uSituation{"symlink-to-0644", 0644, true}, c19uSituation{"symlink-to-0600", 0600, true})
	mkKey := func(i int) crypto.Signer {
		if i%2 == 0 {
			k, _ := ecdsa.GenerateKey(elliptic.P256(), rand.Reader)
			return k
		}
		_, k, _ := ed25519.GenerateKey(rand.Reader)
		return k
	}
	var cases, idx []string
	n := 0
	for _, umask := range []int{022, 077, 0} {
		for si, sit := range situations {
			n++
			sub := filepath.Join(dir, fmt.Sprintf("u%03o_%d", umask, si))
			os.MkdirAll(sub, 0700)
			path := filepath.Join(sub, "id_key")
			target := path
			syscall.Umask(0)
			if sit.symlink {
				target = filepath.Join(sub, "elsewhere")
				if err := os.Symlink(target, path); err != nil {
					t.Fatal(err)
				}
			}
			if sit.existing >= 0 {
				if err := ioutil.WriteFile(target, []byte("an older key\n"), os.FileMode(sit.existing)); err != nil {
					t.Fatal(err)
				}
				os.Chmod(target, os.FileMode(sit.existing))
			}
			syscall.Umask(umask)
			// three generations in a row into the same place: the second and third find the first one's output
			existing := sit.existing
			for gen := 0; gen < 3; gen++ {
				var werr error
				if gen == 2 && si == 0 {
					_, _, werr = GenKeyPair(path, "verif@c19", logger)
				} else {
					_, werr = writeSSHKeyPairToFile(path, "verif@c19", mkKey(n+gen), logger)
				}
				fi, serr := os.Stat(target)
				name := sit.name
				if gen > 0 {
					name = "regenerated-over-" + sit.name
				}
				cs := map[string]interface{}{"situation": sit.name, "umask": fmt.Sprintf("%03o", umask), "generation": gen, "existing_mode": fmt.Sprintf("%o", existing)}
				if serr != nil || werr != nil {
					// as root every write goes through; a refusal is not a violation of this property
					res.bump("write-refused:" + name)
					res.eval(fmt.Sprintf("%s|%03o|%d|refused", sit.name, umask, gen), false)
					continue
				}
				mode := int(fi.Mode().Perm())
				b, _ := ioutil.ReadFile(target)
				private := strings.Contains(string(b), "PRIVATE KEY")
				res.eval(fmt.Sprintf("%s|%03o|%d|%o", sit.name, umask, gen, mode), existing >= 0)
				res.bump("situation:" + name)
				if !private {
					res.hit(verifHit{Key: "C19:harness:no-key-written:" + name, Oracle: "harness", What: "no private key in the file after the generation", Case: cs})
				}
				if mode&0077 != 0 {
					res.hit(verifHit{Key: "C19:private-file-mode:" + name, Oracle: "a private key file is accessible to group or others", Kind: "input",
						What:     fmt.Sprintf("umask %03o, %s (mode before %o), generation %d: the private key file has mode %04o afterwards", umask, sit.name, existing, gen, mode),
						Case:     cs,
						Observed: fmt.Sprintf("%04o", mode)})
				}
				ex := "None"
				if existing >= 0 {
					ex = fmt.Sprintf("(Some %d%%N)", existing)
				}
				cases = append(cases, fmt.Sprintf("(%s, %d%%N, %d%%N)", ex, umask, mode))
				idx = append(idx, fmt.Sprintf("%d\tsituation=%s umask=%03o generation=%d existing=%o observed=%04o", len(idx), sit.name, umask, gen, existing, mode))
				existing = mode
			}
		}
	}
	syscall.Umask(oldMask)
	var sb strings.Builder
	sb.WriteString(coqCaseHeader)
	sb.WriteString("From KM Require Import Base.Cases Model.Client.\n")
	sb.WriteString("(* (mode of the file already there, umask, observed mode of the private key file afterwards) *)\n")
	sb.WriteString("Definition writes : list (option N * N * N) := [\n " + strings.Join(cases, ";\n ") + "\n].\n")
	sb.WriteString("Definition c19u_bad (c : option N * N * N) : bool := let '(ex, um, obs) := c in negb (N.eqb (write_private ex um) obs).\n")
	sb.WriteString("Definition c19u_mismatches := Eval vm_compute in mismatches c19u_bad writes.\nPrint c19u_mismatches.\n")
	// the property predicate on the observation: the observed mode has group/other bits
	sb.WriteString("Definition c19u_violating := Eval vm_compute in mismatches (fun c : option N * N * N => c19u_bad c && negb (N.eqb (others_bits (snd c)) 0)) writes.\nPrint c19u_violating.\n")
	sb.WriteString("Definition c19u_ncases := Eval vm_compute in length writes.\nPrint c19u_ncases.\n")
	if err := ioutil.WriteFile(filepath.Join(verifOut(), "CasesC19U.v"), []byte(sb.String()), 0644); err != nil {
		t.Fatal(err)
	}
	ioutil.WriteFile(filepath.Join(verifOut(), "CasesC19U.idx"), []byte(strings.Join(idx, "\n")+"\n"), 0644)
	if len(idx) > 0 {
		res.sample(idx[0])
	}
	res.write(t, "TestVerif_C19U")
}
