module verif/loopbody

go 1.21
