// loopbody: make the body of a function's endless loop callable.
//
// Reads one Go source file, finds the function (or method) `-func`, takes the first `for`
// statement at the top level of its body (a `for { … }`, `for cond { … }` or `for … range … { … }`),
// and writes a copy of the file that additionally contains
//
//     func (<same receiver>) <-name>() { <parameters as zero-valued locals>; <the statements of the loop body> }
//
// with every top-level statement of the loop body that is a call of time.Sleep left out.  The
// original function is untouched.  The copy is handed to `go test -overlay`, so the harness can
// run exactly one pass of the periodic work of the tree it checks.  Only go/parser + go/ast.
package main

import (
	"flag"
	"fmt"
	"go/ast"
	"go/parser"
	"go/token"
	"os"
	"strings"
)

func isSleep(s ast.Stmt) bool {
	es, ok := s.(*ast.ExprStmt)
	if !ok {
		return false
	}
	call, ok := es.X.(*ast.CallExpr)
	if !ok {
		return false
	}
	sel, ok := call.Fun.(*ast.SelectorExpr)
	if !ok {
		return false
	}
	id, ok := sel.X.(*ast.Ident)
	return ok && id.Name == "time" && sel.Sel.Name == "Sleep"
}

func main() {
	file := flag.String("file", "", "Go source file")
	fn := flag.String("func", "", "function or method name")
	name := flag.String("name", "", "name of the generated one-pass function")
	out := flag.String("out", "", "output file")
	flag.Parse()
	src, err := os.ReadFile(*file)
	if err != nil {
		fmt.Fprintln(os.Stderr, err)
		os.Exit(2)
	}
	fset := token.NewFileSet()
	f, err := parser.ParseFile(fset, *file, src, parser.ParseComments)
	if err != nil {
		fmt.Fprintln(os.Stderr, err)
		os.Exit(2)
	}
	off := func(p token.Pos) int { return fset.Position(p).Offset }
	for _, d := range f.Decls {
		fd, ok := d.(*ast.FuncDecl)
		if !ok || fd.Name.Name != *fn || fd.Body == nil {
			continue
		}
		var body *ast.BlockStmt
		for _, s := range fd.Body.List {
			switch l := s.(type) {
			case *ast.ForStmt:
				body = l.Body
			case *ast.RangeStmt:
				body = l.Body
			}
			if body != nil {
				break
			}
		}
		if body == nil {
			fmt.Fprintf(os.Stderr, "%s has no loop at the top level of its body\n", *fn)
			os.Exit(3)
		}
		var b strings.Builder
		b.Write(src)
		b.WriteString("\n\n// generated at check time from the loop body of " + *fn + " (tools/loopbody)\nfunc ")
		if fd.Recv != nil {
			b.Write(src[off(fd.Recv.Opening) : off(fd.Recv.Closing)+1])
			b.WriteString(" ")
		}
		b.WriteString(*name)
		b.WriteString("() {\n")
		// the parameters of the original become zero-valued locals (the loop body may mention them)
		for _, p := range fd.Type.Params.List {
			for _, n := range p.Names {
				if n.Name == "_" {
					continue
				}
				b.WriteString("\tvar " + n.Name + " ")
				b.Write(src[off(p.Type.Pos()):off(p.Type.End())])
				b.WriteString("\n\t_ = " + n.Name + "\n")
			}
		}
		kept, dropped := 0, 0
		for _, s := range body.List {
			if isSleep(s) {
				dropped++
				continue
			}
			b.WriteString("\t")
			b.Write(src[off(s.Pos()):off(s.End())])
			b.WriteString("\n")
			kept++
		}
		b.WriteString("}\n")
		if err := os.WriteFile(*out, []byte(b.String()), 0644); err != nil {
			fmt.Fprintln(os.Stderr, err)
			os.Exit(2)
		}
		fmt.Printf("statements=%d sleeps_dropped=%d\n", kept, dropped)
		return
	}
	fmt.Fprintf(os.Stderr, "function %s not found in %s\n", *fn, *file)
	os.Exit(3)
}
