package main

// C16: writes to the fields of RuntimeState that are (also) written after start-up, with the lock
// state at the write.  The four request-shared maps have their own table (locks.go); this one is
// about everything else a request or the unseal path assigns while other requests are served
// (Signer, Ed25519Signer, KeymasterPublicKeys, caCertDer, ...).
//
//   columns: (function, field, kind, class, mutex)
//   kind:    write | write-elem | incdec
//   class:   locked    a mutex is held lexically at the write, or at EVERY call site through which
//                      the function is reached from a request handler / goroutine
//            unlocked  some chain of calls from a handler / goroutine reaches the write with nothing held
//            init      the function is reached neither from a handler nor from a goroutine
//                      (configuration loading, main() before the listeners exist)
//   mutex:   the mutex held ("" if none; "a|b" if different call chains hold different ones)
//
// The field list is derived: the fields of `type RuntimeState struct` that have at least one write
// whose class is not init.  Request handlers = functions with an http.ResponseWriter parameter and
// functions used as values (callbacks); goroutines = callees of `go f(..)`.

import (
	"go/ast"
	"sort"
	"strings"
)

type fieldWrite struct {
	fn, field, kind string
	held            heldSet
	where           string
}

type callSite struct {
	caller string
	held   heldSet
}

func runtimeStateFields(p *pkgFiles) map[string]bool {
	out := map[string]bool{}
	for _, n := range p.names {
		ast.Inspect(p.files[n], func(x ast.Node) bool {
			ts, ok := x.(*ast.TypeSpec)
			if !ok || ts.Name.Name != "RuntimeState" {
				return true
			}
			if st, ok := ts.Type.(*ast.StructType); ok {
				for _, f := range st.Fields.List {
					for _, id := range f.Names {
						out[id.Name] = true
					}
				}
			}
			return false
		})
	}
	return out
}

// identifiers of fd that denote the RuntimeState: receiver / parameters of that type, locals built from a literal
func stateIdents(fd *ast.FuncDecl) map[string]bool {
	out := map[string]bool{}
	add := func(fl *ast.FieldList) {
		if fl == nil {
			return
		}
		for _, f := range fl.List {
			if strings.Contains(oneLine(src(f.Type)), "RuntimeState") {
				for _, id := range f.Names {
					out[id.Name] = true
				}
			}
		}
	}
	add(fd.Recv)
	add(fd.Type.Params)
	add(fd.Type.Results)
	ast.Inspect(fd.Body, func(x ast.Node) bool {
		switch s := x.(type) {
		case *ast.AssignStmt:
			if len(s.Lhs) == len(s.Rhs) {
				for i, r := range s.Rhs {
					if strings.Contains(oneLine(src(r)), "RuntimeState{") {
						if id, ok := s.Lhs[i].(*ast.Ident); ok {
							out[id.Name] = true
						}
					}
				}
			}
		case *ast.ValueSpec:
			if s.Type != nil && strings.Contains(oneLine(src(s.Type)), "RuntimeState") {
				for _, id := range s.Names {
					out[id.Name] = true
				}
			}
		}
		return true
	})
	return out
}

func sharedFieldWrites(p *pkgFiles) []row {
	fields := runtimeStateFields(p)
	idx := funcIndex(p)
	var writes []fieldWrite
	calls := map[string][]callSite{}
	goRoots := map[string]bool{}
	forEachFunc(p, func(file string, fd *ast.FuncDecl) {
		ids := stateIdents(fd)
		w := &lockWalker{fn: fd.Name.Name}
		w.onWrite = func(lhs ast.Expr, held heldSet) {
			kind := "write"
			e := lhs
			if ix, ok := e.(*ast.IndexExpr); ok {
				e = ix.X
				kind = "write-elem"
			}
			s, ok := e.(*ast.SelectorExpr)
			if !ok {
				return
			}
			x, ok := s.X.(*ast.Ident)
			if !ok || !ids[x.Name] || !fields[s.Sel.Name] || sharedMaps[s.Sel.Name] {
				return
			}
			writes = append(writes, fieldWrite{fn: fd.Name.Name, field: s.Sel.Name, kind: kind, held: held.copy(), where: pos(lhs)})
		}
		w.onCall = func(c *ast.CallExpr, held heldSet) {
			n := lastName(c)
			if _, ok := idx[n]; ok {
				calls[n] = append(calls[n], callSite{caller: fd.Name.Name, held: held.copy()})
			}
		}
		w.onGo = func(c *ast.CallExpr) {
			n := lastName(c)
			if _, ok := idx[n]; ok {
				goRoots[n] = true
			}
		}
		w.block(fd.Body.List, heldSet{})
	})
	// entry points that run while requests are served
	roots := map[string]bool{}
	forEachFunc(p, func(file string, fd *ast.FuncDecl) {
		if hasResponseWriterParam(fd) {
			roots[fd.Name.Name] = true
		}
		_, v := mentions(fd.Body, idx)
		for k := range v {
			roots[k] = true
		}
	})
	for k := range goRoots {
		roots[k] = true
	}
	live := reachable(p, idx, roots)
	// mutexes that may be held on entry of f in a live context ("" = nothing held)
	var ctx func(f string, seen map[string]bool) map[string]bool
	ctx = func(f string, seen map[string]bool) map[string]bool {
		out := map[string]bool{}
		if seen[f] {
			return out
		}
		seen[f] = true
		if roots[f] {
			out[""] = true
		}
		for _, cs := range calls[f] {
			if !live[cs.caller] {
				continue
			}
			if len(cs.held) > 0 {
				out[cs.held.top()] = true
				continue
			}
			for k := range ctx(cs.caller, seen) {
				out[k] = true
			}
		}
		delete(seen, f)
		return out
	}
	type classified struct {
		fieldWrite
		class, mutex string
	}
	var all []classified
	liveField := map[string]bool{}
	for _, fw := range writes {
		c := classified{fieldWrite: fw}
		switch {
		case len(fw.held) > 0:
			c.class, c.mutex = "locked", fw.held.top()
		case !live[fw.fn]:
			c.class = "init"
		default:
			held := ctx(fw.fn, map[string]bool{})
			var ms []string
			for k := range held {
				ms = append(ms, k)
			}
			sort.Strings(ms)
			if len(ms) == 0 || held[""] {
				c.class = "unlocked"
			} else {
				c.class, c.mutex = "locked", strings.Join(ms, "|")
			}
		}
		if c.class != "init" {
			liveField[fw.field] = true
		}
		all = append(all, c)
	}
	var rows []row
	for _, c := range all {
		if liveField[c.field] {
			rows = append(rows, row{cols: []string{c.fn, c.field, c.kind, c.class, c.mutex}, where: c.where})
		}
	}
	sort.SliceStable(rows, func(i, j int) bool { return rows[i].where < rows[j].where })
	return rows
}
