package main

import (
	"go/ast"
	"strings"
)

// ------------------------------------------------------------------ C08 profile-store call sites
//
// Every call of LoadUserProfile / SaveUserProfile / DeleteUserProfile / GetUsers in
// cmd/keymasterd outside storage.go, and every call of a helper that passes its own `username`
// parameter on to one of them, with the class of the user-name argument:
//   authenticated  authData.Username, or a local all of whose assignments are authData.Username
//                  or the first result of commonTOTPPostHandler (the authenticated user)
//   parameter      a parameter of the enclosing function (the enclosing function is a helper)
//   all            GetUsers (no argument)
//   request        anything else (taken from the request: form value, path element)
// The obligation c08_store_sites admits `request`/`all` rows only inside the handlers that
// Model/Authz.v models behind their authorization test.

var c08StoreFuncs = map[string]bool{"state.LoadUserProfile": true, "state.SaveUserProfile": true, "state.DeleteUserProfile": true, "state.GetUsers": true}

func c08ArgClass(fd *ast.FuncDecl, e ast.Expr, depth int) string {
	s := oneLine(src(e))
	if s == "authData.Username" {
		return "authenticated"
	}
	id, ok := e.(*ast.Ident)
	if !ok || depth > 3 {
		return "request"
	}
	if isParam(fd, id.Name) {
		return "parameter"
	}
	rhs := assignmentsTo(fd, id.Name)
	if len(rhs) == 0 {
		return "request"
	}
	for _, r := range rhs {
		if c, ok := r.(*ast.CallExpr); ok && callName(c) == "state.commonTOTPPostHandler" {
			// authUser, _, otp, err := state.commonTOTPPostHandler(...): the first result
			continue
		}
		if c08ArgClass(fd, r, depth+1) != "authenticated" {
			return "request"
		}
	}
	return "authenticated"
}

// index of the parameter named `name` (counting every name of every field), -1 if none
func c08ParamIndex(fd *ast.FuncDecl, name string) int {
	i := 0
	if fd.Type.Params == nil {
		return -1
	}
	for _, f := range fd.Type.Params.List {
		for _, n := range f.Names {
			if n.Name == name {
				return i
			}
			i++
		}
	}
	return -1
}

func profileStoreSites(p *pkgFiles) []row {
	// helpers: functions that hand one of their own parameters to a store function (or to
	// another helper) as the user name; value = index of that parameter
	helpers := map[string]int{}
	userArg := func(n string, c *ast.CallExpr) ast.Expr {
		i := 0
		if !c08StoreFuncs[n] {
			i = helpers[n]
		}
		if i < len(c.Args) {
			return c.Args[i]
		}
		return nil
	}
	known := func(n string) bool {
		_, h := helpers[n]
		return c08StoreFuncs[n] || h
	}
	skip := func(file string) bool { return file == "storage.go" || strings.HasSuffix(file, "_test.go") }
	for pass := 0; pass < 3; pass++ {
		forEachFunc(p, func(file string, fd *ast.FuncDecl) {
			if skip(file) {
				return
			}
			ast.Inspect(fd.Body, func(x ast.Node) bool {
				c, ok := x.(*ast.CallExpr)
				if !ok || !known(callName(c)) {
					return true
				}
				a := userArg(callName(c), c)
				if id, ok := a.(*ast.Ident); ok && a != nil && c08ArgClass(fd, a, 0) == "parameter" {
					helpers["state."+fd.Name.Name] = c08ParamIndex(fd, id.Name)
				}
				return true
			})
		})
	}
	var rows []row
	forEachFunc(p, func(file string, fd *ast.FuncDecl) {
		if skip(file) {
			return
		}
		ast.Inspect(fd.Body, func(x ast.Node) bool {
			c, ok := x.(*ast.CallExpr)
			if !ok || !known(callName(c)) {
				return true
			}
			n := callName(c)
			class, arg := "all", ""
			if a := userArg(n, c); a != nil {
				class, arg = c08ArgClass(fd, a, 0), oneLine(src(a))
			}
			rows = append(rows, row{cols: []string{fd.Name.Name, strings.TrimPrefix(n, "state."), class, arg}, where: pos(c)})
			return true
		})
	})
	return rows
}
