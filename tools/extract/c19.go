package main

import (
	"bytes"
	"fmt"
	"go/ast"
	"go/token"
	"path/filepath"
	"strconv"
	"strings"
)

// ------------------------------------------------------------------ C19 tables
//
// ssh_key_type_alternatives    the alternatives of the leading group of the pattern in
//                              cmd/keymasterd/certgen.go getValidSSHPublicKey ("(unknown)" if the
//                              shape is not ^(a|b|..) ...)
// client_rsa_key_size          rsaKeySize of cmd/keymaster/main.go
// client_pubkey_serialisations (function, callee, origin) of every public-key serialisation call in the
//                              client's request builders; origin: signer.Public() | other
// client_private_marshals      (function, callee, use) of every private-key marshalling call in the client;
//                              use: file-0600 | file-<mode> | escapes | unused
// client_file_writes           (function, path, mode, class) of every WriteFile in cmd/keymaster and
//                              lib/client/util; class: private | public

func sshPatternAlternatives(kmd *pkgFiles) []row {
	var rows []row
	forEachFunc(kmd, func(file string, fd *ast.FuncDecl) {
		if fd.Name.Name != "getValidSSHPublicKey" {
			return
		}
		ast.Inspect(fd.Body, func(x ast.Node) bool {
			c, ok := x.(*ast.CallExpr)
			if !ok || !strings.HasSuffix(callName(c), "MatchString") || len(c.Args) < 1 {
				return true
			}
			lit, ok := c.Args[0].(*ast.BasicLit)
			if !ok || lit.Kind != token.STRING {
				rows = append(rows, row{cols: []string{"(unknown)"}, where: pos(c)})
				return true
			}
			pat, err := strconv.Unquote(lit.Value)
			if err != nil || !strings.HasPrefix(pat, "^(") || !strings.Contains(pat, ") ") {
				rows = append(rows, row{cols: []string{"(unknown)"}, where: pos(c)})
				return true
			}
			group := pat[2:strings.Index(pat, ") ")]
			if strings.ContainsAny(group, "()[]*+?.\\{}") {
				rows = append(rows, row{cols: []string{"(unknown)"}, where: pos(c)})
				return true
			}
			for _, a := range strings.Split(group, "|") {
				rows = append(rows, row{cols: []string{a}, where: pos(c)})
			}
			return true
		})
	})
	if len(rows) == 0 {
		rows = append(rows, row{cols: []string{"(unknown)"}, where: "getValidSSHPublicKey not found"})
	}
	return rows
}

func clientRSAKeySize(client *pkgFiles) string {
	for _, n := range client.names {
		for _, d := range client.files[n].Decls {
			gd, ok := d.(*ast.GenDecl)
			if !ok || gd.Tok != token.CONST {
				continue
			}
			for _, sp := range gd.Specs {
				vs := sp.(*ast.ValueSpec)
				for i, id := range vs.Names {
					if id.Name == "rsaKeySize" && i < len(vs.Values) {
						if lit, ok := vs.Values[i].(*ast.BasicLit); ok && lit.Kind == token.INT {
							return lit.Value
						}
					}
				}
			}
		}
	}
	return "0"
}

func isPublicCall(e ast.Expr) bool {
	c, ok := e.(*ast.CallExpr)
	if !ok || len(c.Args) != 0 {
		return false
	}
	sel, ok := c.Fun.(*ast.SelectorExpr)
	return ok && sel.Sel.Name == "Public"
}

func pubkeySerialisations(pkgs []*pkgFiles) []row {
	var rows []row
	for _, p := range pkgs {
		forEachFunc(p, func(file string, fd *ast.FuncDecl) {
			ast.Inspect(fd.Body, func(x ast.Node) bool {
				c, ok := x.(*ast.CallExpr)
				if !ok || len(c.Args) < 1 {
					return true
				}
				n := callName(c)
				if n != "x509.MarshalPKIXPublicKey" && n != "ssh.NewPublicKey" {
					return true
				}
				origin := "other"
				switch a := c.Args[0].(type) {
				case *ast.CallExpr:
					if isPublicCall(a) {
						origin = "signer.Public()"
					}
				case *ast.Ident:
					rhs := assignmentsTo(fd, a.Name)
					if len(rhs) > 0 && !isParam(fd, a.Name) {
						origin = "signer.Public()"
						for _, r := range rhs {
							if !isPublicCall(r) {
								origin = "other"
							}
						}
					}
				}
				rows = append(rows, row{cols: []string{fd.Name.Name, n, origin}, where: pos(c)})
				return true
			})
		})
	}
	return rows
}

var privateMarshals = map[string]bool{"x509.MarshalPKCS8PrivateKey": true, "x509.MarshalPKCS1PrivateKey": true,
	"x509.MarshalECPrivateKey": true, "ssh.MarshalPrivateKey": true, "ssh.MarshalPrivateKeyWithPassphrase": true}

func isWriteFile(c *ast.CallExpr) bool {
	n := callName(c)
	return (n == "ioutil.WriteFile" || n == "os.WriteFile") && len(c.Args) == 3
}

func privateMarshalUses(pkgs []*pkgFiles) []row {
	var rows []row
	for _, p := range pkgs {
		forEachFunc(p, func(file string, fd *ast.FuncDecl) {
			// variables that receive a marshalled private key
			type site struct {
				name   string
				callee string
				at     ast.Node
				lhs    *ast.Ident
			}
			var sites []site
			ast.Inspect(fd.Body, func(x ast.Node) bool {
				as, ok := x.(*ast.AssignStmt)
				if !ok || len(as.Rhs) != 1 {
					return true
				}
				c, ok := as.Rhs[0].(*ast.CallExpr)
				if !ok || !privateMarshals[callName(c)] {
					return true
				}
				if id, ok := as.Lhs[0].(*ast.Ident); ok && id.Name != "_" {
					sites = append(sites, site{id.Name, callName(c), c, id})
				}
				return true
			})
			// marshalling calls whose result is not assigned to a variable
			assigned := map[ast.Node]bool{}
			for _, s := range sites {
				assigned[s.at] = true
			}
			ast.Inspect(fd.Body, func(x ast.Node) bool {
				if c, ok := x.(*ast.CallExpr); ok && privateMarshals[callName(c)] && !assigned[c] {
					rows = append(rows, row{cols: []string{fd.Name.Name, callName(c), "escapes"}, where: pos(c)})
				}
				return true
			})
			var writes []*ast.CallExpr
			ast.Inspect(fd.Body, func(x ast.Node) bool {
				if c, ok := x.(*ast.CallExpr); ok && isWriteFile(c) {
					writes = append(writes, c)
				}
				return true
			})
			seen := map[string]bool{}
			for _, s := range sites {
				if seen[s.name+s.callee] {
					continue
				}
				seen[s.name+s.callee] = true
				use := "unused"
				lhsOf := map[*ast.Ident]bool{}
				ast.Inspect(fd.Body, func(x ast.Node) bool {
					if as, ok := x.(*ast.AssignStmt); ok {
						for _, l := range as.Lhs {
							if id, ok := l.(*ast.Ident); ok {
								lhsOf[id] = true
							}
						}
					}
					if vs, ok := x.(*ast.ValueSpec); ok {
						for _, id := range vs.Names {
							lhsOf[id] = true
						}
					}
					return true
				})
				ast.Inspect(fd.Body, func(x ast.Node) bool {
					id, ok := x.(*ast.Ident)
					if !ok || id.Name != s.name || lhsOf[id] {
						return true
					}
					here := "escapes"
					for _, w := range writes {
						if id.Pos() >= w.Args[1].Pos() && id.End() <= w.Args[1].End() {
							here = "file-" + oneLine(src(w.Args[2]))
						}
					}
					if use == "unused" || here == "escapes" || (use != "escapes" && here != "file-0600") {
						use = here
					}
					return true
				})
				rows = append(rows, row{cols: []string{fd.Name.Name, s.callee, use}, where: pos(s.at)})
			}
		})
	}
	return rows
}

func clientFileWrites(pkgs []*pkgFiles) []row {
	var rows []row
	for _, p := range pkgs {
		forEachFunc(p, func(file string, fd *ast.FuncDecl) {
			private := map[string]bool{}
			ast.Inspect(fd.Body, func(x ast.Node) bool {
				as, ok := x.(*ast.AssignStmt)
				if !ok || len(as.Rhs) != 1 {
					return true
				}
				if c, ok := as.Rhs[0].(*ast.CallExpr); ok && privateMarshals[callName(c)] {
					if id, ok := as.Lhs[0].(*ast.Ident); ok {
						private[id.Name] = true
					}
				}
				return true
			})
			ast.Inspect(fd.Body, func(x ast.Node) bool {
				c, ok := x.(*ast.CallExpr)
				if !ok || !isWriteFile(c) {
					return true
				}
				class := "public"
				content := oneLine(src(c.Args[1]))
				if strings.Contains(content, "PRIVATE KEY") || strings.Contains(content, "PrivateKey") {
					class = "private"
				}
				ast.Inspect(c.Args[1], func(y ast.Node) bool {
					if id, ok := y.(*ast.Ident); ok && private[id.Name] {
						class = "private"
					}
					return true
				})
				rows = append(rows, row{cols: []string{fd.Name.Name, oneLine(src(c.Args[0])), oneLine(src(c.Args[2])), class}, where: pos(c)})
				return true
			})
		})
	}
	return rows
}

func c19Tables(v *bytes.Buffer, repo string, kmd *pkgFiles) {
	writeTable(v, "ssh_key_type_alternatives", "alternatives of the key-type group of the pattern in getValidSSHPublicKey", 1, sshPatternAlternatives(kmd))
	var pkgs []*pkgFiles
	size := "0"
	for _, d := range []string{"cmd/keymaster", "lib/client/twofa", "lib/client/util", "lib/client/sshagent"} {
		p, err := loadPkg(filepath.Join(repo, d))
		if err != nil {
			continue
		}
		pkgs = append(pkgs, p)
		if d == "cmd/keymaster" {
			size = clientRSAKeySize(p)
		}
	}
	v.WriteString(fmt.Sprintf("(* rsaKeySize of cmd/keymaster/main.go *)\nDefinition client_rsa_key_size : nat := %s.\n\n", size))
	writeTable(v, "client_pubkey_serialisations", "(function, callee, origin of the argument) of every public-key serialisation in the client; origin: signer.Public() | other", 3, pubkeySerialisations(pkgs))
	writeTable(v, "client_private_marshals", "(function, callee, use of the result) of every private-key marshalling call in the client; use: file-0600 | file-<mode> | escapes | unused", 3, privateMarshalUses(pkgs))
	writeTable(v, "client_file_writes", "(function, path, mode, class) of every WriteFile in the client; class: private | public", 4, clientFileWrites(pkgs))
}
