package main

import (
	"bytes"
	"encoding/json"
	"go/ast"
	"go/token"
	"os"
	"path/filepath"
	"sort"
	"strconv"
	"strings"
)

// C17: the request channels a redirect destination could be taken from.
//
//   c17_channels.json   cookie_names        every cookie name the package reads (X.Cookie(n); a string compared with
//                                           <cookie>.Name in a function that ranges over X.Cookies()) or sets
//                                           (http.Cookie{Name: n}), literals and package string constants resolved
//                       destination_params  every request parameter name read (FormValue / PostFormValue / Form.Get /
//                                           PostForm.Get / Query().Get) inside the destination function(s) and the
//                                           package functions they hand the request to
//   Tables.v            destination_reads   (function, expression, class) of every use of the *http.Request inside the
//                                           destination function(s) (the functions whose result classifyRedirectTarget
//                                           calls "filtered") and, transitively, the package functions they pass the
//                                           request to.  class: form | method | context | remote | cookie | header | url | body | escapes | other
// The harness puts hostile values into every harvested cookie and into headers / bodies / paths named after every
// harvested parameter; the obligation c17_filter_reads demands that the destination function reads the form only
// (the model's get_login_destination is a function of the form/query channel alone).

type c17Cookie struct {
	Name  string `json:"name"`
	Kind  string `json:"kind"` // read | set
	Where string `json:"where"`
}

type c17Channels struct {
	CookieNames       []c17Cookie `json:"cookie_names"`
	DestinationParams []string    `json:"destination_params"`
}

func c17StringConsts(p *pkgFiles) map[string]string {
	m := map[string]string{}
	for _, n := range p.names {
		for _, d := range p.files[n].Decls {
			gd, ok := d.(*ast.GenDecl)
			if !ok || (gd.Tok != token.CONST && gd.Tok != token.VAR) {
				continue
			}
			for _, s := range gd.Specs {
				vs, ok := s.(*ast.ValueSpec)
				if !ok {
					continue
				}
				for i, id := range vs.Names {
					if i < len(vs.Values) {
						if bl, ok := vs.Values[i].(*ast.BasicLit); ok && bl.Kind == token.STRING {
							if v, err := strconv.Unquote(bl.Value); err == nil {
								m[id.Name] = v
							}
						}
					}
				}
			}
		}
	}
	return m
}

func c17Str(e ast.Expr, consts map[string]string) (string, bool) {
	switch t := e.(type) {
	case *ast.BasicLit:
		if t.Kind == token.STRING {
			if v, err := strconv.Unquote(t.Value); err == nil {
				return v, true
			}
		}
	case *ast.Ident:
		if v, ok := consts[t.Name]; ok {
			return v, true
		}
	case *ast.ParenExpr:
		return c17Str(t.X, consts)
	}
	return "", false
}

func c17CookieNames(p *pkgFiles, consts map[string]string) []c17Cookie {
	var out []c17Cookie
	seen := map[string]bool{}
	add := func(name, kind string, n ast.Node) {
		if name == "" || seen[kind+"\x00"+name] {
			return
		}
		seen[kind+"\x00"+name] = true
		out = append(out, c17Cookie{Name: name, Kind: kind, Where: pos(n)})
	}
	forEachFunc(p, func(file string, fd *ast.FuncDecl) {
		rangesCookies := strings.Contains(oneLine(src(fd.Body)), ".Cookies()")
		ast.Inspect(fd.Body, func(x ast.Node) bool {
			switch t := x.(type) {
			case *ast.CallExpr:
				if sel, ok := t.Fun.(*ast.SelectorExpr); ok && sel.Sel.Name == "Cookie" && len(t.Args) == 1 {
					if v, ok := c17Str(t.Args[0], consts); ok {
						add(v, "read", t)
					}
				}
			case *ast.BinaryExpr:
				if rangesCookies && (t.Op == token.EQL || t.Op == token.NEQ) {
					for _, pair := range [][2]ast.Expr{{t.X, t.Y}, {t.Y, t.X}} {
						if sel, ok := pair[0].(*ast.SelectorExpr); ok && sel.Sel.Name == "Name" {
							if v, ok := c17Str(pair[1], consts); ok {
								add(v, "read", t)
							}
						}
					}
				}
			case *ast.CompositeLit:
				if strings.HasSuffix(oneLine(src(t.Type)), "http.Cookie") {
					for _, el := range t.Elts {
						if kv, ok := el.(*ast.KeyValueExpr); ok {
							if id, ok := kv.Key.(*ast.Ident); ok && id.Name == "Name" {
								if v, ok := c17Str(kv.Value, consts); ok {
									add(v, "set", kv)
								}
							}
						}
					}
				}
			}
			return true
		})
	})
	sort.Slice(out, func(i, j int) bool {
		if out[i].Name != out[j].Name {
			return out[i].Name < out[j].Name
		}
		return out[i].Kind < out[j].Kind
	})
	return out
}

// the names of the parameters of fd whose type is *http.Request
func c17RequestParams(fd *ast.FuncDecl) []string {
	var out []string
	if fd.Type.Params == nil {
		return out
	}
	for _, f := range fd.Type.Params.List {
		if oneLine(src(f.Type)) == "*http.Request" {
			for _, n := range f.Names {
				out = append(out, n.Name)
			}
		}
	}
	return out
}

func c17RequestUseClass(sel string) string {
	switch sel {
	case "FormValue", "PostFormValue", "Form", "PostForm", "ParseForm", "ParseMultipartForm", "MultipartForm", "FormFile":
		return "form"
	case "Method", "Proto", "ProtoMajor", "ProtoMinor", "TLS":
		return "method"
	case "Context", "WithContext":
		return "context"
	case "RemoteAddr":
		return "remote"
	case "Cookie", "Cookies":
		return "cookie"
	case "Header", "Referer", "UserAgent", "BasicAuth", "Trailer":
		return "header"
	case "URL", "RequestURI", "Host", "PathValue":
		return "url"
	case "Body", "GetBody":
		return "body"
	}
	return "other"
}

// the functions whose call classifyRedirectTarget takes for a filtered destination
func c17IsDestinationFunc(name string) bool { return name == "getLoginDestination" }

func c17DestinationReads(p *pkgFiles, consts map[string]string) ([]row, []string) {
	funcs := map[string]*ast.FuncDecl{}
	forEachFunc(p, func(file string, fd *ast.FuncDecl) {
		if _, dup := funcs[fd.Name.Name]; !dup {
			funcs[fd.Name.Name] = fd
		}
	})
	var rows []row
	params := map[string]bool{}
	visited := map[string]bool{}
	var visit func(fd *ast.FuncDecl, depth int)
	visit = func(fd *ast.FuncDecl, depth int) {
		if visited[fd.Name.Name] {
			return
		}
		visited[fd.Name.Name] = true
		reqs := map[string]bool{}
		for _, n := range c17RequestParams(fd) {
			reqs[n] = true
		}
		isReq := func(e ast.Expr) bool {
			id, ok := e.(*ast.Ident)
			return ok && reqs[id.Name]
		}
		consumed := map[ast.Node]bool{}
		ast.Inspect(fd.Body, func(x ast.Node) bool {
			switch t := x.(type) {
			case *ast.CallExpr:
				// parameter names: X.FormValue(n), X.Form.Get(n), X.URL.Query().Get(n) ...
				if sel, ok := t.Fun.(*ast.SelectorExpr); ok && len(t.Args) == 1 {
					s := oneLine(src(sel))
					if strings.HasSuffix(s, ".FormValue") || strings.HasSuffix(s, ".PostFormValue") || strings.HasSuffix(s, ".Form.Get") ||
						strings.HasSuffix(s, ".PostForm.Get") || strings.HasSuffix(s, ".Query().Get") {
						if v, ok := c17Str(t.Args[0], consts); ok {
							params[v] = true
						}
					}
				}
				// the request handed on
				for _, a := range t.Args {
					if isReq(a) {
						consumed[a] = true
						callee := ""
						switch f := t.Fun.(type) {
						case *ast.Ident:
							callee = f.Name
						case *ast.SelectorExpr:
							if _, isPkgFunc := funcs[f.Sel.Name]; isPkgFunc {
								if id, ok := f.X.(*ast.Ident); ok && (id.Name == "state" || id.Obj != nil) {
									callee = f.Sel.Name // a method of a local value
								}
							}
						}
						if g, ok := funcs[callee]; ok && depth < 4 {
							visit(g, depth+1)
						} else {
							rows = append(rows, row{cols: []string{fd.Name.Name, oneLine(src(t)), "escapes"}, where: pos(t)})
						}
					}
				}
			case *ast.SelectorExpr:
				if isReq(t.X) {
					consumed[t.X] = true
					rows = append(rows, row{cols: []string{fd.Name.Name, oneLine(src(t)), c17RequestUseClass(t.Sel.Name)}, where: pos(t)})
				}
			case *ast.Ident:
				if reqs[t.Name] && !consumed[t] {
					rows = append(rows, row{cols: []string{fd.Name.Name, t.Name, "other"}, where: pos(t)})
				}
			}
			return true
		})
	}
	var roots []string
	for n := range funcs {
		if c17IsDestinationFunc(n) {
			roots = append(roots, n)
		}
	}
	sort.Strings(roots)
	for _, n := range roots {
		visit(funcs[n], 0)
	}
	var ps []string
	for n := range params {
		ps = append(ps, n)
	}
	sort.Strings(ps)
	return rows, ps
}

func c17ChannelTables(v *bytes.Buffer, out string, kmd *pkgFiles) {
	consts := c17StringConsts(kmd)
	rows, params := c17DestinationReads(kmd, consts)
	writeTable(v, "destination_reads", "(function, expression, class) of every use of the request inside the destination function(s) and the package functions they hand it to (c17_channels.go); class: form | method | context | remote | cookie | header | url | body | escapes | other", 3, rows)
	h := c17Channels{CookieNames: c17CookieNames(kmd, consts), DestinationParams: params}
	if b, err := json.MarshalIndent(h, "", " "); err == nil {
		os.WriteFile(filepath.Join(out, "c17_channels.json"), b, 0644)
	}
}
