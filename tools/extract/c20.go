package main

import (
	"bytes"
	"go/ast"
	"path/filepath"
	"strings"
)

// ------------------------------------------------------------------ C20 tables
//
// signing_sites   (function, callee, class, publish) of every call of a certificate-signing
//                 function in the non-test files of cmd/keymasterd.
//     class    ca-init  the self-signed CA constructor, or a function that no HTTP handler and no
//                       function used as a value (callback) can reach: start-up / config generation
//              issue    everything else
//     publish  same-bytes-before-response | after-response | other-bytes | wrong-type | none | unknown
//              what follows the signing statement in its block before the first statement that
//              writes to the response or returns the certificate to the caller
// notifier_publish_sends  (function, kind) of every channel send reachable from the exported
//                 Publish* methods of keymasterd/eventnotifier; kind: select-default | blocking

var signingCallees = map[string]string{
	"GenSSHCertFileString":    "PublishSSH",
	"GenUserX509Cert":         "PublishX509",
	"GenIPRestrictedX509Cert": "PublishX509",
	"CreateCertificate":       "PublishX509",
	"GenSelfSignedCACert":     "",
}

func lastName(c *ast.CallExpr) string {
	switch f := c.Fun.(type) {
	case *ast.Ident:
		return f.Name
	case *ast.SelectorExpr:
		return f.Sel.Name
	}
	return ""
}

// functions of the package by name (methods by their bare name)
func funcIndex(p *pkgFiles) map[string][]*ast.FuncDecl {
	idx := map[string][]*ast.FuncDecl{}
	forEachFunc(p, func(file string, fd *ast.FuncDecl) {
		idx[fd.Name.Name] = append(idx[fd.Name.Name], fd)
	})
	return idx
}

func hasResponseWriterParam(fd *ast.FuncDecl) bool {
	if fd.Type.Params == nil {
		return false
	}
	for _, f := range fd.Type.Params.List {
		if strings.Contains(oneLine(src(f.Type)), "ResponseWriter") {
			return true
		}
	}
	return false
}

// names of package functions mentioned in a body: called (edges) and used as values (escaping)
func mentions(body ast.Node, idx map[string][]*ast.FuncDecl) (called, asValue map[string]bool) {
	called, asValue = map[string]bool{}, map[string]bool{}
	callFuns := map[ast.Expr]bool{}
	ast.Inspect(body, func(x ast.Node) bool {
		if c, ok := x.(*ast.CallExpr); ok {
			callFuns[c.Fun] = true
		}
		return true
	})
	var visit func(x ast.Node) bool
	visit = func(x ast.Node) bool {
		switch t := x.(type) {
		case *ast.SelectorExpr:
			if _, ok := idx[t.Sel.Name]; ok {
				if callFuns[t] {
					called[t.Sel.Name] = true
				} else {
					asValue[t.Sel.Name] = true
				}
			}
			ast.Inspect(t.X, visit) // not into Sel: it is not a use of its own
			return false
		case *ast.KeyValueExpr:
			// a struct-literal field name is not a use
			if _, ok := t.Key.(*ast.Ident); ok {
				ast.Inspect(t.Value, visit)
				return false
			}
		case *ast.Ident:
			if _, ok := idx[t.Name]; ok {
				if callFuns[t] {
					called[t.Name] = true
				} else {
					asValue[t.Name] = true
				}
			}
		}
		return true
	}
	ast.Inspect(body, visit)
	return
}

// closure of `roots` under "mentions" (calls and value uses)
func reachable(p *pkgFiles, idx map[string][]*ast.FuncDecl, roots map[string]bool) map[string]bool {
	seen := map[string]bool{}
	var work []string
	for r := range roots {
		work = append(work, r)
	}
	for len(work) > 0 {
		n := work[len(work)-1]
		work = work[:len(work)-1]
		if seen[n] {
			continue
		}
		seen[n] = true
		for _, fd := range idx[n] {
			c, v := mentions(fd.Body, idx)
			for k := range c {
				work = append(work, k)
			}
			for k := range v {
				work = append(work, k)
			}
		}
	}
	return seen
}

func servingFunctions(p *pkgFiles) map[string]bool {
	idx := funcIndex(p)
	roots := map[string]bool{}
	forEachFunc(p, func(file string, fd *ast.FuncDecl) {
		if hasResponseWriterParam(fd) {
			roots[fd.Name.Name] = true
		}
		// a selector used as a value whose name is a package function is a callback handed to
		// somebody else (e.g. CertificateGenerator: state.generateRoleCert)
		_, v := mentions(fd.Body, idx)
		for k := range v {
			// the declaration's own name identifier is not inside Body, so this is a real use
			roots[k] = true
		}
	})
	return reachable(p, idx, roots)
}

func containsCall(n ast.Node, pred func(c *ast.CallExpr) bool) bool {
	found := false
	ast.Inspect(n, func(x ast.Node) bool {
		if c, ok := x.(*ast.CallExpr); ok && pred(c) {
			found = true
		}
		return !found
	})
	return found
}

func isResponseWrite(c *ast.CallExpr) bool {
	n := callName(c)
	switch n {
	case "w.Write", "w.WriteHeader", "http.Redirect", "http.Error", "http.ServeContent":
		return true
	}
	if n == "fmt.Fprintf" || n == "fmt.Fprint" || n == "fmt.Fprintln" || n == "pem.Encode" || n == "io.WriteString" || n == "io.Copy" {
		if len(c.Args) > 0 {
			if id, ok := c.Args[0].(*ast.Ident); ok && id.Name == "w" {
				return true
			}
		}
	}
	return false
}

func isErrorPath(s ast.Stmt) bool {
	ifs, ok := s.(*ast.IfStmt)
	if !ok || ifs.Else != nil {
		return false
	}
	cond := oneLine(src(ifs.Cond))
	return cond == "err != nil"
}

func publishCallOf(s ast.Stmt) *ast.CallExpr {
	es, ok := s.(*ast.ExprStmt)
	if !ok {
		return nil
	}
	c, ok := es.X.(*ast.CallExpr)
	if !ok {
		return nil
	}
	if strings.HasPrefix(lastName(c), "Publish") && strings.Contains(callName(c), "eventNotifier.") {
		return c
	}
	return nil
}

// verdict for the statements following index i in block
func publishVerdict(block []ast.Stmt, i int, results map[string]bool, wantPublish string) string {
	if len(results) == 0 {
		return "unknown"
	}
	verdictOf := func(c *ast.CallExpr) string {
		if len(c.Args) != 1 {
			return "other-bytes"
		}
		same := false
		switch a := c.Args[0].(type) {
		case *ast.Ident:
			same = results[a.Name]
		case *ast.CallExpr:
			if sel, ok := a.Fun.(*ast.SelectorExpr); ok && sel.Sel.Name == "Marshal" && len(a.Args) == 0 {
				if id, ok := sel.X.(*ast.Ident); ok {
					same = results[id.Name]
				}
			}
		}
		if !same {
			return "other-bytes"
		}
		if lastName(c) != wantPublish {
			return "wrong-type"
		}
		return "same-bytes-before-response"
	}
	responded := false
	for _, s := range block[i+1:] {
		if isErrorPath(s) {
			continue
		}
		if c := publishCallOf(s); c != nil {
			if responded {
				return "after-response"
			}
			return verdictOf(c)
		}
		if _, ok := s.(*ast.ReturnStmt); ok {
			return "none"
		}
		if containsCall(s, isResponseWrite) {
			responded = true
		}
		// a publish buried in a conditional or a goroutine is not a publish on every path
	}
	return "none"
}

func signingSites(p *pkgFiles) []row {
	serving := servingFunctions(p)
	var rows []row
	forEachFunc(p, func(file string, fd *ast.FuncDecl) {
		var walk func(block []ast.Stmt)
		handled := map[*ast.CallExpr]bool{}
		classOf := func(callee string) string {
			if callee == "GenSelfSignedCACert" || !serving[fd.Name.Name] {
				return "ca-init"
			}
			return "issue"
		}
		walk = func(block []ast.Stmt) {
			for i, s := range block {
				// signing call assigned at this level
				if as, ok := s.(*ast.AssignStmt); ok && len(as.Rhs) == 1 {
					if c, ok := as.Rhs[0].(*ast.CallExpr); ok {
						if want, ok := signingCallees[lastName(c)]; ok {
							handled[c] = true
							results := map[string]bool{}
							for _, l := range as.Lhs {
								if id, ok := l.(*ast.Ident); ok && id.Name != "err" && id.Name != "_" {
									results[id.Name] = true
								}
							}
							rows = append(rows, row{cols: []string{fd.Name.Name, lastName(c), classOf(lastName(c)),
								publishVerdict(block, i, results, want)}, where: pos(c)})
						}
					}
				}
				// nested blocks
				ast.Inspect(s, func(x ast.Node) bool {
					if b, ok := x.(*ast.BlockStmt); ok {
						walk(b.List)
						return false
					}
					if cc, ok := x.(*ast.CaseClause); ok {
						walk(cc.Body)
						return false
					}
					if cc, ok := x.(*ast.CommClause); ok {
						walk(cc.Body)
						return false
					}
					return true
				})
			}
		}
		walk(fd.Body.List)
		// any other shape (returned directly, passed as an argument, ...)
		ast.Inspect(fd.Body, func(x ast.Node) bool {
			if c, ok := x.(*ast.CallExpr); ok && !handled[c] {
				if _, ok := signingCallees[lastName(c)]; ok {
					verdict := "unknown"
					if classOf(lastName(c)) == "ca-init" {
						verdict = "none"
					}
					rows = append(rows, row{cols: []string{fd.Name.Name, lastName(c), classOf(lastName(c)), verdict}, where: pos(c)})
				}
			}
			return true
		})
	})
	return rows
}

func notifierPublishSends(repo string) []row {
	p, err := loadPkg(filepath.Join(repo, "keymasterd/eventnotifier"))
	if err != nil {
		return []row{{cols: []string{"(parse error)", "blocking"}, where: err.Error()}}
	}
	idx := funcIndex(p)
	roots := map[string]bool{}
	for n := range idx {
		if strings.HasPrefix(n, "Publish") {
			roots[n] = true
		}
	}
	reach := reachable(p, idx, roots)
	var rows []row
	forEachFunc(p, func(file string, fd *ast.FuncDecl) {
		if !reach[fd.Name.Name] {
			return
		}
		guarded := map[*ast.SendStmt]bool{}
		ast.Inspect(fd.Body, func(x ast.Node) bool {
			sel, ok := x.(*ast.SelectStmt)
			if !ok {
				return true
			}
			hasDefault := false
			for _, cl := range sel.Body.List {
				if cc, ok := cl.(*ast.CommClause); ok && cc.Comm == nil {
					hasDefault = true
				}
			}
			if hasDefault {
				for _, cl := range sel.Body.List {
					if cc, ok := cl.(*ast.CommClause); ok {
						if ss, ok := cc.Comm.(*ast.SendStmt); ok {
							guarded[ss] = true
						}
					}
				}
			}
			return true
		})
		ast.Inspect(fd.Body, func(x ast.Node) bool {
			if ss, ok := x.(*ast.SendStmt); ok {
				kind := "blocking"
				if guarded[ss] {
					kind = "select-default"
				}
				rows = append(rows, row{cols: []string{fd.Name.Name, kind}, where: pos(ss)})
			}
			return true
		})
	})
	return rows
}

func c20Tables(v *bytes.Buffer, repo string, kmd *pkgFiles) {
	writeTable(v, "signing_sites", "(function, callee, class, publish) of every certificate-signing call in cmd/keymasterd; class: issue | ca-init; publish: same-bytes-before-response | after-response | other-bytes | wrong-type | none | unknown", 4, signingSites(kmd))
	writeTable(v, "notifier_publish_sends", "(function, kind) of every channel send reachable from the Publish* methods of keymasterd/eventnotifier; kind: select-default | blocking", 2, notifierPublishSends(repo))
}
