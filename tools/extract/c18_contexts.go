package main

import (
	"bytes"
	"go/ast"
	"go/token"
	"regexp"
	"strconv"
	"strings"
)

// C18: the HTML context of every output action {{…}} in the HTML template texts of cmd/keymasterd (package-level
// string constants/variables that contain an action and an HTML tag).  A small HTML tokenizer state machine is
// run over the literal text between the actions (the same walk html/template does); actions are not expanded,
// {{if}}/{{else}} branches are walked in source order (html/template itself requires all branches to end in
// the same context).
//
// row: (template text, action, class, attribute, field, source)
//   class   text | rcdata | attr-dq | attr-sq | attr-unquoted | url-attr-start | url-attr-rooted | url-attr-prefixed |
//           event-handler | style-attr | script | style | comment | tag
//   field   the pipeline with `.` resolved against the enclosing {{range}} / {{with}}
//   source  for URL contexts: server-literal when every value the Go code stores in that field is built from
//           string literals only; non-literal / unknown otherwise;  "-" for the other classes

var c18URLAttrs = map[string]bool{"href": true, "src": true, "action": true, "formaction": true, "data": true, "poster": true,
	"cite": true, "codebase": true, "background": true, "manifest": true, "icon": true, "longdesc": true, "usemap": true,
	"profile": true, "classid": true, "archive": true, "xlink:href": true, "srcset": true, "ping": true}

var c18HasTag = regexp.MustCompile(`<[a-zA-Z!/]`)

const (
	hText = iota
	hRCDATA
	hScript
	hStyle
	hComment
	hTagName
	hBeforeAttr
	hAttrName
	hAfterAttrName
	hBeforeValue
	hValueDQ
	hValueSQ
	hValueUnq
)

type c18Walker struct {
	st       int
	tag      string // current (or, in raw-text states, enclosing) element name
	attr     string
	value    string // literal text of the attribute value so far
	closing  bool
	tagBuf   string
	dynValue bool // an action already contributed to the current value
}

func (w *c18Walker) feed(text string) {
	for i := 0; i < len(text); i++ {
		c := text[i]
		lc := c
		if 'A' <= lc && lc <= 'Z' {
			lc += 'a' - 'A'
		}
		switch w.st {
		case hText:
			if c == '<' {
				rest := text[i:]
				if strings.HasPrefix(rest, "<!--") {
					w.st = hComment
					i += 3
				} else if i+1 < len(text) && (isAlpha(text[i+1]) || text[i+1] == '/' || text[i+1] == '!') {
					w.st = hTagName
					w.tagBuf = ""
					w.closing = text[i+1] == '/'
					if w.closing {
						i++
					}
				}
			}
		case hRCDATA, hScript, hStyle:
			if c == '<' && i+1 < len(text) && text[i+1] == '/' && strings.HasPrefix(strings.ToLower(text[i+2:]), w.tag) {
				w.st = hTagName
				w.tagBuf = ""
				w.closing = true
				i++
			}
		case hComment:
			if strings.HasPrefix(text[i:], "-->") {
				w.st = hText
				i += 2
			}
		case hTagName:
			switch {
			case c == '>':
				w.endTag(w.tagBuf)
			case c == ' ' || c == '\t' || c == '\n' || c == '\r' || c == '\f' || c == '/':
				w.tag = w.tagBuf
				w.st = hBeforeAttr
			default:
				w.tagBuf += string(lc)
			}
		case hBeforeAttr:
			switch {
			case c == '>':
				w.endTag(w.tag)
			case c == ' ' || c == '\t' || c == '\n' || c == '\r' || c == '\f' || c == '/':
			default:
				w.st = hAttrName
				w.attr = string(lc)
			}
		case hAttrName:
			switch {
			case c == '=':
				w.st = hBeforeValue
			case c == '>':
				w.endTag(w.tag)
			case c == ' ' || c == '\t' || c == '\n' || c == '\r' || c == '\f':
				w.st = hAfterAttrName
			default:
				w.attr += string(lc)
			}
		case hAfterAttrName:
			switch {
			case c == '=':
				w.st = hBeforeValue
			case c == '>':
				w.endTag(w.tag)
			case c == ' ' || c == '\t' || c == '\n' || c == '\r' || c == '\f':
			default:
				w.st = hAttrName
				w.attr = string(lc)
			}
		case hBeforeValue:
			w.value, w.dynValue = "", false
			switch {
			case c == '"':
				w.st = hValueDQ
			case c == '\'':
				w.st = hValueSQ
			case c == '>':
				w.endTag(w.tag)
			case c == ' ' || c == '\t' || c == '\n' || c == '\r' || c == '\f':
			default:
				w.st = hValueUnq
				w.value = string(c)
			}
		case hValueDQ:
			if c == '"' {
				w.st = hBeforeAttr
			} else {
				w.value += string(c)
			}
		case hValueSQ:
			if c == '\'' {
				w.st = hBeforeAttr
			} else {
				w.value += string(c)
			}
		case hValueUnq:
			switch {
			case c == '>':
				w.endTag(w.tag)
			case c == ' ' || c == '\t' || c == '\n' || c == '\r' || c == '\f':
				w.st = hBeforeAttr
			default:
				w.value += string(c)
			}
		}
	}
}

func isAlpha(c byte) bool { return 'a' <= c && c <= 'z' || 'A' <= c && c <= 'Z' }

func (w *c18Walker) endTag(name string) {
	w.tag = name
	w.st = hText
	if w.closing {
		w.closing = false
		return
	}
	switch name {
	case "script":
		w.st = hScript
	case "style":
		w.st = hStyle
	case "title", "textarea":
		w.st = hRCDATA
	}
}

// class and attribute of an action at the current position; moves the state where the action starts a value
func (w *c18Walker) action() (class, attr string) {
	switch w.st {
	case hText:
		return "text", ""
	case hRCDATA:
		return "rcdata", w.tag
	case hScript:
		return "script", ""
	case hStyle:
		return "style", ""
	case hComment:
		return "comment", ""
	case hBeforeValue:
		w.st = hValueUnq
		w.value, w.dynValue = "", true
		return w.valueClass("attr-unquoted"), w.attr
	case hValueUnq:
		defer func() { w.dynValue = true }()
		return w.valueClass("attr-unquoted"), w.attr
	case hValueDQ:
		defer func() { w.dynValue = true }()
		return w.valueClass("attr-dq"), w.attr
	case hValueSQ:
		defer func() { w.dynValue = true }()
		return w.valueClass("attr-sq"), w.attr
	}
	return "tag", w.tag
}

func (w *c18Walker) valueClass(plain string) string {
	a := w.attr
	switch {
	case c18URLAttrs[a]:
		if plain == "attr-unquoted" {
			return "url-attr-unquoted"
		}
		v := strings.TrimSpace(w.value)
		switch {
		case v == "" && !w.dynValue:
			return "url-attr-start"
		case !w.dynValue && strings.HasPrefix(v, "/") && !strings.HasPrefix(v, "//") && !strings.HasPrefix(v, "/\\"):
			return "url-attr-rooted"
		case w.dynValue:
			return "url-attr-continued"
		}
		return "url-attr-prefixed"
	case strings.HasPrefix(a, "on"):
		return "event-handler"
	case a == "style":
		return "style-attr"
	}
	return plain
}

var c18ActionRe = regexp.MustCompile(`(?s)\{\{-?\s*(.*?)\s*-?\}\}`)

func c18TemplateTexts(p *pkgFiles) (names []string, texts map[string]string, where map[string]string) {
	texts, where = map[string]string{}, map[string]string{}
	for _, n := range p.names {
		for _, d := range p.files[n].Decls {
			gd, ok := d.(*ast.GenDecl)
			if !ok || (gd.Tok != token.CONST && gd.Tok != token.VAR) {
				continue
			}
			for _, s := range gd.Specs {
				vs, ok := s.(*ast.ValueSpec)
				if !ok {
					continue
				}
				for i, id := range vs.Names {
					if i >= len(vs.Values) {
						continue
					}
					bl, ok := vs.Values[i].(*ast.BasicLit)
					if !ok || bl.Kind != token.STRING {
						continue
					}
					v, err := strconv.Unquote(bl.Value)
					if err != nil || !strings.Contains(v, "{{") || !c18HasTag.MatchString(v) {
						continue
					}
					names = append(names, id.Name)
					texts[id.Name] = v
					where[id.Name] = pos(bl)
				}
			}
		}
	}
	return
}

// is every value stored into struct field `field` anywhere in the package built from string literals only?
func c18FieldSource(p *pkgFiles, field string) string {
	cls := "unknown"
	litOnly := func(fd *ast.FuncDecl, e ast.Expr) bool {
		visiting := map[string]bool{}
		var ok func(e ast.Expr, depth int) bool
		ok = func(e ast.Expr, depth int) bool {
			switch t := e.(type) {
			case *ast.BasicLit:
				return true
			case *ast.CompositeLit:
				for _, el := range t.Elts {
					if !ok(el, depth) {
						return false
					}
				}
				return true
			case *ast.CallExpr:
				if callName(t) == "append" {
					for _, a := range t.Args {
						if !ok(a, depth) {
							return false
						}
					}
					return true
				}
				return false
			case *ast.Ident:
				if visiting[t.Name] {
					return true // x = append(x, "literal")
				}
				if depth > 3 || isParam(fd, t.Name) {
					return false
				}
				visiting[t.Name] = true
				defer delete(visiting, t.Name)
				rhs := assignmentsTo(fd, t.Name)
				if len(rhs) == 0 {
					return false
				}
				for _, r := range rhs {
					if !ok(r, depth+1) {
						return false
					}
				}
				return true
			}
			return false
		}
		return ok(e, 0)
	}
	forEachFunc(p, func(file string, fd *ast.FuncDecl) {
		ast.Inspect(fd.Body, func(x ast.Node) bool {
			kv, ok := x.(*ast.KeyValueExpr)
			if !ok {
				return true
			}
			id, ok := kv.Key.(*ast.Ident)
			if !ok || id.Name != field {
				return true
			}
			if litOnly(fd, kv.Value) {
				if cls == "unknown" {
					cls = "server-literal"
				}
			} else {
				cls = "non-literal"
			}
			return true
		})
	})
	return cls
}

func c18FieldContexts(p *pkgFiles) []row {
	var rows []row
	names, texts, where := c18TemplateTexts(p)
	for _, name := range names {
		text := texts[name]
		w := &c18Walker{}
		var scope []string // enclosing range / with pipelines ("" for if/define/block)
		last := 0
		for _, m := range c18ActionRe.FindAllStringSubmatchIndex(text, -1) {
			w.feed(text[last:m[0]])
			last = m[1]
			act := strings.TrimSpace(text[m[2]:m[3]])
			word := act
			if i := strings.IndexAny(act, " \t\n"); i >= 0 {
				word = act[:i]
			}
			switch {
			case strings.HasPrefix(act, "/*"):
				continue
			case word == "if" || word == "define" || word == "block":
				scope = append(scope, "")
				continue
			case word == "range" || word == "with":
				arg := strings.TrimSpace(act[len(word):])
				if i := strings.LastIndex(arg, ":="); i >= 0 {
					arg = strings.TrimSpace(arg[i+2:])
				}
				if word == "range" {
					arg += "[]"
				}
				scope = append(scope, arg)
				continue
			case word == "end":
				if len(scope) > 0 {
					scope = scope[:len(scope)-1]
				}
				continue
			case word == "else" || word == "template" || word == "break" || word == "continue":
				continue
			case strings.Contains(act, ":=") && strings.HasPrefix(act, "$"):
				continue // variable declaration, no output
			}
			class, attr := w.action()
			field := act
			if act == "." {
				for i := len(scope) - 1; i >= 0; i-- {
					if scope[i] != "" {
						field = scope[i]
						break
					}
				}
			}
			source := "-"
			if strings.HasPrefix(class, "url-attr") {
				f := strings.TrimSuffix(strings.TrimPrefix(field, "."), "[]")
				if i := strings.LastIndex(f, "."); i >= 0 {
					f = f[i+1:]
				}
				source = c18FieldSource(p, f)
			}
			rows = append(rows, row{cols: []string{name, "{{" + act + "}}", class, attr, field, source}, where: where[name]})
		}
	}
	return rows
}

func c18ContextTables(v *bytes.Buffer, kmd *pkgFiles) {
	writeTable(v, "template_field_contexts", "(template text, action, context class, attribute/element, field, source) of every output action in the HTML template texts of cmd/keymasterd (c18_contexts.go)", 6, c18FieldContexts(kmd))
}
