package main

// C09: every write of RuntimeState.KeymasterPublicKeys, with WHAT is written.  The model of C09
// (Model/Seal.v, c09_published_stable) allows, after start-up, only writers of the published-key list
// that keep a loaded signer's key listed; in the code that is: an append of a signer's public key,
// under the mutex.  A whole-list assignment after start-up is what the theorem excludes.
//
//   columns: (function, shape, appended, class, mutex)
//   shape:    append   the right-hand side is append(<the same field>, ...)
//             assign   anything else (the list is replaced)
//   appended: signer-public   the appended value is <expr>.Public()
//             other           anything else / not an append
//   class, mutex: as in shared_field_writes (c16_fields.go): locked | unlocked | init
//
// The rows of shared_field_writes are reused for class and mutex (same source positions).

import (
	"bytes"
	"go/ast"
	"sort"
	"strings"
)

func pubkeyWrites(p *pkgFiles) []row {
	classAt := map[string][2]string{}
	for _, r := range sharedFieldWrites(p) {
		if r.cols[1] == "KeymasterPublicKeys" {
			classAt[r.where] = [2]string{r.cols[3], r.cols[4]}
		}
	}
	var rows []row
	forEachFunc(p, func(file string, fd *ast.FuncDecl) {
		ast.Inspect(fd.Body, func(x ast.Node) bool {
			as, ok := x.(*ast.AssignStmt)
			if !ok {
				return true
			}
			for i, lhs := range as.Lhs {
				e := lhs
				if ix, ok := e.(*ast.IndexExpr); ok {
					e = ix.X
				}
				sel, ok := e.(*ast.SelectorExpr)
				if !ok || sel.Sel.Name != "KeymasterPublicKeys" {
					continue
				}
				shape, appended := "assign", "other"
				if len(as.Lhs) == len(as.Rhs) && as.Tok.String() == "=" && e == lhs {
					if c, ok := as.Rhs[i].(*ast.CallExpr); ok {
						if id, ok := c.Fun.(*ast.Ident); ok && id.Name == "append" && len(c.Args) >= 2 &&
							oneLine(src(c.Args[0])) == oneLine(src(lhs)) && !c.Ellipsis.IsValid() {
							shape = "append"
							appended = "signer-public"
							for _, a := range c.Args[1:] {
								ac, ok := a.(*ast.CallExpr)
								if !ok || len(ac.Args) != 0 || !strings.HasSuffix(oneLine(src(ac.Fun)), ".Public") {
									appended = "other"
								}
							}
						} else if ok && id.Name == "append" && len(c.Args) >= 2 && oneLine(src(c.Args[0])) == oneLine(src(lhs)) {
							shape = "append" // append(list, more...)
						}
					}
				}
				cm, ok := classAt[pos(lhs)]
				if !ok {
					cm = [2]string{"unknown", ""}
					if len(classAt) == 0 { // the field has no write after start-up at all
						cm[0] = "init"
					}
				}
				rows = append(rows, row{cols: []string{fd.Name.Name, shape, appended, cm[0], cm[1]}, where: pos(lhs)})
			}
			return true
		})
	})
	sort.SliceStable(rows, func(i, j int) bool { return rows[i].where < rows[j].where })
	return rows
}

func c09Tables(v *bytes.Buffer, kmd *pkgFiles) {
	writeTable(v, "pubkey_writes", "(function, shape, appended, class, mutex) of every write of RuntimeState.KeymasterPublicKeys in cmd/keymasterd (c09_pubkeys.go); shape append | assign; appended signer-public | other; class locked | unlocked | init | unknown", 5, pubkeyWrites(kmd))
}
