package main

import (
	"go/ast"
	"regexp"
	"strconv"
	"strings"
)

// C17: http.Redirect targets built with fmt.Sprintf.  Two constructions are known to the model
// (Model/Dest.v) and get a class of their own; every other formatted target stays "other" and
// fails the obligation c17_sinks.
//
//   query-of-root:session-user   fmt.Sprintf("/?<name>=%s", x) where every assignment to x is the
//                                Username field of what getAuthInfoFromAuthJWT / checkAuth returned
//                                (model: logout_target; same-origin for every name without control bytes)
//   localhost-cli                fmt.Sprintf("http://localhost:%d<...>", port, ...) where port only
//                                comes from strconv.ParseUint and no other argument reads the request
//                                (the hand-over of a CLI login to the loopback listener of the
//                                command-line client; deliberately not a keymaster-origin redirect
//                                and not a destination supplied by the client)

var reQueryOfRoot = regexp.MustCompile(`^/\?[A-Za-z_]+=%s$`)

func sessionUserExpr(fd *ast.FuncDecl, e ast.Expr) bool {
	sel, ok := e.(*ast.SelectorExpr)
	if !ok || sel.Sel.Name != "Username" {
		return false
	}
	id, ok := sel.X.(*ast.Ident)
	if !ok {
		return false
	}
	rhs := assignmentsTo(fd, id.Name)
	if len(rhs) == 0 {
		return false
	}
	for _, r := range rhs {
		c, ok := r.(*ast.CallExpr)
		if !ok {
			return false
		}
		n := callName(c)
		if !strings.HasSuffix(n, "getAuthInfoFromAuthJWT") && !strings.HasSuffix(n, "checkAuth") {
			return false
		}
	}
	return true
}

func onlyAssignedFrom(fd *ast.FuncDecl, e ast.Expr, ok func(ast.Expr) bool) bool {
	id, isId := e.(*ast.Ident)
	if !isId {
		return ok(e)
	}
	if isParam(fd, id.Name) {
		return false
	}
	rhs := assignmentsTo(fd, id.Name)
	if len(rhs) == 0 {
		return false
	}
	for _, r := range rhs {
		if !ok(r) {
			return false
		}
	}
	return true
}

func classifySprintfTarget(fd *ast.FuncDecl, c *ast.CallExpr) string {
	if callName(c) != "fmt.Sprintf" || len(c.Args) < 2 {
		return ""
	}
	lit, ok := c.Args[0].(*ast.BasicLit)
	if !ok {
		return ""
	}
	format, err := strconv.Unquote(lit.Value)
	if err != nil {
		return ""
	}
	if reQueryOfRoot.MatchString(format) && len(c.Args) == 2 {
		if onlyAssignedFrom(fd, c.Args[1], func(e ast.Expr) bool { return sessionUserExpr(fd, e) }) {
			return "query-of-root:session-user"
		}
		return ""
	}
	if strings.HasPrefix(format, "http://localhost:%d") {
		port := onlyAssignedFrom(fd, c.Args[1], func(e ast.Expr) bool {
			call, ok := e.(*ast.CallExpr)
			return ok && callName(call) == "strconv.ParseUint"
		})
		if !port {
			return ""
		}
		for _, a := range c.Args[2:] {
			if readsRequest(a) {
				return ""
			}
			if id, ok := a.(*ast.Ident); ok {
				if isParam(fd, id.Name) {
					return ""
				}
				for _, r := range assignmentsTo(fd, id.Name) {
					if readsRequest(r) {
						return ""
					}
				}
			}
		}
		return "localhost-cli"
	}
	return ""
}
