package main

import "bytes"

// further tables are added here as the properties that need them are built
func extraTables(v *bytes.Buffer, repo string, kmd *pkgFiles) {
}
