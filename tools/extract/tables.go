package main

import (
	"bytes"
	"go/ast"
	"strings"
)

// further tables are added here as the properties that need them are built
func extraTables(v *bytes.Buffer, repo string, kmd *pkgFiles) {
	writeTable(v, "profile_store_sites", "(function, callee, class of the user-name argument, argument) of every profile-store call in cmd/keymasterd; class: authenticated | parameter | all | request", 4, profileStoreSites(kmd))
	writeTable(v, "raw_html_sinks", "(function, class, expression) of every conversion to template.HTML in cmd/keymasterd; class: escaped | base64 | literal | raw", 3, rawHTMLSinks(kmd))
	writeTable(v, "direct_markup_writes", "(function, class, call) of every fmt.Fprint*/io.WriteString/Write call in cmd/keymasterd whose string literals contain '<'; class: literal | with-args", 3, directMarkupWrites(kmd))
	c20Tables(v, repo, kmd)
	c19Tables(v, repo, kmd)
	writeTable(v, "shared_accesses", "(function, map, kind, class, mutex held) of every access to localAuthData / vipPushCookie / pendingOauth2 / totpLocalRateLimit in non-test files of cmd/keymasterd (locks.go)", 5, sharedAccesses(kmd))
	c09Tables(v, kmd)
	writeTable(v, "lock_holder_passing", "(function, position, type, mode) of every receiver / parameter / result / explicit *p copy whose type is (a pointer to) a struct of cmd/keymasterd that contains a sync primitive by value (c16_copies.go); mode pointer | value", 4, lockHolderPassing(kmd))
	writeTable(v, "shared_field_writes", "(function, field, kind, class, mutex) of every write to a field of RuntimeState that is also written after start-up (c16_fields.go); class locked | unlocked | init", 5, sharedFieldWrites(kmd))
}

// ------------------------------------------------------------------ C18 raw HTML sinks

func concatLeaves(e ast.Expr) []ast.Expr {
	if b, ok := e.(*ast.BinaryExpr); ok && b.Op.String() == "+" {
		return append(concatLeaves(b.X), concatLeaves(b.Y)...)
	}
	if p, ok := e.(*ast.ParenExpr); ok {
		return concatLeaves(p.X)
	}
	return []ast.Expr{e}
}

func leafClass(fd *ast.FuncDecl, e ast.Expr, depth int) string {
	switch t := e.(type) {
	case *ast.BasicLit:
		return "literal"
	case *ast.CallExpr:
		n := callName(t)
		if strings.HasSuffix(n, "HTMLEscapeString") || strings.HasSuffix(n, "html.EscapeString") {
			return "escaped"
		}
		if strings.HasSuffix(n, "EncodeToString") && strings.Contains(n, "base64") {
			return "base64"
		}
		return "raw"
	case *ast.Ident:
		if isParam(fd, t.Name) || depth > 3 {
			return "raw"
		}
		rhs := assignmentsTo(fd, t.Name)
		if len(rhs) == 0 {
			return "raw"
		}
		cls := ""
		for _, r := range rhs {
			c := "literal"
			for _, l := range concatLeaves(r) {
				lc := leafClass(fd, l, depth+1)
				if lc == "raw" {
					return "raw"
				}
				if lc != "literal" {
					c = lc
				}
			}
			if cls == "" || cls == "literal" {
				cls = c
			}
		}
		return cls
	}
	return "raw"
}

func rawHTMLSinks(p *pkgFiles) []row {
	var rows []row
	forEachFunc(p, func(file string, fd *ast.FuncDecl) {
		ast.Inspect(fd.Body, func(x ast.Node) bool {
			c, ok := x.(*ast.CallExpr)
			if !ok || len(c.Args) != 1 {
				return true
			}
			n := callName(c)
			if n != "template.HTML" && n != "htmltemplate.HTML" && n != "template.JS" && n != "htmltemplate.JS" &&
				n != "template.HTMLAttr" && n != "htmltemplate.HTMLAttr" && n != "template.URL" && n != "htmltemplate.URL" &&
				n != "template.CSS" && n != "htmltemplate.CSS" && n != "template.JSStr" && n != "template.Srcset" {
				return true
			}
			cls := "literal"
			for _, l := range concatLeaves(c.Args[0]) {
				lc := leafClass(fd, l, 0)
				if lc == "raw" {
					cls = "raw"
					break
				}
				if lc != "literal" {
					cls = lc
				}
			}
			rows = append(rows, row{cols: []string{fd.Name.Name, cls, src(c.Args[0])}, where: pos(c)})
			return true
		})
	})
	return rows
}
