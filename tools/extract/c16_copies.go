package main

// C16: how values that CONTAIN a lock travel.  A struct that holds a sync.Mutex (RuntimeState and
// whatever else the package declares) must be passed by pointer: a method with a value receiver, a
// by-value parameter or result, or an explicit `*p` copy gives the callee a private copy of the
// mutex while the maps / slices inside the copy still point at the shared data — its critical
// sections exclude nobody (and a copy taken while the mutex is held is born locked).  The lexical
// lock walker of locks.go cannot see that: the access is "locked".
//
//   columns: (function, position, type, mode)
//   position: receiver | param:<name> | result | literal-param:<name> | literal-result | copy:<expr>
//   mode:     pointer | value
//
// The lock-holding types are derived: struct types of the package with a field (named or embedded,
// directly or through arrays / other lock-holding structs by value) of type sync.Mutex, sync.RWMutex,
// sync.WaitGroup, sync.Once, sync.Cond, sync.Map, sync.Pool or an atomic.* value type.

import (
	"go/ast"
)

var syncValueTypes = map[string]bool{
	"sync.Mutex": true, "sync.RWMutex": true, "sync.WaitGroup": true, "sync.Once": true, "sync.Cond": true, "sync.Map": true, "sync.Pool": true,
	"atomic.Bool": true, "atomic.Int32": true, "atomic.Int64": true, "atomic.Uint32": true, "atomic.Uint64": true, "atomic.Value": true, "atomic.Uintptr": true,
}

// the named type an expression denotes when it is a plain (possibly array-of) named type, "" otherwise
func valueTypeName(e ast.Expr) string {
	switch t := e.(type) {
	case *ast.Ident:
		return t.Name
	case *ast.SelectorExpr:
		return oneLine(src(t))
	case *ast.ArrayType:
		if t.Len != nil { // an array (not a slice) holds its elements by value
			return valueTypeName(t.Elt)
		}
	case *ast.ParenExpr:
		return valueTypeName(t.X)
	case *ast.IndexExpr: // generic instantiation such as atomic.Pointer[T]
		return valueTypeName(t.X)
	}
	return ""
}

func lockHoldingTypes(p *pkgFiles) map[string]bool {
	structs := map[string]*ast.StructType{}
	aliases := map[string]string{}
	for _, n := range p.names {
		ast.Inspect(p.files[n], func(x ast.Node) bool {
			ts, ok := x.(*ast.TypeSpec)
			if !ok {
				return true
			}
			if st, ok := ts.Type.(*ast.StructType); ok {
				structs[ts.Name.Name] = st
			} else if v := valueTypeName(ts.Type); v != "" {
				aliases[ts.Name.Name] = v // type X sync.Mutex, type Y RuntimeState
			}
			return true
		})
	}
	holds := map[string]bool{}
	for k := range syncValueTypes {
		holds[k] = true
	}
	for changed := true; changed; {
		changed = false
		for name, st := range structs {
			if holds[name] {
				continue
			}
			for _, f := range st.Fields.List {
				if v := valueTypeName(f.Type); v != "" && holds[v] {
					holds[name] = true
					changed = true
					break
				}
				// an anonymous struct field by value
				if inner, ok := f.Type.(*ast.StructType); ok {
					for _, g := range inner.Fields.List {
						if v := valueTypeName(g.Type); v != "" && holds[v] {
							holds[name] = true
							changed = true
						}
					}
				}
			}
		}
		for name, v := range aliases {
			if !holds[name] && holds[v] {
				holds[name] = true
				changed = true
			}
		}
	}
	for k := range syncValueTypes {
		delete(holds, k)
	}
	return holds
}

// (type name, mode) when the type expression is T or *T for a lock-holding T
func lockHolderMode(e ast.Expr, holds map[string]bool) (string, string) {
	if s, ok := e.(*ast.StarExpr); ok {
		if v := valueTypeName(s.X); v != "" && holds[v] {
			return v, "pointer"
		}
		return "", ""
	}
	if el, ok := e.(*ast.Ellipsis); ok {
		return lockHolderMode(el.Elt, holds)
	}
	if v := valueTypeName(e); v != "" && (holds[v] || syncValueTypes[v]) {
		return v, "value"
	}
	return "", ""
}

func lockHolderPassing(p *pkgFiles) []row {
	holds := lockHoldingTypes(p)
	var rows []row
	fieldRows := func(fn, position string, fl *ast.FieldList, named bool) {
		if fl == nil {
			return
		}
		for _, f := range fl.List {
			ty, mode := lockHolderMode(f.Type, holds)
			if ty == "" {
				continue
			}
			names := []string{""}
			if named && len(f.Names) > 0 {
				names = nil
				for _, id := range f.Names {
					names = append(names, id.Name)
				}
			}
			for _, n := range names {
				pos := position
				if n != "" {
					pos += ":" + n
				}
				rows = append(rows, row{cols: []string{fn, pos, ty, mode}, where: pos0(f)})
			}
		}
	}
	for _, n := range p.names {
		for _, d := range p.files[n].Decls {
			fd, ok := d.(*ast.FuncDecl)
			if !ok {
				continue
			}
			fieldRows(fd.Name.Name, "receiver", fd.Recv, false)
			fieldRows(fd.Name.Name, "param", fd.Type.Params, true)
			fieldRows(fd.Name.Name, "result", fd.Type.Results, false)
			if fd.Body == nil {
				continue
			}
			// identifiers of this function that are pointers to a lock holder
			ptrs := map[string]string{}
			for _, fl := range []*ast.FieldList{fd.Recv, fd.Type.Params} {
				if fl == nil {
					continue
				}
				for _, f := range fl.List {
					if ty, mode := lockHolderMode(f.Type, holds); mode == "pointer" {
						for _, id := range f.Names {
							ptrs[id.Name] = ty
						}
					}
				}
			}
			copyOf := func(e ast.Expr) {
				for {
					if pe, ok := e.(*ast.ParenExpr); ok {
						e = pe.X
						continue
					}
					break
				}
				if s, ok := e.(*ast.StarExpr); ok {
					if id, ok := s.X.(*ast.Ident); ok && ptrs[id.Name] != "" {
						rows = append(rows, row{cols: []string{fd.Name.Name, "copy:" + oneLine(src(e)), ptrs[id.Name], "value"}, where: pos(e)})
					}
				}
			}
			ast.Inspect(fd.Body, func(x ast.Node) bool {
				switch s := x.(type) {
				case *ast.FuncLit:
					fieldRows(fd.Name.Name, "literal-param", s.Type.Params, true)
					fieldRows(fd.Name.Name, "literal-result", s.Type.Results, false)
				case *ast.AssignStmt:
					for _, r := range s.Rhs {
						copyOf(r)
					}
				case *ast.ValueSpec:
					for _, r := range s.Values {
						copyOf(r)
					}
				case *ast.ReturnStmt:
					for _, r := range s.Results {
						copyOf(r)
					}
				case *ast.CallExpr:
					for _, r := range s.Args {
						copyOf(r)
					}
				case *ast.CompositeLit:
					for _, r := range s.Elts {
						if kv, ok := r.(*ast.KeyValueExpr); ok {
							copyOf(kv.Value)
						} else {
							copyOf(r)
						}
					}
				case *ast.RangeStmt:
					copyOf(s.X)
				case *ast.SendStmt:
					copyOf(s.Value)
				}
				return true
			})
		}
	}
	return rows
}

func pos0(f *ast.Field) string { return pos(f) }
