package main

import (
	"bytes"
	"encoding/json"
	"go/ast"
	"go/token"
	"os"
	"path/filepath"
	"regexp"
	"sort"
	"strconv"
	"strings"
)

// C18: dictionary harvested from the current source for the canary generator.
//
// Per route of main() (handler function and, transitively, the package functions it mentions, with the
// call distance) :
//   params    names of request parameters read:  X.FormValue(n) X.PostFormValue(n) X.FormFile(n),
//             Y.Get(n) / Y[n] with Y = ….Form | ….PostForm | ….Query() | ….MultipartForm.Value (or a
//             local assigned from one of these)
//   literals  string literals / package string constants compared (==, !=, switch case, strings.HasPrefix /
//             Contains / EqualFold …) with a value that is derived from the request inside the function
//   headers   header names read with ….Header.Get(n)
// The harness puts payloads into every harvested parameter and tries every harvested literal as the value of
// every harvested parameter of the same handler.  Nothing here knows what any parameter means.

type c18Harvested struct {
	Name  string `json:"name"`
	Depth int    `json:"depth"`
	Where string `json:"where"`
}

type c18RouteHarvest struct {
	PathExpr string         `json:"path_expr"`
	Handler  string         `json:"handler"`
	Func     string         `json:"func"`
	Params   []c18Harvested `json:"params"`
	Literals []c18Harvested `json:"literals"`
	Headers  []c18Harvested `json:"headers"`
	// functions reachable from the handler (with their call distance) that a regenerated C18 table marks as not
	// covered by the model today (c18Suspects): the harness spends extra volume on these routes
	Suspects []c18Harvested `json:"suspects"`
}

type c18Harvest struct {
	Routes    []c18RouteHarvest `json:"routes"`
	AllParams []string          `json:"all_params"`
}

func c18StringConsts(p *pkgFiles) map[string]string {
	m := map[string]string{}
	for _, n := range p.names {
		for _, d := range p.files[n].Decls {
			gd, ok := d.(*ast.GenDecl)
			if !ok || gd.Tok != token.CONST {
				continue
			}
			for _, s := range gd.Specs {
				vs, ok := s.(*ast.ValueSpec)
				if !ok {
					continue
				}
				for i, id := range vs.Names {
					if i < len(vs.Values) {
						if bl, ok := vs.Values[i].(*ast.BasicLit); ok && bl.Kind == token.STRING {
							if v, err := strconv.Unquote(bl.Value); err == nil {
								m[id.Name] = v
							}
						}
					}
				}
			}
		}
	}
	return m
}

func c18Str(e ast.Expr, consts map[string]string) (string, bool) {
	switch t := e.(type) {
	case *ast.BasicLit:
		if t.Kind == token.STRING {
			if v, err := strconv.Unquote(t.Value); err == nil {
				return v, true
			}
		}
	case *ast.Ident:
		if v, ok := consts[t.Name]; ok && t.Obj == nil || ok && t.Obj != nil && t.Obj.Kind == ast.Con {
			return v, true
		}
	case *ast.ParenExpr:
		return c18Str(t.X, consts)
	}
	return "", false
}

var c18FormSuffix = regexp.MustCompile(`(\.Form|\.PostForm|\.Query\(\)|\.MultipartForm\.Value)$`)
var c18RequestRead = regexp.MustCompile(`\.(Form|PostForm|FormValue|PostFormValue|URL|Header|MultipartForm|RequestURI|Referer|UserAgent|Cookie|Cookies|Host|Body|BasicAuth)\b`)

type c18FuncFacts struct {
	params, literals, headers []c18Harvested
}

func c18Facts(fd *ast.FuncDecl, consts map[string]string, isRoot bool) c18FuncFacts {
	var f c18FuncFacts
	// locals that hold a form (q := r.URL.Query())
	formLocal := map[string]bool{}
	ast.Inspect(fd.Body, func(x ast.Node) bool {
		if as, ok := x.(*ast.AssignStmt); ok && len(as.Lhs) == len(as.Rhs) {
			for i, l := range as.Lhs {
				if id, ok := l.(*ast.Ident); ok && c18FormSuffix.MatchString(oneLine(src(as.Rhs[i]))) {
					formLocal[id.Name] = true
				}
			}
		}
		return true
	})
	isForm := func(e ast.Expr) bool {
		if id, ok := e.(*ast.Ident); ok {
			return formLocal[id.Name]
		}
		return c18FormSuffix.MatchString(oneLine(src(e)))
	}
	// taint: identifiers assigned from expressions that read the request (or other tainted identifiers);
	// string parameters of helper functions count as tainted (the caller may pass request data)
	tainted := map[string]bool{}
	if !isRoot && fd.Type.Params != nil {
		for _, fl := range fd.Type.Params.List {
			ts := oneLine(src(fl.Type))
			if ts == "string" || ts == "[]string" || ts == "...string" {
				for _, n := range fl.Names {
					tainted[n.Name] = true
				}
			}
		}
	}
	var isTainted func(e ast.Node) bool
	isTainted = func(e ast.Node) bool {
		if e == nil {
			return false
		}
		if c18RequestRead.MatchString(oneLine(src(e))) {
			return true
		}
		found := false
		ast.Inspect(e, func(x ast.Node) bool {
			if id, ok := x.(*ast.Ident); ok && (tainted[id.Name] || formLocal[id.Name]) {
				found = true
			}
			return !found
		})
		return found
	}
	for pass := 0; pass < 6; pass++ {
		changed := false
		mark := func(e ast.Expr) {
			if id, ok := e.(*ast.Ident); ok && id.Name != "_" && id.Name != "err" && !tainted[id.Name] {
				tainted[id.Name] = true
				changed = true
			}
		}
		ast.Inspect(fd.Body, func(x ast.Node) bool {
			switch s := x.(type) {
			case *ast.AssignStmt:
				for i, l := range s.Lhs {
					var r ast.Expr
					if len(s.Rhs) == len(s.Lhs) {
						r = s.Rhs[i]
					} else if len(s.Rhs) == 1 {
						r = s.Rhs[0]
					}
					if r != nil && isTainted(r) {
						mark(l)
					}
				}
			case *ast.ValueSpec:
				for i, id := range s.Names {
					if i < len(s.Values) && isTainted(s.Values[i]) {
						mark(id)
					}
				}
			case *ast.RangeStmt:
				if isTainted(s.X) {
					if s.Key != nil {
						mark(s.Key)
					}
					if s.Value != nil {
						mark(s.Value)
					}
				}
			}
			return true
		})
		if !changed {
			break
		}
	}
	addLit := func(e ast.Expr, n ast.Node) {
		if v, ok := c18Str(e, consts); ok {
			f.literals = append(f.literals, c18Harvested{Name: v, Where: pos(n)})
		}
	}
	ast.Inspect(fd.Body, func(x ast.Node) bool {
		switch t := x.(type) {
		case *ast.CallExpr:
			sel, ok := t.Fun.(*ast.SelectorExpr)
			if !ok {
				return true
			}
			switch sel.Sel.Name {
			case "FormValue", "PostFormValue", "FormFile":
				if len(t.Args) == 1 {
					if v, ok := c18Str(t.Args[0], consts); ok {
						f.params = append(f.params, c18Harvested{Name: v, Where: pos(t)})
					}
				}
			case "Get", "Has":
				if len(t.Args) == 1 {
					if v, ok := c18Str(t.Args[0], consts); ok {
						if isForm(sel.X) {
							f.params = append(f.params, c18Harvested{Name: v, Where: pos(t)})
						} else if strings.HasSuffix(oneLine(src(sel.X)), ".Header") {
							f.headers = append(f.headers, c18Harvested{Name: v, Where: pos(t)})
						}
					}
				}
			case "HasPrefix", "HasSuffix", "Contains", "EqualFold", "Index":
				if id, ok := sel.X.(*ast.Ident); ok && id.Name == "strings" && len(t.Args) == 2 && isTainted(t.Args[0]) {
					addLit(t.Args[1], t)
				}
			}
		case *ast.IndexExpr:
			if v, ok := c18Str(t.Index, consts); ok && isForm(t.X) {
				f.params = append(f.params, c18Harvested{Name: v, Where: pos(t)})
			}
		case *ast.BinaryExpr:
			if t.Op == token.EQL || t.Op == token.NEQ {
				if isTainted(t.X) {
					addLit(t.Y, t)
				}
				if isTainted(t.Y) {
					addLit(t.X, t)
				}
			}
		case *ast.SwitchStmt:
			if t.Tag != nil && isTainted(t.Tag) {
				for _, cl := range t.Body.List {
					if cc, ok := cl.(*ast.CaseClause); ok {
						for _, e := range cc.List {
							addLit(e, cc)
						}
					}
				}
			}
		}
		return true
	})
	return f
}

func c18HarvestRoutes(p *pkgFiles, suspects map[string]string) c18Harvest {
	consts := c18StringConsts(p)
	idx := funcIndex(p)
	facts := map[string]c18FuncFacts{}
	var h c18Harvest
	all := map[string]bool{}
	var mainFn *ast.FuncDecl
	forEachFunc(p, func(file string, fd *ast.FuncDecl) {
		if fd.Name.Name == "main" && fd.Recv == nil {
			mainFn = fd
		}
	})
	if mainFn == nil {
		return h
	}
	ast.Inspect(mainFn.Body, func(x ast.Node) bool {
		es, ok := x.(*ast.ExprStmt)
		if !ok {
			return true
		}
		c, ok := isMuxCall(es)
		if !ok || len(c.Args) != 2 {
			return true
		}
		rh := c18RouteHarvest{PathExpr: src(c.Args[0]), Handler: oneLine(src(c.Args[1]))}
		// the handler function(s): every package function named in the handler expression
		roots := map[string]bool{}
		ast.Inspect(c.Args[1], func(y ast.Node) bool {
			switch t := y.(type) {
			case *ast.SelectorExpr:
				if _, ok := idx[t.Sel.Name]; ok {
					roots[t.Sel.Name] = true
					if rh.Func == "" {
						rh.Func = t.Sel.Name
					}
				}
			case *ast.Ident:
				if _, ok := idx[t.Name]; ok {
					roots[t.Name] = true
					if rh.Func == "" {
						rh.Func = t.Name
					}
				}
			}
			return true
		})
		// breadth-first over the mention graph, remembering the distance
		depth := map[string]int{}
		var queue []string
		for r := range roots {
			depth[r] = 0
			queue = append(queue, r)
		}
		sort.Strings(queue)
		for len(queue) > 0 {
			n := queue[0]
			queue = queue[1:]
			var next []string
			for _, fd := range idx[n] {
				cl, vl := mentions(fd.Body, idx)
				for k := range cl {
					next = append(next, k)
				}
				for k := range vl {
					next = append(next, k)
				}
			}
			sort.Strings(next)
			for _, k := range next {
				if _, seen := depth[k]; !seen {
					depth[k] = depth[n] + 1
					queue = append(queue, k)
				}
			}
		}
		merge := func(dst *[]c18Harvested, items []c18Harvested, d int) {
			for _, it := range items {
				found := false
				for i := range *dst {
					if (*dst)[i].Name == it.Name {
						found = true
						if d < (*dst)[i].Depth {
							(*dst)[i].Depth = d
							(*dst)[i].Where = it.Where
						}
					}
				}
				if !found {
					it.Depth = d
					*dst = append(*dst, it)
				}
			}
		}
		var names []string
		for n := range depth {
			names = append(names, n)
		}
		sort.Strings(names)
		for _, n := range names {
			for _, fd := range idx[n] {
				key := n + "@" + pos(fd)
				ff, ok := facts[key]
				if !ok {
					ff = c18Facts(fd, consts, hasResponseWriterParam(fd))
					facts[key] = ff
				}
				merge(&rh.Params, ff.params, depth[n])
				merge(&rh.Literals, ff.literals, depth[n])
				merge(&rh.Headers, ff.headers, depth[n])
			}
		}
		for _, n := range names {
			if why, ok := suspects[n]; ok {
				rh.Suspects = append(rh.Suspects, c18Harvested{Name: n, Depth: depth[n], Where: why})
			}
		}
		for _, l := range []*[]c18Harvested{&rh.Params, &rh.Literals, &rh.Headers, &rh.Suspects} {
			s := *l
			sort.SliceStable(s, func(i, j int) bool {
				if s[i].Depth != s[j].Depth {
					return s[i].Depth < s[j].Depth
				}
				return s[i].Name < s[j].Name
			})
			if *l == nil {
				*l = []c18Harvested{}
			}
		}
		for _, pr := range rh.Params {
			all[pr.Name] = true
		}
		h.Routes = append(h.Routes, rh)
		return true
	})
	for k := range all {
		h.AllParams = append(h.AllParams, k)
	}
	sort.Strings(h.AllParams)
	return h
}

// ------------------------------------------------------------------ template tables

// import path of the package an identifier names in this file ("" if none)
func c18ImportPath(f *ast.File, name string) string {
	for _, is := range f.Imports {
		path := strings.Trim(is.Path.Value, "\"")
		n := filepath.Base(path)
		if is.Name != nil {
			n = is.Name.Name
		}
		if n == name {
			return path
		}
	}
	return ""
}

func c18TemplatePkgOfPath(path string) string {
	switch path {
	case "html/template":
		return "html"
	case "text/template":
		return "text"
	}
	return ""
}

// "html" | "text" | "" : which template package an expression (a type or a constructor chain) mentions
func c18MentionedTemplatePkg(f *ast.File, e ast.Node) string {
	res := ""
	ast.Inspect(e, func(x ast.Node) bool {
		if sel, ok := x.(*ast.SelectorExpr); ok {
			if id, ok := sel.X.(*ast.Ident); ok && id.Obj == nil {
				if k := c18TemplatePkgOfPath(c18ImportPath(f, id.Name)); k != "" {
					if res == "" || k == "text" {
						res = k
					}
				}
			}
		}
		return true
	})
	return res
}

type c18TemplateIndex struct {
	field  map[string]string // struct field name -> html|text
	global map[string]string // package-level variable -> html|text
}

func c18IndexTemplates(p *pkgFiles) c18TemplateIndex {
	ti := c18TemplateIndex{field: map[string]string{}, global: map[string]string{}}
	for _, n := range p.names {
		f := p.files[n]
		for _, d := range f.Decls {
			gd, ok := d.(*ast.GenDecl)
			if !ok {
				continue
			}
			for _, s := range gd.Specs {
				switch t := s.(type) {
				case *ast.TypeSpec:
					if st, ok := t.Type.(*ast.StructType); ok {
						for _, fl := range st.Fields.List {
							if k := c18MentionedTemplatePkg(f, fl.Type); k != "" && strings.HasSuffix(oneLine(src(fl.Type)), ".Template") {
								for _, nm := range fl.Names {
									ti.field[nm.Name] = k
								}
							}
						}
					}
				case *ast.ValueSpec:
					if gd.Tok != token.VAR {
						continue
					}
					for i, nm := range t.Names {
						k := ""
						if t.Type != nil && strings.HasSuffix(oneLine(src(t.Type)), ".Template") {
							k = c18MentionedTemplatePkg(f, t.Type)
						}
						if k == "" && i < len(t.Values) {
							if c, ok := t.Values[i].(*ast.CallExpr); ok {
								k = c18MentionedTemplatePkg(f, c)
							}
						}
						if k != "" {
							ti.global[nm.Name] = k
						}
					}
				}
			}
		}
	}
	return ti
}

func (ti c18TemplateIndex) pkgOf(f *ast.File, fd *ast.FuncDecl, e ast.Expr, depth int) string {
	switch t := e.(type) {
	case *ast.SelectorExpr:
		if k, ok := ti.field[t.Sel.Name]; ok {
			return k
		}
	case *ast.Ident:
		if depth < 3 {
			for _, r := range assignmentsTo(fd, t.Name) {
				if k := ti.pkgOf(f, fd, r, depth+1); k != "" {
					return k
				}
			}
		}
		if k, ok := ti.global[t.Name]; ok {
			return k
		}
	case *ast.CallExpr:
		if k := c18MentionedTemplatePkg(f, t.Fun); k != "" {
			return k
		}
		if sel, ok := t.Fun.(*ast.SelectorExpr); ok {
			return ti.pkgOf(f, fd, sel.X, depth+1)
		}
	case *ast.ParenExpr:
		return ti.pkgOf(f, fd, t.X, depth)
	case *ast.StarExpr:
		return ti.pkgOf(f, fd, t.X, depth)
	case *ast.UnaryExpr:
		return ti.pkgOf(f, fd, t.X, depth)
	}
	return ""
}

// where the output of an Execute goes: response | buffer | other
func c18WriterClass(fd *ast.FuncDecl, e ast.Expr) string {
	id, ok := e.(*ast.Ident)
	if !ok {
		if strings.Contains(oneLine(src(e)), "bytes.Buffer") {
			return "buffer"
		}
		return "other"
	}
	if fd.Type.Params != nil {
		for _, fl := range fd.Type.Params.List {
			for _, n := range fl.Names {
				if n.Name == id.Name {
					ts := oneLine(src(fl.Type))
					if strings.Contains(ts, "ResponseWriter") {
						return "response"
					}
					if strings.Contains(ts, "bytes.Buffer") || strings.Contains(ts, "strings.Builder") {
						return "buffer"
					}
					return "other"
				}
			}
		}
	}
	cls := ""
	for _, r := range assignmentsTo(fd, id.Name) {
		s := oneLine(src(r))
		if strings.Contains(s, "bytes.Buffer") || strings.Contains(s, "bytes.NewBuffer") || strings.Contains(s, "strings.Builder") {
			if cls == "" {
				cls = "buffer"
			}
		} else {
			cls = "other"
		}
	}
	if cls == "" {
		// var buf bytes.Buffer
		ast.Inspect(fd.Body, func(x ast.Node) bool {
			if vs, ok := x.(*ast.ValueSpec); ok && vs.Type != nil {
				for _, n := range vs.Names {
					if n.Name == id.Name && (strings.Contains(oneLine(src(vs.Type)), "bytes.Buffer") || strings.Contains(oneLine(src(vs.Type)), "strings.Builder")) {
						cls = "buffer"
					}
				}
			}
			return true
		})
	}
	if cls == "" {
		cls = "other"
	}
	return cls
}

// the variable or field a template value is known by: last selector / identifier name
func c18TemplateName(e ast.Expr) string {
	switch t := e.(type) {
	case *ast.SelectorExpr:
		return t.Sel.Name
	case *ast.Ident:
		return t.Name
	case *ast.ParenExpr:
		return c18TemplateName(t.X)
	case *ast.StarExpr:
		return c18TemplateName(t.X)
	}
	return ""
}

// (function, receiver, template package: html|text|unknown, destination: response|buffer|other)
func c18TemplateExecutions(p *pkgFiles, ti c18TemplateIndex) []row {
	var rows []row
	forEachFunc(p, func(file string, fd *ast.FuncDecl) {
		f := p.files[file]
		ast.Inspect(fd.Body, func(x ast.Node) bool {
			c, ok := x.(*ast.CallExpr)
			if !ok {
				return true
			}
			sel, ok := c.Fun.(*ast.SelectorExpr)
			if !ok || (sel.Sel.Name != "Execute" && sel.Sel.Name != "ExecuteTemplate") || len(c.Args) < 2 {
				return true
			}
			k := ti.pkgOf(f, fd, sel.X, 0)
			if k == "" {
				k = "unknown"
			}
			rows = append(rows, row{cols: []string{fd.Name.Name, src(sel.X), k, c18WriterClass(fd, c.Args[0])}, where: pos(c)})
			return true
		})
	})
	return rows
}

// every place where a text/template value is constructed or extended (alias.New / alias.Must / alias.ParseFiles …
// through an import of text/template; X.Parse / X.ParseFiles … on a value known to be a text template):
// (function or <package>, holder, class) with class
//   buffer-only   every execution of the holder in the package writes into a buffer (mail bodies)
//   response      some execution of the holder writes to an http.ResponseWriter
//   unresolved    the holder is never executed under that name, or goes somewhere else
func c18TextTemplateSites(p *pkgFiles, ti c18TemplateIndex, execs []row) []row {
	classOf := func(holder string) string {
		cls := "unresolved"
		for _, r := range execs {
			if c18LastIdent(r.cols[1]) != holder {
				continue
			}
			switch r.cols[3] {
			case "response":
				return "response"
			case "buffer":
				if cls == "unresolved" {
					cls = "buffer-only"
				}
			default:
				return "unresolved"
			}
		}
		return cls
	}
	var rows []row
	visit := func(f *ast.File, fd *ast.FuncDecl, fname string, body ast.Node, holderOf func(c *ast.CallExpr) string) {
		ast.Inspect(body, func(x ast.Node) bool {
			c, ok := x.(*ast.CallExpr)
			if !ok {
				return true
			}
			sel, ok := c.Fun.(*ast.SelectorExpr)
			if !ok {
				return true
			}
			isText := false
			if id, ok := sel.X.(*ast.Ident); ok && id.Obj == nil && c18ImportPath(f, id.Name) == "text/template" {
				isText = true // texttemplate.New(..), texttemplate.Must(..), texttemplate.ParseFiles(..)
			} else if strings.HasPrefix(sel.Sel.Name, "Parse") || sel.Sel.Name == "New" || sel.Sel.Name == "AddParseTree" {
				if fd != nil && ti.pkgOf(f, fd, sel.X, 0) == "text" {
					isText = true
				} else if fd == nil {
					if cc, ok := sel.X.(*ast.CallExpr); ok && c18MentionedTemplatePkg(f, cc) == "text" {
						isText = true
					}
				}
			}
			if !isText {
				return true
			}
			holder := holderOf(c)
			rows = append(rows, row{cols: []string{fname, holder, classOf(holder), oneLine(src(c.Fun))}, where: pos(c)})
			return false // one row per constructor chain
		})
	}
	for _, n := range p.names {
		f := p.files[n]
		for _, d := range f.Decls {
			switch t := d.(type) {
			case *ast.FuncDecl:
				if t.Body == nil {
					continue
				}
				fd := t
				visit(f, fd, fd.Name.Name, fd.Body, func(c *ast.CallExpr) string {
					// the assignment whose right-hand side contains the call, else the receiver of the call
					holder := ""
					ast.Inspect(fd.Body, func(y ast.Node) bool {
						if as, ok := y.(*ast.AssignStmt); ok {
							for i, r := range as.Rhs {
								if r.Pos() <= c.Pos() && c.End() <= r.End() && i < len(as.Lhs) {
									if nm := c18TemplateName(as.Lhs[i]); nm != "" && nm != "_" && nm != "err" {
										holder = nm
									}
								}
							}
						}
						return true
					})
					if holder == "" {
						if sel, ok := c.Fun.(*ast.SelectorExpr); ok {
							holder = c18TemplateName(sel.X)
						}
					}
					return holder
				})
			case *ast.GenDecl:
				if t.Tok != token.VAR {
					continue
				}
				for _, s := range t.Specs {
					vs, ok := s.(*ast.ValueSpec)
					if !ok {
						continue
					}
					for i, v := range vs.Values {
						name := ""
						if i < len(vs.Names) {
							name = vs.Names[i].Name
						}
						visit(f, nil, "<package>", v, func(c *ast.CallExpr) string { return name })
					}
				}
			}
		}
	}
	return rows
}

func c18LastIdent(s string) string {
	s = strings.TrimSpace(s)
	if i := strings.LastIndexAny(s, ".)*( "); i >= 0 {
		return s[i+1:]
	}
	return s
}

// every function that declares a Content-Type on a response: (function, declared type, class of what the same
// function writes to the response by hand), class
//   none          nothing written by hand (templates, encoders, redirects)
//   literal       only literals
//   non-literal   a value that is not a literal goes out through Write / Fprint* / WriteString
func c18ContentTypeWriters(p *pkgFiles) []row {
	var rows []row
	forEachFunc(p, func(file string, fd *ast.FuncDecl) {
		var sets []*ast.CallExpr
		ast.Inspect(fd.Body, func(x ast.Node) bool {
			c, ok := x.(*ast.CallExpr)
			if !ok || len(c.Args) != 2 {
				return true
			}
			sel, ok := c.Fun.(*ast.SelectorExpr)
			if !ok || (sel.Sel.Name != "Set" && sel.Sel.Name != "Add") || !strings.HasSuffix(oneLine(src(sel.X)), "Header()") {
				return true
			}
			if bl, ok := c.Args[0].(*ast.BasicLit); ok && strings.EqualFold(strings.Trim(bl.Value, "\"`"), "Content-Type") {
				sets = append(sets, c)
			}
			return true
		})
		if len(sets) == 0 {
			return
		}
		cls := "none"
		ast.Inspect(fd.Body, func(x ast.Node) bool {
			c, ok := x.(*ast.CallExpr)
			if !ok {
				return true
			}
			n := callName(c)
			var payload []ast.Expr
			switch {
			case n == "fmt.Fprintf" || n == "fmt.Fprint" || n == "fmt.Fprintln" || n == "io.WriteString":
				if len(c.Args) < 2 || c18WriterClass(fd, c.Args[0]) != "response" {
					return true
				}
				payload = c.Args[1:]
			case strings.HasSuffix(n, ".Write") || strings.HasSuffix(n, ".WriteString"):
				sel, ok := c.Fun.(*ast.SelectorExpr)
				if !ok || c18WriterClass(fd, sel.X) != "response" {
					return true
				}
				payload = c.Args
			default:
				return true
			}
			lit := true
			for _, a := range payload {
				for _, l := range concatLeaves(a) {
					if cc, ok := l.(*ast.CallExpr); ok && len(cc.Args) == 1 {
						if _, isArr := cc.Fun.(*ast.ArrayType); isArr {
							l = cc.Args[0]
						}
					}
					if _, ok := l.(*ast.BasicLit); !ok {
						lit = false
					}
				}
			}
			if !lit {
				cls = "non-literal"
			} else if cls == "none" {
				cls = "literal"
			}
			return true
		})
		for _, c := range sets {
			ct := oneLine(src(c.Args[1]))
			if bl, ok := c.Args[1].(*ast.BasicLit); ok {
				ct = strings.Trim(bl.Value, "\"`")
			} else {
				ct = "expr:" + ct
			}
			rows = append(rows, row{cols: []string{fd.Name.Name, ct, cls}, where: pos(c)})
		}
	})
	return rows
}

func c18Tables(v *bytes.Buffer, out string, kmd *pkgFiles) {
	ti := c18IndexTemplates(kmd)
	execs := c18TemplateExecutions(kmd, ti)
	writeTable(v, "template_executions", "(function, receiver, template package html|text|unknown, destination response|buffer|other) of every Execute/ExecuteTemplate call in cmd/keymasterd (c18_harvest.go)", 4, execs)
	writeTable(v, "text_template_sites", "(function, holder, class, constructor) of every construction/extension of a text/template value in cmd/keymasterd; class: buffer-only | response | unresolved", 4, c18TextTemplateSites(kmd, ti, execs))
	writeTable(v, "content_type_writers", "(function, declared Content-Type, class of the hand-written response writes of the same function: none | literal | non-literal)", 3, c18ContentTypeWriters(kmd))
	c18ContextTables(v, kmd)
	hb := c18HandBuiltMarkup(kmd)
	writeTable(v, "hand_built_markup", "(function, position class of the non-constant leaf: text | attr-dq | attr-sq | attr-unquoted | url-attr-... | tag | ... , escaper: escaped | base64 | raw, attribute, leaf) of every value converted to template.HTML and friends, per alternative assignment (c18_handbuilt.go); (function, constant, literal, -, expression) for values without a non-constant leaf", 5, hb)
	writeTable(v, "admin_routes", "(path expression, handler expression, registered under a condition) of every registration main() makes on http.DefaultServeMux = the admin port (c18_admin.go; copied to c18_admin_gen.go)", 3, c18AdminMux(kmd, out))
	h := c18HarvestRoutes(kmd, c18Suspects(hb, execs, directMarkupWrites(kmd)))
	if b, err := json.MarshalIndent(h, "", " "); err == nil {
		os.WriteFile(filepath.Join(out, "c18_harvest.json"), b, 0644)
	}
}

// functions whose rows do not satisfy the obligations of coq/obl/Obl_C18.v over the hand-built-markup, template-
// execution and direct-write tables (the same predicates, evaluated here only to tell the generator WHERE to try
// harder; the verdict stays with the obligations)
func c18Suspects(handBuilt, execs, writes []row) map[string]string {
	out := map[string]string{}
	in := func(s string, l ...string) bool {
		for _, x := range l {
			if s == x {
				return true
			}
		}
		return false
	}
	for _, r := range handBuilt {
		if len(r.cols) < 5 {
			continue
		}
		cls, esc := r.cols[1], r.cols[2]
		ok := esc == "literal" || esc == "escaped" && in(cls, "text", "rcdata", "attr-dq", "attr-sq") ||
			esc == "base64" && in(cls, "text", "attr-dq", "attr-sq", "url-attr-prefixed", "url-attr-rooted")
		if !ok {
			out[r.cols[0]] = "hand-built markup: " + esc + " leaf in position " + cls + " (" + r.where + ")"
		}
	}
	for _, r := range execs {
		if len(r.cols) >= 4 && r.cols[3] != "buffer" && r.cols[2] != "html" {
			out[r.cols[0]] = "template of package " + r.cols[2] + " executed into " + r.cols[3] + " (" + r.where + ")"
		}
	}
	for _, r := range writes {
		if len(r.cols) >= 2 && r.cols[1] == "with-args" && r.cols[0] != "ServeHTTP" {
			out[r.cols[0]] = "hand-written markup with arguments (" + r.where + ")"
		}
	}
	return out
}
