package main

import (
	"go/ast"
)

// C18: every hand-built value converted to template.HTML (HTMLAttr, JS, URL, CSS …), leaf by leaf, with the HTML
// position of each non-constant leaf.  The literal leaves of the concatenation are fed to the same small HTML
// tokenizer walk that classifies the template actions (c18_contexts.go); a non-constant leaf is classified where
// it stands: text | rcdata | attr-dq | attr-sq | attr-unquoted | url-attr-… | event-handler | style-attr | script |
// style | comment | tag.  A local variable is expanded through each of its assignments in the function (one
// alternative per assignment).
//
// row: (function, position class, escaper: escaped | base64 | raw, attribute, leaf expression)
//      (function, "constant", "literal", "-", expression) for a value without a non-constant leaf
type c18Leaf struct {
	lit  string
	expr ast.Expr // nil for a literal
}

func c18ExpandLeaves(fd *ast.FuncDecl, e ast.Expr, consts map[string]string, depth int) [][]c18Leaf {
	if s, ok := c18Str(e, consts); ok {
		return [][]c18Leaf{{{lit: s}}}
	}
	switch t := e.(type) {
	case *ast.ParenExpr:
		return c18ExpandLeaves(fd, t.X, consts, depth)
	case *ast.BinaryExpr:
		if t.Op.String() == "+" {
			ls := c18ExpandLeaves(fd, t.X, consts, depth)
			rs := c18ExpandLeaves(fd, t.Y, consts, depth)
			var out [][]c18Leaf
			for _, l := range ls {
				for _, r := range rs {
					if len(out) >= 64 {
						break
					}
					alt := append(append([]c18Leaf{}, l...), r...)
					out = append(out, alt)
				}
			}
			return out
		}
	case *ast.Ident:
		if !isParam(fd, t.Name) && depth < 4 {
			rhs := assignmentsTo(fd, t.Name)
			var out [][]c18Leaf
			for _, r := range rhs {
				// x += y / x = x + y: the variable itself stays a leaf of unknown content
				self := false
				ast.Inspect(r, func(n ast.Node) bool {
					if id, ok := n.(*ast.Ident); ok && id.Name == t.Name {
						self = true
					}
					return !self
				})
				if self {
					out = append(out, []c18Leaf{{expr: t}})
					continue
				}
				out = append(out, c18ExpandLeaves(fd, r, consts, depth+1)...)
			}
			if len(out) > 0 {
				return out
			}
		}
	}
	return [][]c18Leaf{{{expr: e}}}
}

func c18HandBuiltMarkup(p *pkgFiles) []row {
	consts := c18StringConsts(p)
	var rows []row
	seen := map[string]bool{}
	add := func(r row) {
		k := r.where
		for _, c := range r.cols {
			k += "|" + c
		}
		if !seen[k] {
			seen[k] = true
			rows = append(rows, r)
		}
	}
	forEachFunc(p, func(file string, fd *ast.FuncDecl) {
		ast.Inspect(fd.Body, func(x ast.Node) bool {
			c, ok := x.(*ast.CallExpr)
			if !ok || len(c.Args) != 1 {
				return true
			}
			n := callName(c)
			if n != "template.HTML" && n != "htmltemplate.HTML" && n != "template.JS" && n != "htmltemplate.JS" &&
				n != "template.HTMLAttr" && n != "htmltemplate.HTMLAttr" && n != "template.URL" && n != "htmltemplate.URL" &&
				n != "template.CSS" && n != "htmltemplate.CSS" && n != "template.JSStr" && n != "template.Srcset" {
				return true
			}
			for _, alt := range c18ExpandLeaves(fd, c.Args[0], consts, 0) {
				w := &c18Walker{}
				dynamic := false
				for _, lf := range alt {
					if lf.expr == nil {
						w.feed(lf.lit)
						continue
					}
					dynamic = true
					cls, attr := w.action()
					if attr == "" {
						attr = "-"
					}
					add(row{cols: []string{fd.Name.Name, cls, leafClass(fd, lf.expr, 0), attr, src(lf.expr)}, where: pos(c)})
				}
				if !dynamic {
					add(row{cols: []string{fd.Name.Name, "constant", "literal", "-", src(c.Args[0])}, where: pos(c)})
				}
			}
			return true
		})
	})
	return rows
}
