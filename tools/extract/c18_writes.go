package main

import (
	"go/ast"
	"go/token"
	"strings"
)

// C18: hand-written markup sent straight to a writer (fmt.Fprint*, io.WriteString, x.Write) — a sink
// html/template never sees.  A row for every such call whose string literals contain '<';
// class "literal" when everything written is a literal, "with-args" when a non-literal value is
// interpolated or concatenated.
func directMarkupWrites(p *pkgFiles) []row {
	var rows []row
	forEachFunc(p, func(file string, fd *ast.FuncDecl) {
		ast.Inspect(fd.Body, func(x ast.Node) bool {
			c, ok := x.(*ast.CallExpr)
			if !ok {
				return true
			}
			n := callName(c)
			var payload []ast.Expr
			switch {
			case n == "fmt.Fprintf" || n == "fmt.Fprint" || n == "fmt.Fprintln" || n == "io.WriteString":
				if len(c.Args) < 2 {
					return true
				}
				payload = c.Args[1:]
			case strings.HasSuffix(n, ".Write") || strings.HasSuffix(n, ".WriteString"):
				payload = c.Args
			default:
				return true
			}
			markup, nonLiteral := false, false
			var visit func(e ast.Expr)
			visit = func(e ast.Expr) {
				switch t := e.(type) {
				case *ast.BasicLit:
					if t.Kind == token.STRING && strings.Contains(t.Value, "<") {
						markup = true
					}
				case *ast.BinaryExpr:
					visit(t.X)
					visit(t.Y)
				case *ast.ParenExpr:
					visit(t.X)
				case *ast.CallExpr:
					// []byte("...") and string(...) conversions of a literal stay literal
					if len(t.Args) == 1 {
						if _, isArr := t.Fun.(*ast.ArrayType); isArr {
							visit(t.Args[0])
							return
						}
					}
					nonLiteral = true
					for _, a := range t.Args {
						visit(a)
					}
				default:
					nonLiteral = true
				}
			}
			for _, a := range payload {
				visit(a)
			}
			if !markup {
				return true
			}
			cls := "literal"
			if nonLiteral {
				cls = "with-args"
			}
			rows = append(rows, row{cols: []string{fd.Name.Name, cls, src(c)}, where: pos(c)})
			return true
		})
	})
	return rows
}
