package main

// C16: every syntactic access to the in-memory maps shared between requests, with the lexical
// lock state at that point.
//
//   kind:   read | write | delete | range | len | init | other
//   class:  locked    a mutex is lexically held at the access
//           unlocked  no mutex is held
//           init      whole-map initialisation  m = make(...)  (before any listener exists)
//           unknown   a shape the walker does not understand (fails the obligation)
//   held:   field name of the mutex held (innermost), "" if none
//
// The lock state is tracked statement by statement inside one function body: X.Lock() acquires,
// X.Unlock() releases, `defer X.Unlock()` keeps it to the end of the function; a branch that
// returns does not influence what follows; after a branch that falls through the state is the
// intersection of the alternatives; function literals start with nothing held.

import (
	"go/ast"
	"go/token"
	"sort"
	"strings"
)

var sharedMaps = map[string]bool{"localAuthData": true, "vipPushCookie": true, "pendingOauth2": true, "totpLocalRateLimit": true}

type lockWalker struct {
	fn   string
	rows []row
	// optional hooks (c16_fields.go): every call / go statement / assignment target with the lexical lock state
	onCall  func(c *ast.CallExpr, held heldSet)
	onGo    func(c *ast.CallExpr)
	onWrite func(lhs ast.Expr, held heldSet)
}

func selName(e ast.Expr) (string, bool) {
	s, ok := e.(*ast.SelectorExpr)
	if !ok {
		return "", false
	}
	if _, ok := s.X.(*ast.Ident); !ok {
		return "", false
	}
	if sharedMaps[s.Sel.Name] {
		return s.Sel.Name, true
	}
	return "", false
}

// X.Lock() / X.Unlock() / X.RLock() / X.RUnlock() on something whose last selector contains "utex"
func lockCall(e ast.Expr) (mutex string, acquire bool, ok bool) {
	c, isCall := e.(*ast.CallExpr)
	if !isCall || len(c.Args) != 0 {
		return "", false, false
	}
	s, isSel := c.Fun.(*ast.SelectorExpr)
	if !isSel {
		return "", false, false
	}
	inner, isSel2 := s.X.(*ast.SelectorExpr)
	name := ""
	if isSel2 {
		name = inner.Sel.Name
	} else if id, isId := s.X.(*ast.Ident); isId {
		name = id.Name
	}
	if !strings.Contains(strings.ToLower(name), "mutex") {
		return "", false, false
	}
	switch s.Sel.Name {
	case "Lock", "RLock":
		return name, true, true
	case "Unlock", "RUnlock":
		return name, false, true
	}
	return "", false, false
}

type heldSet []string

func (h heldSet) copy() heldSet { return append(heldSet{}, h...) }
func (h heldSet) top() string {
	if len(h) == 0 {
		return ""
	}
	return h[len(h)-1]
}
func (h heldSet) without(m string) heldSet {
	for i := len(h) - 1; i >= 0; i-- {
		if h[i] == m {
			return append(h[:i:i], h[i+1:]...)
		}
	}
	return h
}
func intersect(a, b heldSet) heldSet {
	var out heldSet
	for _, x := range a {
		for _, y := range b {
			if x == y {
				out = append(out, x)
				break
			}
		}
	}
	return out
}

func (w *lockWalker) add(n ast.Node, m, kind string, held heldSet) {
	class := "unlocked"
	if kind == "init" {
		class = "init"
	} else if kind == "other" {
		class = "unknown"
	} else if len(held) > 0 {
		class = "locked"
	}
	w.rows = append(w.rows, row{cols: []string{w.fn, m, kind, class, held.top()}, where: pos(n)})
}

// record every access inside an expression (reads, len, nested function literals)
func (w *lockWalker) expr(e ast.Node, held heldSet) {
	if e == nil {
		return
	}
	ast.Inspect(e, func(x ast.Node) bool {
		switch t := x.(type) {
		case *ast.FuncLit:
			w.block(t.Body.List, heldSet{})
			return false
		case *ast.IndexExpr:
			if m, ok := selName(t.X); ok {
				w.add(t, m, "read", held)
				w.expr(t.Index, held)
				return false
			}
		case *ast.CallExpr:
			if w.onCall != nil {
				w.onCall(t, held)
			}
			if id, ok := t.Fun.(*ast.Ident); ok && len(t.Args) >= 1 {
				if m, ok2 := selName(t.Args[0]); ok2 {
					switch id.Name {
					case "delete":
						w.add(t, m, "delete", held)
					case "len":
						w.add(t, m, "len", held)
					default:
						w.add(t, m, "other", held)
					}
					for _, a := range t.Args[1:] {
						w.expr(a, held)
					}
					return false
				}
			}
		case *ast.SelectorExpr:
			if m, ok := selName(t); ok {
				// the map value itself escapes (argument, assignment to a variable, ...)
				w.add(t, m, "other", held)
				return false
			}
		}
		return true
	})
}

func terminates(list []ast.Stmt) bool {
	if len(list) == 0 {
		return false
	}
	switch s := list[len(list)-1].(type) {
	case *ast.ReturnStmt:
		return true
	case *ast.BranchStmt:
		return s.Tok == token.BREAK || s.Tok == token.CONTINUE || s.Tok == token.GOTO
	case *ast.ExprStmt:
		if c, ok := s.X.(*ast.CallExpr); ok {
			n := callName(c)
			return n == "panic" || n == "os.Exit" || strings.HasSuffix(n, ".Fatal") || strings.HasSuffix(n, ".Fatalf") || strings.HasSuffix(n, ".Fatalln")
		}
	}
	return false
}

// walk a statement list; returns the lock state after it and whether it always leaves the enclosing flow
func (w *lockWalker) block(list []ast.Stmt, held heldSet) (heldSet, bool) {
	for _, s := range list {
		held = w.stmt(s, held)
	}
	return held, terminates(list)
}

func (w *lockWalker) stmt(s ast.Stmt, held heldSet) heldSet {
	switch t := s.(type) {
	case *ast.ExprStmt:
		if m, acq, ok := lockCall(t.X); ok {
			if acq {
				return append(held.copy(), m)
			}
			return held.copy().without(m)
		}
		w.expr(t.X, held)
	case *ast.DeferStmt:
		if _, _, ok := lockCall(t.Call); ok {
			return held // released at function exit: stays held for the rest of the body
		}
		w.expr(t.Call, held)
	case *ast.GoStmt:
		if fl, ok := t.Call.Fun.(*ast.FuncLit); ok {
			w.block(fl.Body.List, heldSet{})
			for _, a := range t.Call.Args {
				w.expr(a, held)
			}
		} else if w.onGo != nil {
			// the callee runs concurrently, with nothing held
			w.onGo(t.Call)
			for _, a := range t.Call.Args {
				w.expr(a, held)
			}
		} else {
			w.expr(t.Call, held)
		}
	case *ast.AssignStmt:
		for i, l := range t.Lhs {
			if w.onWrite != nil {
				w.onWrite(l, held)
			}
			if ix, ok := l.(*ast.IndexExpr); ok {
				if m, ok2 := selName(ix.X); ok2 {
					w.add(ix, m, "write", held)
					w.expr(ix.Index, held)
					continue
				}
			}
			if m, ok := selName(l); ok {
				kind := "other"
				if len(t.Rhs) == len(t.Lhs) {
					if c, isCall := t.Rhs[i].(*ast.CallExpr); isCall && callName(c) == "make" {
						kind = "init"
					}
				}
				w.add(l, m, kind, held)
				continue
			}
			w.expr(l, held)
		}
		for _, r := range t.Rhs {
			w.expr(r, held)
		}
	case *ast.IncDecStmt:
		if w.onWrite != nil {
			w.onWrite(t.X, held)
		}
		if ix, ok := t.X.(*ast.IndexExpr); ok {
			if m, ok2 := selName(ix.X); ok2 {
				w.add(ix, m, "write", held)
				return held
			}
		}
		w.expr(t.X, held)
	case *ast.BlockStmt:
		h, _ := w.block(t.List, held.copy())
		return h
	case *ast.IfStmt:
		if t.Init != nil {
			held = w.stmt(t.Init, held)
		}
		w.expr(t.Cond, held)
		alts := []heldSet{}
		h1, term1 := w.block(t.Body.List, held.copy())
		if !term1 {
			alts = append(alts, h1)
		}
		if t.Else != nil {
			switch e := t.Else.(type) {
			case *ast.BlockStmt:
				h2, term2 := w.block(e.List, held.copy())
				if !term2 {
					alts = append(alts, h2)
				}
			default:
				alts = append(alts, w.stmt(e, held.copy()))
			}
		} else {
			alts = append(alts, held)
		}
		if len(alts) == 0 {
			return held
		}
		out := alts[0]
		for _, a := range alts[1:] {
			out = intersect(out, a)
		}
		return out
	case *ast.ForStmt:
		if t.Init != nil {
			held = w.stmt(t.Init, held)
		}
		w.expr(t.Cond, held)
		h, term := w.block(t.Body.List, held.copy())
		if t.Post != nil {
			w.stmt(t.Post, h)
		}
		if !term {
			return intersect(held, h)
		}
	case *ast.RangeStmt:
		if m, ok := selName(t.X); ok {
			w.add(t.X, m, "range", held)
		} else {
			w.expr(t.X, held)
		}
		h, term := w.block(t.Body.List, held.copy())
		if !term {
			return intersect(held, h)
		}
	case *ast.SwitchStmt:
		if t.Init != nil {
			held = w.stmt(t.Init, held)
		}
		w.expr(t.Tag, held)
		return w.clauses(t.Body.List, held)
	case *ast.TypeSwitchStmt:
		if t.Init != nil {
			held = w.stmt(t.Init, held)
		}
		w.stmt(t.Assign, held)
		return w.clauses(t.Body.List, held)
	case *ast.SelectStmt:
		return w.clauses(t.Body.List, held)
	case *ast.ReturnStmt:
		for _, r := range t.Results {
			w.expr(r, held)
		}
	case *ast.DeclStmt:
		w.expr(t.Decl, held)
	case *ast.LabeledStmt:
		return w.stmt(t.Stmt, held)
	case *ast.SendStmt:
		w.expr(t.Chan, held)
		w.expr(t.Value, held)
	case *ast.BranchStmt, *ast.EmptyStmt:
	default:
		w.expr(s, held)
	}
	return held
}

func (w *lockWalker) clauses(list []ast.Stmt, held heldSet) heldSet {
	out := held
	for _, c := range list {
		var body []ast.Stmt
		switch cc := c.(type) {
		case *ast.CaseClause:
			for _, e := range cc.List {
				w.expr(e, held)
			}
			body = cc.Body
		case *ast.CommClause:
			if cc.Comm != nil {
				w.stmt(cc.Comm, held)
			}
			body = cc.Body
		}
		h, term := w.block(body, held.copy())
		if !term {
			out = intersect(out, h)
		}
	}
	return out
}

func sharedAccesses(p *pkgFiles) []row {
	var rows []row
	forEachFunc(p, func(file string, fd *ast.FuncDecl) {
		w := &lockWalker{fn: fd.Name.Name}
		w.block(fd.Body.List, heldSet{})
		rows = append(rows, w.rows...)
	})
	sort.SliceStable(rows, func(i, j int) bool { return rows[i].where < rows[j].where })
	return rows
}
