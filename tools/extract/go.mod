module verif/extract

go 1.21
