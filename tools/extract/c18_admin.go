package main

import (
	"bytes"
	"fmt"
	"go/ast"
	"go/token"
	"os"
	"path/filepath"
	"strings"
)

// C18: the pages of the ADMIN port.  main() registers them on http.DefaultServeMux (http.Handle / http.HandleFunc);
// the registrations are copied verbatim onto a fresh mux, together with the definitions of the locals of main()
// they mention (transitively; `runtimeState` is the parameter):
//
//	<out>/c18_admin_gen.go   verifBuildAdminMux(runtimeState) (*http.ServeMux, map[string]interface{})  — the mux and the
//	                         locals that were built for it (the harness calls the start-up methods main() calls on them)
//	                         verifAdminRouteTable() []verifRoute
//
// One substitution: the process-wide logger (a local defined by a call into …/lib/log/serverlogger) cannot be
// created a second time in one process and takes over stderr; the harness supplies an in-memory logger of the same
// type through verifC18AdminLogger().
func c18IsDefaultMuxCall(s ast.Stmt) (*ast.CallExpr, bool) {
	es, ok := s.(*ast.ExprStmt)
	if !ok {
		return nil, false
	}
	c, ok := es.X.(*ast.CallExpr)
	if !ok {
		return nil, false
	}
	sel, ok := c.Fun.(*ast.SelectorExpr)
	if !ok {
		return nil, false
	}
	id, ok := sel.X.(*ast.Ident)
	if !ok || id.Name != "http" || id.Obj != nil {
		return nil, false
	}
	if sel.Sel.Name != "HandleFunc" && sel.Sel.Name != "Handle" {
		return nil, false
	}
	return c, len(c.Args) == 2
}

func c18ContainsDefaultMuxCall(s ast.Stmt) bool {
	found := false
	ast.Inspect(s, func(x ast.Node) bool {
		if st, ok := x.(ast.Stmt); ok {
			if _, ok := c18IsDefaultMuxCall(st); ok {
				found = true
			}
		}
		if _, ok := x.(*ast.FuncLit); ok {
			return false
		}
		return !found
	})
	return found
}

func c18AdminMux(p *pkgFiles, out string) []row {
	var mainFn *ast.FuncDecl
	var mainFile *ast.File
	for _, n := range p.names {
		for _, d := range p.files[n].Decls {
			if fd, ok := d.(*ast.FuncDecl); ok && fd.Name.Name == "main" && fd.Recv == nil {
				mainFn, mainFile = fd, p.files[n]
			}
		}
	}
	if mainFn == nil {
		return nil
	}
	importPath := func(name string) string { return c18ImportPath(mainFile, name) }
	// top-level definitions of main(): name -> statement index
	defs := map[string]int{}
	for i, s := range mainFn.Body.List {
		switch t := s.(type) {
		case *ast.AssignStmt:
			if t.Tok == token.DEFINE {
				for _, l := range t.Lhs {
					if id, ok := l.(*ast.Ident); ok && id.Name != "_" {
						if _, seen := defs[id.Name]; !seen {
							defs[id.Name] = i
						}
					}
				}
			}
		case *ast.DeclStmt:
			if gd, ok := t.Decl.(*ast.GenDecl); ok && gd.Tok == token.VAR {
				for _, sp := range gd.Specs {
					if vs, ok := sp.(*ast.ValueSpec); ok {
						for _, id := range vs.Names {
							if _, seen := defs[id.Name]; !seen {
								defs[id.Name] = i
							}
						}
					}
				}
			}
		}
	}
	include := map[int]bool{}
	var regs []int
	var rows []row
	var routes []route
	for i, s := range mainFn.Body.List {
		if c18ContainsDefaultMuxCall(s) {
			include[i] = true
			regs = append(regs, i)
			var collect func(list []ast.Stmt, cond string)
			collect = func(list []ast.Stmt, cond string) {
				for _, st := range list {
					if c, ok := c18IsDefaultMuxCall(st); ok {
						routes = append(routes, route{pathExpr: src(c.Args[0]), handler: oneLine(src(c.Args[1])), where: pos(c), conditional: cond != "", cond: cond})
					} else if ifs, ok := st.(*ast.IfStmt); ok {
						collect(ifs.Body.List, oneLine(src(ifs.Cond)))
					}
				}
			}
			collect([]ast.Stmt{s}, "")
		}
	}
	if len(regs) == 0 {
		return nil
	}
	// the locals the registrations mention, transitively
	substituted := map[int]string{} // statement index -> replacement text
	var need func(n ast.Node)
	need = func(n ast.Node) {
		ast.Inspect(n, func(x ast.Node) bool {
			id, ok := x.(*ast.Ident)
			if !ok || id.Obj == nil || id.Name == "runtimeState" {
				return true
			}
			i, ok := defs[id.Name]
			if !ok || include[i] {
				return true
			}
			include[i] = true
			st := mainFn.Body.List[i]
			if as, ok := st.(*ast.AssignStmt); ok && len(as.Lhs) == 1 && len(as.Rhs) == 1 {
				if c, ok := as.Rhs[0].(*ast.CallExpr); ok {
					if sel, ok := c.Fun.(*ast.SelectorExpr); ok {
						if pk, ok := sel.X.(*ast.Ident); ok && pk.Obj == nil && strings.HasSuffix(importPath(pk.Name), "/lib/log/serverlogger") {
							substituted[i] = src(as.Lhs[0]) + " := verifC18AdminLogger()"
							return true
						}
					}
				}
			}
			need(st)
			return true
		})
	}
	for _, i := range regs {
		need(mainFn.Body.List[i])
	}
	used := map[string]bool{}
	var body bytes.Buffer
	var localNames []string
	for i, s := range mainFn.Body.List {
		if !include[i] {
			continue
		}
		if txt, ok := substituted[i]; ok {
			body.WriteString("\t" + txt + "\n")
		} else {
			ast.Inspect(s, func(x ast.Node) bool {
				if sel, ok := x.(*ast.SelectorExpr); ok {
					if id, ok := sel.X.(*ast.Ident); ok && id.Obj == nil {
						used[id.Name] = true
					}
				}
				return true
			})
			txt := src(s)
			txt = strings.ReplaceAll(txt, "http.HandleFunc(", "adminMux.HandleFunc(")
			txt = strings.ReplaceAll(txt, "http.Handle(", "adminMux.Handle(")
			body.WriteString("\t" + strings.ReplaceAll(txt, "\n", "\n\t") + "\n")
		}
		for name, di := range defs {
			if di == i && name != "err" {
				localNames = append(localNames, name)
			}
		}
	}
	sortStrings(localNames)
	var imports []string
	for _, is := range mainFile.Imports {
		path := strings.Trim(is.Path.Value, "\"")
		name := filepath.Base(path)
		if is.Name != nil {
			name = is.Name.Name
		}
		if name == "http" && path == "net/http" {
			continue
		}
		if used[name] {
			if is.Name != nil {
				imports = append(imports, is.Name.Name+" "+is.Path.Value)
			} else {
				imports = append(imports, is.Path.Value)
			}
		}
	}
	var g bytes.Buffer
	g.WriteString("// Code generated by /verif/tools/extract (c18_admin.go) from main() of the current tree. DO NOT EDIT.\npackage main\n\nimport (\n\t\"net/http\"\n")
	for _, im := range imports {
		g.WriteString("\t" + im + "\n")
	}
	g.WriteString(")\n\n// the registrations main() makes on http.DefaultServeMux (the admin port), on a fresh mux\n")
	g.WriteString("func verifBuildAdminMux(runtimeState *RuntimeState) (*http.ServeMux, map[string]interface{}) {\n\tvar err error\n\t_ = err\n\tadminMux := http.NewServeMux()\n")
	g.Write(body.Bytes())
	g.WriteString("\tlocals := map[string]interface{}{}\n")
	for _, n := range localNames {
		g.WriteString(fmt.Sprintf("\tlocals[%q] = %s\n", n, n))
	}
	g.WriteString("\treturn adminMux, locals\n}\n\nfunc verifAdminRouteTable() []verifRoute {\n\treturn []verifRoute{\n")
	for _, r := range routes {
		g.WriteString(fmt.Sprintf("\t\t{%s, %q, %q, %q},\n", r.pathExpr, r.handler, r.where, r.cond))
		rows = append(rows, row{cols: []string{r.pathExpr, r.handler, fmt.Sprint(r.conditional)}, where: r.where})
	}
	g.WriteString("\t}\n}\n")
	os.WriteFile(filepath.Join(out, "c18_admin_gen.go"), g.Bytes(), 0644)
	return rows
}

func sortStrings(s []string) {
	for i := 1; i < len(s); i++ {
		for j := i; j > 0 && s[j] < s[j-1]; j-- {
			s[j], s[j-1] = s[j-1], s[j]
		}
	}
}
